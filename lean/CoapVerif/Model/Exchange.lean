import CoapVerif.Util
/-
M for C07 — the exchange layer of libcoap as a state machine (core Lean only).

Transcribed, in code order, from src/coap_net.c:
  coap_send_internal / coap_send_pdu / coap_session_delay_pdu / coap_wait_ack      → `Layer.send`
  coap_session_connected (flush of the delay queue)                                  → `Layer.flush`
  coap_io_prepare_io's due-node loop + coap_retransmit                               → `Layer.tick`
  coap_remove_from_queue / coap_cancel_all_messages                                  → `Layer.removeByMid` / `Layer.cancelByToken`
  coap_dispatch (ACK / RST / NON / CON branches, client side) + handle_response      → `Client.rx`
  coap_send_ack_lkd / coap_send_rst_lkd                                              → `ackFor` / `rstFor`
  handle_request's async gate, coap_register_async, coap_check_async (server side,
  as far as the scripted personalities of harness/exchange.c use them)               → `Server.*`
and the simulation loop of harness/exchange.c                                        → `Sim.run`.

Everything a user callback decides is an INPUT: the response handler's verdict travels with the rx event, the
retransmission timeout T = coap_calc_timeout(prng byte) travels with the send.

Modelled domain (everything else yields `Out.unmodelled` and leaves the state unchanged, it is never silently
accepted): UDP, NSTART = 1, MAX_RETRANSMIT = 4, no ping/keep-alive, block mode off, no OSCORE, no unknown critical
options, messages received by the client are responses (2.xx–5.xx), empty ACKs or RSTs.
-/
namespace Coap.Exch

inductive MType where
  | con | non | ack | rst
  deriving DecidableEq, Repr, Inhabited

/-- the decoded view of a datagram -/
structure Dgram where
  type : MType
  code : Nat
  mid : Nat
  token : Bytes
  deriving DecidableEq, Repr, Inhabited

inductive Nack where
  | retries | rst | bad
  deriving DecidableEq, Repr

inductive Out where
  | tx (d : Dgram)
  | callResponse (d : Dgram) (ok : Bool)      -- response handler called with this message; `ok` = the verdict it returned
  | callNack (r : Nack) (mid : Nat)
  | callRequest (mid : Nat) (token : Bytes)   -- server side: application request handler called
  | unmodelled
  deriving DecidableEq, Repr

def maxRetransmit : Nat := 4      -- COAP_DEFAULT_MAX_RETRANSMIT
def nstart : Nat := 1             -- COAP_DEFAULT_NSTART

/-- coap_calc_timeout with the default parameters (ACK_TIMEOUT 2.000, ACK_RANDOM_FACTOR 1.500, Q6 fixed point),
    `r` = the PRNG byte.  Result in ticks = ms. -/
def calcTimeout (r : Nat) : Nat :=
  let r := r % 256
  let res1 := ((96 - 64) * r + 128) / 256            -- SHR_FP((ACK_RANDOM_FACTOR - FP1) * r, MAX_BITS)
  let res2 := ((res1 + 64) * 128 + 32) / 64          -- SHR_FP((result + FP1) * ACK_TIMEOUT, FRAC_BITS)
  (1000 * res2 + 32) / 64                            -- SHR_FP(COAP_TICKS_PER_SECOND * result, FRAC_BITS)

def ackTimeout : Nat := 2000

def isEmpty (c : Nat) : Bool := c == 0
def isRequest (c : Nat) : Bool := c != 0 && c < 32
def isResponse (c : Nat) : Bool := 64 ≤ c && c < 192
/-- coap_check_code_class on UDP -/
def codeClassOk (c : Nat) : Bool :=
  let k := c / 32
  k == 0 || k == 2 || k == 3 || k == 4 || k == 5

/-- a send-queue node: the stored PDU view + `timeout`, `retransmit_cnt` and the ABSOLUTE deadline
    (sendqueue_basetime + sum of deltas, the representation C06 proves equivalent to the delta list) -/
structure Node where
  d : Dgram
  timeout : Nat
  cnt : Nat
  due : Nat
  deriving DecidableEq, Repr

/-- message layer shared by both endpoints: context->sendqueue (this session's nodes), session->delayqueue,
    session->con_active -/
structure Layer where
  sendq : List Node := []
  delayq : List Node := []
  conActive : Nat := 0
  deriving DecidableEq, Repr

namespace Layer

/-- coap_insert_node: after every node whose deadline is ≤ the new one -/
def insertNode (n : Node) : List Node → List Node
  | [] => [n]
  | q :: r => if n.due < q.due then n :: q :: r else q :: insertNode n r

/-- coap_remove_from_queue: first node with this mid -/
def removeByMid (mid : Nat) : List Node → Option Node × List Node
  | [] => (none, [])
  | q :: r =>
    if q.d.mid = mid then (some q, r)
    else let (s, r') := removeByMid mid r; (s, q :: r')

/-- coap_wait_ack: deadline = now + (timeout << retransmit_cnt) -/
def waitAck (L : Layer) (now : Nat) (n : Node) : Layer :=
  { L with sendq := insertNode { n with due := now + n.timeout * 2 ^ n.cnt } L.sendq }

/-- coap_session_connected: drain session->delayqueue while the NSTART gate allows -/
def flush (now : Nat) : Nat → Layer → Layer × List Out
  | 0, L => (L, [])
  | fuel + 1, L =>
    match L.delayq with
    | [] => (L, [])
    | q :: rest =>
      if q.d.type = .con then
        if L.conActive ≥ nstart then (L, [])
        else
          let L1 := { L with conActive := L.conActive + 1, delayq := rest }
          let L2 := waitAck L1 now q
          let (L3, o) := flush now fuel L2
          (L3, Out.tx q.d :: o)
      else
        let (L3, o) := flush now fuel { L with delayq := rest }
        (L3, Out.tx q.d :: o)

def flushAll (now : Nat) (L : Layer) : Layer × List Out := flush now (L.delayq.length + 1) L

/-- `if (session->con_active) { session->con_active--; coap_session_connected(session); }` -/
def release (now : Nat) (L : Layer) : Layer × List Out :=
  if L.conActive > 0 then flushAll now { L with conActive := L.conActive - 1 } else (L, [])

/-- coap_send_internal → coap_send_pdu (→ coap_session_delay_pdu) → coap_wait_ack for a new PDU.
    `T` = coap_calc_timeout(prng byte) for a CON. -/
def send (L : Layer) (now : Nat) (d : Dgram) (T : Nat) : Layer × List Out :=
  if d.type = .con then
    if L.conActive ≥ nstart then
      -- coap_session_delay_pdu: a message id that is already waiting on the delay queue is refused (PDU dropped)
      if L.delayq.any (fun q => q.d.mid == d.mid) then (L, [])
      else ({ L with delayq := L.delayq ++ [{ d := d, timeout := T, cnt := 0, due := 0 }] }, [])
    else
      (waitAck { L with conActive := L.conActive + 1 } now { d := d, timeout := T, cnt := 0, due := 0 }, [Out.tx d])
  else (L, [Out.tx d])

/-- coap_cancel_all_messages: every queued node with this token goes; a CON releases its NSTART slot (which may
    transmit a held message — if that one carries the same token the walk reaches it too: the C loop continues on
    the live queue; modelled as "remove the first match, repeat", exact while at most one node per session is queued,
    which NSTART = 1 guarantees for Confirmables) -/
def cancelByToken (now : Nat) (tok : Bytes) : Nat → Layer → Layer × List Out
  | 0, L => (L, [])
  | fuel + 1, L =>
    match L.sendq.find? (fun n => n.d.token == tok) with
    | none => (L, [])
    | some q =>
      let L1 := { L with sendq := L.sendq.filter (fun n => n != q) }
      let (L2, o1) := if q.d.type = .con then release now L1 else (L1, [])
      let (L3, o2) := cancelByToken now tok fuel L2
      (L3, o1 ++ o2)

def cancelAll (now : Nat) (tok : Bytes) (L : Layer) : Layer × List Out :=
  cancelByToken now tok (L.sendq.length + L.delayq.length + 1) L

/-- coap_retransmit for a node that has just been popped from the send queue -/
def retransmit (L : Layer) (now : Nat) (n : Node) : Layer × List Out :=
  if n.cnt < maxRetransmit then
    let n1 := { n with cnt := n.cnt + 1 }
    let n2 := { n1 with due := now + n1.timeout * 2 ^ n1.cnt }
    let L1 := { L with sendq := insertNode n2 L.sendq }
    let L2 := { L1 with conActive := L1.conActive - 1 }
    -- coap_send_pdu(node->session, node->pdu, node)
    if n.d.type = .con ∧ L2.conActive ≥ nstart then
      -- coap_session_delay_pdu(session, pdu, node): off the send queue, onto the delay queue
      ({ L2 with sendq := L2.sendq.filter (fun m => m != n2), delayq := L2.delayq ++ [{ n2 with due := 0 }] }, [])
    else
      ({ L2 with conActive := L2.conActive + (if n.d.type = .con then 1 else 0) }, [Out.tx n.d])
  else
    -- give up
    let (L1, o) := release now L
    (L1, o ++ (if n.d.type = .con then [Out.callNack .retries n.d.mid] else []))

/-- the due-node loop of coap_io_prepare_io_lkd -/
def tick (now : Nat) : Nat → Layer → Layer × List Out
  | 0, L => (L, [])
  | fuel + 1, L =>
    match L.sendq with
    | [] => (L, [])
    | n :: rest =>
      if n.due ≤ now then
        let (L1, o1) := retransmit { L with sendq := rest } now n
        let (L2, o2) := tick now fuel L1
        (L2, o1 ++ o2)
      else (L, [])

def tickAll (now : Nat) (L : Layer) : Layer × List Out := tick now ((L.sendq.length + 1) * 6) L

def nextDue (L : Layer) : Option Nat := L.sendq.head?.map (·.due)

end Layer

def ackFor (d : Dgram) : List Out :=      -- coap_send_ack_lkd: only for a CON
  if d.type = .con then [Out.tx { type := .ack, code := 0, mid := d.mid, token := [] }] else []
def rstFor (d : Dgram) : List Out :=      -- coap_send_rst_lkd: any type on an unreliable transport
  [Out.tx { type := .rst, code := 0, mid := d.mid, token := [] }]

/-! ### client -/

structure Client where
  L : Layer := {}
  lastCon : Option Nat := none      -- session->last_con_mid   (none = COAP_INVALID_MID)
  lastAck : Option Nat := none      -- session->last_ack_mid
  lastResOk : Bool := true          -- session->last_con_handler_res == COAP_RESPONSE_OK
  deriving DecidableEq, Repr

namespace Client

/-- handle_response; `ok` is what the application's response handler returns if it gets called -/
def handleResponse (c : Client) (now : Nat) (d : Dgram) (ok : Bool) : Client × List Out :=
  -- if (rcvd->type != COAP_MESSAGE_ACK) coap_cancel_all_messages(context, session, &rcvd->actual_token);
  let (L1, o1) := if d.type ≠ .ack then Layer.cancelAll now d.token c.L else (c.L, [])
  let c1 := { c with L := L1 }
  -- duplicate filter
  if d.type = .con ∧ c1.lastCon = some d.mid then
    (c1, o1 ++ (if c1.lastResOk then ackFor d else rstFor d))
  else if d.type = .ack ∧ c1.lastAck = some d.mid then
    (c1, o1)
  else
    let c2 := if d.type = .con then { c1 with lastCon := some d.mid }
              else if d.type = .ack then { c1 with lastAck := some d.mid } else c1
    -- response handler, then ACK / RST after the verdict
    if !ok ∧ d.type ≠ .ack then
      ({ c2 with lastResOk := false }, o1 ++ [Out.callResponse d ok] ++ rstFor d)
    else
      ({ c2 with lastResOk := true }, o1 ++ [Out.callResponse d ok] ++ ackFor d)

/-- coap_dispatch on the client for a received datagram -/
def rx (c : Client) (now : Nat) (d : Dgram) (ok : Bool) : Client × List Out :=
  if !codeClassOk d.code then (c, [Out.unmodelled])
  else match d.type with
  | .ack =>
    let (sent, q) := Layer.removeByMid d.mid c.L.sendq
    let L0 := { c.L with sendq := q }
    let (L1, o1) := if sent.isSome then Layer.release now L0 else (L0, [])
    let c1 := { c with L := L1 }
    if isEmpty d.code then (c1, o1)
    else if isRequest d.code then
      (c1, o1 ++ (match sent with | some n => [Out.callNack .bad n.d.mid] | none => []))
    else if isResponse d.code then
      let (c2, o2) := handleResponse c1 now d ok
      (c2, o1 ++ o2)
    else (c, [Out.unmodelled])
  | .rst =>
    -- look the message up first; only a RST that matches a queued message releases the NSTART slot
    let (sent, q) := Layer.removeByMid d.mid c.L.sendq
    let L0 := { c.L with sendq := q }
    let (L1, o1) := if sent.isSome then Layer.release now L0 else (L0, [])
    -- coap_cancel() only acts on a context with resources (not on this client); NACK with COAP_NACK_RST
    let nack := match sent with
      | some n => if n.d.type = .con then [Out.callNack .rst n.d.mid] else []
      | none => [Out.callNack .rst d.mid]
    ({ c with L := L1 }, o1 ++ nack)
  | .non =>
    -- the message id of a NON is the peer's: it is not looked up in the send queue
    if isResponse d.code then handleResponse c now d ok
    else (c, [Out.unmodelled])
  | .con =>
    if isResponse d.code then handleResponse c now d ok
    else (c, [Out.unmodelled])

/-- coap_send() of a request by the application; T = coap_calc_timeout(prng byte) -/
def appSend (c : Client) (now : Nat) (d : Dgram) (T : Nat) : Client × List Out :=
  let (L1, o) := c.L.send now d T
  ({ c with L := L1 }, o)

/-- coap_io_prepare_io at time `now` -/
def tick (c : Client) (now : Nat) : Client × List Out :=
  let (L1, o) := c.L.tickAll now
  ({ c with L := L1 }, o)

end Client

/-- events of the client exchange layer -/
inductive CEvent where
  | appSend (now : Nat) (d : Dgram) (T : Nat)
  | rx (now : Nat) (d : Dgram) (ok : Bool)
  | tick (now : Nat)
  deriving Repr

def Client.step (c : Client) : CEvent → Client × List Out
  | .appSend now d T => c.appSend now d T
  | .rx now d ok => c.rx now d ok
  | .tick now => c.tick now

/-- run a list of events, collecting all outputs -/
def Client.run (c : Client) : List CEvent → Client × List Out
  | [] => (c, [])
  | e :: es =>
    let (c1, o1) := c.step e
    let (c2, o2) := Client.run c1 es
    (c2, o1 ++ o2)

/-! ### scripted server personalities (harness/exchange.c) on top of the same message layer -/

/-- `da` (harness personality "da"): like `dn`, but the application sends its delayed response as an ACK-typed message
    with a message id of its own — an ACK that matches nothing on the client's send queue (not a response style of
    RFC 7252, but libcoap's client passes such a message to handle_response, where only `last_ack_mid` filters it) -/
inductive Pers where
  | pb | ac | tr | dc | dn | da
  deriving DecidableEq, Repr

structure Async where
  token : Bytes
  mid : Nat               -- the MID coap_pdu_duplicate generated for the stored request
  reqType : MType
  due : Option Nat        -- none = delayed indefinitely (async->delay == 0)
  deriving DecidableEq, Repr

structure Pend where
  token : Bytes
  due : Nat
  deriving DecidableEq, Repr

structure Server where
  pers : Pers
  dedup : Bool
  D : Nat
  T : Nat                  -- coap_calc_timeout(server prng byte)
  txMid : Nat
  L : Layer := {}
  asyncs : List Async := []        -- context->async_state, newest first (LL_PREPEND)
  pend : List Pend := []           -- application timers (at: trigger, dc/dn: delayed response), in creation order
  answered : List Bytes := []
  deriving DecidableEq, Repr

namespace Server

def findAsync (s : Server) (tok : Bytes) : Option Async := s.asyncs.find? (fun a => a.token == tok)

/-- the application's request handler: returns the new state and the response code it set (0 = none) -/
def handler (s : Server) (now : Nat) (req : Dgram) (fired : Bool) : Server × Nat :=
  match s.pers with
  | .pb => (s, 69)
  | .ac | .tr =>
    if fired then ({ s with answered := s.answered ++ [req.token] }, 69)
    else if s.dedup ∧ s.answered.contains req.token then (s, 0)
    else
      -- coap_register_async: coap_pdu_duplicate generates a new MID
      let mid := (s.txMid + 1) % 65536
      let a : Async := { token := req.token, mid := mid, reqType := req.type,
                         due := if s.pers = .ac then some (now + s.D) else none }
      let s1 := { s with txMid := mid, asyncs := a :: s.asyncs }
      (if s.pers = .tr then { s1 with pend := s1.pend ++ [{ token := req.token, due := now + s.D }] } else s1, 0)
  | .dc | .dn | .da =>
    if s.pend.any (fun p => p.token == req.token) then (s, 0)
    else if s.dedup ∧ s.answered.contains req.token then (s, 0)
    else ({ s with pend := s.pend ++ [{ token := req.token, due := now + s.D }] }, 0)

/-- handle_request for a request PDU (received, or the stored one of an async that fired) -/
def handleRequest (s : Server) (now : Nat) (req : Dgram) (stored : Bool := false) : Server × List Out :=
  let a := s.findAsync req.token
  -- async registered and (this is a PDU from the network, or it is not yet due): re-transmit the empty ACK, do not
  -- pass to the application.  `stored` = called by coap_check_async with the stored request (pdu == async->pdu)
  match a with
  | some as =>
    if !stored || (match as.due with | some t => decide (t > now) | none => true) then (s, ackFor req)
    else
      let (s1, code) := s.handler now req true
      let rtype : MType := if req.type = .con then .con else .non
      let rsp : Dgram := { type := rtype, code := code, mid := req.mid, token := req.token }
      let (L1, o) := s1.L.send now rsp s1.T
      ({ s1 with L := L1 }, Out.callRequest req.mid req.token :: o)
  | none =>
    let (s1, code) := s.handler now req false
    let rtype : MType := if req.type = .con then .ack else .non
    if code = 0 then
      -- empty ACK (token stripped) for a CON, nothing for a NON
      (s1, Out.callRequest req.mid req.token :: (if rtype = .ack then ackFor req else []))
    else
      let rsp : Dgram := { type := rtype, code := code, mid := req.mid, token := req.token }
      let (L1, o) := s1.L.send now rsp s1.T
      ({ s1 with L := L1 }, Out.callRequest req.mid req.token :: o)

/-- coap_dispatch on the server -/
def rx (s : Server) (now : Nat) (d : Dgram) : Server × List Out :=
  match d.type with
  | .ack =>
    let (sent, q) := Layer.removeByMid d.mid s.L.sendq
    let L0 := { s.L with sendq := q }
    let (L1, o1) := if sent.isSome then Layer.release now L0 else (L0, [])
    ({ s with L := L1 }, o1)
  | .rst =>
    let (sent, q) := Layer.removeByMid d.mid s.L.sendq
    let L0 := { s.L with sendq := q }
    let (L1, o1) := if sent.isSome then Layer.release now L0 else (L0, [])
    match sent with
    | some n =>
      -- coap_cancel(): the context has a resource, so every queued message with the same token is cancelled
      let (L2, o2) := Layer.cancelAll now n.d.token L1
      ({ s with L := L2 }, o1 ++ o2 ++ (if n.d.type = .con then [Out.callNack .rst n.d.mid] else []))
    | none => ({ s with L := L1 }, o1 ++ [Out.callNack .rst d.mid])
  | .con | .non =>
    if isRequest d.code then s.handleRequest now d else (s, [Out.unmodelled])

/-- coap_check_async: every async whose time has come is run through handle_request and freed -/
def checkAsync (now : Nat) : List Async → Server → Server × List Out
  | [], s => (s, [])
  | a :: rest, s =>
    match a.due with
    | some t =>
      if t ≤ now then
        let (s1, o1) := s.handleRequest now { type := a.reqType, code := 1, mid := a.mid, token := a.token } true
        let s2 := { s1 with asyncs := s1.asyncs.filter (fun b => b != a) }
        let (s3, o2) := checkAsync now rest s2
        (s3, o1 ++ o2)
      else checkAsync now rest s
    | none => checkAsync now rest s

/-- coap_io_prepare_io on the server: asyncs first, then the retransmission loop -/
def tick (s : Server) (now : Nat) : Server × List Out :=
  let (s1, o1) := checkAsync now s.asyncs s
  let (L2, o2) := s1.L.tickAll now
  ({ s1 with L := L2 }, o1 ++ o2)

/-- one due application timer (the earliest; ties: creation order) -/
def appTimer (s : Server) (now : Nat) : Option (Server × List Out) :=
  let dueNow := s.pend.filter (fun p => p.due ≤ now)
  match dueNow with
  | [] => none
  | p0 :: ps =>
    let p := ps.foldl (fun b x => if x.due < b.due then x else b) p0
    let s1 := { s with pend := s.pend.filter (fun x => x != p) }
    match s.pers with
    | .tr =>
      -- coap_async_trigger: delay := now; then coap_io_prepare_io
      let s2 := { s1 with asyncs := s1.asyncs.map (fun (a : Async) => if a.token == p.token then { a with due := some now } else a) }
      some (s2.tick now)
    | _ =>
      let mid := (s1.txMid + 1) % 65536
      let rsp : Dgram := { type := if s.pers = .dc then .con else if s.pers = .da then .ack else .non, code := 69, mid := mid,
                           token := p.token }
      let s2 := { s1 with txMid := mid, answered := s1.answered ++ [p.token] }
      let (L1, o) := s2.L.send now rsp s2.T
      some ({ s2 with L := L1 }, o)

def asyncDue (s : Server) : Option Nat :=
  s.asyncs.foldl (fun b a => match a.due, b with
    | some t, some u => some (min t u)
    | some t, none => some t
    | none, b => b) none

def pendDue (s : Server) : Option Nat :=
  s.pend.foldl (fun b p => match b with | some u => some (min p.due u) | none => some p.due) none

end Server

/-! ### the lossy network and the simulation loop (mirror of harness/exchange.c) -/

inductive Fate where
  | deliver (d : Nat)
  | drop
  | dup (d1 d2 : Nat)
  deriving DecidableEq, Repr

structure Flight where
  arr : Nat
  seq : Nat
  copy : Nat
  toClient : Bool
  d : Dgram
  deriving Repr

structure Req where
  con : Bool
  method : Nat
  token : Bytes
  mid : Nat := 0
  sent : Bool := false
  nrsp : Nat := 0
  nnack : Nat := 0
  deriving Repr

inductive Tr where
  | send (t i mid : Nat)
  | ctx (t : Nat) (d : Dgram) | stx (t : Nat) (d : Dgram)
  | crx (t : Nat) (d : Dgram) | srx (t : Nat) (d : Dgram)
  | req (t mid : Nat) (tok : Bytes)
  | rsp (t : Nat) (d : Dgram) (ok : Bool)
  | nack (t : Nat) (r : Nack) (mid : Nat)
  | snack (t : Nat) (r : Nack) (mid : Nat)
  | unmodelled (t : Nat)
  | stuck (t : Nat)
  deriving Repr

structure Sim where
  now : Nat := 1000
  c : Client := {}
  s : Server
  cT : Nat
  cmid : Nat
  eager : Bool
  fates : List Fate
  verdicts : List Bool
  nseq : Nat := 0
  fly : List Flight := []
  reqs : List Req
  cur : Option Nat := none
  trace : List Tr := []      -- reversed
  deriving Repr

namespace Sim

def fateOf (sim : Sim) : Fate × Sim :=
  match sim.fates with
  | [] => (.deliver 0, sim)
  | f :: r => (f, { sim with fates := r })

/-- put a transmitted datagram on the network according to its fate -/
def transmit (sim : Sim) (toClient : Bool) (d : Dgram) : Sim :=
  let (f, sim) := sim.fateOf
  let seq := sim.nseq
  let sim := { sim with nseq := seq + 1 }
  match f with
  | .drop => sim
  | .deliver d1 => { sim with fly := sim.fly ++ [{ arr := sim.now + d1, seq := seq, copy := 0, toClient := toClient, d := d }] }
  | .dup d1 d2 => { sim with fly := sim.fly ++ [{ arr := sim.now + d1, seq := seq, copy := 0, toClient := toClient, d := d },
                                                { arr := sim.now + d2, seq := seq, copy := 1, toClient := toClient, d := d }] }

def bumpReq (rs : List Req) (p : Req → Bool) (f : Req → Req) : List Req :=
  match rs with
  | [] => []
  | r :: t => if p r then f r :: t else r :: bumpReq t p f

/-- find_req of the harness: the request the application is currently waiting for if it carries this token, else the
    first request with this token (tokens may repeat, e.g. the zero-length token on every request) -/
def bumpRsp (rs : List Req) (cur : Option Nat) (tok : Bytes) : List Req :=
  let inc := fun (r : Req) => { r with nrsp := r.nrsp + 1 }
  match cur with
  | some i =>
    match rs[i]? with
    | some r => if r.token == tok then rs.mapIdx (fun j (q : Req) => if j = i then inc q else q)
                else bumpReq rs (fun r => r.token == tok) inc
    | none => bumpReq rs (fun r => r.token == tok) inc
  | none => bumpReq rs (fun r => r.token == tok) inc

/-- absorb the outputs of a client call -/
def clientOuts (sim : Sim) : List Out → Sim
  | [] => sim
  | o :: os =>
    let sim := match o with
      | .tx d => (({ sim with trace := .ctx sim.now d :: sim.trace } : Sim).transmit false d)
      | .callResponse d ok =>
        { sim with trace := .rsp sim.now d ok :: sim.trace, verdicts := sim.verdicts.tail,
                   reqs := bumpRsp sim.reqs sim.cur d.token }
      | .callNack r mid =>
        { sim with trace := .nack sim.now r mid :: sim.trace,
                   reqs := bumpReq sim.reqs (fun q => q.sent && q.mid == mid) (fun q => { q with nnack := q.nnack + 1 }) }
      | .callRequest _ _ => sim
      | .unmodelled => { sim with trace := .unmodelled sim.now :: sim.trace }
    clientOuts sim os

def serverOuts (sim : Sim) : List Out → Sim
  | [] => sim
  | o :: os =>
    let sim := match o with
      | .tx d => (({ sim with trace := .stx sim.now d :: sim.trace } : Sim).transmit true d)
      | .callRequest mid tok => { sim with trace := .req sim.now mid tok :: sim.trace }
      | .callNack r mid => { sim with trace := .snack sim.now r mid :: sim.trace }
      | .callResponse _ _ => sim
      | .unmodelled => { sim with trace := .unmodelled sim.now :: sim.trace }
    serverOuts sim os

def nextVerdict (sim : Sim) : Bool := sim.verdicts.head?.getD true

def flightLt (a b : Flight) : Bool :=
  a.arr < b.arr || (a.arr == b.arr && (a.seq < b.seq || (a.seq == b.seq && a.copy < b.copy)))

def pickFlight (sim : Sim) : Option Flight :=
  (sim.fly.filter (fun f => f.arr ≤ sim.now)).foldl
    (fun b f => match b with | none => some f | some g => if flightLt f g then some f else some g) none

def quiescent (sim : Sim) : Bool :=
  sim.fly.isEmpty && sim.c.L.sendq.isEmpty && sim.s.L.sendq.isEmpty && sim.c.L.delayq.isEmpty &&
  sim.s.asyncs.isEmpty && sim.s.pend.isEmpty

def omin (a b : Option Nat) : Option Nat :=
  match a, b with
  | some x, some y => some (min x y)
  | some x, none => some x
  | none, y => y

def nextTime (sim : Sim) : Option Nat :=
  let f := sim.fly.foldl (fun b x => omin b (some x.arr)) none
  omin (omin (omin (omin f sim.c.L.nextDue) sim.s.L.nextDue) sim.s.asyncDue) sim.s.pendDue

def dueLe (o : Option Nat) (now : Nat) : Bool := match o with | some t => t ≤ now | none => false

/-- one iteration of the harness loop; `none` = finished -/
def iter (sim : Sim) : Option Sim :=
  -- 1. deliver what has arrived
  match sim.pickFlight with
  | some f =>
    let sim := { sim with fly := sim.fly.filter (fun g => !(g.seq == f.seq && g.copy == f.copy)) }
    if f.toClient then
      let sim := { sim with trace := .crx sim.now f.d :: sim.trace }
      let (c1, o1) := sim.c.rx sim.now f.d sim.nextVerdict
      let sim := ({ sim with c := c1 } : Sim).clientOuts o1
      let (c2, o2) := sim.c.tick sim.now
      some (({ sim with c := c2 } : Sim).clientOuts o2)
    else
      let sim := { sim with trace := .srx sim.now f.d :: sim.trace }
      let (s1, o1) := sim.s.rx sim.now f.d
      let sim := ({ sim with s := s1 } : Sim).serverOuts o1
      let (s2, o2) := sim.s.tick sim.now
      some (({ sim with s := s2 } : Sim).serverOuts o2)
  | none =>
    -- 2. timers due now: client, server, server application
    let cDue := dueLe sim.c.L.nextDue sim.now
    let sDue := dueLe sim.s.L.nextDue sim.now || dueLe sim.s.asyncDue sim.now
    let aDue := dueLe sim.s.pendDue sim.now
    if cDue || sDue || aDue then
      let sim := if cDue then
          let (c1, o1) := sim.c.tick sim.now
          ({ sim with c := c1 } : Sim).clientOuts o1
        else sim
      let sim := if sDue then
          let (s1, o1) := sim.s.tick sim.now
          ({ sim with s := s1 } : Sim).serverOuts o1
        else sim
      -- all due application timers
      let rec apps (fuel : Nat) (sim : Sim) : Sim :=
        match fuel with
        | 0 => sim
        | fuel + 1 =>
          match sim.s.appTimer sim.now with
          | none => sim
          | some (s1, o1) => apps fuel (({ sim with s := s1 } : Sim).serverOuts o1)
      some (if aDue then apps (sim.s.pend.length + 1) sim else sim)
    else
      -- 3. client application
      let curDone := match sim.cur with
        | none => true
        | some i => (sim.eager && (match sim.reqs[i]? with | some r => r.nrsp + r.nnack > 0 | none => true)) || sim.quiescent
      let nxt := match sim.cur with | none => 0 | some i => i + 1
      if curDone && nxt < sim.reqs.length then
        let mid := (sim.cmid + 1) % 65536
        let r := sim.reqs[nxt]?.getD { con := true, method := 1, token := [] }
        let sim := { sim with cmid := mid, cur := some nxt,
                              reqs := sim.reqs.mapIdx (fun j (q : Req) => if j = nxt then { q with mid := mid, sent := true } else q),
                              trace := .send sim.now nxt mid :: sim.trace }
        let d : Dgram := { type := if r.con then .con else .non, code := r.method, mid := mid, token := r.token }
        let (c1, o1) := sim.c.appSend sim.now d sim.cT
        some (({ sim with c := c1 } : Sim).clientOuts o1)
      else
        -- 4. advance the clock
        match sim.nextTime with
        | none => none
        | some t =>
          if t ≤ sim.now then none
          else some { sim with now := t }

def run : Nat → Sim → Sim
  | 0, sim => sim
  | fuel + 1, sim =>
    match sim.iter with
    | none => sim
    | some s' => run fuel s'

end Sim

end Coap.Exch
