import CoapVerif.Model.SendQueue
/-
M — the message layer of a libcoap endpoint on a datagram transport (DESIGN.md §4.0 `MsgLayer`): the send queue,
per-session `con_active`, the delay queue and the session state, driven by application calls, datagram arrivals
and the I/O loop.  Transcribed from

  coap_send_internal, coap_send_pdu (gate), coap_wait_ack, coap_retransmit          src/coap_net.c
  the ACK / RST / NON / invalid-code branches of coap_dispatch, handle_response      src/coap_net.c
  coap_cancel_all_messages, coap_cancel_session_messages                              src/coap_net.c
  coap_session_delay_pdu, coap_session_connected, coap_session_disconnected_lkd       src/coap_session.c
  the due-node loop and the returned wait of coap_io_prepare_io_lkd                   src/coap_io.c

as they are AFTER the `fix:` commits listed in KNOWN_FINDINGS.txt for C06/C08.  Scope: UDP client sessions,
`ping_timeout = 0`, block mode off, no OSCORE, unicast.  Core Lean only.
-/
namespace Coap.Msg
open Coap.SQ

inductive Reason where
  | retries | rst | undeliv | bad
  | icmp      -- COAP_NACK_ICMP_ISSUE: only produced by the extended model (Model/MsgLayerX.lean)
  deriving Repr, DecidableEq

/-- What the endpoint does (DESIGN.md §4.0 `Output`). `known` of a NACK = the handler got the sent PDU (`sent != NULL`). -/
inductive Out where
  | tx (t s mid cnt : Nat) (con : Bool)
  | nack (t s : Nat) (reason : Reason) (mid : Nat) (known : Bool)
  | rsp (t s mid : Nat)
  | wait (t ms : Nat)
  | sub (res : Option Nat)
  deriving Repr, DecidableEq

/-- `coap_session_t`: transmission parameters, `state == COAP_SESSION_STATE_ESTABLISHED`, socket still open,
`con_active` (uint8_t), `delayqueue`. -/
structure Sess where
  atI : Nat := 2
  atF : Nat := 0
  arfI : Nat := 1
  arfF : Nat := 500
  maxRtx : Nat := 4
  nstart : Nat := 1
  est : Bool := true
  sockOpen : Bool := true
  conActive : Nat := 0
  delayq : List Node := []
  deriving Repr, DecidableEq

structure L where
  now : Nat
  q : Queue
  sess : List Sess
  out : List Out          -- newest first
  deriving Repr, DecidableEq

def L.getS (l : L) (s : Nat) : Sess := l.sess.getD s {}
def L.setS (l : L) (s : Nat) (se : Sess) : L := { l with sess := l.sess.set s se }
def L.emit (l : L) (o : Out) : L := { l with out := o :: l.out }

/-- the gate of `coap_send_pdu`: true = the PDU goes to `coap_session_delay_pdu` -/
def gate (se : Sess) (con : Bool) : Bool :=
  !se.est || (con && decide (se.conActive ≥ se.nstart))

/-- `coap_wait_ack`: `node->t = node->timeout << node->retransmit_cnt` is `unsigned int` arithmetic. -/
def waitAck (l : L) (n : Node) : L :=
  { l with q := enqueue l.q l.now ((n.timeout * 2 ^ n.cnt) % 4294967296) n }

/-- the `while (session->delayqueue && state == ESTABLISHED)` loop of `coap_session_connected` -/
def drain : Nat → L → Nat → L
  | 0, l, _ => l
  | fuel + 1, l, s =>
    let se := l.getS s
    match se.delayq with
    | [] => l
    | n :: rest =>
      if !se.est then l
      else if n.con && decide (se.conActive ≥ se.nstart) then l
      else
        let ca := if n.con then (se.conActive + 1) % 256 else se.conActive
        let l := l.setS s { se with conActive := ca, delayq := rest }
        let l := l.emit (.tx l.now s n.mid n.cnt n.con)
        let l := if n.con then waitAck l { n with sess := s } else l
        drain fuel l s

/-- `coap_session_connected(session)` -/
def connected (l : L) (s : Nat) : L :=
  let se := l.getS s
  let l := l.setS s { se with est := true }
  drain (se.delayq.length + 1) l s

/-- `if (… session->con_active) { session->con_active--; if (state == ESTABLISHED) coap_session_connected(); }` -/
def release (l : L) (s : Nat) : L :=
  let se := l.getS s
  if se.conActive = 0 then l
  else
    let l := l.setS s { se with conActive := se.conActive - 1 }
    if se.est then connected l s else l

/-- `coap_send()` of a CON/NON message with message id `mid` (its token is named `mid` too); `r` is the byte the
PRNG hands to `coap_calc_timeout`. -/
def submit (l : L) (s : Nat) (con : Bool) (mid r : Nat) : L :=
  let se := l.getS s
  if !se.sockOpen then l.emit (.sub none)
  else
    let tmo := if con then calcTimeout se.atI se.atF se.arfI se.arfF r else 0
    let n : Node := { sess := s, mid := mid, t := 0, timeout := tmo, cnt := 0, tok := mid, con := con }
    if gate se con then
      if se.delayq.any (fun x => x.mid = mid) then l.emit (.sub none)
      else (l.setS s { se with delayq := se.delayq ++ [n] }).emit (.sub (some mid))
    else
      let l := l.emit (.tx l.now s mid 0 con)
      if con then
        let l := l.setS s { se with conActive := (se.conActive + 1) % 256 }
        (waitAck l n).emit (.sub (some mid))
      else l.emit (.sub (some mid))

/-- `coap_retransmit(context, node)` for a node just popped from the queue -/
def retransmit (l : L) (n : Node) : L :=
  let s := n.sess
  let se := l.getS s
  if n.cnt < se.maxRtx then
    let n := { n with cnt := (n.cnt + 1) % 256 }
    let delay := (n.timeout * 2 ^ n.cnt) % 18446744073709551616
    let l := { l with q := enqueue l.q l.now delay n }
    let se := { se with conActive := se.conActive - 1 }
    if gate se n.con then
      -- coap_session_delay_pdu(session, pdu, node): the node moves from the send queue to the delay queue
      let (_, rest) := removeNode l.q.nodes s n.mid
      let l := { l with q := { l.q with nodes := rest } }
      l.setS s { se with delayq := se.delayq ++ [{ n with t := 0 }] }
    else
      let l := l.emit (.tx l.now s n.mid n.cnt n.con)
      l.setS s { se with conActive := if n.con then (se.conActive + 1) % 256 else se.conActive }
  else
    let l := release l s
    if n.con then l.emit (.nack l.now s .retries n.mid true) else l

/-- the due-node loop of `coap_io_prepare_io_lkd` -/
def dueLoop : Nat → L → L
  | 0, l => l
  | fuel + 1, l =>
    match l.q.nodes with
    | [] => l
    | h :: _ =>
      if l.now ≥ l.q.base ∧ h.t ≤ l.now - l.q.base then
        match popNext l.q.nodes with
        | none => l
        | some (n, rest) => dueLoop fuel (retransmit { l with q := { l.q with nodes := rest } } n)
      else l

def dueFuel (l : L) : Nat := (l.q.nodes.length + 1) * 300

/-- `coap_io_prepare_io_lkd(ctx, …, now)`: retransmissions, then the wait in ms (COAP_TICKS_PER_SECOND = 1000, so
`(timeout * 1000 + 999) / 1000 = timeout`; the result is an `unsigned int`). -/
def prepareCore (l : L) : L × Nat :=
  let l := dueLoop (dueFuel l) l
  match l.q.nodes with
  | [] => (l, 0)
  | h :: _ =>
    let timeout := if l.now ≥ l.q.base then h.t - (l.now - l.q.base) else h.t + (l.q.base - l.now)
    (l, ((timeout * 1000 + 999) / 1000) % 4294967296)

def prepare (l : L) : L :=
  let (l, w) := prepareCore l
  l.emit (.wait l.now w)

/-- empty ACK with message id `mid` arrives on session `s` (ACK branch of `coap_dispatch`) -/
def rxAck (l : L) (s mid : Nat) : L :=
  let (sent, rest) := removeNode l.q.nodes s mid
  let l := { l with q := { l.q with nodes := rest } }
  match sent with
  | some _ => release l s
  | none => l

/-- RST with message id `mid` arrives (RST branch of `coap_dispatch`, after `fix: RST only releases …`) -/
def rxRst (l : L) (s mid : Nat) : L :=
  let (sent, rest) := removeNode l.q.nodes s mid
  let l := { l with q := { l.q with nodes := rest } }
  match sent with
  | some n =>
    let l := release l s
    if n.con then l.emit (.nack l.now s .rst n.mid true) else l
  | none => l.emit (.nack l.now s .rst mid false)

/-- `coap_cancel_all_messages(context, session, token)` -/
def cancelToken : Nat → L → Nat → Nat → L
  | 0, l, _, _ => l
  | fuel + 1, l, s, tok =>
    match removeTok l.q.nodes s tok with
    | (none, _) => l
    | (some n, rest) =>
      let l := { l with q := { l.q with nodes := rest } }
      let l := if n.con then release l s else l
      cancelToken fuel l s tok

/-- a NON 2.05 response with message id `mid` and token `tok` arrives: NON branch of `coap_dispatch` (after
`fix: a NON does not stop …` it no longer looks `mid` up in the send queue), then `handle_response`:
cancel by token, response handler. -/
def rxNon (l : L) (s mid tok : Nat) : L :=
  let l := cancelToken (l.q.nodes.length + 1) l s tok
  l.emit (.rsp l.now s mid)

/-- an ACK whose code has an invalid class arrives (top of `coap_dispatch`, after `fix: … invalid code …`) -/
def rxBad (l : L) (s mid : Nat) : L :=
  let (sent, rest) := removeNode l.q.nodes s mid
  let l := { l with q := { l.q with nodes := rest } }
  match sent with
  | some n =>
    let l := release l s
    l.emit (.nack l.now s .bad n.mid true)
  | none => l

/-- an ACK whose code is a REQUEST method (0.01 … 0.31, e.g. the bytes `60 01 <mid>`) arrives — the ACK branch of
`coap_dispatch`: `coap_remove_from_queue(&context->sendqueue, session, pdu->mid, &sent)` FIRST (the ACK carries the
message id: the retransmission stops whatever else it carries), `if (sent && con_active) { con_active--;
coap_session_connected }`, no critical option, `pdu->code != 0`, then `else if (COAP_PDU_IS_REQUEST(pdu))`: "This is not
legitimate - Request using ACK", `packet_is_bad = 1; goto cleanup`, where `coap_handle_nack(BAD_RESPONSE)` is called
iff a node was found.  (Written out separately from `rxBad` — the check at the top of `coap_dispatch` — because it is a
different place in the code; `Coap.C06.ack_request_code_is_bad_ack` shows the two are the same function, so every
theorem with `Ev.rxBad` in its alphabet covers it and the driver replays such an ACK as `Ev.rxBad`.) -/
def rxAckReq (l : L) (s mid : Nat) : L :=
  let (sent, rest) := removeNode l.q.nodes s mid
  let l := { l with q := { l.q with nodes := rest } }
  let l := match sent with
    | some _ => release l s
    | none => l
  match sent with
  | some n => l.emit (.nack l.now s .bad n.mid true)
  | none => l

/-- a message `coap_check_notify_lkd` hands to `coap_send_internal` (an Observe notification of a server context) -/
structure Notif where
  s : Nat
  con : Bool
  mid : Nat
  r : Nat
  deriving Repr, DecidableEq

/-- `coap_io_prepare_io_lkd` on a context with observable resources: `coap_check_notify_lkd(ctx)` comes FIRST — every
notification that is due goes through `coap_send_internal` (= `submit`; a Confirmable one is queued by `coap_wait_ack`
for `now + T`) — THEN the due loop, THEN the wait is computed from the head of the send queue.  So a Confirmable
transmitted from inside this call is already in the queue when the wait is computed. -/
def notifyAll (l : L) (ns : List Notif) : L := ns.foldl (fun l n => submit l n.s n.con n.mid n.r) l
def prepareNotify (l : L) (ns : List Notif) : L := prepare (notifyAll l ns)

/-- NACK every CON node of a list, in order -/
def nackAll (l : L) (s : Nat) (r : Reason) : List Node → L
  | [] => l
  | n :: ns => nackAll (if n.con then l.emit (.nack l.now s r n.mid true) else l) s r ns

/-- `coap_session_disconnected_lkd(session, COAP_NACK_NOT_DELIVERABLE)` on a UDP client session, as it is
(DESIGN.md §5 row 22: the first queued message of the session is reported twice). -/
def disconnect (l : L) (s : Nat) : L :=
  let se := l.getS s
  let first := l.q.nodes.find? (fun n => n.sess = s)
  let l := match first with
    | some n => l.emit (.nack l.now s .undeliv n.mid true)
    | none => l
  let l := nackAll l s .undeliv se.delayq
  let sentNack := first.isSome || se.delayq.any (·.con)
  let l := if sentNack then l else l.emit (.nack l.now s .undeliv 0 false)
  let l := l.setS s { se with est := true, conActive := 0, delayq := [] }
  let (gone, rest) := cancelSession l.q.nodes s
  let l := { l with q := { l.q with nodes := rest } }
  let l := nackAll l s .undeliv gone
  l.setS s { (l.getS s) with sockOpen := false }

/-- What happens to the endpoint (DESIGN.md §4.0 `Event`).  Every `rx…` is a call of `coap_io_do_epoll`, which
ends with `coap_io_prepare_epoll_lkd` (retransmissions run, the wait is not returned to anybody). -/
inductive Ev where
  | setNow (t : Nat)
  | submit (s : Nat) (con : Bool) (mid r : Nat)
  | prepare
  | rxAck (s mid : Nat)
  | rxRst (s mid : Nat)
  | rxNon (s mid tok : Nat)
  | rxBad (s mid : Nat)
  | hold (s : Nat)
  | connect (s : Nat)
  | disconnect (s : Nat)
  deriving Repr, DecidableEq

def afterRx (l : L) : L := (prepareCore l).1

def step (l : L) : Ev → L
  | .setNow t => { l with now := t }
  | .submit s con mid r => submit l s con mid r
  | .prepare => prepare l
  | .rxAck s mid => if (l.getS s).sockOpen then afterRx (rxAck l s mid) else l
  | .rxRst s mid => if (l.getS s).sockOpen then afterRx (rxRst l s mid) else l
  | .rxNon s mid tok => if (l.getS s).sockOpen then afterRx (rxNon l s mid tok) else l
  | .rxBad s mid => if (l.getS s).sockOpen then afterRx (rxBad l s mid) else l
  | .hold s => l.setS s { (l.getS s) with est := false }
  | .connect s => connected l s
  | .disconnect s => if (l.getS s).sockOpen then disconnect l s else l

def run (l : L) (evs : List Ev) : L := evs.foldl step l

def init (now : Nat) (sess : List Sess) : L := { now := now, q := { base := 0, nodes := [] }, sess := sess, out := [] }

end Coap.Msg
