import CoapVerif.Model.Observe
/-
M — the wait `coap_io_prepare_io_lkd` returns on the SERVER context of C11's model (`Coap.Observe`, Model/Observe.lean),
added for C06 (round X06, seed C06-12: "the wait time the library reports to its caller never exceeds the time to the
earliest pending deadline" — also for a Confirmable notification transmitted from inside that very call).

Transcribed from src/coap_io.c coap_io_prepare_io_lkd, in its order:
  coap_check_notify_lkd(ctx);                                   -- `checkNotify`  (notifications go out, CONs are queued)
  timeout = coap_check_async(ctx, now);                         -- no async requests in this harness: 0
  while (nextpdu && nextpdu->t <= now - basetime) coap_retransmit(…)   -- `retransmitDue`
  if (nextpdu && (timeout == 0 || nextpdu->t - (now - basetime) < timeout)) timeout = nextpdu->t - (now - basetime);
  (no DTLS context, no proxy)
  SESSIONS_ITER_SAFE(ep->sessions): idle server session (ref == 0, last_rx_tx + session_timeout <= now) freed   -- `reclaim`
     else if (ref == 0 && delayqueue == NULL) { s_timeout = last_rx_tx + session_timeout - now;
                                               if (timeout == 0 || s_timeout < timeout) timeout = s_timeout; }
  (no lg_srcv / lg_xmit: block mode off; no client sessions in the server context)
  return (unsigned int)((timeout * 1000 + COAP_TICKS_PER_SECOND - 1) / COAP_TICKS_PER_SECOND);
`Coap.Observe.io` is the first three steps + `reclaim`; the wait is a function of the state it leaves.  Core Lean only.
-/
namespace Coap.Observe

/-- `nextpdu->t - (now - ctx->sendqueue_basetime)` for the head of the send queue, 0 when the queue is empty -/
def qWait (st : State) : Nat :=
  match st.sendq with
  | [] => 0
  | q :: _ => q.due - st.now

/-- one server session in the SESSIONS_ITER loop (after the idle ones were released) -/
def idleStep (st : State) (t : Nat) (c : Nat) : Nat :=
  match st.sess c with
  | some s =>
    if s.ref = 0 then
      let d := s.lastRxTx + st.stTicks - st.now
      if t = 0 ∨ d < t then d else t
    else t
  | none => t

/-- the timeout in ticks after the session loop; `ncli` = number of peers that may have a session (the order of the
hash-table iteration does not matter: a minimum) -/
def tickWait (st : State) (ncli : Nat) : Nat := (List.range ncli).foldl (idleStep st) (qWait st)

/-- the `unsigned int` number of milliseconds returned (COAP_TICKS_PER_SECOND = 1000) -/
def waitOf (st : State) (ncli : Nat) : Nat := ((tickWait st ncli * 1000 + 999) / 1000) % 4294967296

/-- `coap_io_prepare_io_lkd(ctx, …, now)` with its result -/
def ioWait (st : State) (ncli : Nat) : State × List Out × Nat :=
  let (st1, o) := io st
  (st1, o, waitOf st1 ncli)

end Coap.Observe
