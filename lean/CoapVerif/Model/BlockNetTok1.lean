import CoapVerif.Model.BlockNetTok
/-
M — TOKENS in the composed Block1 system (round R09c).  What is added to `b1Step` (Model/BlockNet.lean):

  * every request / response datagram carries a token: the application's on the first request (coap_send transmits the PDU
    as the application built it), `STATE_TOKEN_FULL(lg_xmit->b.b1.state_token, ++lg_xmit->b.b1.count)` (`uint32_t` count) on
    every follow-up request of `coap_handle_response_send_block`; the server echoes the token of the request it answers;
  * the client's lg_xmit with `b.b1.app_token`, `b.b1.state_token`, `b.b1.count`, and its pointer `lg_xmit->lg_crcv`; the
    lg_crcv `coap_send` sets up for the request (`coap_check_send_need_lg_crcv`: Block1 option present, or a
    Non-confirmable request) and links (`lg_xmit->lg_crcv = lg_crcv`, `lg_xmit->b.b1.state_token = lg_crcv->state_token`);
  * `handle_response()` of coap_net.c: `coap_handle_response_send_block` (lookup by token; next block → return 1;
    `lg_xmit_finished:` — `if (!lg_crcv) coap_update_token(rcvd, app_token)`, else the retry counter is handed to the
    lg_crcv — lg_xmit deleted, return 0), then `coap_handle_response_get_block` (lookup by token; a response without Block2:
    `coap_update_token(rcvd, app_token)`, lg_crcv deleted, return 0), then the response handler.

ONE application token: the search "See if this token is already in use for large bodies" of
coap_add_data_large_internal and "See if this token is already in use for large body responses" of coap_send_lkd delete
the element with the application's token before a new one is linked, so each list has at most one element — they are
`Option`s here (the T2 op prints both list lengths).  `released` is a ghost: the `STATE_TOKEN_BASE` of every lg_xmit /
lg_crcv deleted so far.  Core Lean only.
-/
namespace Coap.Block

structure XmitT where
  appTok : Bytes                -- lg_xmit->b.b1.app_token
  state : Nat                   -- lg_xmit->b.b1.state_token
  count : Nat                   -- lg_xmit->b.b1.count (uint32_t)
  x : LgXmit
  link : Bool                   -- lg_xmit->lg_crcv != NULL (it then points to the session's lg_crcv)
  deriving Repr

structure CrcvL where
  appTok : Bytes                -- lg_crcv->app_token
  state : Nat                   -- lg_crcv->state_token
  retry : Nat                   -- lg_crcv->retry_counter (uint16_t)
  deriving Repr, DecidableEq

structure Cli1T where
  xmit : Option XmitT := none   -- session->lg_xmit
  crcv : Option CrcvL := none   -- session->lg_crcv
  txTok : Nat := 0              -- session->tx_token
  released : List Nat := []     -- ghost
  deriving Repr

/-- the lookup predicate of both handlers (negation of the `continue` condition) -/
def tokHit (tok appTok : Bytes) (state : Nat) : Bool :=
  !(decide (stateTokenBase (decodeVar8 tok) ≠ stateTokenBase state) && decide (tok ≠ appTok))

/-- coap_block_delete_lg_crcv: `lg_xmit->lg_crcv = NULL` in the lg_xmit that points to it -/
def unlinkXmit (x : Option XmitT) : Option XmitT := x.map fun xm => { xm with link := false }

structure T1Res where
  out : Option B1Out            -- what coap_handle_response_send_block did; none = no lg_xmit matched
  handler : Bool                -- the response reaches the response handler …
  shown : Bytes                 -- … carrying this token
  req : Option ((Nat × Nat × Nat × Bytes) × Bytes)   -- the request transmitted: Block1 (num, m, szx), payload; its token
  deriving Repr

structure S1Res where
  c : Cli1T                     -- the session afterwards
  ret : Bool                    -- the function returned 1
  tok : Bytes                   -- rcvd's token afterwards
  out : Option B1Out            -- none = no lg_xmit matched
  req : Option ((Nat × Nat × Nat × Bytes) × Bytes)

/-- `coap_handle_response_send_block(session, sent, rcvd)` for a response carrying token `tok`: `ok` = class 2, `blk` =
its Block1 option (num, szx) -/
def sendStep1T (room : Nat) (c : Cli1T) (tok : Bytes) (ok : Bool) (blk : Option (Nat × Nat)) : S1Res :=
  match c.xmit with
  | some xm =>
    if tokHit tok xm.appTok xm.state then
      match xmitB1Step xm.x room ok blk with
      | (some x', .sendNext n m sx p) =>
        let count' := (xm.count + 1) % 2 ^ 32
        { c := { c with xmit := some { xm with x := x', count := count' } }, ret := true, tok := tok,
          out := some (.sendNext n m sx p), req := some ((n, m, sx, p), encodeVar8 (stateTokenFull xm.state count')) }
      | (some x', o) => { c := { c with xmit := some { xm with x := x' } }, ret := true, tok := tok, out := some o, req := none }
      | (none, o) =>
        -- fail_body is only reached behind `++lg_xmit->b.b1.count`
        let cnt := if o = .fail500 then (xm.count + 1) % 2 ^ 32 else xm.count
        -- lg_xmit_finished:
        let crcv' := if xm.link then
            c.crcv.map fun cr =>
              if stateTokenBase xm.state = stateTokenBase cr.state then { cr with state := xm.state, retry := cnt % 65536 }
              else cr
          else c.crcv
        { c := { c with xmit := none, crcv := crcv', released := c.released ++ [stateTokenBase xm.state] }, ret := false,
          tok := (if xm.link then tok else xm.appTok), out := some o, req := none }
    else { c := c, ret := false, tok := tok, out := none, req := none }
  | none => { c := c, ret := false, tok := tok, out := none, req := none }

/-- `coap_handle_response_get_block` for a response WITHOUT Block2 option carrying token `tok1` (it returns 0): the
session afterwards and rcvd's token afterwards — "need to put back original token into rcvd", "Expire this entry" /
`expire_lg_crcv:` -/
def getStep1T (c1 : Cli1T) (tok1 : Bytes) : Cli1T × Bytes :=
  match c1.crcv with
  | some cr =>
    if tokHit tok1 cr.appTok cr.state then
      ({ c1 with crcv := none, xmit := unlinkXmit c1.xmit, released := c1.released ++ [stateTokenBase cr.state] }, cr.appTok)
    else (c1, tok1)
  | none => (c1, tok1)

/-- `handle_response()` of coap_net.c -/
def rspStep1T (room : Nat) (c : Cli1T) (tok : Bytes) (ok : Bool) (blk : Option (Nat × Nat)) : Cli1T × T1Res :=
  let sb := sendStep1T room c tok ok blk
  if sb.ret then (sb.c, { out := sb.out, handler := false, shown := sb.tok, req := sb.req })
  else
    let g := getStep1T sb.c sb.tok
    (g.1, { out := sb.out, handler := true, shown := g.2, req := none })

/-- the application hands a body to libcoap and sends the request (token `app`): the supersede search of
coap_add_data_large_internal, the new lg_xmit if the body needs blocks (`lgx` = its LgXmit), then coap_send_lkd: an
lg_crcv if `need` (coap_check_send_need_lg_crcv), replacing one with the same application token, linked to the lg_xmit
with this application token (`have_block1` = the request carries a Block1 option) -/
def putStep1T (c : Cli1T) (app : Bytes) (lgx : Option LgXmit) (need haveBlock1 : Bool) : Cli1T :=
  -- coap_add_data_large_internal
  let sup : Option XmitT × List Nat :=
    match c.xmit with
    | some xm => if app = xm.appTok then (none, [stateTokenBase xm.state]) else (some xm, [])
    | none => (none, [])
  let tx1 := match lgx with | some _ => (c.txTok + 1) % 2 ^ 64 | none => c.txTok
  let xmit1 : Option XmitT :=
    match lgx with
    | some x => some { appTok := app, state := stateTokenFull tx1 1, count := 1, x := x, link := false }
    | none => sup.1
  -- coap_send_lkd
  if need then
    let del : Option CrcvL × List Nat × Bool :=
      match c.crcv with
      | some cr => if app = cr.appTok then (none, [stateTokenBase cr.state], true) else (some cr, [], false)
      | none => (none, [], false)
    let xmit2 := if del.2.2 then unlinkXmit xmit1 else xmit1
    let tx2 := (tx1 + 1) % 2 ^ 64
    let cr : CrcvL := { appTok := app, state := stateTokenFull tx2 1, retry := 1 }
    let xmit3 : Option XmitT :=
      match xmit2 with
      | some xm => if haveBlock1 ∧ app = xm.appTok then some { xm with link := true, state := cr.state } else some xm
      | none => none
    -- (an lg_crcv with another application token would stay in the list behind the new one: not with ONE token)
    { xmit := xmit3, crcv := some cr, txTok := tx2, released := c.released ++ sup.2 ++ del.2.1 }
  else { xmit := xmit1, crcv := c.crcv, txTok := tx1, released := c.released ++ sup.2 }

/-! ## the composed system -/

structure B1TSys where
  net : B1Sys := {}             -- server, datagrams, outputs as in `b1Step` (`net.cli` is not used)
  cli : Cli1T := {}
  reqToks : List Bytes := []
  rspToks : List Bytes := []
  hToks : List (Bytes × List Nat) := []   -- every response-handler call: the token it saw, the bases released before

inductive B1TEvent where
  | appPut
  | reqArrives (i : Nat)
  | rspArrives (j : Nat)
  | srvExpire
  | xmitExpire                  -- coap_block_check_lg_xmit_timeouts deletes the lg_xmit
  | crcvExpire                  -- coap_block_check_lg_crcv_timeouts deletes the lg_crcv
  deriving Repr, DecidableEq

/-- `non` = the application's request is Non-confirmable (an lg_crcv is then set up for a single-message body too) -/
def b1tStep (P : B1Par) (app : Bytes) (non : Bool) (s : B1TSys) : B1TEvent → B1TSys
  | .appPut =>
    match addDataLarge P.maxSize P.tokLen P.optBytes P.lastOpt P.blk P.maxBlkC P.body.length P.rtagLen with
    | some r =>
      if r.lgXmit then
        match r.blockVal with
        | some v =>
          { s with cli := putStep1T s.cli app (some { data := P.body, blkSize := r.blkSize }) true true,
                   net := { s.net with reqs := s.net.reqs ++ [⟨v / 16, (v / 8) % 2, v % 8, P.body.take r.payload, some P.body.length⟩] },
                   reqToks := s.reqToks ++ [app] }
        | none => s
      else
        { s with cli := putStep1T s.cli app none (non || r.blockVal.isSome) r.blockVal.isSome,
                 net := { s.net with reqs := s.net.reqs ++
                   [⟨0, 0, (match r.blockVal with | some v => v % 8 | none => 0), P.body.take r.payload, none⟩] },
                 reqToks := s.reqToks ++ [app] }
    | none => s
  | .reqArrives i =>
    match s.net.reqs[i]?, s.reqToks[i]? with
    | some d, some tok =>
      let res := srcvStep P.cap P.junk P.maxBlk s.net.srv d.num d.m d.szx d.payload d.size1
      let rs := b1Responses P d res.2
      { s with net := { s.net with srv := res.1, outs := s.net.outs ++ [res.2], rsps := s.net.rsps ++ rs },
               rspToks := s.rspToks ++ List.replicate rs.length tok }
    | _, _ => s
  | .rspArrives j =>
    match s.net.rsps[j]?, s.rspToks[j]? with
    | some (ok, blk), some tok =>
      let res := rspStep1T P.room s.cli tok ok blk
      { s with cli := res.1,
               net := { s.net with reqs := s.net.reqs ++ (match res.2.req with
                                                          | some ((n, m, sx, p), _) => [⟨n, m, sx, p, some P.body.length⟩]
                                                          | none => []) },
               reqToks := s.reqToks ++ (match res.2.req with | some (_, t) => [t] | none => []),
               hToks := s.hToks ++ (if res.2.handler then [(res.2.shown, s.cli.released)] else []) }
    | _, _ => s
  | .srvExpire => { s with net := { s.net with srv := none } }
  | .xmitExpire =>
    match s.cli.xmit with
    | some xm => { s with cli := { s.cli with xmit := none, released := s.cli.released ++ [stateTokenBase xm.state] } }
    | none => s
  | .crcvExpire =>
    match s.cli.crcv with
    | some cr => { s with cli := { s.cli with crcv := none, xmit := unlinkXmit s.cli.xmit,
                                              released := s.cli.released ++ [stateTokenBase cr.state] } }
    | none => s

end Coap.Block
