import CoapVerif.Model.Observe
import CoapVerif.Model.ObserveKey
/-
M for C11 — the TOKEN of an observation: how libcoap decides that a request / a Reset / a failed notification is about an
existing observer entry.  Transcribed from
  include/coap3/coap_str.h  coap_binary_equal(binary1, binary2):
                              (binary1)->length == (binary2)->length &&
                              ((binary1)->length == 0 || ((binary1)->s && (binary2)->s && memcmp(s1, s2, (binary1)->length) == 0))
  src/coap_resource.c       coap_find_observer           `s->session == session && (!token || coap_binary_equal(token, &s->pdu->actual_token))`
                            coap_remove_failed_observers `obs->session == session && coap_binary_equal(token, &obs->pdu->actual_token)`
  src/coap_net.c            coap_cancel_all_messages     `q->session == session && coap_binary_equal(&q->pdu->actual_token, token)`
(every caller in the modelled code passes a token, the `!token` disjunct is never taken).
Core Lean only.

Modelling conventions
 * a token is its byte string (0..8 bytes, RFC 7252 §3; `s` is never NULL for a token that came off the wire).
 * Model/Observe.lean keeps `token : Nat` and compares with `==` (matchST, matchQT).  That Nat IS the byte string: `tokNat`, the
   injective encoding `encBytes` of Model/ObserveKey.lean, `natTok` its inverse (Lemmas/ObserveToken.lean: `natTok_tokNat`,
   `tokNat_injective`), and `matchST c (tokNat t) s` is `s.sess == c && binaryEqual t (natTok s.token)` (`matchST_is_binary_equal`):
   the comparison in M is coap_binary_equal on the token bytes — length first, then the bytes.
 * Driver/Observe.lean hands M `tokNat` of the token bytes harness/observe.c puts on the wire and prints entries and datagrams
   through `natTok`, so a token that is empty, or a proper prefix of another token of the same client, is a different token in
   the replay exactly as in the property.
-/
namespace Coap.Observe

/-- `memcmp(a, b, n) == 0`; a buffer shorter than n cannot occur (the callers compare n = both lengths) and is `false` -/
def memcmpEq : Nat → List Nat → List Nat → Bool
  | 0, _, _ => true
  | n + 1, x :: a, y :: b => x == y && memcmpEq n a b
  | _ + 1, _, _ => false

/-- coap_binary_equal(binary1, binary2) on byte strings -/
def binaryEqual (a b : List Nat) : Bool :=
  a.length == b.length && (a.length == 0 || memcmpEq a.length a b)

/-- the `token : Nat` of Model/Observe.lean for a token with these bytes -/
def tokNat (t : List Nat) : Nat := encBytes t

/-- inverse of `encBytes` (bijective base 257, digits 1..256) -/
def natTok : Nat → List Nat
  | 0 => []
  | n + 1 => (n % 257) :: natTok (n / 257)
termination_by n => n
decreasing_by omega

/-- coap_find_observer's test on the bytes: the entry belongs to session c and its token is coap_binary_equal to `t` -/
def findObserverMatch (c : Nat) (t : List Nat) (s : Sub) : Bool := s.sess == c && binaryEqual t (natTok s.token)

end Coap.Observe
