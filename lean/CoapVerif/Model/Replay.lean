/-
M for C15 — faithful model of libcoap's OSCORE replay protection and sender sequence numbers.  Core Lean only.

Transcribed from (tree after the seven `fix:` commits listed in KNOWN_FINDINGS.txt / design/C15.md):
  src/oscore/oscore.c        oscore_validate_sender_seq, oscore_roll_back_seq, oscore_increment_sender_seq
  src/coap_oscore.c          coap_oscore_decrypt_pdu: request path (8.2 step 3 check, roll back on decryption failure,
                             Appendix B.1.2 Echo trap) and response path (8.4: response with / without its own Partial
                             IV, validation gated on initial_state, SEQ_MAX check, guarded last_seq assignment, roll
                             back / restore on decryption failure), both on the same recipient context;
                             coap_oscore_new_pdu_encrypted_lkd: save watermark
  src/oscore/oscore_context.c  oscore_derive_ctx (seq / next_seq from start_seq_num and ssn_freq), oscore_add_recipient

Every quantity is a `Nat`; a C narrowing is `% 2^64` where it happens.  A 64-bit shift is `shl64`, which has no value
for a shift amount ≥ 64 (undefined in C): the model then returns the distinguished result `ub`.
External parts are parameters of an event: whether the AEAD decryption succeeds (`authentic`), and whether the
decrypted request carries an Echo option equal to the recipient's current `echo_value` (`Echo.good`), a different one
(`Echo.bad`) or none.
-/
namespace Coap.Replay

/-- `OSCORE_SEQ_MAX` (include/oscore/oscore_context.h): `((uint64_t)1 << 40) - 1`. -/
abbrev SEQ_MAX : Nat := 1099511627775   -- = 2^40 - 1; an `abbrev` of a literal so that `omega` takes it as an atom (give it `SEQ_MAX = 1099511627775 := rfl`)

/-- `x << s` on `uint64_t`; no value when `s ≥ 64` (undefined behaviour in C). -/
def shl64 (x s : Nat) : Option Nat :=
  if s ≥ 64 then none else some ((x <<< s) % 2 ^ 64)

/-- `oscore_ctx_t` fields read by the replay code. -/
structure Cfg where
  window : Nat      -- replay_window_size (uint32_t)
  b12 : Bool        -- rfc8613_b_1_2
  deriving DecidableEq, Repr

/-- `oscore_recipient_ctx_t`: the fields of the replay machinery.  `init` is `initial_state == 1`. -/
structure Recip where
  init : Bool
  last : Nat        -- last_seq
  win : Nat         -- sliding_window
  rbInit : Bool     -- rollback_initial_state
  rbLast : Nat      -- rollback_last_seq
  rbWin : Nat       -- rollback_sliding_window
  deriving DecidableEq, Repr

/-- `oscore_add_recipient`: memset 0, `initial_state = 1`. -/
def Recip.fresh : Recip := { init := true, last := 0, win := 0, rbInit := false, rbLast := 0, rbWin := 0 }

/-- "The replay window and sequence state" of the property text. -/
structure View where
  init : Bool
  last : Nat
  win : Nat
  deriving DecidableEq, Repr

def Recip.view (r : Recip) : View := { init := r.init, last := r.last, win := r.win }

/-- Result of `oscore_validate_sender_seq`: returned 1 / returned 0 (with the context as it is left), or the C code
would execute a shift by ≥ 64. -/
inductive VRes where
  | ok (r : Recip)
  | rej (r : Recip)
  | ub
  deriving DecidableEq, Repr

/-- `oscore_validate_sender_seq(ctx, cose)` with `incoming_seq = piv`. -/
def validate (cfg : Cfg) (r : Recip) (piv : Nat) : VRes :=
  if piv ≥ SEQ_MAX then .rej r
  else
    let r := { r with rbLast := r.last, rbWin := r.win, rbInit := r.init }
    if r.init then
      .ok { r with init := false, win := 1, last := piv }
    else if piv > r.last then
      let shift := piv - r.last
      if shift > 63 then
        .ok { r with win := 0 ||| 1, last := piv }
      else
        match shl64 r.win shift with
        | none => .ub
        | some w => .ok { r with win := w ||| 1, last := piv }
    else if piv = r.last then .rej r
    else
      let shift := r.last - piv
      if shift > cfg.window ∨ shift > 63 then .rej r
      else
        match shl64 1 shift with
        | none => .ub
        | some pattern =>
          if r.win &&& pattern ≠ 0 then .rej r
          else .ok { r with win := r.win ||| pattern }

/-- `oscore_roll_back_seq`. -/
def rollback (r : Recip) : Recip :=
  { r with win := r.rbWin, last := r.rbLast, init := r.rbInit }

inductive Echo where
  | none | good | bad
  deriving DecidableEq, Repr

/-- One protected request as the recipient sees it. -/
structure Ev where
  authentic : Bool
  piv : Nat
  echo : Echo
  deriving DecidableEq, Repr

/-- What `coap_oscore_decrypt_pdu` does with a request: returns the decrypted PDU (`acc`), answers 4.01 with a fresh
Echo value (`chal`), 4.01 "Replay detected" (`rej401`), 4.00 "Decryption failed" (`rej400`), nothing (`drop`);
`ub`: undefined behaviour reached. -/
inductive Verdict where
  | acc | chal | rej401 | rej400 | drop | ub
  deriving DecidableEq, Repr

/-- Request path of `coap_oscore_decrypt_pdu` from "8.2 Step 3" on. -/
def recv (cfg : Cfg) (r : Recip) (ev : Ev) : Recip × Verdict :=
  -- seq_validated = rcp_ctx->initial_state == 0 || !osc_ctx->rfc8613_b_1_2;
  let validated := !r.init || !cfg.b12
  match (if validated then validate cfg r ev.piv else .ok r) with
  | .ub => (r, .ub)
  | .rej r1 => (r1, .rej401)
  | .ok r1 =>
    -- 8.2 step 6: decrypt
    if !ev.authentic then
      ((if validated then rollback r1 else r1), .rej400)
    -- Appendix B.1.2 request trap
    else if cfg.b12 && r1.init then
      match ev.echo with
      | .good =>
        match validate cfg r1 ev.piv with
        -- rcp_ctx->sliding_window = ~(uint64_t)0;   RFC 8613 B.1.2: this Partial IV is the LOWER edge of the window,
        -- every lower one counts as received (it may have been, before the restart)
        | .ok r2 => ({ r2 with win := 2 ^ 64 - 1 }, .acc)
        | .rej r2 => (r2, .rej401)
        | .ub => (r1, .ub)
      | .bad => (r1, .drop)
      | .none => (r1, .chal)
    else (r1, .acc)

/-- A whole history: verdict and state after every event. -/
def run (cfg : Cfg) : Recip → List Ev → List (Verdict × Recip)
  | _, [] => []
  | r, ev :: evs =>
    let x := recv cfg r ev
    (x.2, x.1) :: run cfg x.1 evs

/-! ### Responses on the same recipient context

An endpoint that is client and server on one security context receives, from the same peer, requests *and* responses
(Observe notifications) that carry the peer's sender sequence number as their own Partial IV.  Both go through the same
`oscore_recipient_ctx_t` (`association->recipient_ctx` is the context the request was sent on). -/

/-- One protected response as the recipient sees it: does the AEAD verify, and the Partial IV of its OSCORE option
(`none`: the response uses the nonce of the request, `cose->partial_iv.length == 0`). -/
structure Rsp where
  authentic : Bool
  piv : Option Nat
  deriving DecidableEq, Repr

/-- Response path of `coap_oscore_decrypt_pdu` ("8.4 Step 4" … decryption), the association for the token exists.
Verdicts: the decrypted PDU is returned (`acc`) or NULL without any answer (`drop`). -/
def recvRsp (cfg : Cfg) (r : Recip) (m : Rsp) : Recip × Verdict :=
  match m.piv with
  | none =>
    -- cose->partial_iv.length == 0: Partial IV and nonce of the request (association); the context is not touched
    if !m.authentic then (r, .drop) else (r, .acc)
  | some piv =>
    -- prev_last_seq = rcp_ctx->last_seq;
    let prevLast := r.last
    -- if (rcp_ctx->initial_state == 0) { if (!oscore_validate_sender_seq()) goto error; seq_validated = 1; }
    let validated := !r.init
    match (if validated then validate cfg r piv else .ok r) with
    | .ub => (r, .ub)
    | .rej r1 => (r1, .drop)
    | .ok r1 =>
      -- if (rcp_ctx->last_seq >= OSCORE_SEQ_MAX) goto error;      (no roll back on this path)
      if r1.last ≥ SEQ_MAX then (r1, .drop)
      else
        -- if (last_seq > rcp_ctx->last_seq) rcp_ctx->last_seq = last_seq;
        let r2 := if piv > r1.last then { r1 with last := piv } else r1
        -- 8.4 step 5: decrypt; on failure: if (seq_validated) roll back; else if (rcvd_piv.length) last_seq = prev_last_seq
        if !m.authentic then
          ((if validated then rollback r2 else { r2 with last := prevLast }), .drop)
        else (r2, .acc)

/-- A protected message from the peer: a request or a response. -/
inductive Msg where
  | req (e : Ev)
  | rsp (x : Rsp)
  deriving DecidableEq, Repr

def Msg.authentic : Msg → Bool
  | .req e => e.authentic
  | .rsp x => x.authentic

/-- `coap_oscore_decrypt_pdu` on one incoming message (`COAP_PDU_IS_REQUEST` selects the branch). -/
def step (cfg : Cfg) (r : Recip) : Msg → Recip × Verdict
  | .req e => recv cfg r e
  | .rsp x => recvRsp cfg r x

/-! ### Sender side -/

/-- `oscore_sender_ctx_t`. -/
structure Snd where
  seq : Nat
  next : Nat       -- next_seq
  deriving DecidableEq, Repr

/-- `osc_ctx->ssn_freq = oscore_conf->ssn_freq ? oscore_conf->ssn_freq : 1` (`uint32_t`). -/
def effFreq (f : Nat) : Nat := if f % 2 ^ 32 = 0 then 1 else f % 2 ^ 32

/-- `oscore_derive_ctx` with `start_seq_num = start`: the state after a (re)start
(`next_seq = start - start % (ssn_freq > 0 ? ssn_freq : 1)`, `ssn_freq` a `uint32_t`). -/
def restart (f : Nat) (start : Nat) : Snd :=
  { seq := start, next := start - start % (if f % 2 ^ 32 > 0 then f % 2 ^ 32 else 1) }

/-- Result of protecting one message. -/
structure POut where
  piv : Option Nat      -- the Partial IV put on the wire; `none`: refused (sequence numbers exhausted)
  saved : Option Nat    -- value handed to `save_seq_num_func`, if it was called
  deriving DecidableEq, Repr

/-- `coap_oscore_new_pdu_encrypted_lkd`: the PIV is `snd_ctx->seq`, then `oscore_increment_sender_seq`, then the
save watermark (`save_seq_num_func` set). -/
def protect (f : Nat) (s : Snd) : Snd × POut :=
  let piv := s.seq
  let seq' := (s.seq + 1) % 2 ^ 64              -- ctx->sender_context->seq++
  if seq' > SEQ_MAX then ({ s with seq := seq' }, { piv := none, saved := none })   -- `>` since fix 4a03609 (SEQ_MAX - 1 can be used)
  else if seq' > s.next then
    let n := (s.next + effFreq f) % 2 ^ 64
    ({ seq := seq', next := n }, { piv := some piv, saved := some n })
  else ({ s with seq := seq' }, { piv := some piv, saved := none })

/-- Sender-side operations of a history. -/
inductive SOp where
  | protect
  | crash (f : Nat)      -- process dies; restart with `start_seq_num` = the value last handed to the callback, ssn_freq `f`
  deriving DecidableEq, Repr

/-- The sending process together with its persistent store. -/
structure SSys where
  f : Nat
  s : Snd
  stored : Nat
  deriving DecidableEq, Repr

def SSys.start (f start : Nat) : SSys := { f := f, s := restart f start, stored := start }

inductive SObs where
  | sent (o : POut)
  | resumed (seq : Nat)
  deriving DecidableEq, Repr

def sstep (y : SSys) : SOp → SSys × SObs
  | .protect =>
    let x := protect y.f y.s
    ({ y with s := x.1, stored := match x.2.saved with | some v => v | none => y.stored }, .sent x.2)
  | .crash f => ({ f := f, s := restart f y.stored, stored := y.stored }, .resumed y.stored)

def srun : SSys → List SOp → List SObs
  | _, [] => []
  | y, op :: ops =>
    let x := sstep y op
    x.2 :: srun x.1 ops

/-- The Partial IVs put on the wire by a history. -/
def pivs : List SObs → List Nat
  | [] => []
  | .sent o :: r => (match o.piv with | some p => [p] | none => []) ++ pivs r
  | .resumed _ :: r => pivs r

/-! ### Datagram layer: the length of the ciphertext

`coap_oscore_decrypt_pdu` starts with `if (pdu->data == NULL) return NULL;` — a protected message without any payload
is dropped before the OSCORE option is even decoded.  Every other length reaches the sequence number check and the
AEAD; the AEAD (oracle) cannot verify a ciphertext that is not longer than its tag (`Dgram.wf`). -/

/-- `cose_tag_len(COSE_ALGORITHM_AES_CCM_16_64_128)`. -/
abbrev TAG_LEN : Nat := 8

/-- A protected message as it arrives: what its OSCORE option claims / whether the AEAD verifies it (`msg`), and the
length of its ciphertext, 0 = no payload. -/
structure Dgram where
  msg : Msg
  clen : Nat
  deriving DecidableEq, Repr

/-- The AEAD oracle is consistent with the ciphertext length: what verifies is longer than the tag. -/
def Dgram.wf (d : Dgram) : Prop := d.msg.authentic = true → d.clen > TAG_LEN

/-- `coap_oscore_decrypt_pdu` on one datagram. -/
def stepD (cfg : Cfg) (r : Recip) (d : Dgram) : Recip × Verdict :=
  -- if (pdu->data == NULL) { ...; return NULL; }
  if d.clen = 0 then (r, .drop) else step cfg r d.msg

/-! ### Which key and nonce a message is protected with

`coap_oscore_new_pdu_encrypted_lkd` (requests, responses, notifications, the protected 4.01 + Echo challenge of
Appendix B.1.2) together with the association bookkeeping of `coap_oscore_decrypt_pdu` (request path) and of the request
path of `coap_oscore_new_pdu_encrypted_lkd`, the save watermark / persistent store and the restart of the process —
the whole sender side of one security context over its life.  Transcribed from the tree after the fixes 155f0b4 (a
response to an Observe request always uses the Sender Sequence Number), b3c6528 (the association is set up only after the
request has been verified), the R15c fix (a request caught by the Appendix B.1.2 trap leaves no association) and bba9d79 (`is_client`: an association that belongs to a request sent from this end never
protects a response).  The key is always the Sender Key; the nonce is a function of (id, Partial IV): the endpoint's own
Sender ID with its sequence number (`Nonce.own`), or the peer's id with the Partial IV of the request (`Nonce.ofReq`,
`association->nonce`). -/

inductive Nonce where
  | own (piv : Nat)
  | ofReq (piv : Nat)
  deriving DecidableEq, Repr

/-- `oscore_association_t` (`session->associations`, keyed by the token — ONE table for the requests the session sends
and the requests it receives): the nonce (with it AAD and Partial IV) of the request, `is_observe`, `is_client`. -/
structure Assoc where
  nonce : Nonce
  observe : Bool
  client : Bool
  deriving DecidableEq, Repr

/-- An endpoint that is server and client on one security context and one session: recipient context, sender context
with `ssn_freq` and the persistent store of the save callback (`SSys`), and the associations of its session. -/
structure Endp where
  rcp : Recip
  sys : SSys
  assocs : Nat → Option Assoc

/-- the endpoint after a (re)start with `ssn_freq = f`, `start_seq_num = start` -/
def Endp.start (f start : Nat) : Endp := { rcp := Recip.fresh, sys := SSys.start f start, assocs := fun _ => none }

def Endp.fresh : Endp := Endp.start 1 0

def Endp.snd (e : Endp) : Snd := e.sys.s

inductive NOp where
  | reqIn (token : Nat) (ev : Ev) (observe : Bool)      -- a protected request (inner Observe option or not) arrives
  | sendReq (token : Nat) (observeOpt : Bool) (dereg : Bool)   -- the endpoint protects a request of its own (Observe option? value 1?)
  | sendRsp (token : Nat) (observeOpt : Bool) (sendPiv : Bool)   -- it protects a response (Observe option? OSCORE_SEND_PARTIAL_IV?)
  | crash (f : Nat)       -- the process dies; restart with `start_seq_num` = the value last handed to the save callback, ssn_freq `f`
  deriving DecidableEq, Repr

inductive NObs where
  | verdict (v : Verdict)
  | sent (piv : Option Nat) (nonce : Nonce)     -- Partial IV in the OSCORE option, nonce handed to the AEAD
  | chal (piv : Option Nat)     -- Appendix B.1.2: the 4.01 + Echo, protected with this Partial IV of its own (`none`: it could not be protected, nothing is sent)
  | err
  | resumed (seq : Nat)
  deriving DecidableEq, Repr

/-- Did the request get past "8.2 Step 3" and the decryption (the code after it sets the association up)? -/
def decrypted (cfg : Cfg) (r : Recip) (ev : Ev) : Bool :=
  let validated := !r.init || !cfg.b12
  match (if validated then validate cfg r ev.piv else .ok r) with
  | .ok _ => ev.authentic
  | _ => false

def setAssoc (a : Nat → Option Assoc) (t : Nat) (v : Option Assoc) : Nat → Option Assoc :=
  fun t' => if t' = t then v else a t'

/-- the part of `coap_oscore_new_pdu_encrypted_lkd` that takes the Partial IV from the Sender Sequence Number and runs
the save watermark: `none` = `oscore_increment_sender_seq` refused (the counter is incremented all the same). -/
def ownPiv (y : SSys) : SSys × Option Nat :=
  let x := protect y.f y.s
  ({ y with s := x.1, stored := match x.2.saved with | some v => v | none => y.stored }, x.2.piv)

/-- `coap_oscore_new_pdu_encrypted_lkd` for a response with token `t` -/
def respond (e : Endp) (t : Nat) (obsOpt sendPiv : Bool) : Endp × NObs :=
  match e.assocs t with
  | none => (e, .err)                                   -- association == NULL: goto error
  | some a =>
    if a.client then (e, .err)                          -- || association->is_client: goto error
    else
      -- if (association->is_observe && !doing_observe && send_partial_iv == OSCORE_SEND_NO_IV) send_partial_iv = OSCORE_SEND_PARTIAL_IV;
      let sendPiv := sendPiv || (a.observe && !obsOpt)
      if obsOpt || sendPiv then
        let x := ownPiv e.sys
        match x.2 with
        | none => ({ e with sys := x.1 }, .err)
        | some p =>
          -- if (association && association->is_observe == 0) oscore_delete_association()
          ({ e with sys := x.1, assocs := if a.observe then e.assocs else setAssoc e.assocs t none }, .sent (some p) (.own p))
      else
        -- 8.3 Step 3: nonce of the request; no Partial IV in the option
        ({ e with assocs := if a.observe then e.assocs else setAssoc e.assocs t none }, .sent none a.nonce)

/-- `is_observe` of the association a verified request finds for its token (kept), 0 for a new one -/
def keptObserve (a : Nat → Option Assoc) (t : Nat) : Bool :=
  match a t with | some x => x.observe | none => false

/-- `association->is_observe = 1` for the association of the token, if there is one -/
def markObserve (a : Nat → Option Assoc) (t : Nat) : Nat → Option Assoc :=
  match a t with | some x => setAssoc a t (some { x with observe := true }) | none => a

/-- the Partial IV the challenge went out with -/
def chalPiv : NObs → Option Nat
  | .sent p _ => p
  | _ => none

def nstep (cfg : Cfg) (e : Endp) : NOp → Endp × NObs
  | .reqIn t ev obs =>
    let x := recv cfg e.rcp ev
    -- after a successful decryption: find / refresh / create the association of the token (is_observe kept / 0, is_client = 0)
    let a1 := if decrypted cfg e.rcp ev then
        setAssoc e.assocs t (some { nonce := .ofReq ev.piv, observe := keptObserve e.assocs t, client := false })
      else e.assocs
    if x.2 = .chal then
      -- Appendix B.1.2 trap: build_and_send_error_pdu(…, echo_value, NULL, 1) protects the 4.01 as a response for this
      -- token with send_partial_iv = 1
      let y := respond { e with rcp := x.1, assocs := a1 } t false true
      -- the request is not handed to the application: oscore_delete_association(oscore_find_association(token))
      ({ y.1 with assocs := setAssoc y.1.assocs t none }, .chal (chalPiv y.2))
    else if decrypted cfg e.rcp ev && x.2 != .acc then
      -- the other two exits of the trap (wrong Echo value: `drop`; the Echo request fails the validation: `rej401`): the
      -- request was decrypted but is not handed to the application, its association is deleted
      ({ e with rcp := x.1, assocs := setAssoc a1 t none }, .verdict x.2)
    else
      -- inner Observe option of an accepted request: association->is_observe = 1
      let a2 := if x.2 = .acc ∧ obs then markObserve a1 t else a1
      ({ e with rcp := x.1, assocs := a2 }, .verdict x.2)
  | .sendReq t obsOpt dereg =>
    let x := ownPiv e.sys
    match x.2 with
    | none => ({ e with sys := x.1 }, .err)
    | some p =>
      -- found: is_client = 1, is_observe = doing_observe && observe_value != 1, nonce / aad / partial_iv replaced;
      -- not found: oscore_new_association(…, doing_observe), is_client = 1
      let a : Assoc := match e.assocs t with
        | some _ => { nonce := .own p, observe := obsOpt && !dereg, client := true }
        | none => { nonce := .own p, observe := obsOpt, client := true }
      ({ e with sys := x.1, assocs := setAssoc e.assocs t (some a) }, .sent (some p) (.own p))
  | .sendRsp t obsOpt sendPiv => respond e t obsOpt sendPiv
  | .crash f =>
    -- new process: oscore_derive_ctx with start_seq_num = the stored value, a fresh recipient context, a new session
    ({ rcp := Recip.fresh, sys := { f := f, s := restart f e.sys.stored, stored := e.sys.stored }, assocs := fun _ => none },
      .resumed e.sys.stored)

def nrun (cfg : Cfg) : Endp → List NOp → List NObs
  | _, [] => []
  | e, op :: ops =>
    let x := nstep cfg e op
    x.2 :: nrun cfg x.1 ops

/-- the nonce handed to the AEAD (always with the Sender Key) by one operation -/
def nemit : NObs → List Nonce
  | .sent _ n => [n]
  | .chal (some p) => [.own p]
  | _ => []

/-- The nonces handed to the AEAD (always with the Sender Key) in a history. -/
def nonces : List NObs → List Nonce
  | [] => []
  | o :: r => nemit o ++ nonces r

end Coap.Replay
