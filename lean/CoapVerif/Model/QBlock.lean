import CoapVerif.Model.Block
/-
M — faithful model of the RFC 9177 (Q-Block) parts of src/coap_block.c a hostile peer reaches (C02):

  derive_cbor_value                                        (static; one CBOR unsigned integer of the 4.08 payload)
  coap_handle_response_send_block, branch
      `rcvd->code == 4.08 && lg_xmit->option == COAP_OPTION_Q_BLOCK1`      `q408` (client: which blocks are sent again)
  add_408_block                                            (static; server: one block number appended to the 4.08 payload)
  coap_block_check_lg_srcv_timeouts, the Q-Block1 arm      `missing408` (server: which blocks a 4.08 reports missing)
  check_all_blocks_in_for_payload_set,
  check_any_blocks_next_payload_set                        (static; client, Q-Block2 payload-set tests on `rec_blocks`)

Conventions as in Model/Block.lean.  A pointer into the payload (`bp`) is the list of bytes from there to the end of the
payload (`data + length`), so `data + length - bp` is the length of that list and `*bp` on `[]` is `R.oob`: the model can
SAY that the algorithm reads behind the payload.  `rem_len` is kept as the separate argument the C function gets.
`uint32_t` results are `Nat`s below 2^32; `(uint32_t)-1` is `2^32 - 1`.
-/
namespace Coap.QBlock
open Coap Coap.Block

/-- `(uint32_t)-1` -/
def cborFail : Nat := 2 ^ 32 - 1

/-- `derive_cbor_value(&bp, rem_len)`: the value and the advanced `bp`.
`value = **bp & 0x1f; (*bp)++;` then 0 / 1 / 2 / 4 more bytes; the additional-information values 27..31 take the 4-byte
arm as in the C (`value == 24`, `value == 25`, else).  After the fixes f2fc9d2 (`rem_len < 5`) and b3dddfc (`(uint32_t)`
before `<< 24`). -/
def deriveCbor (bp : Bytes) (remLen : Nat) : R (Nat × Bytes) :=
  match bp with
  | [] => .oob
  | b0 :: r1 =>
    let v := b0.toNat % 32
    if v < 24 then .ok (v, r1)
    else if v = 24 then
      if remLen < 2 then .ok (cborFail, r1)
      else match r1 with
        | b1 :: r2 => .ok (b1.toNat, r2)
        | [] => .oob
    else if v = 25 then
      if remLen < 3 then .ok (cborFail, r1)
      else match r1 with
        | b1 :: b2 :: r3 => .ok (b1.toNat * 256 + b2.toNat, r3)
        | _ => .oob
    else
      if remLen < 5 then .ok (cborFail, r1)
      else match r1 with
        | b1 :: b2 :: b3 :: b4 :: r5 => .ok (b1.toNat * 16777216 + b2.toNat * 65536 + b3.toNat * 256 + b4.toNat, r5)
        | _ => .oob

/-- how the 4.08 branch ends -/
inductive Q408End where
  | done       -- `return 1` (loop ran out of payload or of MAX_PAYLOADS)
  | failCbor   -- `goto fail_cbor` → `lg_xmit_finished`: the transfer is given up, the application sees the 4.08
  | failBody   -- `goto fail_body`: the same with the code rewritten to 5.00
  deriving Repr, DecidableEq

/-- one retransmitted block: NUM, M bit, payload -/
structure QTx where
  num : Nat
  m : Nat
  payload : Bytes
  deriving Repr, DecidableEq

structure Q408Out where
  sent : List QTx
  fin : Q408End
  deriving Repr, DecidableEq

/-- The `for (i = 0; (bp < data + length) && i < COAP_MAX_PAYLOADS(session); i++)` loop; `n` = MAX_PAYLOADS - i (the
number of iterations still allowed), `acc` = the messages sent so far (reversed).  Allocation and transmission succeed
(`coap_pdu_duplicate_lkd`, `coap_send_internal`: external). -/
def q408Loop (body : Bytes) (szx : Nat) : Nat → Bytes → List QTx → R Q408Out
  | 0, _, acc => .ok ⟨acc.reverse, .done⟩
  | n + 1, bp, acc =>
    match bp with
    | [] => .ok ⟨acc.reverse, .done⟩                                    -- bp == data + length
    | b0 :: _ =>
      if b0.toNat / 64 ≠ 0 then .ok ⟨acc.reverse, .failCbor⟩             -- (*bp & 0xc0) != 0x00
      else
        match deriveCbor bp bp.length with
        | .oob => .oob
        | .rej => .rej
        | .ok (num, bp') =>
          if num > 2 ^ 20 - 1 then .ok ⟨acc.reverse, .failCbor⟩
          else
            match addBlock body num szx with                            -- coap_add_block: len <= start → 0
            | none => .ok ⟨acc.reverse, .failBody⟩
            | some p => q408Loop body szx n bp' (⟨num, moreBit body.length num szx, p⟩ :: acc)

/-- the 4.08 branch from `coap_get_data` on: no payload → `fail_cbor` -/
def q408 (maxPayloads : Nat) (body : Bytes) (szx : Nat) (payload : Bytes) : R Q408Out :=
  if payload = [] then .ok ⟨[], .failCbor⟩ else q408Loop body szx maxPayloads payload []

/-- `fmt_opt ? coap_decode_var_bytes(…) : COAP_MEDIATYPE_TEXT_PLAIN` narrowed to `uint16_t` -/
def fmtOf : Option Nat → Nat
  | some f => f % 65536
  | none => 0

/-- what happens in front of the loop: Content-Format must be application/missing-blocks+cbor-seq (272; absent =
text/plain = 0) else `fail_body`; a 4.08 that is not Non-confirmable is ignored (`return 1`). -/
def q408Branch (maxPayloads : Nat) (body : Bytes) (szx : Nat) (fmt : Option Nat) (isNon : Bool) (payload : Bytes) : R Q408Out :=
  if fmtOf fmt ≠ 272 then .ok ⟨[], .failBody⟩
  else if !isNon then .ok ⟨[], .done⟩
  else q408 maxPayloads body szx payload

/-! ## server: the 4.08 payload -/

/-- `add_408_block(pdu, block)`: the bytes appended (`none`: refused, `block ≥ 2^20`; room in the PDU: external) -/
def add408Block (block : Nat) : Option Bytes :=
  if block ≥ 2 ^ 20 then none
  else if block < 24 then some [UInt8.ofNat block]
  else if block < 256 then some [24, UInt8.ofNat block]
  else if block < 65536 then some [25, UInt8.ofNat (block / 256), UInt8.ofNat (block % 256)]
  else some [26, 0, UInt8.ofNat (block / 65536), UInt8.ofNat ((block / 256) % 256), UInt8.ofNat (block % 256)]

/-- the whole list (the last arm of `add_408_block` used to write THREE bytes behind the initial byte 26, fix 5bf13ec) -/
def encode408 : List Nat → Option Bytes
  | [] => some []
  | b :: rest =>
    match add408Block b, encode408 rest with
    | some x, some y => some (x ++ y)
    | _, _ => none

/-! ## client: Q-Block2 payload-set tests on `rec_blocks` -/

/-- `check_all_blocks_in_for_payload_set(session, rec_blocks)` -/
def allInForPayloadSet (maxPayloads : Nat) (rs : Ranges) (processing : Nat) : Bool :=
  match rs with
  | [] => false
  | (_, e) :: _ => decide ((e + 1) / maxPayloads > processing)

/-- `check_any_blocks_next_payload_set(session, rec_blocks)` -/
def anyNextPayloadSet (maxPayloads : Nat) (rs : Ranges) (processing : Nat) : Bool :=
  match rs with
  | _ :: (b1, _) :: _ => decide (b1 / maxPayloads = processing)
  | _ => false

/-! ## the missing blocks of a `rec_blocks` -/

/-- `block + 1` for the running `int block` of the two loops below (−1 = `none`) -/
def nxt : Option Nat → Nat
  | none => 0
  | some k => k + 1

/-- The two loops `coap_request_missing_q_block2` (client) and the Q-Block1 arm of `coap_block_check_lg_srcv_timeouts`
(server) share: walk the ranges with the running `block` (last one seen, −1 at the start = `none`) and list the numbers
in the gaps in front of each range.  `block < (int)begin && begin != 0` then `block++; for (; block < begin; block++)`. -/
def gapLoop : Ranges → Option Nat → List Nat → Option Nat × List Nat
  | [], block, acc => (block, acc)
  | (b, e) :: rest, block, acc =>
    let first := nxt block          -- block + 1 (`nxt`: −1 = `none`);  block < begin ⇔ block + 1 ≤ begin
    if first ≤ b ∧ b ≠ 0 then
      -- the inner loop lists first .. begin - 1 and leaves `block == begin`; then `if (block < end) block = end`
      gapLoop rest (some (if b < e then e else b)) (acc ++ (List.range (b - first)).map (· + first))
    else
      gapLoop rest (match block with | none => some e | some k => if k < e then some e else some k) acc

/-- the server's list: gaps, then the trailing blocks up to `finalBlock` (computed by the caller from total_len and the
payload set; `none` = `(int)final_block < 0`) -/
def missing408 (rs : Ranges) (finalBlock : Option Nat) : List Nat :=
  let (block, gaps) := gapLoop rs none []
  let first := nxt block
  match finalBlock with
  | none => gaps
  | some f => gaps ++ (List.range (f + 1 - first)).map (· + first)

end Coap.QBlock
