import CoapVerif.Model.Block
/-
M — faithful model of the RFC 9177 (Q-Block) parts of src/coap_block.c a hostile peer reaches (C02):

  derive_cbor_value                                        (static; one CBOR unsigned integer of the 4.08 payload)
  coap_handle_response_send_block, branch
      `rcvd->code == 4.08 && lg_xmit->option == COAP_OPTION_Q_BLOCK1`      `q408` (client: which blocks are sent again)
  add_408_block                                            (static; server: one block number appended to the 4.08 payload)
  coap_block_check_lg_srcv_timeouts, the Q-Block1 arm      `missing408` (server: which blocks a 4.08 reports missing)
  check_all_blocks_in_for_payload_set,
  check_any_blocks_next_payload_set                        (static; client, Q-Block2 payload-set tests on `rec_blocks`)

Conventions as in Model/Block.lean.  A pointer into the payload (`bp`) is the list of bytes from there to the end of the
payload (`data + length`), so `data + length - bp` is the length of that list and `*bp` on `[]` is `R.oob`: the model can
SAY that the algorithm reads behind the payload.  `rem_len` is kept as the separate argument the C function gets.
`uint32_t` results are `Nat`s below 2^32; `(uint32_t)-1` is `2^32 - 1`.
-/
namespace Coap.QBlock
open Coap Coap.Block

/-- `(uint32_t)-1` -/
def cborFail : Nat := 2 ^ 32 - 1

/-- `derive_cbor_value(&bp, rem_len)`: the value and the advanced `bp`.
`value = **bp & 0x1f; (*bp)++;` then 0 / 1 / 2 / 4 more bytes; the additional-information values 27..31 take the 4-byte
arm as in the C (`value == 24`, `value == 25`, else).  After the fixes f2fc9d2 (`rem_len < 5`) and b3dddfc (`(uint32_t)`
before `<< 24`). -/
def deriveCbor (bp : Bytes) (remLen : Nat) : R (Nat × Bytes) :=
  match bp with
  | [] => .oob
  | b0 :: r1 =>
    let v := b0.toNat % 32
    if v < 24 then .ok (v, r1)
    else if v = 24 then
      if remLen < 2 then .ok (cborFail, r1)
      else match r1 with
        | b1 :: r2 => .ok (b1.toNat, r2)
        | [] => .oob
    else if v = 25 then
      if remLen < 3 then .ok (cborFail, r1)
      else match r1 with
        | b1 :: b2 :: r3 => .ok (b1.toNat * 256 + b2.toNat, r3)
        | _ => .oob
    else
      if remLen < 5 then .ok (cborFail, r1)
      else match r1 with
        | b1 :: b2 :: b3 :: b4 :: r5 => .ok (b1.toNat * 16777216 + b2.toNat * 65536 + b3.toNat * 256 + b4.toNat, r5)
        | _ => .oob

/-- how the 4.08 branch ends -/
inductive Q408End where
  | done       -- `return 1` (loop ran out of payload or of MAX_PAYLOADS)
  | failCbor   -- `goto fail_cbor` → `lg_xmit_finished`: the transfer is given up, the application sees the 4.08
  | failBody   -- `goto fail_body`: the same with the code rewritten to 5.00
  deriving Repr, DecidableEq

/-- one retransmitted block: NUM, M bit, payload -/
structure QTx where
  num : Nat
  m : Nat
  payload : Bytes
  deriving Repr, DecidableEq

structure Q408Out where
  sent : List QTx
  fin : Q408End
  deriving Repr, DecidableEq

/-- The `for (i = 0; (bp < data + length) && i < COAP_MAX_PAYLOADS(session); i++)` loop; `n` = MAX_PAYLOADS - i (the
number of iterations still allowed), `acc` = the messages sent so far (reversed).  Allocation and transmission succeed
(`coap_pdu_duplicate_lkd`, `coap_send_internal`: external). -/
def q408Loop (body : Bytes) (szx : Nat) : Nat → Bytes → List QTx → R Q408Out
  | 0, _, acc => .ok ⟨acc.reverse, .done⟩
  | n + 1, bp, acc =>
    match bp with
    | [] => .ok ⟨acc.reverse, .done⟩                                    -- bp == data + length
    | b0 :: _ =>
      if b0.toNat / 64 ≠ 0 then .ok ⟨acc.reverse, .failCbor⟩             -- (*bp & 0xc0) != 0x00
      else
        match deriveCbor bp bp.length with
        | .oob => .oob
        | .rej => .rej
        | .ok (num, bp') =>
          if num > 2 ^ 20 - 1 then .ok ⟨acc.reverse, .failCbor⟩
          else
            match addBlock body num szx with                            -- coap_add_block: len <= start → 0
            | none => .ok ⟨acc.reverse, .failBody⟩
            | some p => q408Loop body szx n bp' (⟨num, moreBit body.length num szx, p⟩ :: acc)

/-- the 4.08 branch from `coap_get_data` on: no payload → `fail_cbor` -/
def q408 (maxPayloads : Nat) (body : Bytes) (szx : Nat) (payload : Bytes) : R Q408Out :=
  if payload = [] then .ok ⟨[], .failCbor⟩ else q408Loop body szx maxPayloads payload []

/-- `fmt_opt ? coap_decode_var_bytes(…) : COAP_MEDIATYPE_TEXT_PLAIN` narrowed to `uint16_t` -/
def fmtOf : Option Nat → Nat
  | some f => f % 65536
  | none => 0

/-- what happens in front of the loop: Content-Format must be application/missing-blocks+cbor-seq (272; absent =
text/plain = 0) else `fail_body`; a 4.08 that is not Non-confirmable is ignored (`return 1`). -/
def q408Branch (maxPayloads : Nat) (body : Bytes) (szx : Nat) (fmt : Option Nat) (isNon : Bool) (payload : Bytes) : R Q408Out :=
  if fmtOf fmt ≠ 272 then .ok ⟨[], .failBody⟩
  else if !isNon then .ok ⟨[], .done⟩
  else q408 maxPayloads body szx payload

/-! ## server: the 4.08 payload -/

/-- `add_408_block(pdu, block)`: the bytes appended (`none`: refused, `block ≥ 2^20`; room in the PDU: external) -/
def add408Block (block : Nat) : Option Bytes :=
  if block ≥ 2 ^ 20 then none
  else if block < 24 then some [UInt8.ofNat block]
  else if block < 256 then some [24, UInt8.ofNat block]
  else if block < 65536 then some [25, UInt8.ofNat (block / 256), UInt8.ofNat (block % 256)]
  else some [26, 0, UInt8.ofNat (block / 65536), UInt8.ofNat ((block / 256) % 256), UInt8.ofNat (block % 256)]

/-- the whole list (the last arm of `add_408_block` used to write THREE bytes behind the initial byte 26, fix 5bf13ec) -/
def encode408 : List Nat → Option Bytes
  | [] => some []
  | b :: rest =>
    match add408Block b, encode408 rest with
    | some x, some y => some (x ++ y)
    | _, _ => none

/-! ## client: Q-Block2 payload-set tests on `rec_blocks` -/

/-- `check_all_blocks_in_for_payload_set(session, rec_blocks)` -/
def allInForPayloadSet (maxPayloads : Nat) (rs : Ranges) (processing : Nat) : Bool :=
  match rs with
  | [] => false
  | (_, e) :: _ => decide ((e + 1) / maxPayloads > processing)

/-- `check_any_blocks_next_payload_set(session, rec_blocks)` -/
def anyNextPayloadSet (maxPayloads : Nat) (rs : Ranges) (processing : Nat) : Bool :=
  match rs with
  | _ :: (b1, _) :: _ => decide (b1 / maxPayloads = processing)
  | _ => false

/-! ## the missing blocks of a `rec_blocks` -/

/-- `block + 1` for the running `int block` of the two loops below (−1 = `none`) -/
def nxt : Option Nat → Nat
  | none => 0
  | some k => k + 1

/-- The two loops `coap_request_missing_q_block2` (client) and the Q-Block1 arm of `coap_block_check_lg_srcv_timeouts`
(server) share: walk the ranges with the running `block` (last one seen, −1 at the start = `none`) and list the numbers
in the gaps in front of each range.  `block < (int)begin && begin != 0` then `block++; for (; block < begin; block++)`. -/
def gapLoop : Ranges → Option Nat → List Nat → Option Nat × List Nat
  | [], block, acc => (block, acc)
  | (b, e) :: rest, block, acc =>
    let first := nxt block          -- block + 1 (`nxt`: −1 = `none`);  block < begin ⇔ block + 1 ≤ begin
    if first ≤ b ∧ b ≠ 0 then
      -- the inner loop lists first .. begin - 1 and leaves `block == begin`; then `if (block < end) block = end`
      gapLoop rest (some (if b < e then e else b)) (acc ++ (List.range (b - first)).map (· + first))
    else
      gapLoop rest (match block with | none => some e | some k => if k < e then some e else some k) acc

/-- the server's list: gaps, then the trailing blocks up to `finalBlock` (computed by the caller from total_len and the
payload set; `none` = `(int)final_block < 0`) -/
def missing408 (rs : Ranges) (finalBlock : Option Nat) : List Nat :=
  let (block, gaps) := gapLoop rs none []
  let first := nxt block
  match finalBlock with
  | none => gaps
  | some f => gaps ++ (List.range (f + 1 - first)).map (· + first)

/-! ## payload-set arithmetic (round R02Qb)

  coap_request_missing_q_block2                      `reqMissingQ2`  (client: which Q-Block2 numbers one recovery request names)
  coap_send_q_blocks (NON, datagram transport)        `sendQNon`      (which blocks follow the first one of a burst)
  coap_handle_response_get_block, the Q-Block2 path   `q2Step`        (client: rec_blocks / total_len / processing_payload_set
                                                                       bookkeeping for one arriving 2.xx response)

`int block = -1` is `Option Nat` with `nxt` as above; allocation / transmission (coap_build_missing_pdu,
coap_pdu_duplicate_lkd, coap_send_internal, coap_block_build_body) succeed: external. -/

/-- `for (; block < lim && block_payload_set == block / MAX_PAYLOADS; block++) coap_insert_option(Q-Block2 block)`; the
fuel is `lim - block` at the call.  Result: the final `block` and the numbers listed. -/
def reqRun (mp bps lim : Nat) : Nat → Nat → List Nat → Nat × List Nat
  | 0, block, acc => (block, acc)
  | f + 1, block, acc =>
    if block < lim ∧ block / mp = bps then reqRun mp bps lim f (block + 1) (acc ++ [block]) else (block, acc)

/-- `if (block_payload_set == -1) block_payload_set = block / COAP_MAX_PAYLOADS(session);` -/
def setBps (mp : Nat) (bps : Option Nat) (block : Nat) : Nat :=
  match bps with
  | some s => s
  | none => block / mp

/-- `if (block < (int)range[i].end) block = range[i].end;` -/
def bumpTo (block : Option Nat) (e : Nat) : Option Nat :=
  match block with
  | none => some e
  | some k => if k < e then some e else some k

/-- the `for (i = 0; i < rec_blocks.used; i++)` loop of `coap_request_missing_q_block2`: state `block`,
`block_payload_set`, the numbers listed so far -/
def reqGaps (mp : Nat) : Ranges → Option Nat → Option Nat → List Nat → Option Nat × Option Nat × List Nat
  | [], block, bps, acc => (block, bps, acc)
  | (b, e) :: rest, block, bps, acc =>
    if nxt block ≤ b ∧ b ≠ 0 then
      let s := setBps mp bps (nxt block)
      let r := reqRun mp s b (b - nxt block) (nxt block) acc
      reqGaps mp rest (bumpTo (some r.1) e) (some s) r.2
    else
      reqGaps mp rest (bumpTo block e) bps acc

/-- the test in front of the `M` variant (`COAP_BLOCK_USE_M_Q_BLOCK`): `used && (used < 2 || (range[0].end + 1) / MP !=
(range[1].begin - 1) / MP)` in `uint32_t` arithmetic; `some (range[0].end + 1)` when it holds -/
def mVariant (mp : Nat) : Ranges → Option Nat
  | [] => none
  | [(_, e0)] => some (e0 + 1)
  | (_, e0) :: (b1, _) :: _ =>
    if ((e0 + 1) % 2 ^ 32) / mp ≠ ((b1 + 2 ^ 32 - 1) % 2 ^ 32) / mp then some (e0 + 1) else none

/-- `size_t total_len = lg_crcv->total_len; if (total_len > (0x100000 << (szx + 4))) total_len = 0x100000 << (szx + 4);`
(fix for finding c02-qblock2-num-2e20: the NUM of a Q-Block2 option has 20 bits) -/
def q2ClampLen (szx totalLen : Nat) : Nat :=
  if totalLen > 2 ^ 20 * 2 ^ (szx + 4) then 2 ^ 20 * 2 ^ (szx + 4) else totalLen

/-- `coap_request_missing_q_block2` behind the clamp: `totalLen` is the local `total_len` -/
def reqMissingQ2At (mp : Nat) (useM : Bool) (rs : Ranges) (szx totalLen : Nat) : List (Nat × Nat) × Option Nat :=
  let bs := 2 ^ (szx + 4)
  let viaM : Option Nat := if useM then mVariant mp rs else none
  let mOk : Option Nat := match viaM with
    | some blk => if blk * bs < totalLen then some blk else none
    | none => none
  match mOk with
  | some blk => ([(blk, 1)], some (blk / mp))
  | none =>
    let g := reqGaps mp rs none none []
    if nxt g.1 * bs < totalLen then
      let nb := (totalLen + bs - 1) / bs
      let s := setBps mp g.2.1 (nxt g.1)
      let t := reqRun mp s nb (nb - nxt g.1) (nxt g.1) g.2.2
      (t.2.map (fun n => (n, 0)), some s)
    else
      (g.2.2.map (fun n => (n, 0)), g.2.1)

/-- what one call of `coap_request_missing_q_block2` asks for: the Q-Block2 options (NUM, M) of the one request it sends
(`[]`: none is sent) and the new `processing_payload_set` (`none`: unchanged). -/
def reqMissingQ2 (mp : Nat) (useM : Bool) (rs : Ranges) (szx totalLen : Nat) : List (Nat × Nat) × Option Nat :=
  reqMissingQ2At mp useM rs szx (q2ClampLen szx totalLen)

/-- the `while (block_pdu)` loop of `coap_send_q_blocks` for a Non-confirmable message on a datagram transport: `num` is the
block sent before; lists (NUM, M) of the blocks sent.  `coap_add_block` refusing (`len <= start`) ends it. -/
def sendQLoop (mp len szx : Nat) : Nat → Nat → List (Nat × Nat) → List (Nat × Nat)
  | 0, _, acc => acc
  | f + 1, num, acc =>
    let n := num + 1
    if len ≤ blockOffset n szx then acc
    else if moreBit len n szx = 1 ∧ (n % mp) + 1 ≠ mp then sendQLoop mp len szx f n (acc ++ [(n, 1)])
    else acc ++ [(n, moreBit len n szx)]

/-- `coap_send_q_blocks(session, lg_xmit, block, pdu, …)`, NON, datagram: the blocks that FOLLOW block `num` (which the
caller's PDU carries: sent first with COAP_SEND_INC_PDU, already sent with COAP_SEND_SKIP_PDU).  The test in front looks at
`num + 1`: `block.m && ((block.num + 1) % MAX_PAYLOADS) + 1 != MAX_PAYLOADS`. -/
def sendQNon (mp len szx num : Nat) (m : Bool) : List (Nat × Nat) :=
  if m = true ∧ ((num + 1) % mp) + 1 ≠ mp then sendQLoop mp len szx len num [] else []

/-! ### the client's Q-Block2 bookkeeping for one arriving response -/

structure Q2State where
  initial : Bool
  etagSet : Bool
  etag : Bytes
  totalLen : Nat
  fmt : Nat
  szx : Nat
  rs : Ranges
  processing : Nat
  latest : Nat
  deriving Repr, DecidableEq

/-- one 2.xx response with a Q-Block2 option (NUM < 2^20, M, SZX ≤ 6 as `coap_get_block_b` delivers them), its payload
length, Size2, ETag, Content-Format -/
structure Q2In where
  num : Nat
  m : Nat
  szx : Nat
  length : Nat
  size2 : Option Nat
  etag : Option Bytes
  fmt : Nat
  deriving Repr, DecidableEq

inductive Q2End where
  | notBlock    -- `!(have_block && (block.m || length))`
  | expire402   -- undersized: 4.02, `goto expire_lg_crcv`
  | fail        -- `goto fail_resp`
  | skip        -- `goto skip_app_handler`
  | next        -- the `continue` request for the next payload set was sent, then skip_app_handler
  | app         -- `give_to_app`: the body is complete
  deriving Repr, DecidableEq

/-- the body of `if (lg_crcv->initial)` (also the target of `goto reinit`) -/
def q2Reinit (st : Q2State) (i : Q2In) (size2 : Nat) : Q2State :=
  { st with initial := false,
            etagSet := i.etag.isSome,
            etag := (match i.etag with | some e => e | none => st.etag),
            totalLen := size2, fmt := i.fmt, szx := i.szx, rs := [], processing := 0 }

def size2Of : Option Nat → Nat
  | some v => v
  | none => 0

/-- `size2` after `if (size2 < offset + length) size2 = offset + length + (block.m ? 1 : 0)` -/
def q2Size2 (i : Q2In) (length : Nat) : Nat :=
  let offset := i.num * 2 ^ (i.szx + 4)
  if size2Of i.size2 < offset + length then (if i.m = 1 then offset + length + 1 else offset + length) else size2Of i.size2

/-- `full_match(etag_opt value, lg_crcv->etag)` fails -/
def etagDiffers (st : Q2State) : Option Bytes → Bool
  | some e => decide (e ≠ st.etag)
  | none => false

/-- `if (lg_crcv->initial) { … }` -/
def q2Init (st : Q2State) (i : Q2In) (size2 : Nat) : Q2State := if st.initial then q2Reinit st i size2 else st

/-- `if (lg_crcv->total_len < size2) lg_crcv->total_len = size2;` -/
def q2Bump (st : Q2State) (size2 : Nat) : Q2State := if st.totalLen < size2 then { st with totalLen := size2 } else st

/-- ETag differs: Q-Block2 → `goto reinit` (and down again: now it matches) -/
def q2Etag (st : Q2State) (i : Q2In) (size2 : Nat) : Q2State := if etagDiffers st i.etag then q2Reinit st i size2 else st

/-- the tests that end in `fail_resp`: ETag missing, Content-Format, block size, Size2 -/
def q2Fails (st : Q2State) (i : Q2In) (size2 : Nat) : Bool :=
  if i.etag.isNone ∧ st.etagSet then true
  else if i.fmt ≠ st.fmt then true
  else if i.szx ≠ st.szx then true
  else if size2 ≠ st.totalLen then true
  else false

/-- from `if (lg_crcv->initial)` to the Size2 test: the state, and whether `fail_resp` is taken -/
def q2Pre (st : Q2State) (i : Q2In) (size2 : Nat) : Q2State × Bool :=
  let st3 := q2Etag (q2Bump (q2Init st i size2) size2) i size2
  (st3, q2Fails st3 i size2)

/-- inside the loop, in front of `update_received_blocks`: a block of a later payload set than the one being processed (and
not the set of the block seen last) → `coap_request_missing_q_block2`; `latest_payload_set = this_payload_set` -/
def q2Asked (mp : Nat) (useM : Bool) (st : Q2State) (num : Nat) : Q2State × List (List (Nat × Nat)) :=
  let thisSet := num / mp
  let rq := reqMissingQ2 mp useM st.rs st.szx st.totalLen
  if st.rs ≠ [] ∧ thisSet > st.processing ∧ thisSet ≠ st.latest then
    ({ st with processing := (match rq.2 with | some s => s | none => st.processing), latest := thisSet },
     if rq.1 ≠ [] then [rq.1] else [])
  else ({ st with latest := thisSet }, [])

/-- the `while (offset < saved_offset + length)` loop: ONE iteration for Q-Block2 on a datagram transport (0 < length ≤
chunk).  State, recovery requests sent, `updated_block` (`none` = `update_received_blocks` refused: `fail_resp`). -/
def q2Record (cap mp : Nat) (useM : Bool) (st : Q2State) (num : Nat) : Q2State × List (List (Nat × Nat)) × Option Bool :=
  if checkIfReceived st.rs num then (st, [], some false)
  else
    let a := q2Asked mp useM st num
    let u := updateReceived cap a.1.rs num
    if u.1 then ({ a.1 with rs := u.2 }, a.2, some true) else (a.1, a.2, none)

/-- `range[0].end` -/
def firstEnd : Ranges → Nat
  | [] => 0
  | (_, e) :: _ => e

/-- behind the loop (`if (updated_block)`), COAP_BLOCK_SINGLE_BODY, datagram transport -/
def q2Decide (mp : Nat) (useM isNon : Bool) (st : Q2State) (m : Nat) : Q2State × List (List (Nat × Nat)) × Q2End :=
  let chunk := 2 ^ (st.szx + 4)
  let nb := (st.totalLen + chunk - 1) / chunk
  if m = 1 then
    if checkAllBlocksIn st.rs nb then ({ st with initial := true }, [], .app)
    else if allInForPayloadSet mp st.rs st.processing then
      let num := firstEnd st.rs
      let st1 := { st with processing := num / mp + 1 }
      if anyNextPayloadSet mp st1.rs st1.processing then
        let rq := reqMissingQ2 mp useM st1.rs st1.szx st1.totalLen
        ({ st1 with processing := (match rq.2 with | some s => s | none => st1.processing) }, (if rq.1 ≠ [] then [rq.1] else []), .skip)
      else if !isNon then (st1, [], .skip)
      else if num ≥ 0xFFFFF then (st1, [], .skip)   -- no NUM follows 0xFFFFF (fix for c02-qblock2-num-2e20)
      else (st1, [[(num + 1, 1)]], .next)
    else (st, [], .skip)
  else if !checkAllBlocksIn st.rs nb then (st, [], .skip)
  else ({ st with initial := true }, [], .app)

/-- one arriving response -/
def q2Step (cap mp : Nat) (useM isNon : Bool) (st : Q2State) (i : Q2In) : Q2State × List (List (Nat × Nat)) × Q2End :=
  if ¬ (i.m = 1 ∨ i.length ≠ 0) then (st, [], .notBlock)
  else
    let chunk := 2 ^ (i.szx + 4)
    let length := if i.length > chunk then chunk else i.length
    if i.m = 1 ∧ length ≠ chunk then (st, [], .expire402)
    else
      let size2 := q2Size2 i length
      let p := q2Pre st i size2
      if p.2 then (p.1, [], .fail)
      else
        let r := q2Record cap mp useM p.1 i.num
        if r.2.2 = none then (r.1, r.2.1, .fail)
        else if r.2.2 = some false then (r.1, r.2.1, .skip)
        else
          let d := q2Decide mp useM isNon r.1 i.m
          (d.1, r.2.1 ++ d.2.1, d.2.2)

end Coap.QBlock
