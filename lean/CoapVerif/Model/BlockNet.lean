import CoapVerif.Model.BlockCrcv
import CoapVerif.Model.BlockXmit
import CoapVerif.Model.BlockTok
/-
The COMPOSED Block2 system: a libcoap server sending a body (application handler + `coap_add_data_large_response` →
`adlBody` for the first block, `xmitB2Step` = coap_handle_request_send_block for the others), a lossy, duplicating,
reordering network, and a libcoap client receiving it (`crcvStep` = coap_handle_response_get_block) for ONE request
token.  Datagrams are never removed from the network: a schedule (`List B2Event`) picks which datagram arrives next,
any number of times, in any order — loss = never picked, duplication / retransmission = picked again, delay /
reordering = picked later.  Timeouts of either side's state are events as well.

What is NOT in this model: a follow-up request (NUM ≠ 0) that finds no lg_xmit is handed to the application, whose
single-block answer is not modelled (no response is generated); a body that fits one message is not a block-wise
transfer (no response generated); the parameters `adlBody` is called with on the response path are a parameter (`cfg`, a
function of the SZX the request asked for; `rspCfg` below is what the C computes for a GET carrying Block2); the ETag of an lg_xmit is `etagOf` of the context's counter
(`++session->context->etag`, skipping 0) at its creation; Size2, ETag and Content-Format are copied to every block
response from the skeleton PDU the lg_xmit keeps.
-/
namespace Coap.Block

structure B2Par where
  body : Bytes                  -- the resource's representation
  cfg : Nat → Option AdlCfg     -- response-path parameters as a function of the SZX asked for; none = refused before (4.00 / 5.00)
  etagOf : Nat → Bytes          -- coap_encode_var_safe8 of the context's ETag counter
  fmt : Nat
  room : Nat                    -- room of a follow-up response PDU
  single : Bool
  cap : Nat
  junk : UInt8

structure B2Sys where
  srv : Option LgXmit := none   -- the server's lg_xmit for the resource
  srvEtag : Nat := 0            -- session->context->etag
  curEtag : Nat := 0            -- lg_xmit->b.b2.etag of `srv`
  cli : Option Crcv := none     -- the client's lg_crcv for the token
  reqs : List (Nat × Nat) := [] -- request datagrams sent so far: Block2 (NUM, SZX)
  rsps : List Resp := []        -- response datagrams sent so far
  outs : List CrcvOut := []     -- what the client's handler saw / the client did, oldest first

inductive B2Event where
  | appGet (szx : Nat)          -- the client application sends the GET (Block2 (0, 0, szx))
  | reqArrives (i : Nat)        -- request datagram i reaches the server (again)
  | rspArrives (j : Nat) (sent : Bool)
                                -- response datagram j reaches the client (again); `sent` = coap_dispatch matched it (by message
                                -- id) to a Confirmable request that is still in the send queue — the `sent` argument of
                                -- coap_handle_response_get_block is non-NULL (`crcvStepS`, Model/BlockTok.lean).  The schedule
                                -- chooses the flag freely: every behaviour of the message layer is covered
  | srvExpire                   -- the lg_xmit times out
  | cliExpire                   -- the lg_crcv times out
  | cliNew                      -- coap_send() sets up a fresh lg_crcv for the token (NON request / Observe), replacing any old one
  deriving Repr, DecidableEq

def mkResp (P : B2Par) (etagCtr num m szx : Nat) (p : Bytes) : Resp :=
  { blk := some (num, m, szx), payload := p, size2 := some P.body.length, etag := some (P.etagOf etagCtr), fmt := P.fmt }

/-- a request (NUM, SZX) reaches the server -/
def srvOnReq (P : B2Par) (s : B2Sys) (num szx : Nat) : B2Sys :=
  if num = 0 then
    -- the application handler: coap_add_data_large_response (an existing lg_xmit for the resource is deleted first)
    match (match P.cfg szx with
           | some c => adlBody c.maxSize c.tokLen c.base c.d c.tokOpts0 c.b2 P.body.length c.extra c.blk
           | none => none) with
    | some r =>
      if r.lgXmit then
        match r.blockVal with
        | some v =>
          { s with srv := some { data := P.body, blkSize := r.blkSize }, srvEtag := s.srvEtag + 1, curEtag := s.srvEtag + 1,
                   rsps := s.rsps ++ [mkResp P (s.srvEtag + 1) (v / 16) ((v / 8) % 2) (v % 8) (P.body.take r.payload)] }
        | none => { s with srv := none }
      else { s with srv := none }            -- one message is enough: not a block-wise transfer
    | none => { s with srv := none }         -- refused: 5.00
  else
    match xmitB2Step s.srv P.room num szx with
    | (srv', .block n m sx p) => { s with srv := srv', rsps := s.rsps ++ [mkResp P s.curEtag n m sx p] }
    | (srv', _) => { s with srv := srv' }    -- 4.00 / 5.00 / handed to the application

/-- the request the client transmits in reaction -/
def nextReq : CrcvOut → Option (Nat × Nat)
  | .next n szx => some (n, szx)
  | .restart szx => some (0, szx)
  | .block _ _ _ nx => nx
  | _ => none

def b2Step (P : B2Par) (s : B2Sys) : B2Event → B2Sys
  | .appGet szx => { s with reqs := s.reqs ++ [(0, szx)] }
  | .reqArrives i =>
    match s.reqs[i]? with
    | some (num, szx) => srvOnReq P s num szx
    | none => s
  | .rspArrives j sent =>
    match s.rsps[j]? with
    | some r =>
      let res := crcvStepS sent P.single P.cap P.junk s.cli r
      { s with cli := res.1, outs := s.outs ++ [res.2],
               reqs := s.reqs ++ (match nextReq res.2 with | some q => [q] | none => []) }
    | none => s
  | .srvExpire => { s with srv := none }
  | .cliExpire => { s with cli := none }
  | .cliNew => { s with cli := some {} }


/-! ## the composed Block1 system: libcoap client sending a body (PUT) ∘ network ∘ libcoap server, SINGLE_BODY

Client: `coap_add_data_large_request` (`addDataLarge`) for the first message, `xmitB1Step` for the others; server:
`srcvStep` for ONE lg_srcv (one resource, one Request-Tag), answering 2.31 with Block1 (NUM of the request, SZX of the
request — or the server's maximum for block 0, "Check to see if block size is getting forced down"), an empty ACK for a
last block that is not the last to arrive, the application's response (no Block1 option in single-body mode) after a
delivery, 4.08 / 4.00 otherwise.  Network and schedule as above. -/

/-- a Block1 request datagram -/
structure Req1 where
  num : Nat
  m : Nat
  szx : Nat
  payload : Bytes
  size1 : Option Nat
  deriving Repr, DecidableEq

structure B1Par where
  body : Bytes
  maxSize : Nat                 -- arguments of coap_add_data_large_request / addDataLarge
  tokLen : Nat
  optBytes : Nat
  lastOpt : Nat
  blk : Option Nat
  maxBlkC : Nat                 -- the client's COAP_BLOCK_MAX_SIZE
  rtagLen : Nat
  maxBlk : Nat                  -- the server's COAP_BLOCK_MAX_SIZE
  room : Nat                    -- room of a follow-up request PDU
  cap : Nat
  junk : UInt8

structure B1Sys where
  cli : Option LgXmit := none   -- the client's lg_xmit for the token
  srv : Option Srcv := none     -- the server's lg_srcv for resource + Request-Tag
  reqs : List Req1 := []        -- request datagrams sent so far
  rsps : List (Bool × Option (Nat × Nat)) := []   -- responses sent so far: (class 2 ?, Block1 option (NUM, SZX))
  outs : List SrcvOut := []     -- what the server did / its application saw, oldest first

inductive B1Event where
  | appPut                      -- the client application hands the body to libcoap and sends the request
  | reqArrives (i : Nat)
  | rspArrives (j : Nat)
  | srvExpire
  | cliExpire
  deriving Repr, DecidableEq

/-- responses the server sends for a request and what `srcvStep` made of it -/
def b1Responses (P : B1Par) (d : Req1) (out : SrcvOut) : List (Bool × Option (Nat × Nat)) :=
  match out with
  | .cont =>
    if d.m = 1 then [(true, some (d.num, if d.num = 0 ∧ P.maxBlk ≠ 0 ∧ P.maxBlk < d.szx then P.maxBlk else d.szx))]  -- 2.31
    else []                                   -- "Last chunk - but not all in": empty ACK
  | .deliver _ _ => [(true, none), (false, none)]   -- whatever the application answers (2.04 / an error), no Block1 option
  | .fail => [(false, none)]                  -- 4.08 / 5.00
  | .undersized => [(false, none)]            -- 4.00

def b1Step (P : B1Par) (s : B1Sys) : B1Event → B1Sys
  | .appPut =>
    match addDataLarge P.maxSize P.tokLen P.optBytes P.lastOpt P.blk P.maxBlkC P.body.length P.rtagLen with
    | some r =>
      if r.lgXmit then
        match r.blockVal with
        | some v => { s with cli := some { data := P.body, blkSize := r.blkSize },
                             reqs := s.reqs ++ [⟨v / 16, (v / 8) % 2, v % 8, P.body.take r.payload, some P.body.length⟩] }
        | none => s
      else
        -- "No need to use blocks": the whole body in ONE message, no lg_xmit, no Size1 / Request-Tag; the Block1 option
        -- (0, 0, blk_size) only if the application had put one in (`blk`), none otherwise (read as (0, 0, 0) by the server:
        -- both take the "Not blocked, or a single block" exit of coap_handle_request_put_block)
        { s with reqs := s.reqs ++ [⟨0, 0, (match r.blockVal with | some v => v % 8 | none => 0), P.body.take r.payload, none⟩] }
    | none => s                               -- refused
  | .reqArrives i =>
    match s.reqs[i]? with
    | some d =>
      let res := srcvStep P.cap P.junk P.maxBlk s.srv d.num d.m d.szx d.payload d.size1
      { s with srv := res.1, outs := s.outs ++ [res.2], rsps := s.rsps ++ b1Responses P d res.2 }
    | none => s
  | .rspArrives j =>
    match s.rsps[j]?, s.cli with
    | some (ok, blk), some x =>
      let res := xmitB1Step x P.room ok blk
      { s with cli := res.1,
               reqs := s.reqs ++ (match res.2 with
                                  | .sendNext n m sx p => [⟨n, m, sx, p, some P.body.length⟩]
                                  | _ => []) }
    | _, _ => s                               -- no such datagram / no lg_xmit: the handler sees the response
  | .srvExpire => { s with srv := none }
  | .cliExpire => { s with cli := none }

end Coap.Block
