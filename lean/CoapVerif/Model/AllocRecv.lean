import CoapVerif.Model.AllocOracle
import CoapVerif.Model.StreamReader
/-
C18 — the ALLOCATION SKELETON of the reliable-transport receive path, with the allocation oracle and the ledger of
Model/AllocOracle.lean.  Core Lean only.

M: transcription of
     src/coap_net.c      coap_read_session, the stream branch (CoAP over TCP / TLS): `session->partial_pdu` is allocated with
                         coap_pdu_init(0, 0, 0, coap_session_max_pdu_rcv_size(session)) when the header (Len, TKL, extended
                         length, token-length extension) is complete, STORED IN THE SESSION AT ONCE, grown with coap_pdu_resize
                         to the announced size when the first buffer (256 bytes) is too small, filled by the following reads,
                         DETACHED from the session when complete, handed to coap_dispatch (if it parses) and deleted; every
                         failure exit (`bytes_read = -1; break;`) ends in coap_session_disconnected_lkd
     src/coap_session.c  coap_session_disconnected_lkd (what it does to partial_pdu / partial_read / state) and
                         coap_session_mfree (coap_session_free: a partial PDU the session still has is released with it)
The byte level (which bytes are the header, what size they announce, does the PDU parse) is C05's model
(Model/StreamReader.lean, Model/Parse.lean) and is re-used as it is; what is new here is WHO OWNS the receive PDU at every
point, under ANY allocation oracle.  coap_dispatch is abstract: it is recorded (`dsp`: serial of the PDU handed over and
the number of ledger events before the call) and may DISCONNECT the session (a failing write of the response does that from
inside coap_dispatch): the dispatch oracle `dcs` says which calls do (exhausted = none).  After such a disconnect the
`while (bytes_read > 0)` loop CONTINUES with the rest of the bytes read — as the C does — on a session in state NONE; a
partial PDU allocated then stays with the session until coap_session_free.
-/
namespace Coap.AllocRecv
open Coap Coap.M Coap.AllocOracle Coap.Sessions

/-- `session->partial_pdu` with the two fields the reader sets and the bytes stored so far (from `token - hdr_size` on) -/
structure RPdu where
  pdu : OPdu
  hdrSize : Nat
  usedSize : Nat
  buf : Bytes
  deriving Repr, DecidableEq

/-- what coap_read_session keeps in the session; `ppdu` (session->partial_pdu) is an `Option`: AT MOST ONE partial PDU per session -/
structure RSess where
  up : Bool := true                -- `session->state != COAP_SESSION_STATE_NONE` (coap_session_disconnected_lkd has not run)
  rh : Bytes := []                 -- read_header[0 .. partial_read)
  partialRead : Nat := 0
  ppdu : Option RPdu := none
  deriving Repr, DecidableEq

/-- the world the reader runs in: the allocator, the dispatch record, the dispatch oracle -/
structure RW where
  h : Heap
  dsp : List (Nat × Nat) := []     -- coap_dispatch calls: (serial of the coap_pdu_t, ledger events before the call)
  dcs : List Bool := []            -- does the next coap_dispatch disconnect the session?  exhausted = no
  msgs : List Msg := []            -- GHOST: the parsed messages handed to coap_dispatch, in order (one per `dsp` record)
  deriving Repr, DecidableEq

def dcHead : List Bool → Bool
  | [] => false
  | b :: _ => b

/-- the objects a session owns: buffer and header object of its partial PDU -/
def owned (s : RSess) : List Nat :=
  match s.ppdu with
  | some p => [p.pdu.bufId, p.pdu.id]
  | none => []

/-- `coap_session_disconnected_lkd`: state NONE, partial PDU deleted, partial_read = 0 -/
def disconnected (s : RSess) (w : RW) : RSess × RW :=
  ({ s with up := false, rh := [], partialRead := 0, ppdu := none },
   { w with h := match s.ppdu with
                 | some p => pduDelete p.pdu w.h
                 | none => w.h })

/-- `coap_session_mfree` (coap_session_free): `if (session->partial_pdu) coap_delete_pdu(session->partial_pdu);` -/
def sessionFree (s : RSess) (w : RW) : RW :=
  { w with h := match s.ppdu with
                | some p => pduDelete p.pdu w.h
                | none => w.h }

/-- the complete PDU `p`, already DETACHED from the session `s`: `if (parse…) coap_dispatch(ctx, session, pdu);
coap_delete_pdu(pdu);`  (`parsed` = the message the PDU parses to, `none` = it does not parse) -/
def dispatchDelete (parsed : Option Msg) (p : OPdu) (s : RSess) (w : RW) : RSess × RW :=
  match parsed with
  | some m =>
    let w1 : RW := { w with dsp := w.dsp ++ [(p.id, w.h.trace.length)], dcs := w.dcs.tail, msgs := w.msgs ++ [m] }
    let r := if dcHead w.dcs then disconnected s w1 else (s, w1)
    (r.1, { r.2 with h := pduDelete p r.2.h })
  | none => (s, { w with h := pduDelete p w.h })

/-- how the `while (bytes_read > 0)` loop ends: all bytes consumed, `bytes_read = -1; break;`, or an access outside
`read_header` (cannot happen: C05's theorems; kept so that it would be visible, never silently accepted) -/
inductive Exit where
  | ok
  | fail
  | oob
  deriving Repr, DecidableEq

/-- token-length extension bytes that belong to the header collected in `read_header` -/
def tokExtOf (b0 : Nat) : Nat := if b0 % 16 = 13 then 1 else if b0 % 16 = 14 then 2 else 0

/-- `partial_pdu->alloc_size < size && !coap_pdu_resize(partial_pdu, size)`: 0 = the growth failed -/
def growTo (p0 : OPdu) (size : Nat) (h : Heap) : Nat × OPdu × Heap :=
  if p0.allocSize < size then resize p0 size h else (1, p0, h)

/-- the header `rh` (`hl = hdr_size + tok_ext_bytes` bytes) is complete: the size is known, the receive PDU is allocated, STORED
IN THE SESSION, grown if the first buffer is too small; a message that is complete with its header is dispatched at once.
`Exit.ok` = the loop goes on. -/
def headerDone (maxRcv : Nat) (s : RSess) (w : RW) (rh : Bytes) (hdrSize hl : Nat) : Exit × RSess × RW :=
  match parseSizeTcp rh with
  | R.ok size =>
    if size > Stream.maxRx then (.fail, s, w) else
    -- session->partial_pdu = coap_pdu_init(0, 0, 0, coap_session_max_pdu_rcv_size(session))
    match pduInit maxRcv w.h with
    | (none, h1) => (.fail, s, { w with h := h1 })
    | (some p0, h1) =>
      -- the PDU is ALREADY the session's when the growth fails: coap_session_disconnected_lkd releases it
      let r := growTo p0 size h1
      if r.1 = 0 then (.fail, { s with ppdu := some ⟨r.2.1, 0, 0, []⟩ }, { w with h := r.2.2 }) else
      if size = 0 then
        let d := dispatchDelete (Stream.parsePdu hdrSize (rh.take hl)).toOption r.2.1
                   { s with rh := [], partialRead := 0, ppdu := none } { w with h := r.2.2 }
        (.ok, d.1, d.2)
      else
        (.ok, { s with rh := [], partialRead := hl, ppdu := some ⟨r.2.1, hdrSize, size, rh.take hl⟩ }, { w with h := r.2.2 })
  | _ => (.oob, s, w)

/-- the `while (bytes_read > 0)` loop over the bytes `bs` one `l_read` returned; `maxRcv` = coap_session_max_pdu_rcv_size -/
def loop (maxRcv : Nat) : (fuel : Nat) → RSess → RW → Bytes → Exit × RSess × RW
  | 0, s, w, _ => (.ok, s, w)
  | fuel + 1, s, w, bs =>
    if bs.length = 0 then (.ok, s, w) else
    match s.ppdu with
    | some p =>
      let len := p.usedSize + p.hdrSize - s.partialRead
      let n := min len bs.length
      let buf := p.buf.take s.partialRead ++ bs.take n
      if n = len then
        -- detached first: session->partial_pdu = NULL; partial_read = 0
        let r := dispatchDelete (Stream.parsePdu p.hdrSize buf).toOption p.pdu
                   { s with rh := [], partialRead := 0, ppdu := none } w
        loop maxRcv fuel r.1 r.2 (bs.drop n)
      else
        loop maxRcv fuel { s with partialRead := s.partialRead + n, ppdu := some { p with buf := buf } } w (bs.drop n)
    | none =>
      if s.partialRead > 0 then
        match rd s.rh 0 with
        | R.ok b0 =>
          let hdrSize := headerSize .tcp b0
          let len := hdrSize + tokExtOf b0 - s.partialRead
          let n := min len bs.length
          if s.partialRead + n > Stream.rhCap then (.oob, s, w) else
          let rh := s.rh.take s.partialRead ++ bs.take n
          if n = len then
            let r := headerDone maxRcv s w rh hdrSize (hdrSize + tokExtOf b0)
            if r.1 = .ok then loop maxRcv fuel r.2.1 r.2.2 (bs.drop n) else r
          else
            loop maxRcv fuel { s with rh := rh, partialRead := s.partialRead + n } w (bs.drop n)
        | _ => (.oob, s, w)
      else
        match bs with
        | b :: r =>
          if headerSize .tcp b.toNat = 0 then (.fail, s, w)
          else loop maxRcv fuel { s with rh := [b], partialRead := 1 } w r
        | [] => (.ok, s, w)

/-- one call of `coap_read_session` with `avail` bytes waiting in the transport: `do { l_read (at most 1472 bytes); loop }
while (bytes_read == 0 && retry)`, then `if (bytes_read < 0) coap_session_disconnected_lkd(…)` -/
def call (maxRcv : Nat) : (fuel : Nat) → RSess → RW → Bytes → Exit × RSess × RW
  | 0, s, w, _ => (.ok, s, w)
  | fuel + 1, s, w, avail =>
    let got := avail.take Stream.rxBuf
    let r := loop maxRcv (got.length + 1) s w got
    match r.1 with
    | .ok => if got.length = Stream.rxBuf then call maxRcv fuel r.2.1 r.2.2 (avail.drop Stream.rxBuf) else r
    | .fail => let d := disconnected r.2.1 r.2.2; (.fail, d.1, d.2)
    | .oob => r

/-! ## scripts: one endpoint, one session at a time -/

inductive REv where
  | chunk (bs : Bytes)     -- a read event with these bytes waiting (skipped when the session is closed or gone)
  | eof                    -- a read event and `l_read` returns -1 (peer gone): coap_session_disconnected_lkd
  | newSess                -- the session (if any) is freed (coap_session_free), a new one is accepted on the endpoint
  deriving Repr, DecidableEq

structure RState where
  sess : Option RSess := some {}
  w : RW
  deriving Repr, DecidableEq

/-- canonical outcome of a step: `o` session up afterwards, `c` closed, `-` skipped, `!` invalid access -/
def recvStep (maxRcv : Nat) (st : RState) : REv → String × RState
  | .chunk bs =>
    match st.sess with
    | some s =>
      if s.up then
        let r := call maxRcv (bs.length + 1) s st.w bs
        (if r.1 = .oob then "!" else if r.2.1.up then "o" else "c", { sess := some r.2.1, w := r.2.2 })
      else ("-", st)
    | none => ("-", st)
  | .eof =>
    match st.sess with
    | some s =>
      if s.up then
        let d := disconnected s st.w
        ("c", { sess := some d.1, w := d.2 })
      else ("-", st)
    | none => ("-", st)
  | .newSess =>
    match st.sess with
    | some s => ("o", { sess := some {}, w := sessionFree s st.w })
    | none => ("o", { sess := some {}, w := st.w })

def recvRun (maxRcv : Nat) : RState → List REv → List String × RState
  | st, [] => ([], st)
  | st, e :: es =>
    let r := recvStep maxRcv st e
    let rest := recvRun maxRcv r.2 es
    (r.1 :: rest.1, rest.2)

/-- tear-down: the session that is left is freed -/
def recvCleanup (st : RState) : RW :=
  match st.sess with
  | some s => sessionFree s st.w
  | none => st.w

end Coap.AllocRecv
