import CoapVerif.Spec.Codec
import CoapVerif.Generated.OptLen
/-
M — faithful model of libcoap's message decoder:

  coap_opt_parse                 src/coap_option.c
  next_option_safe               src/coap_pdu.c
  coap_pdu_parse_header_size     src/coap_pdu.c
  coap_pdu_parse_size            src/coap_pdu.c
  coap_pdu_parse_header          src/coap_pdu.c
  coap_pdu_parse_opt             src/coap_pdu.c   (length table = Generated.lenGroups, T1)
  coap_pdu_parse                 src/coap_pdu.c
  coap_option_next + coap_opt_length / coap_opt_value  (the accessor walk)

A C pointer into the message is the list of bytes from that position to the
end of the message; `*p` on the empty list is `R.oob`.  Quantities are `Nat`
and a C narrowing is written `% 2^k` at the place where it happens.
`x / 16`, `x % 16` stand for `(x & 0xf0) >> 4`, `x & 0x0f`.
-/
namespace Coap.M

def rd (bs : Bytes) (i : Nat) : R Nat :=
  match bs[i]? with
  | some b => R.ok b.toNat
  | none => R.oob

/-- result of `coap_opt_parse`: `delta` (uint16_t), `length`, offset of the value, return value -/
structure OptP where
  delta : Nat
  length : Nat
  valOfs : Nat
  size : Nat
  deriving Repr, DecidableEq

/-- 13/14 extension of the *delta* nibble, with `result->delta : uint16_t`.
`i` is the index of `opt`, `len` the remaining `length`.  Returns (delta, i, len). -/
def deltaExt (bs : Bytes) (d0 i len : Nat) : R (Nat × Nat × Nat) :=
  if d0 = 15 then R.rej
  else if d0 = 14 then
    -- ADVANCE_OPT_CHECK(opt,length,1)
    if len < 1 then R.rej else
    if len - 1 < 1 then R.rej else do
    let b1 ← rd bs (i + 1)
    let d := (b1 * 256 + 269) % 65536
    if d < 269 then R.rej else
    -- fall through: ADVANCE_OPT_CHECK(opt,length,1)
    if len - 2 < 1 then R.rej else do
    let b2 ← rd bs (i + 2)
    -- fix: delta + byte > COAP_MAX_OPT is refused before the uint16_t addition
    if d + b2 > 65535 then R.rej else
    R.ok ((d + b2) % 65536, i + 2, len - 2)
  else if d0 = 13 then
    if len < 1 then R.rej else
    if len - 1 < 1 then R.rej else do
    let b1 ← rd bs (i + 1)
    if d0 + b1 > 65535 then R.rej else
    R.ok ((d0 + b1) % 65536, i + 1, len - 1)
  else R.ok (d0, i, len)

/-- 13/14 extension of the *length* nibble (`result->length : size_t`). -/
def lengthExt (bs : Bytes) (l0 i len : Nat) : R (Nat × Nat × Nat) :=
  if l0 = 15 then R.rej
  else if l0 = 14 then
    if len < 1 then R.rej else
    if len - 1 < 1 then R.rej else do
    let b1 ← rd bs (i + 1)
    if len - 2 < 1 then R.rej else do
    let b2 ← rd bs (i + 2)
    R.ok (b1 * 256 + 269 + b2, i + 2, len - 2)
  else if l0 = 13 then
    if len < 1 then R.rej else
    if len - 1 < 1 then R.rej else do
    let b1 ← rd bs (i + 1)
    R.ok (l0 + b1, i + 1, len - 1)
  else R.ok (l0, i, len)

/-- `coap_opt_parse(opt, length, &result)`; `bs` are the bytes from `opt` on. -/
def optParse (bs : Bytes) (length : Nat) : R OptP :=
  if length < 1 then R.rej else do
  let b0 ← rd bs 0
  let (delta, i, len) ← deltaExt bs (b0 / 16) 0 length
  let (l, i, len) ← lengthExt bs (b0 % 16) i len
  -- ADVANCE_OPT(opt,length,1)
  if len < 1 then R.rej else
  if len - 1 < l then R.rej else
  R.ok { delta := delta, length := l, valOfs := i + 1, size := i + 1 + l }

/-- `next_option_safe(&opt, &length, &max_opt)`: returns the parsed option and the new `max_opt`. -/
def nextOptionSafe (bs : Bytes) (length maxOpt : Nat) : R (OptP × Nat) := do
  let p ← optParse bs length
  if maxOpt + p.delta > 65535 then R.rej
  else R.ok (p, (maxOpt + p.delta) % 65536)

/-- The option loop of `coap_pdu_parse_opt`.  Returns `good`, the
(number, value) pairs walked (ghost output, used to state the accessor lemma)
and the position where the loop stopped.  A malformed option breaks the loop
with `good = 0`; a bad length clears `good` and the loop goes on. -/
def walk (code : Nat) : (fuel : Nat) → (bs : Bytes) → (maxOpt : Nat) → R (Bool × List (Nat × Bytes) × Bytes)
  | 0, _, _ => R.rej
  | fuel + 1, bs, maxOpt =>
    match bs with
    | [] => R.ok (true, [], [])
    | b :: _ =>
      if b = 0xFF then R.ok (true, [], bs) else
      match nextOptionSafe bs bs.length maxOpt with
      | R.oob => R.oob
      | R.rej => R.ok (false, [], bs)
      | R.ok (p, maxOpt') =>
        let g := Spec.lenOkIn Generated.lenGroups code maxOpt' p.length
        match walk code fuel (bs.drop p.size) maxOpt' with
        | R.ok (g', os, rest) => R.ok (g && g', (maxOpt', (bs.drop p.valOfs).take p.length) :: os, rest)
        | e => e

/-- token part of `coap_pdu_parse_header`: `e_token_length` and the offset of
the actual token inside it.  `tk` are the bytes from `pdu->token` on. -/
def tokenHdr (tkl : Nat) (tk : Bytes) : R (Nat × Nat) :=
  -- the extended token length bytes must have been received (`used_size = tk.length`)
  if (tkl = 13 ∧ tk.length < 1) ∨ (tkl = 14 ∧ tk.length < 2) then R.rej else
  if tkl < 13 then R.ok (tkl, 0)
  else if tkl = 13 then do
    let b ← rd tk 0
    R.ok (b + 13 + 1, 1)
  else if tkl = 14 then do
    let b1 ← rd tk 0
    let b2 ← rd tk 1
    R.ok ((b1 * 256) % 65536 + b2 + 269 + 2, 2)
  else R.rej

/-- `coap_pdu_parse_header` (token part) followed by `coap_pdu_parse_opt`,
on the bytes from `pdu->token` on (`used_size = tk.length`). -/
def parseBody (type code mid tkl : Nat) (tk : Bytes) : R Msg := do
  let (etl, tofs) ← tokenHdr tkl tk
  -- `e_token_length > alloc_size` (alloc_size ≥ used_size) is subsumed by the next test in parse_opt
  if code = 0 then
    if tk.length ≠ 0 ∨ etl ≠ 0 then R.rej
    else R.ok ⟨type, code, mid, [], [], []⟩
  else
  if etl > tk.length then R.rej else
  let (good, os, rest) ← walk code (tk.length + 1) (tk.drop etl) 0
  match rest with
  | [] => if good then R.ok ⟨type, code, mid, (tk.drop tofs).take (etl - tofs), os, []⟩ else R.rej
  | _ :: pl =>
    if pl.length = 0 then R.rej
    else if good then R.ok ⟨type, code, mid, (tk.drop tofs).take (etl - tofs), os, pl⟩ else R.rej

/-- `coap_pdu_parse_header_size` -/
def headerSize (p : Proto) (b0 : Nat) : Nat :=
  match p with
  | .udp => 4
  | .ws => 2
  | .tcp => if b0 / 16 < 13 then 2 else if b0 / 16 = 13 then 3 else if b0 / 16 = 14 then 4 else 6

/-- Len nibble + extended length of `coap_pdu_parse_size`: (`size`, index of `token_start`). -/
def tcpLenField (bs : Bytes) (len : Nat) : R (Nat × Nat) :=
  if len < 13 then R.ok (len, 2)
  else if len = 13 then do let b1 ← rd bs 1; R.ok (b1 + 13, 3)
  else if len = 14 then do let b1 ← rd bs 1; let b2 ← rd bs 2; R.ok (b1 * 256 + b2 + 269, 4)
  else do
    let b1 ← rd bs 1; let b2 ← rd bs 2; let b3 ← rd bs 3; let b4 ← rd bs 4
    R.ok (b1 * 16777216 + b2 * 65536 + b3 * 256 + b4 + 65805, 6)

/-- "account for the token length" part of `coap_pdu_parse_size`: what is added to `size`. -/
def tcpTokField (bs : Bytes) (tkl tokStart : Nat) : R Nat :=
  if tkl < 13 then R.ok tkl
  else if tkl = 13 then do let t0 ← rd bs tokStart; R.ok (t0 + 13 + 1)
  else if tkl = 14 then do
    let t0 ← rd bs tokStart; let t1 ← rd bs (tokStart + 1)
    R.ok ((t0 * 256) % 65536 + t1 + 269 + 2)
  else R.ok 0

/-- `coap_pdu_parse_size` for TCP, given at least `hdr_size + tok_ext_bytes` bytes. -/
def parseSizeTcp (bs : Bytes) : R Nat := do
  let b0 ← rd bs 0
  let (size, tokStart) ← tcpLenField bs (b0 / 16)
  let t ← tcpTokField bs (b0 % 16) tokStart
  R.ok (size + t)

/-- What reaches the protocol layer for one received unit:
 * UDP / WS: `coap_pdu_parse(proto, data, length, pdu)`;
 * TCP: the framing arithmetic of `coap_read_session` (header size, token
   extension bytes, `coap_pdu_parse_size`) must make `data` exactly one frame,
   then `coap_pdu_parse_header && coap_pdu_parse_opt`. -/
def parse (p : Proto) (bs : Bytes) : R Msg :=
  match p with
  | .udp =>
    if bs.length = 0 then R.rej else
    if 4 > bs.length then R.rej else do
    let b0 ← rd bs 0
    let c ← rd bs 1
    let m1 ← rd bs 2
    let m2 ← rd bs 3
    if b0 / 64 ≠ 1 then R.rej else
    parseBody (b0 / 16 % 4) c ((m1 * 256) % 65536 ||| m2) (b0 % 16) (bs.drop 4)
  | .ws =>
    if bs.length = 0 then R.rej else
    if 2 > bs.length then R.rej else do
    let b0 ← rd bs 0
    let c ← rd bs 1
    parseBody 0 c 0 (b0 % 16) (bs.drop 2)
  | .tcp =>
    if bs.length = 0 then R.rej else do
    let b0 ← rd bs 0
    let hs := headerSize .tcp b0
    let tokExt := if b0 % 16 = 13 then 1 else if b0 % 16 = 14 then 2 else 0
    if bs.length < hs + tokExt then R.rej else do
    let size ← parseSizeTcp bs
    if bs.length ≠ hs + size then R.rej else do
    let c ← rd bs (hs - 1)
    parseBody 0 c 0 (b0 % 16) (bs.drop hs)

/-- The accessor walk: `coap_option_iterator_init(pdu, &oi, COAP_OPT_ALL)` then
`coap_option_next` until NULL, reading each option with `coap_opt_length` /
`coap_opt_value`.  `bs` = bytes from `token + e_token_length`; `oi->length = bs.length`. -/
def iter : (fuel : Nat) → (bs : Bytes) → (number : Nat) → R (List (Nat × Bytes))
  | 0, _, _ => R.ok []
  | fuel + 1, bs, number =>
    match bs with
    | [] => R.ok []                       -- oi->length == 0
    | b :: _ =>
      if b = 0xFF then R.ok [] else
      match optParse bs bs.length with
      | R.oob => R.oob
      | R.rej => R.ok []                  -- oi->bad = 1
      | R.ok p =>
        let number' := (number + p.delta) % 65536
        match iter fuel (bs.drop p.size) number' with
        | R.ok os => R.ok ((number', (bs.drop p.valOfs).take p.length) :: os)
        | e => e

end Coap.M
