import CoapVerif.Util
/-
M — the retransmission queue of libcoap (`context->sendqueue`, src/coap_net.c) and the timeout computation.

  coap_insert_node            → `insertNode`        coap_pop_next        → `popNext`
  coap_remove_from_queue      → `removeNode`        coap_adjust_basetime → `adjustBasetime`
  coap_cancel_session_messages→ `cancelSession`     coap_cancel_all_messages → `removeTok` (one step)
  coap_calc_timeout (+ Q(), SHR_FP) → `calcTimeout` coap_wait_ack / coap_retransmit time arithmetic → `enqueue`

Conventions: a `coap_tick_t` (uint64) is a `Nat`; narrowing casts are written `% 2^k` where the C code narrows.
The queue is a list of nodes whose field `t` is the time RELATIVE to the predecessor (the head: relative to
`sendqueue_basetime`).  Core Lean only.
-/
namespace Coap.SQ

/-- `coap_queue_t` (the fields the anchored functions look at).  `tok` stands for `pdu->actual_token`,
`con` for `pdu->type == COAP_MESSAGE_CON`. -/
structure Node where
  sess : Nat
  mid : Nat
  t : Nat
  timeout : Nat
  cnt : Nat
  tok : Nat
  con : Bool
  deriving Repr, DecidableEq

/-- `context->sendqueue_basetime` and `context->sendqueue`. -/
structure Queue where
  base : Nat
  nodes : List Node
  deriving Repr, DecidableEq

/-- The `do { node->t -= q->t; … } while (q && q->t <= node->t)` loop of `coap_insert_node`, entered with
`n.t` already made relative to the predecessor; `rest` is what follows the predecessor. -/
def insertAfter : List Node → Node → List Node
  | [], n => [n]
  | q :: r, n =>
    if q.t ≤ n.t then q :: insertAfter r { n with t := n.t - q.t }
    else n :: { q with t := q.t - n.t } :: r

/-- `coap_insert_node(&queue, node)`. -/
def insertNode : List Node → Node → List Node
  | [], n => [n]
  | q :: r, n =>
    if n.t < q.t then n :: { q with t := q.t - n.t } :: r
    else q :: insertAfter r { n with t := n.t - q.t }

/-- `coap_pop_next`: the head leaves, its relative time is added to the new head. -/
def popNext : List Node → Option (Node × List Node)
  | [] => none
  | n :: [] => some (n, [])
  | n :: q :: r => some (n, { q with t := q.t + n.t } :: r)

/-- `coap_remove_from_queue(&queue, session, id, &node)`: the first node of that session with that message id. -/
def removeNode : List Node → Nat → Nat → Option Node × List Node
  | [], _, _ => (none, [])
  | n :: r, s, id =>
    if n.sess = s ∧ n.mid = id then
      match r with
      | [] => (some n, [])
      | q :: r' => (some n, { q with t := q.t + n.t } :: r')
    else
      let (res, r') := removeNode r s id
      (res, n :: r')

/-- the `while (q && (t + q->t < delta))` loop of `coap_adjust_basetime`; returns the number of expired nodes -/
def expireLoop : List Node → Nat → Nat → Nat × List Node
  | [], _, _ => (0, [])
  | q :: r, t, delta =>
    if t + q.t < delta then
      let (k, r') := expireLoop r (t + q.t) delta
      (k + 1, { q with t := 0 } :: r')
    else (0, { q with t := delta - t } :: r)      -- "finally adjust the first element that has not expired"

/-- `coap_adjust_basetime(ctx, now)` → (result, queue).  `delta = now - basetime` is a signed 64-bit difference. -/
def adjustBasetime (q : Queue) (now : Nat) : Nat × Queue :=
  match q.nodes with
  | [] => (0, { q with base := now })
  | h :: r =>
    if now ≤ q.base then (0, { base := now, nodes := { h with t := h.t + (q.base - now) } :: r })
    else
      let (k, l) := expireLoop (h :: r) 0 (now - q.base)
      (k, { base := now, nodes := l })

/-- `coap_cancel_session_messages`: every node of the session leaves the queue (the caller NACKs the CON ones,
in queue order).  Transcribed from the code after `fix: keep the relative times …`: the successor inherits the
removed node's time; `carry` is the time inherited so far from removed predecessors. -/
def cancelSessionAux : List Node → Nat → Nat → List Node × List Node
  | [], _, _ => ([], [])
  | n :: r, s, carry =>
    if n.sess = s then
      let (gone, rest) := cancelSessionAux r s (n.t + carry)
      ({ n with t := n.t + carry } :: gone, rest)
    else
      let (gone, rest) := cancelSessionAux r s 0
      (gone, { n with t := n.t + carry } :: rest)

def cancelSession (l : List Node) (s : Nat) : List Node × List Node := cancelSessionAux l s 0

/-- one removal step of `coap_cancel_all_messages`: the first node of the session carrying that token leaves the
queue (`MsgLayer.cancelToken` repeats it and does the `con_active` bookkeeping per removed node).  Transcribed
from the code after `fix: keep the relative times …`. -/
def removeTok : List Node → Nat → Nat → Option Node × List Node
  | [], _, _ => (none, [])
  | n :: r, s, tok =>
    if n.sess = s ∧ n.tok = tok then
      match r with
      | [] => (some n, [])
      | q :: r' => (some n, { q with t := q.t + n.t } :: r')
    else
      let (res, r') := removeTok r s tok
      (res, n :: r')

/-- The time arithmetic shared by `coap_wait_ack` and `coap_retransmit`: an empty queue restarts the base time,
otherwise the node's time is made relative to the base time; then `coap_insert_node`. -/
def enqueue (q : Queue) (now delay : Nat) (n : Node) : Queue :=
  match q.nodes with
  | [] => { base := now, nodes := [{ n with t := delay }] }
  | _ => { q with nodes := insertNode q.nodes { n with t := (now - q.base) + delay } }

/-! ### coap_calc_timeout -/

/-- `Q(FRAC_BITS, fval)` with FRAC_BITS = 6: `(uint16_t)((1<<6)*integer_part + ((1<<6)*fractional_part + 500)/1000)`. -/
def qfix (ip fp : Nat) : Nat := (64 * ip + (64 * fp + 500) / 1000) % 65536

/-- `coap_calc_timeout(session, r)`, bit for bit.  `(ACK_RANDOM_FACTOR - FP1) * r` is `int` arithmetic (it is
negative for a factor below 1.0), `>> 8` of a negative int is an arithmetic shift, the assignment to
`unsigned int result` reduces mod 2^32, the second line is `unsigned int` arithmetic, the third is 64-bit. -/
def calcTimeout (atI atF arfI arfF r : Nat) : Nat :=
  let arf := qfix arfI arfF
  let ato := qfix atI atF
  let inner : Int := ((arf : Int) - 64) * (r : Int) + 128
  let res1 : Nat := ((inner / 256) % 4294967296).toNat
  let res2 : Nat := ((((res1 + 64) % 4294967296) * ato) % 4294967296 + 32) % 4294967296 / 64
  ((1000 * res2 + 32) % 18446744073709551616 / 64) % 4294967296

end Coap.SQ
