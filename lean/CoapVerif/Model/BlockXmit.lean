import CoapVerif.Model.Block
/-
M — the SENDER side of a block-wise transfer (lg_xmit), src/coap_block.c, plain Block1/Block2 (the lg_xmit's option is
not Q-Block1/Q-Block2), no BERT, no Observe / FETCH, allocation and `coap_send_internal` never fail:

  coap_handle_request_send_block    server: a request for block NUM ≠ 0 of a body it is sending (Block2)      `xmitB2Step`
  coap_handle_response_send_block   client: a response to a block of a body it is sending (Block1)            `xmitB1Step`
  coap_add_data_large_internal      which exit path runs / hands on the application's release callback        `adlRel`
  the lg_xmit list of a session     create / unlink + coap_block_delete_lg_xmit / session free                `xlStep`

`room` = bytes the PDU being built may still grow by (`max_size - used_size`): `coap_add_data` needs `1 + length`
(payload marker) and refuses (`coap_pdu_resize` beyond `max_size`) otherwise.  `block.num`, `last_block` are 32-bit,
`offset`, `chunk` are `size_t`; NUM ≤ 0xFFFFF (coap_get_block_b) and SZX ≤ 6, so `num << (szx + 4)` and `(num + 1) * chunk`
do not wrap; the one narrowing that is not obviously harmless (`(uint32_t)(((offset + chunk) >> …) - 1)`) is written `% 2^32`.
-/
namespace Coap.Block

structure LgXmit where
  data : Bytes                      -- lg_xmit->data[0 .. lg_xmit->length)
  blkSize : Nat                     -- lg_xmit->blk_size
  offset : Nat := 0                 -- lg_xmit->offset
  lastBlock : Option Nat := none    -- lg_xmit->last_block (`none` = -1)
  deriving Repr, DecidableEq

/-! ## server, Block2: coap_handle_request_send_block -/

inductive B2Out where
  | passUp                                         -- return 0: the application handler is called (NUM = 0, or no lg_xmit)
  | err400                                         -- "Changing blocksize during request invalid"
  | err500                                         -- internal_issue: block beyond the body, or no room in the PDU
  | block (num m szx : Nat) (payload : Bytes)      -- response with Block2 (num, m, szx) and this payload
  deriving Repr, DecidableEq

/-- a request carrying ONE Block2 option `(num, _, szx)` and no ETag option, for the resource / query / Request-Tag the
lg_xmit `lg` was found under (`none` = `coap_find_lg_xmit_response` found nothing) -/
def xmitB2Step (lg : Option LgXmit) (room num szx : Nat) : Option LgXmit × B2Out :=
  if num = 0 then (lg, .passUp)                                      -- "Get a fresh copy of the data"
  else
    match lg with
    | none => (none, .passUp)
    | some x =>
      let chunk := 2 ^ (x.blkSize + 4)
      -- "if (block.bert == 0 && block.szx != lg_xmit->blk_size)": NUM ≠ 0 → "ignoring request to change Block size",
      -- block.szx = block.aszx = lg_xmit->blk_size; then "if (block.aszx != COAP_OPT_BLOCK_SZX(option))" → 4.00
      if x.blkSize ≠ szx then (some x, .err400)
      else
        -- add_block_send(num): out_blocks[0].num = num; lg_xmit->offset = block.num * chunk
        let x' := { x with offset := num * chunk }
        -- block.m = (lg_xmit->offset + chunk) < lg_xmit->length
        let m := if num * chunk + chunk < x.data.length then 1 else 0
        -- coap_add_block_b_data(out_pdu, lg_xmit->length, lg_xmit->data, &block) with block.szx = lg_xmit->blk_size
        match addBlock x.data num x.blkSize with
        | none => (some x', .err500)
        | some p => if 1 + p.length > room then (some x', .err500) else (some x', .block num m x.blkSize p)

/-! ## client, Block1: coap_handle_response_send_block -/

inductive B1Out where
  | dupIgnored                                     -- "Duplicate Block1 ACK": return 1, nothing sent
  | sendNext (num m szx : Nat) (payload : Bytes)   -- next request with Block1 (num, m, szx) and this payload; return 1
  | finished                                       -- lg_xmit_finished: lg_xmit unlinked + deleted, handler sees the response
  | fail500                                        -- fail_body: the same with the code rewritten to 5.00
  deriving Repr, DecidableEq

/-- "if (block.szx != lg_xmit->blk_size) { … }": the lg_xmit afterwards and `block.num` afterwards
(`block.szx` / `block.aszx` afterwards: `xmitB1Szx`) -/
def xmitB1Reneg (x : LgXmit) (num szx : Nat) : LgXmit × Nat :=
  let chunk := 2 ^ (x.blkSize + 4)
  if szx ≠ x.blkSize then
    if szx > x.blkSize then (x, num)                                 -- "ignoring request to increase Block size"
    else if (x.offset + chunk) % 2 ^ (szx + 4) = 0 then
      -- "Recompute the block number of the previous packet given the new block size"
      let num' := ((x.offset + chunk) / 2 ^ (szx + 4) - 1) % 2 ^ 32
      ({ x with blkSize := szx, offset := num' * 2 ^ (szx + 4) }, num')
    else (x, num)                                                    -- "next block is not aligned on requested block size boundary"
  else (x, num)

/-- `block.szx` = `block.aszx` after "if (block.szx != lg_xmit->blk_size) { … }": a request to increase the size is
ignored ("block.szx = block.aszx = lg_xmit->blk_size"), on the other paths the RESPONSE's value is kept -/
def xmitB1Szx (x : LgXmit) (szx : Nat) : Nat :=
  if szx > x.blkSize then x.blkSize else szx

/-- "if (lg_xmit->last_block >= (int)block.num)" -/
def isDupAck (lastBlock : Option Nat) (num : Nat) : Bool :=
  match lastBlock with
  | some lb => decide (lb ≥ num)
  | none => false

/-- from the duplicate test on: `x1`, `num` as left by the renegotiation, `szx` = block.szx = block.aszx as left by it -/
def xmitB1Next (x1 : LgXmit) (room num szx : Nat) : Option LgXmit × B1Out :=
  let chunk := 2 ^ (x1.blkSize + 4)
  if isDupAck x1.lastBlock num then (some x1, .dupIgnored)
  else
    -- lg_xmit->last_block = block.num; lg_xmit->offset = (block.num + 1) * chunk
    let x2 : LgXmit := { x1 with lastBlock := some num, offset := (num + 1) * chunk }
    if x2.offset < x1.data.length then
      -- block.num++; block.m = (lg_xmit->offset + chunk) < lg_xmit->length; option (num, m, block.aszx);
      -- coap_add_block_b_data(pdu, length, data, &block) slices with block.szx
      let m := if x2.offset + chunk < x1.data.length then 1 else 0
      match addBlock x1.data (num + 1) szx with
      | none => (none, .fail500)
      | some p => if 1 + p.length > room then (none, .fail500) else (some x2, .sendNext (num + 1) m szx p)
    else (none, .finished)

/-- one response matched to the lg_xmit `x` by token: `ok` = response class 2, `blk` = its Block1 option `(num, szx)`
as accepted by `coap_get_block_b`.  `none` state = lg_xmit unlinked and deleted (release callback run). -/
def xmitB1Step (x : LgXmit) (room : Nat) (ok : Bool) (blk : Option (Nat × Nat)) : Option LgXmit × B1Out :=
  match ok, blk with
  | true, some (num0, szx) => xmitB1Next (xmitB1Reneg x num0 szx).1 room (xmitB1Reneg x num0 szx).2 (xmitB1Szx x szx)
  | true, none => (none, .finished)                -- "Not a block response asking for the next block" (not FETCH)
  | false, _ => (none, .finished)                  -- 4.13, 4.08, … (4.01 Echo retry is outside): failure of some sort

/-! ## the first response: coap_add_data_large_response_lkd → coap_add_data_large_internal (GET carrying Block2) -/

/-- the arguments `adlBody` gets -/
structure AdlCfg where
  maxSize : Nat
  tokLen : Nat
  base : Nat
  d : Nat
  tokOpts0 : Nat
  b2 : Nat
  extra : Nat
  blk : Option Nat

/-- `coap_add_data_large_response(…)` for a request carrying Block2 (0, _, `reqSzx`), on a response PDU with a
`tokLen`-byte token whose options so far (Content-Format, Max-Age: inserted by the function itself) take `optBytes`
bytes, the highest being `lastOpt` (< 23): `coap_write_block_b_opt` writes Block2 (it may already reduce the size),
then `coap_add_data_large_internal` runs its block-size selection with Size2 and ETag (`etagLen` value bytes) as the
options it adds: these are the arguments `adlBody` is called with.  `none` = refused before (4.00 / 5.00). -/
def rspCfgOf (maxSize tokLen optBytes lastOpt maxBlk length etagLen : Nat) (b : BlockB) (val : Bytes) : AdlCfg :=
  let tokOpts0 := tokLen + optBytes + optEncodeSize (23 - lastOpt) val.length
  let b0 := adlBlkSize (adlAvail maxSize tokOpts0 tokLen)
  let b1 := if maxBlk ≠ 0 ∧ b0 > maxBlk then maxBlk else b0
  let b2 := if b.aszx < b1 then b.aszx else b1
  { maxSize := maxSize, tokLen := tokLen, base := tokLen + optBytes, d := 23 - lastOpt, tokOpts0 := tokOpts0, b2 := b2,
    extra := optEncodeSize (28 - 23) (varLen length) + optEncodeSize 4 etagLen, blk := some b.aszx }

/-- return value 1 of `coap_write_block_b_opt` -/
def writeOk : WriteRes → Option (BlockB × Bytes)
  | .ok b val => some (b, val)
  | _ => none

def rspCfg (maxSize tokLen optBytes lastOpt maxBlk length etagLen : Nat) (reqSzx : Nat) : Option AdlCfg :=
  (writeOk (writeBlockBOpt maxSize (tokLen + optBytes) 0 reqSzx length)).map
    (fun p => rspCfgOf maxSize tokLen optBytes lastOpt maxBlk length etagLen p.1 p.2)

/-- the first response: `adlBody` on those arguments -/
def addDataLargeRsp (maxSize tokLen optBytes lastOpt reqSzx maxBlk length etagLen : Nat) : Option AdlRes :=
  match rspCfg maxSize tokLen optBytes lastOpt maxBlk length etagLen reqSzx with
  | some c => adlBody c.maxSize c.tokLen c.base c.d c.tokOpts0 c.b2 length c.extra c.blk
  | none => none

/-! ## the release callback -/

/-- What happens to `release_func` on each exit path of `coap_add_data_large_internal` (request, COAP_BLOCK_USE_LIBCOAP,
no payload in the PDU yet), in the branch structure of `adlBody` / `adlLgTail` / `adlNoBlock`:
`(number of calls made before returning, an lg_xmit holding release_func is linked into session->lg_xmit)`.
`fail:` runs `coap_block_delete_lg_xmit` (one call) if the lg_xmit was already allocated, `release_func` otherwise. -/
def adlRelFinish (maxSize tokOpts rem : Nat) (lg : Bool) : Nat × Bool :=
  if rem ≠ 0 ∧ tokOpts + 1 + rem > maxSize then (1, false)        -- coap_add_data fails → fail (either way one call)
  else if lg then (0, true)                                        -- LL_PREPEND(session->lg_xmit, lg_xmit); return 1
  else (1, false)                                                  -- "if (release_func) release_func(…)"; return 1

def adlRelLgTail (maxSize tokLen base d b2 length extra : Nat) (sb : BlockB) : Nat × Bool :=
  let chunk : Nat := 2 ^ (b2 + 4)
  let bv := blockValue sb.num sb.m sb.aszx
  let tokOpts1 := base + optEncodeSize d (varLen bv) + extra
  let avail2 := adlAvail maxSize tokOpts1 tokLen
  if avail2 < chunk then
    if avail2 < 16 then (1, false)                                  -- "… does not fit (3)": fail, lg_xmit allocated
    else
      let b3 := adlBlkSize avail2
      let bv3 := blockValue ((sb.num * 2 ^ (b2 - b3)) % 2 ^ 32) sb.m b3
      let tokOpts2 := base + optEncodeSize d (varLen bv3) + extra
      adlRelFinish maxSize tokOpts2 (min (2 ^ (b3 + 4)) length) true
  else adlRelFinish maxSize tokOpts1 (min sb.chunk length) true

def adlRelBody (maxSize tokLen base d tokOpts0 b2 length extra : Nat) (blk : Option Nat) : Nat × Bool :=
  let avail := adlAvail maxSize tokOpts0 tokLen
  if avail < 16 ∧ ((length : Int) > avail ∨ blk.isSome) then (1, false)      -- "… does not fit (2)": fail, no lg_xmit
  else if (blk.isSome ∧ length > 2 ^ (b2 + 4)) ∨ (length : Int) > avail then
    match setupBlockB maxSize (tokOpts0 + extra) 0 b2 length with
    | none => (1, false)                                                      -- fail, lg_xmit allocated
    | some sb => adlRelLgTail maxSize tokLen base d b2 length extra sb
  else
    let bvOpt := match blk with | some _ => some (blockValue 0 0 b2) | none => none
    let tokOpts1 := base + (match bvOpt with | some v => optEncodeSize d (varLen v) | none => 0)
    adlRelFinish maxSize tokOpts1 length false

def adlRel (maxSize tokLen optBytes lastOpt : Nat) (blk : Option Nat) (maxBlk length rtagLen : Nat) : Nat × Bool :=
  let d := 27 - lastOpt
  let tokOpts0 := tokLen + optBytes + (match blk with | some s => optEncodeSize d (varLen (blockValue 0 0 s)) | none => 0)
  let b0 := adlBlkSize (adlAvail maxSize tokOpts0 tokLen)
  let b1 := if maxBlk ≠ 0 ∧ b0 > maxBlk then maxBlk else b0
  let b2 := match blk with | some s => if s < b1 then s else b1 | none => b1
  adlRelBody maxSize tokLen (tokLen + optBytes) d tokOpts0 b2 length
    (optEncodeSize (60 - 27) (varLen length) + optEncodeSize (292 - 60) rtagLen) blk

/-- events on a session's lg_xmit list: `create id` = LL_PREPEND of a freshly allocated lg_xmit; `delete id` = one of the
"LL_DELETE(session->lg_xmit, lg_xmit); coap_block_delete_lg_xmit(session, lg_xmit);" sites (timeout, transfer finished,
replaced by a new body for the same token / resource) — each of them runs on an element the enclosing LL_FOREACH found
IN the list; `sessionFree` = the LL_FOREACH_SAFE in coap_session_mfree / coap_session_free -/
inductive XlEvent where
  | create (id : Nat)
  | delete (id : Nat)
  | sessionFree
  deriving Repr, DecidableEq

/-- `(lg_xmits linked, ids whose release callback has run — one entry per call)` -/
abbrev XlState := List Nat × List Nat

def xlStep (s : XlState) : XlEvent → XlState
  | .create id => if id ∈ s.1 ∨ id ∈ s.2 then s else (id :: s.1, s.2)      -- a new allocation is none of the earlier ones
  | .delete id => if id ∈ s.1 then (s.1.erase id, id :: s.2) else s         -- only list members are ever deleted
  | .sessionFree => ([], s.1 ++ s.2)

end Coap.Block
