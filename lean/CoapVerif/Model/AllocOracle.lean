import CoapVerif.Model.Build
import CoapVerif.Model.Sessions
/-
C18 — the helper layer of libcoap re-stated with an ALLOCATION ORACLE and an explicit LEDGER (DESIGN.md §4 C18).
Core Lean only.

M: transcription (AFTER the `fix:` commits listed for C18 in KNOWN_FINDINGS.txt) of
     src/coap_mem.c     coap_malloc_type / coap_realloc_type / coap_free_type      -> `Heap.alloc / realloc / free`
     src/coap_pdu.c     coap_pdu_init, coap_delete_pdu, coap_pdu_resize, coap_pdu_check_resize, coap_add_token,
                        coap_add_option -> coap_add_option_internal (append branch), coap_add_data -> coap_add_data_after
     src/coap_option.c  coap_new_optlist, coap_insert_optlist, coap_delete_optlist, coap_add_optlist_pdu (LL_SORT + loop)
     src/coap_str.c     coap_new_string / coap_new_str_const / coap_new_bin_const (one allocation each), coap_delete_string
     src/coap_net.c     the ownership skeleton of coap_send -> coap_send_lkd -> coap_send_internal -> coap_send_pdu ->
                        { written & freed | coap_wait_ack: queue node owns it | coap_session_delay_pdu: delay-queue node
                        owns it | error & freed }   (UDP client session, ESTABLISHED or not yet, block mode off, no OSCORE)
     src/coap_session.c coap_session_delay_pdu (node == NULL branch), coap_session_connected (the loop that drains the delay
                        queue: a CON's node moves to the send queue, any other node is released with its PDU)
     src/coap_pdu.c / coap_cache.c / coap_resource.c
                        coap_pdu_duplicate_lkd, coap_cache_derive_key_w_ignore, coap_add_observer, coap_delete_observer with
                        the server session's reference count (section "Observe registrations" below)

The allocator is an ORACLE: `List Bool`, one entry per allocation REQUEST in program order (`false` = the request returns
NULL); an exhausted oracle answers `true` (memory available).  Every successful allocation gets the next serial number;
the ledger is the chronological trace of `alloc id` / `free id` events (the format of the real trace recorded by
harness/allocfail.c, judged by the verified monitor `Coap.Sessions.ledgerOk`) together with the list of live serials,
maintained exactly as `Coap.Sessions.runLedger` replays it (`Heap.ledger_replay`).  A failed realloc leaves the old
block allocated, a successful one is `free old, alloc new`.

Domain of the option model: `coap_add_option` with `number ≥ pdu->max_opt` and `number ∉ {35, 39}` (append branch; the
insert branch and the implicit Hop-Limit are C01/C04's subject and abstract the allocator away) — outside it the model
answers `Rc.unmodelled` and the differential run counts that as a broken correspondence, never as agreement.
-/
namespace Coap.AllocOracle
open Coap Coap.Sessions

abbrev Oracle := List Bool

/-- the allocator: remaining oracle, number of requests made so far, next serial, trace, live serials -/
structure Heap where
  orc : Oracle
  reqs : Nat := 0
  next : Nat := 1
  trace : List AllocEvent := []
  live : List Nat := []
  ok : Bool := true          -- no free of something that is not live so far
  deriving Repr, DecidableEq

/-- the answer to the next request: an exhausted oracle means memory is available -/
def Oracle.head : Oracle → Bool
  | [] => true
  | b :: _ => b

/-- `coap_malloc_type` -/
def Heap.alloc (h : Heap) : Option Nat × Heap :=
  if h.orc.head then
    (some h.next, { h with orc := h.orc.tail, reqs := h.reqs + 1, next := h.next + 1,
                           trace := h.trace ++ [.alloc h.next], live := h.next :: h.live })
  else (none, { h with orc := h.orc.tail, reqs := h.reqs + 1 })

/-- `coap_free_type` -/
def Heap.free (h : Heap) (id : Nat) : Heap :=
  { h with trace := h.trace ++ [.free id], live := h.live.erase id, ok := h.ok && decide (id ∈ h.live) }

/-- `coap_realloc_type(id)`: success = the old block is released and a new one handed out; failure = nothing happens -/
def Heap.realloc (h : Heap) (id : Nat) : Option Nat × Heap :=
  if h.orc.head then
    (some h.next, { h with orc := h.orc.tail, reqs := h.reqs + 1, next := h.next + 1,
                           trace := h.trace ++ [.free id, .alloc h.next], live := h.next :: h.live.erase id,
                           ok := h.ok && decide (id ∈ h.live) })
  else (none, { h with orc := h.orc.tail, reqs := h.reqs + 1 })

/-! ## PDUs -/

structure OPdu where
  id : Nat               -- ledger serial of the coap_pdu_t
  bufId : Nat            -- ledger serial of the buffer (pdu->token - max_hdr_size)
  maxSize : Nat
  allocSize : Nat
  buf : Bytes            -- pdu->token[0 .. used_size)
  tokLen : Nat           -- pdu->actual_token.length
  maxOpt : Nat
  data : Option Nat      -- pdu->data - pdu->token
  deriving Repr, DecidableEq

/-- `coap_pdu_init(type, code, mid, size)`: two requests; the header object is released when the buffer fails -/
def pduInit (size : Nat) (h : Heap) : Option OPdu × Heap :=
  match h.alloc with
  | (none, h1) => (none, h1)
  | (some pid, h1) =>
    if size > 8388864 - 6 then (none, h1.free pid) else
    match h1.alloc with
    | (none, h2) => (none, h2.free pid)
    | (some bid, h2) => (some ⟨pid, bid, size, min size 256, [], 0, 0, none⟩, h2)

/-- `coap_delete_pdu` -/
def pduDelete (p : OPdu) (h : Heap) : Heap := (h.free p.bufId).free p.id

/-- `coap_pdu_resize(pdu, new_size)` -/
def resize (p : OPdu) (newSize : Nat) (h : Heap) : Nat × OPdu × Heap :=
  if newSize > p.allocSize then
    if p.maxSize ≠ 0 ∧ newSize > p.maxSize then (0, p, h) else
    match h.realloc p.bufId with
    | (none, h1) => (0, p, h1)
    | (some b, h1) => (1, { p with bufId := b, allocSize := newSize }, h1)
  else (1, { p with allocSize := newSize }, h)

/-- `while (size > new_size) new_size *= 2;` -/
def grow : (fuel : Nat) → (size newSize : Nat) → Nat
  | 0, _, ns => ns
  | fuel + 1, size, ns => if size > ns then grow fuel size (ns * 2) else ns

/-- `coap_pdu_check_resize(pdu, size)` -/
def checkResize (p : OPdu) (size : Nat) (h : Heap) : Nat × OPdu × Heap :=
  if size > p.allocSize then
    let ns := grow 64 size (max 256 (p.allocSize * 2))
    if p.maxSize ≠ 0 ∧ ns > p.maxSize then
      if p.maxSize < size then (0, p, h) else resize p p.maxSize h
    else resize p ns h
  else (1, p, h)

/-- `coap_add_token(pdu, len, data)` on a non-NULL pdu -/
def addToken (p : OPdu) (data : Bytes) (h : Heap) : Nat × OPdu × Heap :=
  let len := data.length
  if p.buf.length ≠ 0 then (0, p, h) else
  match M.tokBias len with
  | none => (0, p, h)
  | some bias =>
    let r := checkResize p (len + bias) h
    if r.1 = 0 then (0, p, r.2.2) else
    (1, { r.2.1 with tokLen := len, buf := if len ≠ 0 then M.tokHdr len bias ++ data else [], maxOpt := 0, data := none }, r.2.2)

inductive Rc where
  | val (n : Nat)
  | unmodelled
  deriving Repr, DecidableEq

/-- `coap_add_option(pdu, number, len, data)`, append branch of `coap_add_option_internal` -/
def addOption (p : OPdu) (number : Nat) (data : Bytes) (h : Heap) : Rc × OPdu × Heap :=
  if p.data.isSome then (.val 0, p, h) else
  if data.length > 65804 then (.val 0, p, h) else
  if number = p.maxOpt ∧ ¬ M.repeatable number then (.val 0, p, h) else
  if number = 35 ∨ number = 39 ∨ number < p.maxOpt ∨ number ≥ 65536 then (.unmodelled, p, h) else
  let optsize := M.optEncodeSize (number - p.maxOpt) data.length
  let r := checkResize p (p.buf.length + optsize) h
  if r.1 = 0 then (.val 0, p, r.2.2) else
  (.val optsize, { r.2.1 with buf := r.2.1.buf ++ M.optEncode (number - p.maxOpt) data, maxOpt := number }, r.2.2)

/-- `coap_add_data(pdu, len, data)` -/
def addData (p : OPdu) (data : Bytes) (h : Heap) : Nat × OPdu × Heap :=
  if data.length = 0 then (1, p, h) else
  if p.data.isSome then (0, p, h) else
  let r := resize p (p.buf.length + data.length + 1) h
  if r.1 = 0 then (0, p, r.2.2) else
  (1, { r.2.1 with buf := r.2.1.buf ++ 0xFF :: data, data := some (r.2.1.buf.length + 1) }, r.2.2)

/-! ## option lists and strings -/

structure Opt where
  id : Nat
  num : Nat
  val : Bytes
  deriving Repr, DecidableEq

/-- `coap_insert_optlist(&head, coap_new_optlist(number, len, data))` -/
def optlistAdd (ol : List Opt) (num : Nat) (val : Bytes) (h : Heap) : Nat × List Opt × Heap :=
  match h.alloc with
  | (none, h1) => (0, ol, h1)
  | (some i, h1) => (1, ol ++ [⟨i, num % 65536, val⟩], h1)

/-- `coap_delete_optlist(head)` -/
def optlistDelete : List Opt → Heap → Heap
  | [], h => h
  | o :: r, h => optlistDelete r (h.free o.id)

/-- `LL_SORT(*options, order_opts)`: stable merge sort by option number = stable insertion sort (`≤`: an element stays
in front of the later elements with the same number) -/
def insertOpt (o : Opt) : List Opt → List Opt
  | [] => [o]
  | x :: r => if o.num ≤ x.num then o :: x :: r else x :: insertOpt o r
def sortOpts : List Opt → List Opt
  | [] => []
  | o :: r => insertOpt o (sortOpts r)

/-- the loop of `coap_add_optlist_pdu` -/
def addOpts : List Opt → OPdu → Heap → Rc × OPdu × Heap
  | [], p, h => (.val 1, p, h)
  | o :: r, p, h =>
    -- coap_add_option_internal: no `pdu->data` test here (done once by the caller)
    let a := addOption p o.num o.val h
    if a.1 = .val 0 then (.val 0, a.2.1, a.2.2)
    else if a.1 = .unmodelled then (.unmodelled, a.2.1, a.2.2)
    else addOpts r a.2.1 a.2.2

/-- `coap_add_optlist_pdu(pdu, &options)`: the list head is left sorted -/
def addOptlistPdu (ol : List Opt) (p : OPdu) (h : Heap) : Rc × List Opt × OPdu × Heap :=
  if ol.isEmpty then (.val 1, ol, p, h) else
  if p.data.isSome then (.val 0, ol, p, h) else
  let s := sortOpts ol
  let a := addOpts s p h
  (a.1, s, a.2.1, a.2.2)

/-- `coap_new_string(len)` (also `coap_new_str_const`, `coap_new_bin_const`): one request -/
def newString (h : Heap) : Option Nat × Heap := h.alloc

def freeAll : List Nat → Heap → Heap
  | [], h => h
  | i :: r, h => freeAll r (h.free i)

/-! ## the send path's ownership skeleton -/

structure Node where
  id : Nat
  pdu : OPdu
  con : Bool               -- `node->pdu->type == COAP_MESSAGE_CON`: decides what coap_session_connected does with a delayed node
  deriving Repr, DecidableEq

/-- what the send path reads and writes in the session / context -/
structure Sess where
  conActive : Nat := 0
  nstart : Nat := 1
  maxTok : Nat := 8
  writeOk : Bool := true         -- result of the socket write
  established : Bool := true     -- `session->state == COAP_SESSION_STATE_ESTABLISHED` (false: DTLS handshake / TCP connect / CSM pending)
  sendq : List Node := []        -- context->sendqueue (nodes of this session)
  delayq : List Node := []       -- session->delayqueue
  deriving Repr, DecidableEq

inductive SendRes where
  | sentFreed      -- written, PDU released, message id returned
  | queued         -- written, a retransmission node in the send queue owns the PDU, message id returned
  | delayed        -- not written yet, a node in the session's delay queue owns the PDU, message id returned
  | error          -- COAP_INVALID_MID, PDU released
  deriving Repr, DecidableEq

/-- `coap_send_internal(session, pdu)` for a UDP session (`con` = `pdu->type == CON`).  coap_send_pdu DELAYS the message
(coap_session_delay_pdu: one request, the delay-queue node) when the session is not yet established -- whatever its type --
or when it is a CON and the NSTART slots are taken.  coap_session_delay_pdu does NOT release the PDU when the node cannot be
allocated: it returns COAP_INVALID_MID and the caller's `error:` label releases it, once.  (The message ids of a script are
pairwise distinct, so the "mid already in use" refusal of coap_session_delay_pdu -- same exit -- does not occur.) -/
def sendInternal (con : Bool) (p : OPdu) (s : Sess) (h : Heap) : SendRes × Sess × Heap :=
  -- coap_send_pdu
  if ¬ s.established ∨ (con ∧ s.conActive ≥ s.nstart) then
    -- coap_session_delay_pdu(session, pdu, NULL): coap_new_node()
    match h.alloc with
    | (none, h1) => (.error, s, pduDelete p h1)
    | (some n, h1) => (.delayed, { s with delayq := s.delayq ++ [⟨n, p, con⟩] }, h1)
  else if ¬ s.writeOk then (.error, s, pduDelete p h)
  else if ¬ con then (.sentFreed, s, pduDelete p h)
  else
    -- con_active++ in coap_send_pdu; coap_new_node(); on failure the slot is given back (fix)
    match h.alloc with
    | (none, h1) => (.error, s, pduDelete p h1)
    | (some n, h1) => (.queued, { s with conActive := s.conActive + 1, sendq := s.sendq ++ [⟨n, p, con⟩] }, h1)

/-- `coap_send(session, pdu)` → `coap_send_lkd` with block mode off: token length check, then `coap_send_internal` -/
def send (con : Bool) (p : OPdu) (s : Sess) (h : Heap) : SendRes × Sess × Heap :=
  if p.tokLen > s.maxTok then (.error, s, pduDelete p h) else sendInternal con p s h

/-- `coap_delete_node_lkd(node)`: the PDU (buffer, header), then the node -/
def nodeDelete (q : Node) (h : Heap) : Heap := (pduDelete q.pdu h).free q.id

/-- the loop of `coap_session_connected(session)` over `session->delayqueue` (UDP): a CON at the head waits while the NSTART
slots are taken (the loop ends); otherwise the head is taken off the queue and written; a CON's node goes to the send queue
as it is (coap_wait_ack: NO new allocation, the node keeps owning the PDU), any other node is released with its PDU
(coap_delete_node_lkd); a failed write ends the loop after the node has been dealt with. -/
def drain : List Node → Sess → Heap → Sess × Heap
  | [], s, h => ({ s with delayq := [] }, h)
  | q :: rest, s, h =>
    if q.con = true ∧ s.conActive ≥ s.nstart then ({ s with delayq := q :: rest }, h)
    else
      let s1 := if q.con = true then { s with conActive := s.conActive + 1, sendq := s.sendq ++ [q] } else s
      let h1 := if q.con = true then h else nodeDelete q h
      if s.writeOk = false then ({ s1 with delayq := rest }, h1) else drain rest s1 h1

/-- `coap_session_connected(session)`: state ESTABLISHED, then the delay queue is drained -/
def connected (s : Sess) (h : Heap) : Sess × Heap := drain s.delayq { s with established := true } h

/-! ## Observe registrations: the subscriptions of ONE observable resource held for ONE server session

src/coap_pdu.c       coap_pdu_duplicate_lkd (drop_options == NULL)
src/coap_cache.c     coap_cache_derive_key_w_ignore (one request: the key object; the digest context is GnuTLS's)
src/coap_resource.c  coap_add_observer, coap_delete_observer -> coap_delete_observer_internal, with `session->ref`
                     (coap_session_reference_lkd / coap_session_release_lkd on a server session: ++ / -- if > 0)

transcribed AFTER the fixes `coap_add_observer fails when the payload cannot be copied` and `coap_pdu_duplicate fails when
the token cannot be stored`.  Domain: request code is not FETCH (the payload is not part of the key), no `observe_added` /
`observe_deleted` callbacks, COAP_RESOURCE_MAX_SUBSCRIBER = 0.  SHA-256 is abstracted to its input: two keys are equal iff
the (number, value) lists of the cache-key options are (the session pointer is the same for all). -/

/-- `pdu->e_token_length` -/
def etl (p : OPdu) : Nat :=
  match M.tokBias p.tokLen with
  | some b => p.tokLen + b
  | none => p.tokLen

/-- the options of a PDU as `coap_pdu_duplicate_lkd` copies them: `token[e_token_length .. data - 1)` or up to `used_size` -/
def optRegion (p : OPdu) : Bytes :=
  let n := p.buf.length - etl p - (match p.data with | some d => p.buf.length - d + 1 | none => 0)
  (p.buf.drop (etl p)).take n

/-- `pdu->data`, `used_size - (data - token)` bytes -/
def payload (p : OPdu) : Option Bytes :=
  match p.data with
  | some d => some (p.buf.drop d)
  | none => none

/-- `coap_pdu_duplicate_lkd(old, session, tok.length, tok, NULL)`; `sessMax` = `coap_session_max_pdu_size_lkd(session)` -/
def pduDuplicate (old : OPdu) (sessMax : Nat) (tok : Bytes) (h : Heap) : Option OPdu × Heap :=
  match pduInit (max old.maxSize sessMax) h with
  | (none, h1) => (none, h1)
  | (some p, h1) =>
    let t := addToken p tok h1
    if t.1 = 0 then (none, pduDelete t.2.1 t.2.2) else
    let opts := optRegion old
    let r := resize t.2.1 (opts.length + etl t.2.1) t.2.2
    if r.1 = 0 then (none, pduDelete r.2.1 r.2.2) else
    (some { r.2.1 with buf := r.2.1.buf ++ opts, maxOpt := old.maxOpt }, r.2.2)

/-- `is_cache_key(number, cache_ignore_options = {ETag, OSCORE})`: not NoCacheKey, not Observe, not ignored -/
def isCacheKey (num : Nat) : Bool := !(num % 32 / 2 == 14) && num != 6 && num != 4 && num != 9

abbrev KeyMat := List (Nat × Bytes)

/-- what `coap_cache_derive_key_w_ignore` digests; `none` = `coap_option_iterator_init` fails (nothing after the token) -/
def keyOf (p : OPdu) : Option KeyMat :=
  if p.buf.length ≤ etl p then none else
  some ((M.optIter (p.buf.length + 1) (p.buf.drop (etl p)) (etl p) 0).filterMap fun it =>
    if isCacheKey it.num then some (it.num, (p.buf.drop (it.ofs + it.p.valOfs)).take it.p.length) else none)

/-- `coap_cache_derive_key_w_ignore(session, pdu, COAP_CACHE_IS_SESSION_BASED, …)`: serial of the key object + its value -/
def deriveKey (p : OPdu) (h : Heap) : Option (Nat × KeyMat) × Heap :=
  match keyOf p with
  | none => (none, h)
  | some km =>
    match h.alloc with
    | (none, h1) => (none, h1)
    | (some k, h1) => (some (k, km), h1)

/-- `coap_subscription_t` -/
structure Sub where
  id : Nat               -- ledger serial of the subscription
  pdu : OPdu             -- s->pdu
  keyId : Nat            -- ledger serial of s->cache_key
  key : KeyMat
  tok : Bytes            -- s->pdu->actual_token
  deriving Repr, DecidableEq

/-- the session's reference count and the resource's subscriber list (head first) -/
structure Obs where
  ref : Nat := 0
  subs : List Sub := []
  deriving Repr, DecidableEq

/-- `coap_delete_observer_internal(resource, session, s)` -/
def deleteObserverInternal (s : Sub) (o : Obs) (h : Heap) : Obs × Heap :=
  if o.subs.isEmpty then (o, h) else
  ({ ref := o.ref - 1, subs := o.subs.eraseP (fun x => x.id == s.id) },
   ((pduDelete s.pdu h).free s.keyId).free s.id)

/-- `coap_delete_observer(resource, session, token)` -/
def deleteObserver (tok : Bytes) (o : Obs) (h : Heap) : Nat × Obs × Heap :=
  match o.subs.find? (fun x => x.tok == tok) with
  | none => (0, o, h)
  | some s => let r := deleteObserverInternal s o h; (1, r.1, r.2)

/-- first part of `coap_add_observer` when no subscription has the token: derive the cache key (one request) and delete the
subscription of the same session for the same request, if there is one (`coap_delete_observer` with ITS token).  Returns
the key (serial, value) if it could be derived. -/
def replaceStep (req : OPdu) (o : Obs) (h : Heap) : Option (Nat × KeyMat) × Obs × Heap :=
  let k1 := deriveKey req h
  match k1.1 with
  | some (k, km) =>
    match o.subs.find? (fun x => x.key == km) with
    | some s => let r := deleteObserver s.tok o k1.2; (some (k, km), r.2.1, r.2.2)
    | none => (some (k, km), o, k1.2)
  | none => (none, o, k1.2)

/-- `coap_delete_cache_key(cache_key)` of the key derived by `replaceStep` (NULL: nothing) -/
def freeKey (k1 : Option (Nat × KeyMat)) (h : Heap) : Heap :=
  match k1 with
  | some (k, _) => h.free k
  | none => h

/-- `if (coap_get_data(request, &len, &data)) { s->pdu->max_size = 0; if (!coap_add_data(s->pdu, len, data)) fail }`:
a FETCH body is kept with the copy (no size limit); after the fix a failure is an error -/
def copyPayload (req p : OPdu) (h : Heap) : Nat × OPdu × Heap :=
  match payload req with
  | some body => addData { p with maxSize := 0 } body h
  | none => (1, p, h)

/-- `if (cache_key == NULL) cache_key = coap_cache_derive_key_w_ignore(…)`: derived now if it could not be derived before -/
def lateKey (req : OPdu) (k1 : Option (Nat × KeyMat)) (h : Heap) : Option (Nat × KeyMat) × Heap :=
  match k1 with
  | some k => (some k, h)
  | none => deriveKey req h

/-- `coap_add_observer` after the subscription `sid` and the copy `p` of the request exist -/
def finishSub (req : OPdu) (tok : Bytes) (k1 : Option (Nat × KeyMat)) (o : Obs) (sid : Nat) (p : OPdu) (h : Heap) :
    Option Nat × Obs × Heap :=
  let a := copyPayload req p h
  if a.1 = 0 then (none, o, (freeKey k1 (pduDelete a.2.1 a.2.2)).free sid) else
  let k2 := lateKey req k1 a.2.2
  match k2.1 with
  | none => (none, o, (pduDelete a.2.1 k2.2).free sid)
  | some (kid, km) =>
    -- s->session = coap_session_reference_lkd(session): AFTER the last step that can fail; LL_PREPEND
    (some sid, { ref := o.ref + 1, subs := ⟨sid, a.2.1, kid, km, tok⟩ :: o.subs }, k2.2)

/-- second part of `coap_add_observer`: "Create a new subscription" …; `k1` = the key derived before, if any -/
def createSub (req : OPdu) (sessMax : Nat) (tok : Bytes) (k1 : Option (Nat × KeyMat)) (o : Obs) (h : Heap) :
    Option Nat × Obs × Heap :=
  match h.alloc with
  | (none, h2) => (none, o, freeKey k1 h2)
  | (some sid, h2) =>
    match pduDuplicate req sessMax tok h2 with
    | (none, h3) => (none, o, (freeKey k1 h3).free sid)
    | (some p, h3) => finishSub req tok k1 o sid p h3

/-- `coap_add_observer(resource, session, token, request)`: serial of the subscription returned, `none` = NULL -/
def addObserver (req : OPdu) (sessMax : Nat) (tok : Bytes) (o : Obs) (h : Heap) : Option Nat × Obs × Heap :=
  match o.subs.find? (fun x => x.tok == tok) with
  | some s => (some s.id, o, h)
  | none =>
    let r := replaceStep req o h
    createSub req sessMax tok r.1 r.2.1 r.2.2

/-! ## scripts (the `ahelp` line protocol of harness/allocfail.c) -/

inductive HOp where
  | init (size : Nat)              -- I<size>   (an existing PDU is deleted first)
  | token (len : Nat)              -- T<len>
  | option (num len : Nat)         -- O<num>:<len>
  | data (len : Nat)               -- D<len>
  | resize (n : Nat)               -- R<n>
  | check (n : Nat)                -- C<n>
  | del                            -- K
  | olAdd (num len : Nat)          -- L<num>:<len>
  | olPdu                          -- P
  | olDel                          -- X
  | str (len : Nat)                -- S<len> s<len> b<len>
  | strFree                        -- F
  | send (con : Bool)              -- Vc Vn
  | write (ok : Bool)              -- W0 W1
  | estab (up : Bool)              -- E0 (session->state = CONNECTING: handshake / connect pending)  E1 (coap_session_connected)
  | obsAdd (toklen : Nat)          -- A<len>   coap_add_observer(resource, server session, token, current PDU)
  | obsDel (toklen : Nat)          -- B<len>   coap_delete_observer(resource, server session, token)
  deriving Repr, DecidableEq

structure St where
  heap : Heap
  pdu : Option OPdu := none
  ol : List Opt := []
  strs : List Nat := []
  sess : Sess := {}
  obs : Obs := {}
  deriving Repr, DecidableEq

/-- `coap_session_max_pdu_size_lkd` of a UDP session: COAP_DEFAULT_MTU - 4 -/
def SESS_MAX_PDU : Nat := 1148

/-- result of one script step as printed: a number, `-` (skipped: no PDU), a send outcome, or unmodelled -/
inductive Out where
  | num (n : Nat)
  | skip
  | sent (r : SendRes)
  | unmodelled
  deriving Repr, DecidableEq

/-- the byte pattern the harness uses for tokens, option values and payloads: 1, 2, 3, ... -/
def pattern (len : Nat) : Bytes := (List.range len).map fun i => UInt8.ofNat (i + 1)

def ofRc : Rc → Out
  | .val n => .num n
  | .unmodelled => .unmodelled

def St.step (st : St) : HOp → Out × St
  | .init size =>
    let h0 := match st.pdu with | some p => pduDelete p st.heap | none => st.heap
    match pduInit size h0 with
    | (none, h1) => (.num 0, { st with heap := h1, pdu := none })
    | (some p, h1) => (.num 1, { st with heap := h1, pdu := some p })
  | .token len =>
    match st.pdu with
    | none => (.num 0, st)                          -- coap_add_token(NULL, ...) returns 0
    | some p => let (rc, p1, h1) := addToken p (pattern len) st.heap; (.num rc, { st with heap := h1, pdu := some p1 })
  | .option num len =>
    match st.pdu with
    | none => (.skip, st)
    | some p => let (rc, p1, h1) := addOption p num (pattern len) st.heap; (ofRc rc, { st with heap := h1, pdu := some p1 })
  | .data len =>
    match st.pdu with
    | none => (.skip, st)
    | some p => let (rc, p1, h1) := addData p (pattern len) st.heap; (.num rc, { st with heap := h1, pdu := some p1 })
  | .resize n =>
    match st.pdu with
    | none => (.skip, st)
    | some p =>
      if n < p.buf.length then (.skip, st) else      -- no caller of coap_pdu_resize shrinks below used_size: the script skips it
      let (rc, p1, h1) := resize p n st.heap; (.num rc, { st with heap := h1, pdu := some p1 })
  | .check n =>
    match st.pdu with
    | none => (.skip, st)
    | some p => let (rc, p1, h1) := checkResize p n st.heap; (.num rc, { st with heap := h1, pdu := some p1 })
  | .del =>
    match st.pdu with
    | none => (.num 1, st)
    | some p => (.num 1, { st with heap := pduDelete p st.heap, pdu := none })
  | .olAdd num len =>
    let (rc, ol1, h1) := optlistAdd st.ol num (pattern len) st.heap
    (.num rc, { st with heap := h1, ol := ol1 })
  | .olPdu =>
    match st.pdu with
    | none => (.skip, st)
    | some p => let (rc, ol1, p1, h1) := addOptlistPdu st.ol p st.heap; (ofRc rc, { st with heap := h1, ol := ol1, pdu := some p1 })
  | .olDel => (.num 1, { st with heap := optlistDelete st.ol st.heap, ol := [] })
  | .str _ =>
    match newString st.heap with
    | (none, h1) => (.num 0, { st with heap := h1 })
    | (some i, h1) => (.num 1, { st with heap := h1, strs := st.strs ++ [i] })
  | .strFree => (.num 1, { st with heap := freeAll st.strs st.heap, strs := [] })
  | .send con =>
    match st.pdu with
    | none => (.skip, st)
    | some p => let (r, s1, h1) := send con p st.sess st.heap; (.sent r, { st with heap := h1, sess := s1, pdu := none })
  | .write ok => (.num 1, { st with sess := { st.sess with writeOk := ok } })
  | .estab up =>
    if up then let (s1, h1) := connected st.sess st.heap; (.num 1, { st with heap := h1, sess := s1 })
    else (.num 1, { st with sess := { st.sess with established := false } })
  | .obsAdd toklen =>
    match st.pdu with
    | none => (.skip, st)
    | some p =>
      let r := addObserver p SESS_MAX_PDU (pattern toklen) st.obs st.heap
      (.num (if r.1.isSome then 1 else 0), { st with heap := r.2.2, obs := r.2.1 })
  | .obsDel toklen =>
    let r := deleteObserver (pattern toklen) st.obs st.heap
    (.num r.1, { st with heap := r.2.2, obs := r.2.1 })

def St.run : St → List HOp → List Out × St
  | st, [] => ([], st)
  | st, op :: r => let (o, st1) := st.step op; let (os, st2) := st1.run r; (o :: os, st2)

/-- everything the script (and the library's queues) still own is released: the tear-down of the harness -/
def St.cleanup (st : St) : St :=
  let h := match st.pdu with | some p => pduDelete p st.heap | none => st.heap
  let h := optlistDelete st.ol h
  let h := freeAll st.strs h
  let h := (st.sess.sendq ++ st.sess.delayq).foldl (fun h n => nodeDelete n h) h
  -- coap_free_resource: every subscription gives its reference back and is released
  let h := st.obs.subs.foldl (fun h s => ((pduDelete s.pdu h).free s.keyId).free s.id) h
  { st with heap := h, pdu := none, ol := [], strs := [], sess := { st.sess with sendq := [], delayq := [] },
            obs := { ref := st.obs.ref - st.obs.subs.length, subs := [] } }

/-- oracle that fails exactly the requests number `k1` and `k2` (1-based, 0 = none) among the first `n` -/
def oracleFailing (k1 k2 n : Nat) : Oracle :=
  (List.range n).map fun i => !(i + 1 = k1 || i + 1 = k2)

def St.init (orc : Oracle) : St := { heap := { orc := orc } }

end Coap.AllocOracle
