import CoapVerif.Model.BlockCrcv
/-
M — two small pieces of the client side of src/coap_block.c that decide what the APPLICATION's handlers get to see of a
transfer libcoap runs under tokens of its own:

  * `crcvStepS`: `coap_handle_response_get_block(context, session, sent, rcvd, COAP_RECURSE_OK)` with `sent` possibly
    NULL.  `sent` is the request the response was matched to by message id in `coap_dispatch` — non-NULL only for a
    piggybacked ACK whose Confirmable request is still in the send queue; NULL for every Non-confirmable / separate
    response and for any message nobody is waiting for.  `Model/BlockCrcv.lean` transcribes `sent != NULL`; what is
    added here is the other arm of "Check if receiving a block response and if blocks can be set up":

        if (recursive == COAP_RECURSE_OK && !lg_crcv) {
          if (!sent) {
            if (coap_get_block_b(session, rcvd, COAP_OPTION_BLOCK2, &block) …) {
              coap_log_debug("** %s: large body receive internal issue\n", …);
              goto skip_app_handler;             // ACK if needed, return 1: the handler is NOT called
            }
          } else if (COAP_RESPONSE_CLASS(rcvd->code) == 2) { …  // crcvStep … none
          }
        }
        return 0;

    With an lg_crcv found by token `sent` is only used to put the application's token back into it.

  * `checkUpdateToken`: `coap_check_update_token(session, pdu)`, called by `coap_handle_nack()` on the abandoned PDU
    before the application's NACK handler sees it: the session's lg_crcv list, then (requests only) its lg_xmit list is
    searched for the transfer the PDU's token belongs to — as its application token (nothing to do) or as a token
    derived from its state token (`STATE_TOKEN_BASE` = the low 44 bits; the top 20 bits count the blocks) — and the
    application's token is put back.

Core Lean only.
-/
namespace Coap.Block

/-- `coap_handle_response_get_block` for one 2.xx response, `sent = false` ⇔ the `sent` argument is NULL -/
def crcvStepS (sent : Bool) (single : Bool) (cap : Nat) (junk : UInt8) (st : Option Crcv) (r : Resp) :
    Option Crcv × CrcvOut :=
  match st with
  | some lg => crcvFound single cap junk lg r
  | none =>
    if sent then crcvStep single cap junk none r
    else
      match r.blk with
      | some _ => (none, .skip)            -- "large body receive internal issue": skip_app_handler
      | none => (none, .plain r.payload)   -- return 0: the caller hands the message to the handler as it is

/-- a run: every response comes with its own `sent` flag -/
def runCrcvS (single : Bool) (cap : Nat) (junk : UInt8) : Option Crcv → List (Bool × Resp) → List CrcvOut
  | _, [] => []
  | st, x :: xs =>
    (crcvStepS x.1 single cap junk st x.2).2 :: runCrcvS single cap junk (crcvStepS x.1 single cap junk st x.2).1 xs

/-! ## coap_check_update_token -/

/-- `coap_decode_var_bytes8`: at most 8 bytes, big endian, `uint64_t` arithmetic -/
def decodeVar8 (b : Bytes) : Nat :=
  (b.take 8).foldl (fun n x => (n * 256 + x.toNat) % 2 ^ 64) 0

/-- `STATE_TOKEN_BASE(t)` = `t & (0xffffffffffffffff >> STATE_MAX_BLK_CNT_BITS)`, STATE_MAX_BLK_CNT_BITS = 20 -/
def stateTokenBase (t : Nat) : Nat := t % 2 ^ 44

/-- `STATE_TOKEN_FULL(t, r)` = base + (r << 44), `uint64_t` -/
def stateTokenFull (t r : Nat) : Nat := (stateTokenBase t + r * 2 ^ 44) % 2 ^ 64

/-- what the function reads of a `coap_lg_crcv_t` (`app_token`, `state_token`) or of a `coap_lg_xmit_t`
(`b.b1.app_token`, `b.b1.state_token`) -/
structure TokEnt where
  appTok : Bytes
  state : Nat
  deriving Repr, DecidableEq

/-- one `LL_FOREACH`: `some t` = the function returned inside the loop with token `t` in the PDU, `none` = fell through.
`m` = `STATE_TOKEN_BASE(coap_decode_var_bytes8(pdu->actual_token))`, computed once in front of the loops -/
def tokScan (m : Nat) (tok : Bytes) : List TokEnt → Option Bytes
  | [] => none
  | e :: es =>
    if tok = e.appTok then some tok                               -- coap_binary_equal(&pdu->actual_token, app_token): return
    else if m = stateTokenBase e.state then some e.appTok         -- coap_update_token(pdu, app_token); return
    else tokScan m tok es

/-- `coap_check_update_token(session, pdu)`: the token `pdu` carries afterwards.  `crcvs` = `session->lg_crcv`,
`xmits` = `session->lg_xmit` (list order), `isReq` = `COAP_PDU_IS_REQUEST(pdu)`, `tok` = `pdu->actual_token` -/
def checkUpdateToken (crcvs xmits : List TokEnt) (isReq : Bool) (tok : Bytes) : Bytes :=
  let m := stateTokenBase (decodeVar8 tok)
  -- fix f4071ae: `if (STATE_TOKEN_RETRY(token_full) == 0) return;` — every token libcoap generates for a block transfer
  -- carries a retry count ≥ 1; a token without one is the application's own and is left alone
  if decodeVar8 tok / 2 ^ 44 = 0 then tok else
  match tokScan m tok crcvs with
  | some t => t
  | none =>
    if isReq then
      match tokScan m tok xmits with
      | some t => t
      | none => tok
    else tok

end Coap.Block
