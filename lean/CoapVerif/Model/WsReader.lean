import CoapVerif.Model.Parse
import CoapVerif.Spec.StreamWs
/-
M (WebSocket part of C05) — faithful model of the CoAP-over-WebSockets reader AFTER the `fix:` commits
(long handshake line, 2-byte messages, empty frame, payload kept in ws->rx_data, frames left in rd_header,
header line that starts with its separator):

  coap_ws_split_rd_header, coap_ws_rd_http_header_server/_client, coap_ws_rd_http_header   src/coap_ws.c
  coap_ws_read                                                                              src/coap_ws.c
  the WS branch of coap_read_session (do … while (more))                                    src/coap_net.c

The transport (`lfunc[COAP_LAYER_WS].l_read(buf, n)`) hands out at most `n` of the bytes currently
available (`avail`).  Buffers are the list of bytes written so far; capacities: http_hdr[160],
rd_header[14]; the payload buffer `data` belongs to the CALLER (coap_read_session's stack array) and is
a fresh local of every call — only `rxData` (ws->rx_data) survives between calls.
Oracles (not modelled): SHA-1/base64 of the accept hash (`accept` = the expected header value),
base64-decoding of the key (`keyOk`), the Close frame coap_ws_close writes.  coap_ws_close's draining of the socket
is modelled at the end of this file (`closeDrain`, `drainRounds`; entered by the reader itself: `refusalPoint`, `selfClose`).
C strings: `lfIdx` = strchr(http_hdr, LF) stops at a NUL byte, so a line handed to the per-line checks never
contains one.
-/
namespace Coap.M.Ws
open Coap Coap.M Coap.Spec.Stream.Ws

def httpCap : Nat := 160
def fsCap : Nat := 14          -- COAP_MAX_FS = sizeof(rd_header)
def rxBuf : Nat := 1472        -- sizeof(payload) in coap_read_session

def asc (s : String) : Bytes := s.toUTF8.toList

def lower (b : UInt8) : UInt8 := if 65 ≤ b.toNat ∧ b.toNat ≤ 90 then b + 32 else b
/-- strcasecmp(a, b) == 0 -/
def ieq (a b : Bytes) : Bool := a.map lower == b.map lower

structure Seen where
  first : Bool := false
  host : Bool := false
  upg : Bool := false
  conn : Bool := false
  key : Bool := false
  proto : Bool := false
  ver : Bool := false
  deriving DecidableEq, Repr

def isBlank (b : UInt8) : Bool := b = 32 || b = 9

def idxOf (c : UInt8) : Bytes → Option Nat
  | [] => none
  | b :: r => if b = c then some 0 else (idxOf c r).map (· + 1)

/-- `coap_ws_split_rd_header`: (index of the separator, name, value); NULL without a separator and (fix: the
terminator used to be written at `http_hdr[0]`, which made the line look empty) when the line starts with it -/
def splitHdr (line : Bytes) : Option (Nat × Bytes × Bytes) :=
  match (match idxOf 32 line with | some i => some i | none => idxOf 9 line) with
  | none => none
  | some 0 => none
  | some (i + 1) => some (i + 1, line.take (i + 1), (line.drop (i + 2)).dropWhile isBlank)

/-- atoi() on a value that starts with digits -/
def atoi (v : Bytes) : Nat :=
  ((v.dropWhile isBlank).takeWhile (fun b => 48 ≤ b.toNat ∧ b.toNat ≤ 57)).foldl (fun a b => a * 10 + (b.toNat - 48)) 0

/-- oracle for `coap_base64_decode_buffer(value, &len, key, 16) && len == 16` -/
def keyOk (v : Bytes) : Bool := v.length = 24

/-- `coap_ws_rd_http_header_server` on one line; `none` = return 0 -/
def lineServer (s : Seen) (line : Bytes) : Option Seen :=
  if !s.first then
    if ieq line (asc "GET /.well-known/coap HTTP/1.1") then some { s with first := true } else none
  else match splitHdr line with
    | none => none
    | some (_, name, value) =>
      if ieq name (asc "Host:") then (if s.host then none else some { s with host := true })
      else if ieq name (asc "Upgrade:") then
        (if s.upg then none else if ieq value (asc "websocket") then some { s with upg := true } else none)
      else if ieq name (asc "Connection:") then
        (if s.conn then none
         else if ieq value (asc "Upgrade") || ieq value (asc "keep-alive, Upgrade") then some { s with conn := true } else none)
      else if ieq name (asc "Sec-WebSocket-Key:") then
        (if s.key then none else if keyOk value then some { s with key := true } else none)
      else if ieq name (asc "Sec-WebSocket-Protocol:") then
        (if s.proto then none else if ieq value (asc "coap") then some { s with proto := true } else none)
      else if ieq name (asc "Sec-WebSocket-Version:") then
        (if s.ver then none else if ieq value (asc "13") then some { s with ver := true } else none)
      else some s

/-- `coap_ws_rd_http_header_client` on one line (with the fix: a first line without separator fails) -/
def lineClient (accept : Bytes) (s : Seen) (line : Bytes) : Option Seen :=
  if !s.first then
    match splitHdr line with
    | none => none
    | some (_, name, value) =>
      if name = asc "HTTP/1.1" ∧ atoi value = 101 then some { s with first := true } else none
  else match splitHdr line with
    | none => none
    | some (_, name, value) =>
      if ieq name (asc "Upgrade:") then
        (if s.upg then none else if ieq value (asc "websocket") then some { s with upg := true } else none)
      else if ieq name (asc "Connection:") then
        (if s.conn then none else if ieq value (asc "Upgrade") then some { s with conn := true } else none)
      else if ieq name (asc "Sec-WebSocket-Accept:") then
        (if s.key then none else if value = accept then some { s with key := true } else none)
      else if ieq name (asc "Sec-WebSocket-Protocol:") then
        (if s.proto then none else if ieq value (asc "coap") then some { s with proto := true } else none)
      else some s

def lineOk (mode : Mode) (accept : Bytes) (s : Seen) (line : Bytes) : Option Seen :=
  match mode with
  | .server => lineServer s line
  | .client => lineClient accept s line

def allSeen (mode : Mode) (s : Seen) : Bool :=
  match mode with
  | .server => s.first && s.host && s.upg && s.conn && s.key && s.proto && s.ver
  | .client => s.first && s.upg && s.conn && s.key && s.proto

/-- the acceptance function handed to the specification (SPEC DECISION D17) -/
def validator (mode : Mode) (accept : Bytes) : Validator Seen := ⟨{}, lineOk mode accept, allSeen mode⟩

structure St where
  up : Bool := false
  httpHdr : Bytes := []          -- http_hdr[0 .. http_ofs)
  seen : Seen := {}
  rdHeader : Bytes := []         -- rd_header[0 .. hdr_ofs)
  allHdrIn : Bool := false
  maskKey : Bytes := []
  dataOfs : Nat := 0
  dataSize : Nat := 0
  rxData : Option Bytes := none  -- ws->rx_data[0 .. data_ofs)
  deriving DecidableEq, Repr

/-- result of the `while (cp)` line loop over the buffered bytes -/
inductive Lines where
  | cont (st : St)       -- no further complete line
  | fail
  | oob
  | up (st : St)
  deriving Repr

/-- `strchr(http_hdr, '\n')`: the first LF, unless a NUL byte comes first -/
def lfIdx : Bytes → Option Nat
  | [] => none
  | b :: r => if b = 10 then some 0 else if b = 0 then none else (lfIdx r).map (· + 1)

/-- the inner `while (cp)` loop of `coap_ws_rd_http_header`: process every complete line in `http_hdr` -/
def lineLoop (mode : Mode) (accept : Bytes) : (fuel : Nat) → St → Lines
  | 0, st => .cont st
  | fuel + 1, st =>
    match lfIdx st.httpHdr with
    | none => .cont st
    | some i =>
      let raw := st.httpHdr.take i
      let line := if raw.getLast? = some 13 then raw.dropLast else raw
      let rem := st.httpHdr.drop (i + 1)
      -- a non-empty line goes through the per-line checks; `http_hdr[0] == 0` is tested again after them, but
      -- they write a NUL only behind a non-empty header name (`splitHdr`), so `http_hdr[0]` is unchanged
      let r : Option (Seen × Bool) :=
        if line = [] then some (st.seen, true)
        else match lineOk mode accept st.seen line with
          | none => none
          | some s' => some (s', false)
      match r with
      | none => .fail
      | some (s', endLine) =>
        if endLine then
          if allSeen mode s' then
            if rem.length > fsCap then .oob      -- memcpy(ws->rd_header, cp + 1, rem)
            else .up { st with up := true, seen := s', rdHeader := rem, httpHdr := [] }
          else .fail
        else lineLoop mode accept fuel { st with seen := s', httpHdr := rem }

/-- `coap_ws_rd_http_header`: returns (ok, state, bytes still available) -/
def rdHttpHeader (mode : Mode) (accept : Bytes) : (fuel : Nat) → St → Bytes → R (St × Bytes)
  | 0, st, av => R.ok (st, av)
  | fuel + 1, st, av =>
    if st.up then R.ok (st, av) else
    let rem0 := httpCap - 1 - st.httpHdr.length
    let rem := if rem0 > fsCap then fsCap else rem0
    if rem = 0 then R.rej else                         -- line too long (fix A)
    let got := av.take rem
    if got.length = 0 then R.ok (st, av) else
    let buf := st.httpHdr ++ got
    if buf.length ≥ httpCap then R.oob else            -- http_hdr[http_ofs] = 0
    match lineLoop mode accept (buf.length + 1) { st with httpHdr := buf } with
    | .fail => R.rej
    | .oob => R.oob
    | .up st' => R.ok (st', av.drop rem)
    | .cont st' => rdHttpHeader mode accept fuel st' (av.drop rem)

/-- what `coap_ws_read` returns -/
inductive Ret where
  | err              -- -1
  | zero             -- 0
  | pkt (bs : Bytes) -- > 0: the frame payload now in the caller's buffer
  | closed           -- coap_ws_close() was called (return 0, session down)
  | oob
  deriving Repr, DecidableEq

def xorKey (key : Bytes) (i : Nat) : Bytes → Bytes
  | [] => []
  | b :: r => (b ^^^ key.getD (i % 4) 0) :: xorKey key (i + 1) r

def be64 (bs : Bytes) : Nat := bs.foldl (fun a b => a * 256 + b.toNat) 0

/-- "Get in (remaining) data" part of `coap_ws_read`; `data` = what this call put into the caller's buffer so far -/
def readData (mode : Mode) (st : St) (av data : Bytes) (datalen : Nat) : Ret × St × Bytes :=
  if st.dataSize > datalen then (.err, st, av) else
  let got := av.take (st.dataSize - st.dataOfs)
  let av' := av.drop (st.dataSize - st.dataOfs)
  let ofs := st.dataOfs + got.length
  -- destination: rx_data if present, else the caller's buffer
  let sofar := match st.rxData with
    | some rx => rx.take st.dataOfs ++ got
    | none => data.take st.dataOfs ++ got
  if ofs = st.dataSize then
    let pl := if mode = .server then xorKey st.maskKey 0 sofar else sofar
    (.pkt pl, { st with allHdrIn := false, rdHeader := [], dataOfs := 0, rxData := none }, av')
  else
    let rx := match st.rxData with
      | some _ => some sofar
      | none => if ofs > 0 then some sofar else none
    (.zero, { st with dataOfs := ofs, rxData := rx }, av')

/-- `coap_ws_read` once the handshake is done, from label `next_frame` on -/
def readFrame (mode : Mode) (datalen : Nat) : (fuel : Nat) → St → Bytes → Ret × St × Bytes
  | 0, st, av => (.zero, st, av)
  | fuel + 1, st, av =>
    if st.allHdrIn then readData mode st av [] datalen else
    let n := fsCap - st.rdHeader.length
    let hdr := st.rdHeader ++ av.take n
    let av := av.drop n
    let st := { st with rdHeader := hdr }
    if hdr.length < 2 then (.zero, st, av) else
    match rd hdr 0, rd hdr 1 with
    | R.ok b0, R.ok b1 =>
      let masked := b1 / 128 = 1
      if mode = .server ∧ ¬ masked then (.closed, st, av) else          -- 1002
      let l7 := b1 % 128
      let ext := if l7 = 127 then 8 else if l7 = 126 then 2 else 0
      -- the mask key is copied before it is known to be in; the copy is repeated on every call until the header is complete
      let extra := ext + (if masked then 4 else 0)
      if 2 + extra > fsCap then (.oob, st, av) else
      if hdr.length < 2 + extra then (.zero, st, av) else
      let key := if masked then (hdr.drop (2 + ext)).take 4 else st.maskKey
      let op := b0 % 16
      if op ≠ 2 ∧ op ≠ 8 then (.closed, st, av) else                     -- 1003
      if op = 8 then (.closed, st, av) else
      let size := if l7 = 127 then be64 ((hdr.drop 2).take 8) else if l7 = 126 then be64 ((hdr.drop 2).take 2) else l7
      let st := { st with allHdrIn := true, maskKey := key, dataSize := size }
      if size > datalen then (.closed, st, av) else                       -- 1009, COAP_EVENT_WS_PACKET_SIZE
      let ret := hdr.length - 2 - extra
      if size = 0 then
        let st := { st with rdHeader := hdr.drop (2 + extra), allHdrIn := false }
        if ret > 0 then readFrame mode datalen fuel st av else (.zero, st, av)
      else if ret > 0 then
        if ret ≤ size then
          let data := hdr.drop (2 + extra)
          let st := { st with dataOfs := ret }
          if ret = size then
            let pl := if mode = .server then xorKey key 0 data else data
            (.pkt pl, { st with allHdrIn := false, rdHeader := [] }, av)
          else readData mode st av data datalen
        else
          let data := (hdr.drop (2 + extra)).take size
          let pl := if mode = .server then xorKey key 0 data else data
          (.pkt pl, { st with dataOfs := size, allHdrIn := false, rdHeader := hdr.drop (2 + extra + size) }, av)
      else readData mode { st with dataOfs := 0 } av [] datalen
    | _, _ => (.oob, st, av)

/-- `coap_ws_read(session, data, datalen)`.  `goto next_frame` is not bounded in the C code: every frame
without data that is already in `rd_header` or can be read is skipped within the same call, so the fuel is the
number of bytes at hand (every round consumes at least the two fixed header bytes).  [A constant fuel of
`fsCap + 2` made the model stop after 16 empty frames and leave a complete following frame in `rd_header`
until the next read event, which the C code does not do.] -/
def wsRead (mode : Mode) (accept : Bytes) (datalen : Nat) (st : St) (av : Bytes) : Ret × St × Bytes :=
  if !st.up then
    match rdHttpHeader mode accept (av.length + 2) st av with
    | R.rej => (.err, st, av)            -- HTTP 400, coap_session_disconnected_lkd, return -1
    | R.oob => (.oob, st, av)
    | R.ok (st', av') =>
      if !st'.up then (.zero, st', av')
      else if st'.rdHeader.length = 0 then (.zero, st', av')
      else readFrame mode datalen (av'.length + fsCap + 2) st' av'
  else readFrame mode datalen (av.length + fsCap + 2) st av

/-- how a `coap_read_session` call ends -/
inductive Sess where
  | open (st : St) | closed | oob
  deriving Repr

/-- the WS branch of `coap_read_session`: do { … } while (more) -/
def readSession (mode : Mode) (accept : Bytes) : (fuel : Nat) → St → Bytes → List Msg × Sess × Bytes
  | 0, st, av => ([], .open st, av)
  | fuel + 1, st, av =>
    match wsRead mode accept rxBuf st av with
    | (.err, _, av') => ([], .closed, av')
    | (.closed, _, av') => ([], .closed, av')
    | (.oob, _, av') => ([], .oob, av')
    | (.zero, st', av') => ([], .open st', av')
    | (.pkt pl, st', av') =>
      let ms := Spec.Stream.deliver (M.parse .ws pl).toOption []
      if st'.rdHeader.length > 0 then
        let r := readSession mode accept fuel st' av'
        (ms ++ r.1, r.2.1, r.2.2)
      else (ms, .open st', av')

/-- the event loop on one chunk: `coap_read_session` is called while bytes are available; more than four
calls in a row that consume nothing end the attempt (`stuck`) -/
def feedChunk (mode : Mode) (accept : Bytes) : (fuel : Nat) → (idle : Nat) → St → Bytes → List Msg × Sess × Bool
  | 0, _, st, _ => ([], .open st, false)
  | fuel + 1, idle, st, av =>
    if av.length = 0 then ([], .open st, false) else
    match readSession mode accept (av.length + fsCap + 2) st av with
    | (ms, .open st', av') =>
      if av'.length = av.length then
        if idle + 1 > 4 then (ms, .open st', true)
        else let r := feedChunk mode accept fuel (idle + 1) st' av'; (ms ++ r.1, r.2.1, r.2.2)
      else let r := feedChunk mode accept fuel 0 st' av'; (ms ++ r.1, r.2.1, r.2.2)
    | (ms, s, _) => (ms, s, false)

def feed (mode : Mode) (accept : Bytes) : St → List Bytes → List Msg × Sess × Bool
  | st, [] => ([], .open st, false)
  | st, c :: cs =>
    match feedChunk mode accept (6 * (c.length + 1)) 0 st c with
    | (ms, .open st', false) => let r := feed mode accept st' cs; (ms ++ r.1, r.2.1, r.2.2)
    | r => r

/-! ### `coap_ws_close`: draining the socket for the peer's Close frame -/

/-- sizeof(buf) in coap_ws_close -/
def drainBuf : Nat := 100
/-- `count = 5` in coap_ws_close -/
def drainCount : Nat := 5

/-- `ws->recv_close` after a `coap_ws_read` call: set exactly when the call left through the "Close received" exit,
i.e. the header just completed in `rd_header` is a Close frame (the other `.closed` exits: 1002 — unmasked frame to a
server, 1003 — opcode neither binary nor close, 1009 — `all_hdr_in` already set) -/
def recvCloseOf (mode : Mode) (ret : Ret) (st : St) : Bool :=
  match ret, st.rdHeader with
  | .closed, b0 :: b1 :: _ =>
    !st.allHdrIn && !(mode = .server && !(b1.toNat / 128 = 1)) && b0.toNat % 16 = 8
  | _, _ => false

/-- the `while (!recv_close && count > 0 && coap_netif_available(session))` loop of `coap_ws_close`, entered with
`sent_close` set (so `coap_ws_read` does not call `coap_ws_close` again — its `.closed` exits just return 0):
select() on the socket, `coap_ws_read(session, buf, sizeof(buf))` if it is readable, `count--`.
Returns (recv_close, state, bytes still unread, number of `coap_ws_read` calls made). -/
def closeDrain (mode : Mode) : (count : Nat) → St → Bytes → Bool × St × Bytes × Nat
  | 0, st, av => (false, st, av, 0)
  | c + 1, st, av =>
    if av.length = 0 then
      let r := closeDrain mode c st av         -- select() times out, nothing is read
      (r.1, r.2.1, r.2.2.1, r.2.2.2)
    else
      match readFrame mode drainBuf (av.length + fsCap + 2) st av with
      | (ret, st', av') =>
        if recvCloseOf mode ret st' then (true, st', av', 1)
        else
          let r := closeDrain mode c st' av'
          (r.1, r.2.1, r.2.2.1, r.2.2.2 + 1)

/-- the number of rounds (select() calls) of the same loop: `count--` ends every round, the round in which the Close
frame is seen is the last one -/
def drainRounds (mode : Mode) : (count : Nat) → St → Bytes → Nat
  | 0, _, _ => 0
  | c + 1, st, av =>
    if av.length = 0 then drainRounds mode c st av + 1
    else
      match readFrame mode drainBuf (av.length + fsCap + 2) st av with
      | (ret, st', av') => if recvCloseOf mode ret st' then 1 else drainRounds mode c st' av' + 1

/-- `coap_ws_close` on an open session whose handshake is done (`up`), called by the application while `av` is
available on the socket: the Close frame is written, `sent_close` set, then the drain loop -/
def wsClose (mode : Mode) (st : St) (av : Bytes) : Bool × St × Bytes × Nat := closeDrain mode drainCount st av

/-! ### the reader closing the session by itself: `coap_ws_close` called from inside `coap_ws_read` -/

/-- the `coap_ws_read` calls the event loop makes on one chunk (the `do … while (more)` loop of `coap_read_session`
and the calls for the next read events, flattened: each call starts from the state and the pending bytes the previous
one left, with a fresh 1472-byte buffer) up to the first call that closes the session by itself — 1002 / 1003 / 1009
refusal or Close frame received: the reader state and the pending bytes at that point, i.e. what `coap_ws_close` is
entered with.  `none`: no such call (the chunk is used up, the handshake fails, the loop stalls). -/
def refusalPoint (mode : Mode) (accept : Bytes) : (fuel : Nat) → (idle : Nat) → St → Bytes → Option (St × Bytes)
  | 0, _, _, _ => none
  | fuel + 1, idle, st, av =>
    match wsRead mode accept rxBuf st av with
    | (.closed, st', av') => some (st', av')
    | (.pkt _, st', av') =>
      if st'.rdHeader.length > 0 ∨ av'.length > 0 then refusalPoint mode accept fuel 0 st' av' else none
    | (.zero, st', av') =>
      if av'.length = 0 then none
      else if av'.length = av.length then
        (if idle + 1 > 4 then none else refusalPoint mode accept fuel (idle + 1) st' av')
      else refusalPoint mode accept fuel 0 st' av'
    | _ => none

/-- one chunk on which the reader closes the session by itself: `coap_ws_close` runs inside that `coap_ws_read` call with
`recv_close` already set for a Close frame (no drain: 0 calls) and the drain loop otherwise.  Returns (recv_close, state,
bytes of the chunk never read, `coap_ws_read` calls of the drain). -/
def selfClose (mode : Mode) (accept : Bytes) (st : St) (chunk : Bytes) : Option (Bool × St × Bytes × Nat) :=
  match refusalPoint mode accept (6 * (chunk.length + 1)) 0 st chunk with
  | none => none
  | some (st', av') =>
    if recvCloseOf mode .closed st' then some (true, st', av', 0) else some (closeDrain mode drainCount st' av')

/-- select() rounds of the reader's own `coap_ws_close` (none when `recv_close` is already set) -/
def selfCloseRounds (mode : Mode) (accept : Bytes) (st : St) (chunk : Bytes) : Nat :=
  match refusalPoint mode accept (6 * (chunk.length + 1)) 0 st chunk with
  | none => 0
  | some (st', av') => if recvCloseOf mode .closed st' then 0 else drainRounds mode drainCount st' av'

end Coap.M.Ws
