import CoapVerif.Model.MsgLayer
/-
M, with socket-write failures — the message layer of `Model/MsgLayer.lean` with ONE more input: what
`coap_socket_send()` returns for each datagram handed to it.  On a connected UDP socket a write fails with
ECONNREFUSED after an ICMP port-unreachable for an earlier datagram, or with ENOBUFS / EPERM / EAGAIN; libcoap sees
`bytes_written < 0`.  Transcribed from the three places of the base model that write to the socket, as they are
AFTER `fix: coap_retransmit keeps the NSTART slot …` (KNOWN_FINDINGS.txt, C06):

  coap_send_internal     `bytes_written < 0` → `goto error`: the PDU is freed, COAP_INVALID_MID is returned, nothing is
                         queued (the message was never accepted)                                    src/coap_net.c
  coap_retransmit        the node has been put back into the send queue BEFORE the write; `con_active--`,
                         coap_send_pdu() (which counts the CON again only when the write succeeded); a failed write
                         counts it again (the fix) and returns: the message keeps its place, its deadline and its
                         NSTART slot — exactly the state a datagram lost on the wire leaves behind   src/coap_net.c
  coap_session_connected the drain loop: `con_active++`, the head leaves the delay queue, write, `coap_wait_ack`
                         (a CON is queued whatever the write returned), `if (bytes_written < 0) break;`
                                                                                                     src/coap_session.c

Every other function is the base model's, with the write oracle threaded through.  An `Out.tx` in this model is a
write ATTEMPT; `failed` (ghost) lists the attempts that failed by their position in the output list, `dev` (ghost) is
set when a FIRST transmission failed (then the state differs from what the base model reaches: `coap_send` refused
the message / the drain loop stopped early).  Neither ghost field is ever read by the model.  Core Lean only.
-/
namespace Coap.MsgW
open Coap.SQ Coap.Msg

structure LW where
  l : L
  /-- what `coap_socket_send` will return for the next writes: `true` = -1; beyond the list: success -/
  wf : List Bool := []
  /-- ghost: positions (index from the OLDEST output) of the `tx` outputs whose write failed -/
  failed : List Nat := []
  /-- ghost: the write of a first transmission failed -/
  dev : Bool := false
  deriving Repr, DecidableEq

/-- `coap_session_send_pdu()` for (s, mid): the attempt is recorded as `Out.tx`; result `true` = `bytes_written < 0` -/
def write (lw : LW) (s mid cnt : Nat) (con : Bool) : Bool × LW :=
  let f := lw.wf.headD false
  let pos := lw.l.out.length
  let lw := { lw with wf := lw.wf.tail, l := lw.l.emit (.tx lw.l.now s mid cnt con) }
  (f, if f then { lw with failed := pos :: lw.failed } else lw)

/-- one round of the loop of `coap_session_connected`: `con_active++` for a CON, the head `n` leaves the delay queue, the
write, `coap_wait_ack` for a CON (whatever the write returned); result `true` = the write failed -/
def drainRound (lw : LW) (s : Nat) (n : Node) (rest : List Node) : Bool × LW :=
  let se := lw.l.getS s
  let ca := if n.con then (se.conActive + 1) % 256 else se.conActive
  let lw := { lw with l := lw.l.setS s { se with conActive := ca, delayq := rest } }
  let w := write lw s n.mid n.cnt n.con
  (w.1, if n.con then { w.2 with l := waitAck w.2.l { n with sess := s } } else w.2)

/-- the `while (session->delayqueue && state == ESTABLISHED)` loop of `coap_session_connected` -/
def drainW : Nat → LW → Nat → LW
  | 0, lw, _ => lw
  | fuel + 1, lw, s =>
    let se := lw.l.getS s
    match se.delayq with
    | [] => lw
    | n :: rest =>
      if !se.est then lw
      else if n.con && decide (se.conActive ≥ se.nstart) then lw
      else
        let r := drainRound lw s n rest
        if r.1 then { r.2 with dev := true }            -- `if (bytes_written < 0) break;`
        else drainW fuel r.2 s

/-- `coap_session_connected(session)` -/
def connectedW (lw : LW) (s : Nat) : LW :=
  let se := lw.l.getS s
  let lw := { lw with l := lw.l.setS s { se with est := true } }
  drainW (se.delayq.length + 1) lw s

/-- `if (… session->con_active) { session->con_active--; if (state == ESTABLISHED) coap_session_connected(); }` -/
def releaseW (lw : LW) (s : Nat) : LW :=
  let se := lw.l.getS s
  if se.conActive = 0 then lw
  else
    let lw := { lw with l := lw.l.setS s { se with conActive := se.conActive - 1 } }
    if se.est then connectedW lw s else lw

/-- `coap_send()` -/
def submitW (lw : LW) (s : Nat) (con : Bool) (mid r : Nat) : LW :=
  let se := lw.l.getS s
  if !se.sockOpen then { lw with l := lw.l.emit (.sub none) }
  else
    let tmo := if con then calcTimeout se.atI se.atF se.arfI se.arfF r else 0
    let n : Node := { sess := s, mid := mid, t := 0, timeout := tmo, cnt := 0, tok := mid, con := con }
    if gate se con then
      if se.delayq.any (fun x => x.mid = mid) then { lw with l := lw.l.emit (.sub none) }
      else { lw with l := (lw.l.setS s { se with delayq := se.delayq ++ [n] }).emit (.sub (some mid)) }
    else
      let w := write lw s mid 0 con
      if w.1 then { w.2 with l := w.2.l.emit (.sub none), dev := true }     -- `goto error`: COAP_INVALID_MID
      else if con then
        let l := w.2.l.setS s { se with conActive := (se.conActive + 1) % 256 }
        { w.2 with l := (waitAck l n).emit (.sub (some mid)) }
      else { w.2 with l := w.2.l.emit (.sub (some mid)) }

/-- `coap_retransmit(context, node)` for a node just popped from the queue -/
def retransmitW (lw : LW) (n : Node) : LW :=
  let s := n.sess
  let se := lw.l.getS s
  if n.cnt < se.maxRtx then
    let n := { n with cnt := (n.cnt + 1) % 256 }
    let delay := (n.timeout * 2 ^ n.cnt) % 18446744073709551616
    let lw := { lw with l := { lw.l with q := enqueue lw.l.q lw.l.now delay n } }
    let se := { se with conActive := se.conActive - 1 }
    if gate se n.con then
      let (_, rest) := removeNode lw.l.q.nodes s n.mid
      let l := { lw.l with q := { lw.l.q with nodes := rest } }
      { lw with l := l.setS s { se with delayq := se.delayq ++ [{ n with t := 0 }] } }
    else
      let w := write lw s n.mid n.cnt n.con
      -- written: `coap_send_pdu` counts the CON again (`con_active++`); not written (`w.1`): the fix counts it again
      { w.2 with l := w.2.l.setS s { se with conActive := if n.con then (se.conActive + 1) % 256 else se.conActive } }
  else
    let lw := releaseW lw s
    if n.con then { lw with l := lw.l.emit (.nack lw.l.now s .retries n.mid true) } else lw

/-- the due-node loop of `coap_io_prepare_io_lkd` -/
def dueLoopW : Nat → LW → LW
  | 0, lw => lw
  | fuel + 1, lw =>
    match lw.l.q.nodes with
    | [] => lw
    | h :: _ =>
      if lw.l.now ≥ lw.l.q.base ∧ h.t ≤ lw.l.now - lw.l.q.base then
        match popNext lw.l.q.nodes with
        | none => lw
        | some (n, rest) =>
          dueLoopW fuel (retransmitW { lw with l := { lw.l with q := { lw.l.q with nodes := rest } } } n)
      else lw

def prepareCoreW (lw : LW) : LW × Nat :=
  let lw := dueLoopW (dueFuel lw.l) lw
  match lw.l.q.nodes with
  | [] => (lw, 0)
  | h :: _ =>
    let timeout := if lw.l.now ≥ lw.l.q.base then h.t - (lw.l.now - lw.l.q.base) else h.t + (lw.l.q.base - lw.l.now)
    (lw, ((timeout * 1000 + 999) / 1000) % 4294967296)

def prepareW (lw : LW) : LW :=
  let r := prepareCoreW lw
  { r.1 with l := r.1.l.emit (.wait r.1.l.now r.2) }

def rxAckW (lw : LW) (s mid : Nat) : LW :=
  let (sent, rest) := removeNode lw.l.q.nodes s mid
  let lw := { lw with l := { lw.l with q := { lw.l.q with nodes := rest } } }
  match sent with
  | some _ => releaseW lw s
  | none => lw

def rxRstW (lw : LW) (s mid : Nat) : LW :=
  let (sent, rest) := removeNode lw.l.q.nodes s mid
  let lw := { lw with l := { lw.l with q := { lw.l.q with nodes := rest } } }
  match sent with
  | some n =>
    let lw := releaseW lw s
    if n.con then { lw with l := lw.l.emit (.nack lw.l.now s .rst n.mid true) } else lw
  | none => { lw with l := lw.l.emit (.nack lw.l.now s .rst mid false) }

def cancelTokenW : Nat → LW → Nat → Nat → LW
  | 0, lw, _, _ => lw
  | fuel + 1, lw, s, tok =>
    match removeTok lw.l.q.nodes s tok with
    | (none, _) => lw
    | (some n, rest) =>
      let lw := { lw with l := { lw.l with q := { lw.l.q with nodes := rest } } }
      let lw := if n.con then releaseW lw s else lw
      cancelTokenW fuel lw s tok

def rxNonW (lw : LW) (s mid tok : Nat) : LW :=
  let lw := cancelTokenW (lw.l.q.nodes.length + 1) lw s tok
  { lw with l := lw.l.emit (.rsp lw.l.now s mid) }

def rxBadW (lw : LW) (s mid : Nat) : LW :=
  let (sent, rest) := removeNode lw.l.q.nodes s mid
  let lw := { lw with l := { lw.l with q := { lw.l.q with nodes := rest } } }
  match sent with
  | some n =>
    let lw := releaseW lw s
    { lw with l := lw.l.emit (.nack lw.l.now s .bad n.mid true) }
  | none => lw

def afterRxW (lw : LW) : LW := (prepareCoreW lw).1

/-- the events are the base model's; `hold`, `setNow` and `disconnect` write nothing -/
def stepW (lw : LW) : Ev → LW
  | .setNow t => { lw with l := { lw.l with now := t } }
  | .submit s con mid r => submitW lw s con mid r
  | .prepare => prepareW lw
  | .rxAck s mid => if (lw.l.getS s).sockOpen then afterRxW (rxAckW lw s mid) else lw
  | .rxRst s mid => if (lw.l.getS s).sockOpen then afterRxW (rxRstW lw s mid) else lw
  | .rxNon s mid tok => if (lw.l.getS s).sockOpen then afterRxW (rxNonW lw s mid tok) else lw
  | .rxBad s mid => if (lw.l.getS s).sockOpen then afterRxW (rxBadW lw s mid) else lw
  | .hold s => { lw with l := lw.l.setS s { (lw.l.getS s) with est := false } }
  | .connect s => connectedW lw s
  | .disconnect s => if (lw.l.getS s).sockOpen then { lw with l := disconnect lw.l s } else lw

def runW (lw : LW) (evs : List Ev) : LW := evs.foldl stepW lw

def initW (now : Nat) (sess : List Sess) (wf : List Bool) : LW := { l := init now sess, wf := wf }

end Coap.MsgW
