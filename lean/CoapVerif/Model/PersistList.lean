import CoapVerif.Model.Persist
import CoapVerif.Spec.Persist
/-
M for C17, second level: the save files as LISTS OF RECORDS.

`Props/C17.lean` proves, on bytes and stdio ops, that each updater is atomic (`update_atomic`) and rewrites its file
as "records decoded from the old contents, minus the matching one, plus the new one" (`update_functional_*`), and
that decoding the concatenation of well-formed records gives the records back (`file_roundtrip_*`).  This file
states what follows from there for whole histories: which updaters the server runs for each event
(src/coap_resource.c call-outs, same decisions as `evCreate` / `evDelete` / `evObserve` / `evCancel` in
Model/Persist.lean), with the files seen as record lists, and what the loaders re-create from them.
The counter file does not influence which resources / observations exist and is treated separately (`Cnt`).
-/
namespace Coap.Persist

/-- an observe record / an in-memory subscription: key (pointer), client (session), resource, token version -/
structure ORec where
  key : Nat
  client : Nat
  name : Bytes
  ver : Nat
  deriving DecidableEq, Repr

structure Files where
  dyn : List Bytes          -- names in the dyn-resource file, in file order
  obs : List ORec           -- records of the observe file
  deriving DecidableEq, Repr

/-- the updaters on record lists (`update_functional_*`) -/
def Files.dynAdded (f : Files) (n : Bytes) : Files := { f with dyn := f.dyn.filter (· ≠ n) ++ [n] }
def Files.dynDeleted (f : Files) (n : Bytes) : Files := { f with dyn := f.dyn.filter (· ≠ n) }
def Files.obsAdded (f : Files) (r : ORec) : Files := { f with obs := f.obs.filter (·.key ≠ r.key) ++ [r] }
def Files.obsDeleted (f : Files) (k : Nat) : Files := { f with obs := f.obs.filter (·.key ≠ k) }

/-- the loaders: every name in the dyn file is re-created; every observe record whose resource then exists is
re-established (`coap_persist_observe_add` fails with "resource not defined" otherwise) -/
def Files.restoredRes (f : Files) : List Bytes := f.dyn
def Files.restoredObs (f : Files) : List (Nat × Bytes × Nat) :=
  (f.obs.filter (fun r => r.name ∈ f.dyn)).map fun r => (r.client, r.name, r.ver)

/-- the observe loader on a context with the endpoints `eps` (`context->endpoint` order), when the session of client `c`
came in through the endpoint `via c` (a session belongs to exactly one endpoint; its `proto` / `bind_addr` are what
`observe_added` stores in the record): the record is re-established only if the endpoint search of
`coap_persist_observe_add_lkd` (`findEp`) finds an endpoint for it -/
def Files.restoredObsVia (eps : List Ep) (via : Nat → Ep) (f : Files) : List (Nat × Bytes × Nat) :=
  (f.obs.filter (fun r => (findEp eps (via r.client).proto (via r.client).addr).isSome && decide (r.name ∈ f.dyn))).map
    fun r => (r.client, r.name, r.ver)

/-- server memory + files -/
structure L where
  res : List Bytes
  subs : List ORec
  files : Files
  nextKey : Nat
  deriving Repr

def L.init : L := ⟨[], [], ⟨[], []⟩, 0⟩

def sameReq (c : Nat) (n : Bytes) (x : ORec) : Bool := x.client = c && x.name = n

/-- the single-file updates an event triggers, in the order the code performs them -/
def L.updates (s : L) : HEv → List (Files → Files)
  | .create n => if n ∈ s.res then [] else [fun (f : Files) => f.dynAdded n]
  | .delete n =>
    if n ∈ s.res then
      (fun (f : Files) => f.dynDeleted n) :: (s.subs.filter (·.name = n)).map fun (d : ORec) => fun (f : Files) => f.obsDeleted d.key
    else []
  | .observe c n v =>
    if n ∈ s.res then
      if s.subs.any (fun x => sameReq c n x && x.ver = v) then []
      else
        (match s.subs.find? (sameReq c n) with
         | some old => ([fun (f : Files) => f.obsDeleted old.key] : List (Files → Files))
         | none => []) ++ [fun (f : Files) => f.obsAdded ⟨s.nextKey, c, n, v⟩]
    else []
  | .cancel c n =>
    match s.subs.find? (sameReq c n) with
    | some old => [fun (f : Files) => f.obsDeleted old.key]
    | none => []

/-- the file states a crash can leave behind: after 0, 1, …, all of the event's updates (an interrupted update counts
as not started or complete: `update_atomic`) -/
def stagesFrom (f : Files) : List (Files → Files) → List Files
  | [] => [f]
  | u :: r => f :: stagesFrom (u f) r

def L.stages (s : L) (e : HEv) : List Files := stagesFrom s.files (s.updates e)

def L.step (s : L) (e : HEv) : L :=
  let files := (s.updates e).foldl (fun f u => u f) s.files
  match e with
  | .create n => if n ∈ s.res then s else { s with res := s.res ++ [n], files := files }
  | .delete n => { s with res := s.res.filter (· ≠ n), subs := s.subs.filter (·.name ≠ n), files := files }
  | .observe c n v =>
    if n ∈ s.res then
      if s.subs.any (fun x => sameReq c n x && x.ver = v) then s
      else { s with subs := ⟨s.nextKey, c, n, v⟩ :: s.subs.filter (fun x => !sameReq c n x), files := files,
                    nextKey := s.nextKey + 1 }
    else s
  | .cancel c n => { s with subs := s.subs.filter (fun x => !sameReq c n x), files := files }

def L.run (h : List HEv) : L := h.foldl L.step L.init

def L.restoredRes (s : L) : List Bytes := s.files.restoredRes
def L.restoredObs (s : L) : List (Nat × Bytes × Nat) := s.files.restoredObs

/-- the loaders re-create exactly the abstract state `a` -/
def RestoreEq (fl : Files) (a : Abs) : Prop :=
  (∀ n, n ∈ fl.restoredRes ↔ n ∈ a.res) ∧ (∀ c n v, (c, n, v) ∈ fl.restoredObs ↔ (c, n, v) ∈ a.obs)

/-- … on a context with endpoints `eps`, sessions having come in through `via` -/
def RestoreEqVia (eps : List Ep) (via : Nat → Ep) (fl : Files) (a : Abs) : Prop :=
  (∀ n, n ∈ fl.restoredRes ↔ n ∈ a.res) ∧ (∀ c n v, (c, n, v) ∈ fl.restoredObsVia eps via ↔ (c, n, v) ∈ a.obs)

/-! ## the Observe counter of one resource and its save file entry -/

structure Cnt where
  obs : Nat                 -- r->observe
  saved : Nat               -- the resource's entry in the counter file
  sent : List Nat           -- every Observe value put on the wire so far
  recent : List Nat         -- … since the entry was last written
  deriving DecidableEq, Repr

inductive CntEv
  | notify                  -- coap_resource_notify_observers + the notification
  | register                -- coap_add_observer: saves the current value, the response carries it
  deriving DecidableEq, Repr

def Cnt.step (f : Nat) (c : Cnt) : CntEv → Cnt
  | .notify =>
    let n := nextObs c.obs
    if n % f = 0 then ⟨n, n, c.sent ++ [n], [n]⟩ else ⟨n, c.saved, c.sent ++ [n], c.recent ++ [n]⟩
  | .register => ⟨c.obs, c.obs, c.sent ++ [c.obs], [c.obs]⟩

def Cnt.run (f : Nat) (c : Cnt) (evs : List CntEv) : Cnt := evs.foldl (Cnt.step f) c

/-- the saved value covers the counter: `saved ≤ obs ≤ ((saved + f) / f) * f - 1`, nothing sent exceeds the counter -/
def Cnt.Inv (f : Nat) (c : Cnt) : Prop :=
  c.saved ≤ c.obs ∧ c.obs ≤ ((c.saved + f) / f) * f - 1 ∧ ∀ v ∈ c.sent, v ≤ c.obs

instance (f : Nat) (c : Cnt) : Decidable (Cnt.Inv f c) := by unfold Cnt.Inv; infer_instance

/-- the same with the 24-bit bound, about the values sent since the last save -/
def Cnt.InvW (f : Nat) (c : Cnt) : Prop :=
  c.obs < 2 ^ 24 ∧ c.saved ≤ c.obs ∧ c.obs ≤ ((c.saved + f) / f) * f - 1 ∧ ∀ v ∈ c.recent, c.saved ≤ v ∧ v ≤ c.obs

instance (f : Nat) (c : Cnt) : Decidable (Cnt.InvW f c) := by unfold Cnt.InvW; infer_instance

end Coap.Persist
