import CoapVerif.Model.Build
/-
M — coap_pdu_duplicate_lkd (src/coap_pdu.c) and the option filter it consults (src/coap_option.c), property C04.

  coap_pdu_duplicate_lkd(old_pdu, session, token_length, token, drop_options)
     pdu = coap_pdu_init(old->type, old->code, coap_new_message_id_lkd(session),
                         max(old->max_size, coap_session_max_pdu_size_lkd(session)))
     coap_add_token(pdu, …)                          after fix 56eb60f: failure → NULL
     drop_options == NULL:  length = used_size - e_token_length - (data ? used_size - (data - token) + 1 : 0)
                            coap_pdu_resize(pdu, length + pdu->e_token_length) or NULL
                            memcpy(pdu->token + pdu->e_token_length, old->token + old->e_token_length, length)
                            used_size += length; max_opt = old->max_opt
     else:                  for every option of old (iterator), unless coap_option_filter_get(drop_options, number):
                            coap_add_option_internal(pdu, number, length, value) or NULL

The two session calls are oracles: `mid`, `smax` are their results (the harness pins them through the session's tx_mid
and mtu).  `lg_xmit` is copied as a pointer and plays no role here.

coap_opt_filter_t is modelled by the list of numbers it holds: `filterSet` is coap_option_filter_set on a filter that
was only cleared and set before (2 slots for numbers > 255, 6 for the others; setting a held number succeeds without
using a slot), `filterGet` is coap_option_filter_get.  The slot layout itself (mask bits, the (uint8_t) store of a short
number) is not modelled; the rc of every set call and the effect of every get are compared with the code by the runs.
-/
namespace Coap.M

/-- `coap_option_filter_set(filter, n)`: (return value, filter after) -/
def filterSet (f : List Nat) (n : Nat) : Nat × List Nat :=
  if f.contains n then (1, f)
  else if n > 255 then
    (if (f.filter fun x => decide (x > 255)).length < 2 then (1, f ++ [n]) else (0, f))
  else
    (if (f.filter fun x => decide (x ≤ 255)).length < 6 then (1, f ++ [n]) else (0, f))

/-- `coap_option_filter_get(filter, n) > 0` -/
def filterGet (f : List Nat) (n : Nat) : Bool := f.contains n

/-- a cleared filter after the given set calls: (return values, filter) -/
def filterOf : List Nat → List Nat → List Nat × List Nat
  | f, [] => ([], f)
  | f, n :: ns => ((filterSet f n).1 :: (filterOf (filterSet f n).2 ns).1, (filterOf (filterSet f n).2 ns).2)

/-- `coap_opt_value(option)` / `coap_opt_length(option)` of a delivered option: its value bytes in `pdu` -/
def optValue (pdu : Pdu) (it : It) : Bytes := (pdu.buf.drop (it.ofs + it.p.valOfs)).take it.p.length

/-- the copy loop of the filter path: the options the iterator delivers on `old`, added one by one to `pdu`;
`none` = `goto fail` (NULL) -/
def dupCopy (drop : Nat → Bool) (old : Pdu) : List It → Pdu → R (Option Pdu)
  | [], pdu => R.ok (some pdu)
  | it :: rest, pdu =>
    if drop it.num then dupCopy drop old rest pdu else
    match addOptionInternal pdu it.num (optValue old it) with
    | R.ok (rc, pdu') => if rc = 0 then R.ok none else dupCopy drop old rest pdu'
    | R.rej => R.rej
    | R.oob => R.oob

/-- `old_pdu->data ? old_pdu->used_size - (old_pdu->data - old_pdu->token) + 1 : 0`: the bytes behind the options
(payload marker + payload) -/
def dupTail (old : Pdu) : R Nat :=
  match old.data with
  | some d => if d > old.buf.length then R.oob else R.ok (old.buf.length - d + 1)
  | none => R.ok 0

/-- the `drop_options == NULL` branch: one memcpy of the option area -/
def dupFast (old pdu : Pdu) : R (Option Pdu) :=
  match dupTail old with
  | R.ok tail =>
    -- size_t arithmetic: an underflow makes memcpy read far outside the message
    if old.etl + tail > old.buf.length then R.oob else
    let length := old.buf.length - old.etl - tail
    if ¬ checkResize pdu (length + pdu.etl) then R.ok none else
    -- memcpy to pdu->token + e_token_length, which is pdu->token + used_size after a successful coap_add_token
    -- (`addToken`: buf.length = etl); used_size += length
    R.ok (some { pdu with buf := pdu.buf ++ (old.buf.drop old.etl).take length, maxOpt := old.maxOpt })
  | R.rej => R.rej
  | R.oob => R.oob

/-- `coap_pdu_duplicate_lkd`; `drop = none` is `drop_options == NULL`; result `none` = NULL -/
def duplicate (old : Pdu) (mid smax : Nat) (token : Bytes) (drop : Option (Nat → Bool)) : R (Option Pdu) :=
  match pduInit old.type old.code mid (max old.maxSize smax) with
  | none => R.ok none
  | some pdu0 =>
    match addToken pdu0 token with
    | R.ok (rc, pdu) =>
      if rc = 0 then R.ok none else                 -- fix 56eb60f
      match drop with
      | none => dupFast old pdu
      | some f => dupCopy f old (items old) pdu
    | R.rej => R.rej
    | R.oob => R.oob

end Coap.M
