import CoapVerif.Model.Block
/-
M — the CLIENT's Block2 receive path: `coap_handle_response_get_block` (src/coap_block.c), transcribed for

  * a 2.xx response (other classes: `expire_lg_crcv`, the handler sees the error; 4.01 Echo handling is outside),
  * plain Block2 (no Q-Block2, no BERT: datagram session), no Observe option in any response
    (`lg_crcv->observe_set` stays 0 as `coap_block_new_lg_crcv` leaves it),
  * both delivery modes: COAP_BLOCK_SINGLE_BODY (`single = true`) and per-block,
  * allocation and `coap_send_internal` never fail.

The state is the `coap_lg_crcv_t` matched by token (`none` = no lg_crcv on the session: the "Check if receiving a
block response and if blocks can be set up" part with `sent != NULL`, COAP_RECURSE_OK).  Same case splits, same
order of checks as the C.  `block.num * chunk`, `offset + length`, `(size2 + chunk - 1) / chunk` are `size_t`
(NUM ≤ 0xFFFFF, SZX ≤ 6: no wrap); `((block.num + 1) << 4) | …` is `unsigned` with NUM + 1 ≤ 0xFFFFF: a response with NUM 0xFFFFF
and M set is refused before anything is stored (fix 70f6ff3; theorem C09.block2_next_request_20bit).
`lg_crcv->etag[0 .. etag_length)` is the byte list `etag`; it keeps its old value when a (re-)initialising block has
no ETag option (only `etag_set` is cleared), exactly as in the C.
-/
namespace Coap.Block

/-- the fields of `coap_lg_crcv_t` the Block2 path reads or writes -/
structure Crcv where
  initial : Bool := true          -- lg_crcv->initial
  recv : Ranges := []             -- lg_crcv->rec_blocks
  totalLen : Nat := 0             -- lg_crcv->total_len (only read by the Q-Block2 code)
  body : Option Bytes := none     -- lg_crcv->body_data
  szx : Nat := 0                  -- lg_crcv->szx
  etag : Bytes := []              -- lg_crcv->etag[0 .. etag_length)
  etagSet : Bool := false         -- lg_crcv->etag_set
  fmt : Nat := 0                  -- lg_crcv->content_format
  deriving Repr, DecidableEq

/-- a 2.xx response as the function reads it -/
structure Resp where
  blk : Option (Nat × Nat × Nat)   -- Block2 option accepted by `coap_get_block_b`: (NUM, M, SZX); none = absent / refused
  payload : Bytes
  size2 : Option Nat := none       -- Size2 option
  etag : Option Bytes := none      -- ETag option
  fmt : Nat := 0                   -- Content-Format option (absent = COAP_MEDIATYPE_TEXT_PLAIN = 0)
  deriving Repr, DecidableEq

/-- what the application's response handler gets to see, and what libcoap sends, in reaction to one response -/
inductive CrcvOut where
  | plain (payload : Bytes)        -- return 0: not (or no longer) block-wise, lg_crcv expired/absent; handler sees the message as it is
  | randomAccess (off : Nat) (payload : Bytes) (total : Nat)   -- no lg_crcv, NUM ≠ 0: "Assume random access"
  | err402                         -- undersized block: lg_crcv expired, handler sees 4.02
  | err408                         -- fail_resp: handler sees 4.08, lg_crcv kept (cached)
  | restart (szx : Nat)            -- ETag changed: request for block 0 sent again, handler not called
  | skip                           -- block already received: handler not called
  | next (num szx : Nat)           -- single-body: block stored, request for block `num` sent, handler not called
  | wait                           -- single-body: block without More stored but others missing: nothing sent, handler not called
  | block (off : Nat) (payload : Bytes) (total : Nat) (next : Option (Nat × Nat))
                                   -- per-block mode: handler sees this block at `body_offset = off`; `next` = request sent
  | last (off : Nat) (payload : Bytes) (total : Nat)
                                   -- per-block mode, all blocks in: handler called (from inside), lg_crcv released
  | body (data : Bytes) (len : Nat)
                                   -- single-body, all blocks in: handler called with body_data / body_length, lg_crcv released
  deriving Repr, DecidableEq

/-- from "if (fmt != lg_crcv->content_format)" to the end of "if (updated_block)": `data` = the (possibly truncated)
payload, `offset = saved_offset`, `size2` as adjusted -/
def crcvStore (single : Bool) (cap : Nat) (junk : UInt8) (lg : Crcv) (num m szx : Nat) (payload data : Bytes)
    (offset size2 fmt : Nat) : Option Crcv × CrcvOut :=
  let chunk := 2 ^ (szx + 4)
  if fmt ≠ lg.fmt then (some lg, .err408)                         -- "Content-Format option mismatch"
  else if szx ≠ lg.szx then (some lg, .err408)                    -- "Block size changed during transfer"
  else if checkIfReceived lg.recv num then (some lg, .skip)       -- updated_block = 0
  else
    match updateReceived cap lg.recv num with
    | (false, _) => (some lg, .err408)                            -- COAP_EVENT_PARTIAL_BLOCK, fail_resp
    | (true, rec') =>
      -- "if ((session->block_mode & COAP_SINGLE_BLOCK_OR_Q) || block.bert)": coap_block_build_body(…, saved_offset, size2)
      -- (the preceding "if (size2 < saved_offset + length)" cannot fire: size2 ≥ offset + length since the adjustment)
      let stored : Option (Option Bytes) :=
        if single then
          match buildBody junk lg.body data offset size2 with
          | none => none
          | some b => some (some b)
        else some lg.body
      match stored with
      | none => (some { lg with recv := rec', body := none }, .err408)
      | some b' =>
        let lg' : Crcv := { lg with recv := rec', body := b' }
        if m ≠ 0 ∨ ¬ checkAllBlocksIn rec' ((size2 + chunk - 1) / chunk) then
          -- "Not all the payloads of the body have arrived": if (block.m) ask for block NUM + 1 with the same SZX
          -- else if (lg_crcv->body_data && length % chunk && block_opt == COAP_OPTION_BLOCK2): "Short packet is not the
          -- end of the body": lg_crcv->initial = 1, fail_resp (body_data is set exactly in single-body mode)
          if single then
            if m ≠ 0 then (some lg', .next (num + 1) szx)
            else if data.length % chunk ≠ 0 then (some { lg' with initial := true }, .err408)
            else (some lg', .wait)
          else (some lg', .block offset payload size2 (if m ≠ 0 then some (num + 1, szx) else none))
        else if single then (none, .body (b'.getD []) (offset + data.length))   -- body_length = saved_offset + length
        else (none, .last offset payload size2)

/-- "Possibility that Size2 not sent, or is too small": `endOff = offset + length` -/
def crcvSize2 (size2 : Option Nat) (m endOff : Nat) : Nat :=
  let size2o := match size2 with | some s => s | none => 0
  if size2o < endOff then (if m ≠ 0 then endOff + 1 else endOff) else size2o

/-- "if (lg_crcv->initial) { … }  if (lg_crcv->total_len < size2) lg_crcv->total_len = size2;" -/
def crcvInit (lg : Crcv) (szx size2 : Nat) (r : Resp) : Crcv :=
  let lg1 : Crcv :=
    if lg.initial then
      { initial := false, recv := [], totalLen := size2, body := none, szx := szx,
        etag := (match r.etag with | some e => e | none => lg.etag), etagSet := r.etag.isSome, fmt := r.fmt }
    else lg
  if lg1.totalLen < size2 then { lg1 with totalLen := size2 } else lg1

/-- "if (have_block && (block.m || length))" … up to the ETag tests -/
def crcvBlock (single : Bool) (cap : Nat) (junk : UInt8) (lg : Crcv) (num m szx : Nat) (r : Resp) :
    Option Crcv × CrcvOut :=
  let chunk := 2 ^ (szx + 4)
  let data := if r.payload.length > chunk then r.payload.take chunk else r.payload    -- "Oversized packet - reduced"
  if m ≠ 0 ∧ data.length ≠ chunk then (none, .err402)                                -- "Undersized packet", expire_lg_crcv
  else if m ≠ 0 ∧ 0xFFFFF ≤ num then (none, .err402)     -- "More set on the last block number" (fix 70f6ff3), expire_lg_crcv
  else
    let offset := num * chunk
    let size2 := crcvSize2 r.size2 m (offset + data.length)
    let lg2 := crcvInit lg szx size2 r
    match r.etag with
    | some e =>
      if e ≠ lg2.etag then
        -- "Data body updated during receipt - new request started"
        (some { lg2 with initial := true, body := none }, .restart szx)
      else crcvStore single cap junk lg2 num m szx r.payload data offset size2 r.fmt
    | none =>
      if lg2.etagSet then (some lg2, .err408)                                          -- "Not all blocks have ETag option"
      else crcvStore single cap junk lg2 num m szx r.payload data offset size2 r.fmt

/-- body of the `LL_FOREACH` once the lg_crcv is found -/
def crcvFound (single : Bool) (cap : Nat) (junk : UInt8) (lg : Crcv) (r : Resp) : Option Crcv × CrcvOut :=
  match r.blk with
  | some (num, m, szx) =>
    if m ≠ 0 ∨ r.payload.length ≠ 0 then crcvBlock single cap junk lg num m szx r
    else (none, .plain r.payload)            -- no Observe: "Expire this entry"
  | none => (none, .plain r.payload)

/-- `coap_handle_response_get_block(context, session, sent, rcvd, COAP_RECURSE_OK)` for one 2.xx response -/
def crcvStep (single : Bool) (cap : Nat) (junk : UInt8) (st : Option Crcv) (r : Resp) : Option Crcv × CrcvOut :=
  match st with
  | some lg => crcvFound single cap junk lg r
  | none =>
    match r.blk with
    | some (num, m, szx) =>
      if num ≠ 0 then
        (none, .randomAccess (num * 2 ^ (szx + 4)) r.payload
                 (num * 2 ^ (szx + 4) + r.payload.length + (if m ≠ 0 then 1 else 0)))
      else crcvFound single cap junk {} r     -- coap_block_new_lg_crcv(), LL_PREPEND, recurse with COAP_RECURSE_NO
    | none => (none, .plain r.payload)

end Coap.Block
