import CoapVerif.Util
/-
M — libcoap's store of OSCORE security contexts and the lookup a RECIPIENT of a request does in it
(src/oscore/oscore_context.c):

  * `c_context->p_osc_ctx`: singly linked list of `oscore_ctx_t` (`next`), each with an optional
    `id_context` and a `recipient_chain` (`next_recipient`) of `oscore_recipient_ctx_t`, one per Recipient ID;
  * `oscore_enter_context`: a new context is APPENDED at the end of the list;
  * `oscore_add_recipient`: refused (NULL) when the id is longer than 7 bytes or already in the chain,
    otherwise the new recipient is put at the HEAD of the chain;
  * `oscore_derive_ctx`: `oscore_add_recipient` for `recipient_id[0 .. count-1]` in this order (any failure:
    no context), then `oscore_enter_context`;
  * `coap_new_oscore_recipient_lkd` / `coap_delete_oscore_recipient_lkd`: act on the FIRST context;
    `oscore_delete_recipient` unlinks the first recipient whose id is equal;
  * `oscore_find_context(c_context, rcpkey_id, ctxkey_id, oscore_r2, &recipient_ctx)`: the two nested `while`
    loops with the mismatch counter `ok`, which is set to 0 for EVERY recipient looked at:
        ok = 0;
        if (rcpkey_id.length == rpt->recipient_id->length) {
          if (rcpkey_id.length != 0) ok = memcmp(recipient_id, rcpkey_id) != 0;
          if (oscore_r2) { id_context longer than 8 bytes: ok += first 8 bytes differ; else ok += 1 }
          else if (ctxkey_id) { id_context != NULL: ok += lengths differ or bytes differ;
                                id_context == NULL: ok += ctxkey_id->length > 0 }
          if (ok == 0) found
        }
    `coap_oscore_decrypt_pdu` calls it with `ctxkey_id = &cose->kid_context` (never NULL; length 0 when the
    request carries no kid context) and `oscore_r2 = NULL`; the second call (`ctxkey_id = NULL`) belongs to
    Appendix B.2 and its result is dropped unless the context has `rfc8613_b_2` set.

The result is the position (context index, index in its recipient chain).  Core Lean only.
-/
namespace Coap.M.Oscore

/-- `oscore_ctx_t` as far as the store operations and the lookup read it -/
structure OscCtx where
  idctx : Option Bytes        -- `id_context`, `none` = NULL
  rcps : List Bytes           -- `recipient_chain`: the Recipient IDs in chain order
  deriving Repr, DecidableEq

/-- `c_context->p_osc_ctx` -/
abbrev CtxStore := List OscCtx

/-- a C comparison result used as an `int` -/
def b2n (b : Bool) : Nat := if b then 1 else 0

/-- the value of `ok` when `if (ok == 0)` is reached, for a recipient whose id has the length of `kid`
(`ok` starts at 0 for every recipient).  `memcmp(id_context->s, oscore_r2, 8)`: `r2` is the 8 bytes of
`session->oscore_r2`. -/
def mismatch (kid rid : Bytes) (idctx ctxkey r2 : Option Bytes) : Nat :=
  let ok := if kid.length ≠ 0 then b2n (decide (rid ≠ kid)) else 0
  match r2 with
  | some r =>
    (match idctx with
     | some c => if c.length > 8 then ok + b2n (decide (c.take 8 ≠ r.take 8)) else ok + 1
     | none => ok + 1)
  | none =>
    match ctxkey with
    | some k =>
      (match idctx with
       | some c => if k.length ≠ c.length then ok + 1 else ok + b2n (decide (c ≠ k))
       | none => if k.length > 0 then ok + 1 else ok)
    | none => ok

/-- the inner `while (rpt)` loop; `j` = position of the head of the remaining chain -/
def findRcp (kid : Bytes) (idctx ctxkey r2 : Option Bytes) : List Bytes → Nat → Option Nat
  | [], _ => none
  | rid :: rest, j =>
    if kid.length = rid.length ∧ mismatch kid rid idctx ctxkey r2 = 0 then some j
    else findRcp kid idctx ctxkey r2 rest (j + 1)

/-- the outer `while (pt != NULL)` loop -/
def findFrom (kid : Bytes) (ctxkey r2 : Option Bytes) : CtxStore → Nat → Option (Nat × Nat)
  | [], _ => none
  | pt :: rest, i =>
    match findRcp kid pt.idctx ctxkey r2 pt.rcps 0 with
    | some j => some (i, j)
    | none => findFrom kid ctxkey r2 rest (i + 1)

/-- `oscore_find_context`: `none` = NULL, `some (i, j)` = the i-th context and the j-th recipient of its chain -/
def findContext (cs : CtxStore) (kid : Bytes) (ctxkey r2 : Option Bytes) : Option (Nat × Nat) :=
  findFrom kid ctxkey r2 cs 0

/-- `oscore_add_recipient` (`none` = NULL) -/
def addRecipient (c : OscCtx) (rid : Bytes) : Option OscCtx :=
  if rid.length > 7 then none
  else if c.rcps.any (fun r => decide (r.length = rid.length) && decide (r = rid)) then none
  else some { c with rcps := rid :: c.rcps }

/-- the recipient loop of `oscore_derive_ctx` -/
def addRecipients : OscCtx → List Bytes → Option OscCtx
  | c, [] => some c
  | c, rid :: rest =>
    match addRecipient c rid with
    | some c' => addRecipients c' rest
    | none => none

/-- `oscore_derive_ctx` + `oscore_enter_context` (what `coap_context_oscore_server` does to the store) -/
def deriveCtx (cs : CtxStore) (idctx : Option Bytes) (rids : List Bytes) : Option CtxStore :=
  match addRecipients ⟨idctx, []⟩ rids with
  | some c => some (cs ++ [c])
  | none => none

/-- `coap_new_oscore_recipient_lkd` -/
def newRecipient (cs : CtxStore) (rid : Bytes) : Option CtxStore :=
  match cs with
  | [] => none
  | c :: rest =>
    match addRecipient c rid with
    | some c' => some (c' :: rest)
    | none => none

/-- `coap_delete_oscore_recipient_lkd` / `oscore_delete_recipient` -/
def deleteRecipient (cs : CtxStore) (rid : Bytes) : Option CtxStore :=
  match cs with
  | [] => none
  | c :: rest => if c.rcps.contains rid then some ({ c with rcps := c.rcps.erase rid } :: rest) else none

end Coap.M.Oscore

namespace Coap

/-! ### the order in which the two loops of `oscore_find_context` visit the store (used to state the theorems and by the driver) -/

/-- a (context, recipient) pair of libcoap's store with its position: the `i`-th `oscore_ctx_t` of
`p_osc_ctx`, the `j`-th `oscore_recipient_ctx_t` of its `recipient_chain` -/
structure Pos where
  i : Nat
  j : Nat
  rid : Bytes
  idctx : Option Bytes
  deriving Repr, DecidableEq

def rcpPositions (i : Nat) (idctx : Option Bytes) : List Bytes → Nat → List Pos
  | [], _ => []
  | rid :: rest, j => ⟨i, j, rid, idctx⟩ :: rcpPositions i idctx rest (j + 1)

def positionsFrom : M.Oscore.CtxStore → Nat → List Pos
  | [], _ => []
  | c :: rest, i => rcpPositions i c.idctx c.rcps 0 ++ positionsFrom rest (i + 1)

/-- every (context, recipient) pair of the store, in the order the two loops of `oscore_find_context` visit them -/
def positions (cs : M.Oscore.CtxStore) : List Pos := positionsFrom cs 0

/-- D14.18 for libcoap's store -/
def StoreUnambiguous (cs : M.Oscore.CtxStore) : Prop :=
  (positions cs).Pairwise fun p q => ¬ (p.rid = q.rid ∧ p.idctx.getD [] = q.idctx.getD [])

end Coap
