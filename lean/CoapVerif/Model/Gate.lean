import CoapVerif.Model.Parse
/-
M — the receive gate: what libcoap does with one received unit *before* the protocol layer sees it.

  coap_handle_dgram            src/coap_net.c   (datagram transports)
  coap_read_session            src/coap_net.c   (WebSocket branch: `bytes_read > 2`; TCP branch: framing + parse)

Actions: `drop` (silently ignored), `rst mid` (BAD_PACKET event + Reset carrying the message id the header
parser left in the PDU), `bad` (stream transports: BAD_PACKET event / silent drop, nothing is sent),
`dispatch m` (the decoded message is handed to coap_dispatch).
-/
namespace Coap.M

inductive Action where
  | drop
  | rst (mid : Nat)
  | bad
  | dispatch (m : Msg)
  deriving Repr, DecidableEq

/-- the message id `coap_pdu_parse_header` leaves in the PDU of a datagram that then fails to parse
(0 when the header itself was refused before the id was stored: version ≠ 1 never gets here) -/
def midOf (bs : Bytes) : Nat :=
  match bs with
  | _ :: _ :: m1 :: m2 :: _ => (m1.toNat * 256) % 65536 ||| m2.toNat
  | _ => 0

def gate (p : Proto) (bs : Bytes) : Action :=
  match p with
  | .udp =>
    if bs.length < 4 then .drop                               -- runt
    else
      match bs with
      | b0 :: _ =>
        if b0.toNat / 64 ≠ 1 then .drop                         -- RFC 7252 §3: MUST be silently ignored
        else
          match parse .udp bs with
          | R.ok m => .dispatch m
          | _ => .rst (midOf bs)
      | [] => .drop
  | .ws =>
    if ¬ (bs.length > 2) then .drop
    else
      match parse .ws bs with
      | R.ok m => .dispatch m
      | _ => .bad
  | .tcp =>
    match parse .tcp bs with
    | R.ok m => .dispatch m
    | _ => .bad

end Coap.M
