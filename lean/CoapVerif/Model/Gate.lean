import CoapVerif.Model.Parse
import CoapVerif.Generated.Consts
/-
M — the receive gate: what libcoap does with one received unit *before* the protocol layer sees it.

  coap_handle_dgram            src/coap_net.c   (datagram transports)
  coap_read_session            src/coap_net.c   (WebSocket branch: `bytes_read > 2`; TCP branch: framing + parse)

Actions: `drop` (silently ignored), `rst mid` (BAD_PACKET event + Reset carrying the message id the header
parser left in the PDU), `bad` (stream transports: BAD_PACKET event / silent drop, nothing is sent),
`dispatch m` (the decoded message is handed to coap_dispatch).
-/
namespace Coap.M

inductive Action where
  | drop
  | rst (mid : Nat)
  | bad
  | dispatch (m : Msg)
  deriving Repr, DecidableEq

/-- the message id `coap_pdu_parse_header` leaves in the PDU of a datagram that then fails to parse
(0 when the header itself was refused before the id was stored: version ≠ 1 never gets here) -/
def midOf (bs : Bytes) : Nat :=
  match bs with
  | _ :: _ :: m1 :: m2 :: _ => (m1.toNat * 256) % 65536 ||| m2.toNat
  | _ => 0

def gate (p : Proto) (bs : Bytes) : Action :=
  match p with
  | .udp =>
    if bs.length < 4 then .drop                               -- runt
    else
      match bs with
      | b0 :: _ =>
        if b0.toNat / 64 ≠ 1 then .drop                         -- RFC 7252 §3: MUST be silently ignored
        else
          match parse .udp bs with
          | R.ok m => .dispatch m
          | _ => .rst (midOf bs)
      | [] => .drop
  | .ws =>
    if ¬ (bs.length > 2) then .drop
    else
      match parse .ws bs with
      | R.ok m => .dispatch m
      | _ => .bad
  | .tcp =>
    match parse .tcp bs with
    | R.ok m => .dispatch m
    | _ => .bad

/-- The gate of a live datagram session: `coap_handle_dgram` allocates the PDU with
`coap_session_max_pdu_rcv_size(session)` = MTU − 4, so `coap_pdu_parse` refuses (in `coap_pdu_resize`) a datagram
longer than the session MTU *before* the header is parsed — the Reset then carries message id 0. -/
def gateMtu (mtu : Nat) (bs : Bytes) : Action :=
  match gate .udp bs with
  | .drop => .drop
  | a => if bs.length > mtu then .rst 0 else a

/-- session MTU as configured by default (T1: COAP_DEFAULT_MTU of the current tree) -/
def gateDefault (bs : Bytes) : Action := gateMtu Generated.Consts.COAP_DEFAULT_MTU bs

end Coap.M
