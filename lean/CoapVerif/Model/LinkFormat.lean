import CoapVerif.Spec.LinkFormat
/-
M — faithful model of libcoap's resource-discovery printer (src/coap_resource.c):

  PRINT_WITH_OFFSET / PRINT_COND_WITH_OFFSET / COPY_COND_WITH_OFFSET   → `putc`, `copy`
  coap_print_link                                                      → `printLink`
  match()                                                              → `matchM` (+ `matchTokens`)
  coap_find_attr                                                       → `findAttrM`
  coap_print_wellknown_lkd: the query splitter                         → `parseFilter`
                            the per-resource filter                    → `selectsM`
                            the RESOURCES_ITER loop + status           → `wkLoop`, `wellknown`
  hnd_get_wellknown_lkd (src/coap_net.c): size probe + full print      → `hndBody`
                                          filter = first Uri-Query     → `getFilter`, `getBody`

A C pointer is the list of bytes from that position to the end of the object it points into
(an attribute value, the query string); reading `p[i]` outside that list, or letting
`memcmp`/`memchr` run over its end, is `R.oob`.  A `coap_str_const_t` is (pointer, length).
Quantities are `Nat`; `coap_print_status_t` (unsigned int) narrowing is `% 2^32` where it happens.
The writer state `W` is the quadruple the macros work on: bytes stored so far (`p - buf`),
`bufend - p`, the remaining `offset`, and the running count (`*len` / `written`).
-/
namespace Coap.M.LF
open Coap Coap.LF

/-! ### the output macros -/

structure W where
  /-- bytes stored from `buf` on; `p - buf = out.length` -/
  out : Bytes
  /-- `bufend - p` -/
  room : Nat
  offset : Nat
  /-- `Result` (`*len`, `written`) -/
  result : Nat
  deriving DecidableEq, Repr

/-- `PRINT_COND_WITH_OFFSET(p, bufend, offset, c, result)` (with `PRINT_WITH_OFFSET` inlined) -/
def putc (w : W) (c : UInt8) : W :=
  let w1 : W :=
    if 0 < w.room then
      (if w.offset = 0 then { w with out := w.out ++ [c], room := w.room - 1 }
       else { w with offset := w.offset - 1 })
    else w
  { w1 with result := w1.result + 1 }

/-- `COPY_COND_WITH_OFFSET(p, bufend, offset, s, length, result)` -/
def copy (w : W) (s : Bytes) : W := s.foldl putc w

/-! ### coap_print_link -/

def STATUS_MAX : Nat := 0x0FFFFFFF

/-- a `coap_print_status_t`: the low 28 bits and the two flags -/
structure Status where
  len : Nat
  trunc : Bool
  error : Bool
  deriving DecidableEq, Repr

structure PL where
  out : Bytes
  /-- `*len` on return -/
  len : Nat
  /-- `*offset` on return -/
  offset : Nat
  status : Status
  deriving DecidableEq, Repr

def putAttr (w : W) (a : Attr) : W :=
  let w := putc w 0x3B
  let w := copy w a.name
  match a.value with
  | some v => copy (putc w 0x3D) v
  | none => w

def printBody (r : Resource) (w : W) : W :=
  let w := putc w 0x3C
  let w := putc w 0x2F
  let w := copy w r.path
  let w := putc w 0x3E
  let w := r.attrs.foldl putAttr w
  let w := if r.observable then copy w sObs else w
  if r.oscoreOnly then copy w sOsc else w

def finish (w : W) (oldOffset : Nat) : Status :=
  let outputLength := w.out.length % 2 ^ 32
  if outputLength > STATUS_MAX then ⟨0, false, true⟩
  else ⟨outputLength, decide (outputLength + oldOffset - w.offset < w.result), false⟩

/-- `coap_print_link(resource, buf, &len, &offset)` with `*len = buflen` on entry -/
def printLink (r : Resource) (buflen offset : Nat) : PL :=
  let w := printBody r ⟨[], buflen, offset, 0⟩
  ⟨w.out, w.result, w.offset, finish w offset⟩

/-! ### match() -/

def rd (p : Bytes) (i : Nat) : R UInt8 :=
  match p[i]? with
  | some b => R.ok b
  | none => R.oob

/-- `memcmp(a, b, n) == 0`; both objects must hold `n` bytes -/
def memcmpEq (a b : Bytes) (n : Nat) : R Bool :=
  if a.length < n ∨ b.length < n then R.oob else R.ok (a.take n == b.take n)

/-- `memchr(p, ' ', n)`: offset of the first SP among the first `n` bytes -/
def memchrSp : Bytes → Nat → R (Option Nat)
  | _, 0 => R.ok none
  | [], _ + 1 => R.oob
  | b :: r, n + 1 =>
    if b = 0x20 then R.ok (some 0)
    else match memchrSp r n with
      | R.ok (some k) => R.ok (some (k + 1))
      | x => x

/-- the `while (remaining_length)` loop of `match()`; `tok` = `next_token` -/
def matchTokens (fuel : Nat) (tok : Bytes) (remaining : Nat) (pat : Bytes) (plen : Nat) (pfx : Bool) : R Bool :=
  match fuel with
  | 0 => R.ok false
  | fuel + 1 =>
    if remaining = 0 then R.ok false
    else
      match memchrSp tok remaining with
      | R.oob => R.oob
      | R.rej => R.rej
      | R.ok nt =>
        let tokLen := match nt with | some k => k | none => remaining
        let remaining' := match nt with | some k => remaining - (k + 1) | none => 0
        let next := match nt with | some k => tok.drop (k + 1) | none => []
        if (if pfx then plen ≤ tokLen else plen = tokLen) then
          match memcmpEq tok pat plen with
          | R.ok true => R.ok true
          | R.ok false => matchTokens fuel next remaining' pat plen pfx
          | R.rej => R.rej
          | R.oob => R.oob
        else matchTokens fuel next remaining' pat plen pfx

/-- `match(text, pattern, match_prefix, match_substring)`; `pat = none` is `pattern->s == NULL` -/
def matchM (text : Bytes) (tlen : Nat) (pat : Option Bytes) (plen : Nat) (pfx sub : Bool) : R Bool :=
  if tlen < plen then R.ok false
  else match pat with
    | none => R.ok false
    | some p =>
      if sub then matchTokens (tlen + 1) text tlen p plen pfx
      else if pfx || plen == tlen then memcmpEq text p plen
      else R.ok false

/-! ### the query splitter of coap_print_wellknown_lkd -/

structure FP where
  /-- `resource_param.length` (`resource_param.s` is `q`) -/
  paramLen : Nat
  q : Bytes
  /-- `query_pattern.s`, `none` = NULL -/
  pat : Option Bytes
  patLen : Nat
  uri : Bool
  pfx : Bool
  sub : Bool
  deriving DecidableEq, Repr

/-- `while (len < query_filter->length && s[len] != '=') len++` — the read is guarded by the
length test, so the loop is the walk over the bytes of the query itself -/
def scanEq : Bytes → Nat
  | [] => 0
  | b :: r => if b != 0x3D then scanEq r + 1 else 0

def noFilter : FP := ⟨0, [], none, 0, false, false, false⟩

/-- `name.length == n && memcmp(q, name, n) == 0` -/
def nameIs (q : Bytes) (n : Nat) (name : Bytes) : R Bool :=
  if n = name.length then memcmpEq q name name.length else R.ok false

/-- the `for (rt_attributes = _rt_attributes; rt_attributes->s; rt_attributes++)` loop -/
def isListAttrM (q : Bytes) (n : Nat) : List Bytes → R Bool
  | [] => R.ok false
  | a :: rest =>
    match nameIs q n a with
    | R.ok true => R.ok true
    | R.ok false => isListAttrM q n rest
    | R.rej => R.rej
    | R.oob => R.oob

/-- `len && p[0] == c` -/
def firstIs (p : Bytes) (len : Nat) (c : UInt8) : R Bool :=
  if len = 0 then R.ok false
  else match rd p 0 with
    | R.ok b => R.ok (b == c)
    | R.rej => R.rej
    | R.oob => R.oob

/-- `len && p[len-1] == c` -/
def lastIs (p : Bytes) (len : Nat) (c : UInt8) : R Bool :=
  if len = 0 then R.ok false
  else match rd p (len - 1) with
    | R.ok b => R.ok (b == c)
    | R.rej => R.rej
    | R.oob => R.oob

def parseFilter (qf : Option Bytes) : R FP :=
  match qf with
  | none => R.ok noFilter
  | some q =>
    let n := scanEq q
    if n < q.length then
      match nameIs q n sHref with
      | R.rej => R.rej
      | R.oob => R.oob
      | R.ok uri =>
        match isListAttrM q n [sRt, sIf, sRel] with
        | R.rej => R.rej
        | R.oob => R.oob
        | R.ok sub =>
          -- query_pattern.s = query_filter->s + resource_param.length + 1
          let p0 := q.drop (n + 1)
          let l0 := q.length - (n + 1)
          -- if (query_pattern.length && query_pattern.s[0] == '/' && (flags & MATCH_URI))
          match firstIs p0 l0 0x2F with
          | R.rej => R.rej
          | R.oob => R.oob
          | R.ok sl0 =>
            let sl := sl0 && uri
            let p1 := if sl then p0.drop 1 else p0
            let l1 := if sl then l0 - 1 else l0
            -- if (query_pattern.length && query_pattern.s[query_pattern.length-1] == '*')
            match lastIs p1 l1 0x2A with
            | R.rej => R.rej
            | R.oob => R.oob
            | R.ok st => R.ok ⟨n, q, some p1, if st then l1 - 1 else l1, uri, st, sub⟩
    else R.ok ⟨n, q, none, 0, false, false, false⟩

/-- `coap_find_attr(r, &resource_param)` -/
def findAttrM (q : Bytes) (n : Nat) : List Attr → R (Option Attr)
  | [] => R.ok none
  | a :: rest =>
    if a.name.length = n then
      match memcmpEq a.name q n with
      | R.ok true => R.ok (some a)
      | R.ok false => findAttrM q n rest
      | R.rej => R.rej
      | R.oob => R.oob
    else findAttrM q n rest

/-- `value->length >= 2 && value->s[0] == '"' && value->s[value->length - 1] == '"'` (left to right, short-circuit) -/
def isQuoted (v : Bytes) : R Bool :=
  if v.length < 2 then R.ok false
  else match firstIs v v.length 0x22 with
    | R.ok true => lastIs v v.length 0x22
    | x => x

/-- the `if (resource_param.length) { … continue; }` block: is the resource printed? -/
def selectsM (fp : FP) (r : Resource) : R Bool :=
  if fp.paramLen = 0 then R.ok true
  else if fp.uri then matchM r.path r.path.length fp.pat fp.patLen fp.pfx fp.sub
  else
    match findAttrM fp.q fp.paramLen r.attrs with
    | R.oob => R.oob
    | R.rej => R.rej
    | R.ok none => R.ok false
    | R.ok (some a) =>
      match a.value with
      | none => R.ok false
      | some v =>
        match isQuoted v with
        | R.oob => R.oob
        | R.rej => R.rej
        -- unquoted_val.length -= 2; unquoted_val.s += 1;
        | R.ok true => matchM (v.drop 1) (v.length - 2) fp.pat fp.patLen fp.pfx fp.sub
        | R.ok false => matchM v v.length fp.pat fp.patLen fp.pfx fp.sub

/-! ### coap_print_wellknown_lkd -/

/-- `coap_string_equal(r->uri_path, &coap_default_uri_wellknown)` -/
def isWk (p : Bytes) : Bool := p.length == wkPath.length && (p.length == 0 || p == wkPath)

/-- `RESOURCES_ITER`; the Bool is `subsequent_resource`.  `result` of `W` is `written`. -/
def wkLoop (fp : FP) : Table → W → Bool → R W
  | [], w, _ => R.ok w
  | r :: rs, w, sub =>
    if isWk r.path then wkLoop fp rs w sub
    else
      match selectsM fp r with
      | R.oob => R.oob
      | R.rej => R.rej
      | R.ok false => wkLoop fp rs w sub
      | R.ok true =>
        let w1 := if sub then putc w 0x2C else w
        -- left = bufend - p; result = coap_print_link(r, p, &left, &offset);
        let pl := printLink r w1.room w1.offset
        if pl.status.error then R.ok { w1 with offset := pl.offset }    -- break
        else
          -- p += COAP_PRINT_OUTPUT_LENGTH(result); written += left;
          wkLoop fp rs ⟨w1.out ++ pl.out, w1.room - pl.status.len, pl.offset, w1.result + pl.len⟩ true

structure Out where
  out : Bytes
  status : Status
  /-- `*buflen` on return -/
  total : Nat
  deriving DecidableEq, Repr

/-- `coap_print_wellknown_lkd(context, buf, &buflen, offset, query_filter)` -/
def wellknown (t : Table) (qf : Option Bytes) (buflen offset : Nat) : R Out :=
  match parseFilter qf with
  | R.oob => R.oob
  | R.rej => R.rej
  | R.ok fp =>
    match wkLoop fp t ⟨[], buflen, offset, 0⟩ false with
    | R.oob => R.oob
    | R.rej => R.rej
    | R.ok w => R.ok ⟨w.out, finish w offset, w.result⟩

/-! ### hnd_get_wellknown_lkd: the body handed to the block-wise layer -/

def UINT_MAX : Nat := 4294967295

/-- size probe with an empty buffer, then the full print into `wkc_len` bytes -/
def hndBody (t : Table) (qf : Option Bytes) : R Bytes :=
  match wellknown t qf 0 UINT_MAX with
  | R.oob => R.oob
  | R.rej => R.rej
  | R.ok probe =>
    if probe.status.error then R.rej
    else if probe.total > 0 then
      match wellknown t qf probe.total 0 with
      | R.oob => R.oob
      | R.rej => R.rej
      | R.ok full =>
        if full.status.error then R.rej
        else R.ok (full.out.take full.total)     -- data_string->length = len
    else R.ok []

/-! ### the filter of the GET handler (hnd_get_wellknown_lkd after the fix): the first Uri-Query option as it is -/

/-- `opt = coap_check_option(request, COAP_OPTION_URI_QUERY, …); if (opt && coap_opt_length(opt) > 0) filter = copy`;
`opts` are the values of the request's Uri-Query options in wire order (already percent-decoded: they are option bytes) -/
def getFilter (opts : List Bytes) : Option Bytes :=
  match opts with
  | [] => none
  | o :: _ => if o.length > 0 then some o else none

/-- body of the response to `GET /.well-known/core` with the Uri-Query options `opts` -/
def getBody (t : Table) (opts : List Bytes) : R Bytes := hndBody t (getFilter opts)

/-- number of responses of a complete Block2 transfer with block size `sz` -/
def nblocks (len sz : Nat) : Nat := if len = 0 then 1 else (len + sz - 1) / sz

/-- block `num` of size `sz` of a body (RFC 7959): what a Block2 GET returns as payload -/
def block (body : Bytes) (sz num : Nat) : Bytes := (body.drop (num * sz)).take sz

end Coap.M.LF
