import CoapVerif.Util
/-
M (WebSocket WRITE side, C01) — transcription of the frame construction in src/coap_ws.c:

  coap_ws_mask_data      data[i] ^= ws->mask_key[i % 4]
  coap_ws_write          frame header (FIN | binary opcode, 7-bit / 16-bit / 64-bit payload length, MASK bit and the
                         4-byte masking key from coap_prng_lkd() when ws->state == COAP_SESSION_TYPE_CLIENT), copy of
                         the payload, masking, ONE l_write of header ++ payload to the lower layer, return value;
                         AFTER the `fix:` commit for partial writes (header and progress within the frame kept in
                         tx_header / tx_hdr_len / tx_hdr_ofs / tx_data_ofs / tx_data_left, continuation calls)
  coap_ws_close          the Close frame (FIN | close opcode, length 2, status code, masked for the client role)

External calls are parameters: `key` = the four bytes coap_prng_lkd() puts into the header; `lw` = the lower
layer's `l_write` as a function of the number of bytes offered (what it returns: < 0 error, otherwise the number of
bytes it accepted, at most the number offered).  `size_t` is 64 bits: `datalen < 2^64`.
Not modelled: allocation of session->ws / of the frame buffer failing (C18's subject), logging, the draining of
the socket after the Close frame (see Model/WsReader.lean).
-/
namespace Coap.M.WsW
open Coap

/-- `session->ws->state` -/
inductive Role where
  | client | server
  deriving DecidableEq, Repr

structure St where
  up : Bool := true
  sentClose : Bool := false
  role : Role := .client
  maskKey : Bytes := []          -- ws->mask_key
  closeReason : Nat := 0         -- uint16_t
  txHdr : Bytes := []            -- ws->tx_header[0 .. tx_hdr_len)
  txHdrOfs : Nat := 0            -- ws->tx_hdr_ofs
  txDataOfs : Nat := 0           -- ws->tx_data_ofs
  txDataLeft : Nat := 0          -- ws->tx_data_left
  deriving DecidableEq, Repr

/-- `x & 0xff` stored into a uint8_t -/
def u8 (n : Nat) : UInt8 := UInt8.ofNat n

/-- `ws_header[1]` (before the MASK bit) and `ws_header[2 .. hdr_len)`: the three length forms of coap_ws_write -/
def lenField (datalen : Nat) : UInt8 × Bytes :=
  if datalen ≤ 125 then (u8 (datalen % 128), [])
  else if datalen ≤ 0xffff then (126, [u8 (datalen / 2 ^ 8), u8 datalen])
  else (127, [u8 (datalen / 2 ^ 56), u8 (datalen / 2 ^ 48), u8 (datalen / 2 ^ 40), u8 (datalen / 2 ^ 32),
              u8 (datalen / 2 ^ 24), u8 (datalen / 2 ^ 16), u8 (datalen / 2 ^ 8), u8 datalen])

/-- `coap_ws_mask_data` on the bytes from index `i` on -/
def maskData (key : Bytes) (i : Nat) : Bytes → Bytes
  | [] => []
  | b :: r => (b ^^^ key.getD (i % 4) 0) :: maskData key (i + 1) r

/-- `ws_header[0 .. hdr_len)` of coap_ws_write: `WS_B0_FIN_BIT | WS_OP_BINARY`, the length field, and for the
client role `|= WS_B1_MASK_BIT` and the masking key -/
def header (role : Role) (key : Bytes) (datalen : Nat) : Bytes :=
  match role with
  | .client => (0x80 ||| 0x02) :: ((lenField datalen).1 ||| 0x80) :: ((lenField datalen).2 ++ key)
  | .server => (0x80 ||| 0x02) :: (lenField datalen).1 :: (lenField datalen).2

/-- the payload bytes as they are put behind the header: for the client role masked with `key`, counting from
offset `ofs` within the frame's payload -/
def bodyBytes (role : Role) (key : Bytes) (ofs : Nat) (data : Bytes) : Bytes :=
  match role with
  | .client => maskData key ofs data
  | .server => data

/-- `wdata` for a whole frame: header, then the payload, masked for the client role -/
def frame (role : Role) (key data : Bytes) : Bytes :=
  header role key data.length ++ bodyBytes role key 0 data

/-- `coap_ws_write(session, data, datalen)` AFTER the fix of the partial-write defect: (return value, state, the
bytes the lower layer accepted).  A new frame is started when nothing of a frame is part way to the lower layer
(`tx_hdr_ofs == 0`, or header and announced payload completely taken); otherwise `data` continues the current
frame: no new header, no more than the frame announced, masked from offset `tx_data_ofs` with the key that sits at
the end of the stored header.  `key` (coap_prng_lkd) is only drawn when a frame is started. -/
def wsWrite (st : St) (key data : Bytes) (lw : Nat → Int) : Int × St × Bytes :=
  if !st.up then (0, st, []) else
  if st.sentClose then (0, st, []) else
  let fresh : Bool := st.txHdrOfs = 0 || (st.txHdrOfs = st.txHdr.length && st.txDataLeft = 0)
  let st1 : St :=
    if fresh then
      { st with txHdr := header st.role key data.length, txHdrOfs := 0, txDataOfs := 0, txDataLeft := data.length,
                maskKey := match st.role with | .client => key | .server => st.maskKey }
    else st
  let data1 := if !fresh && data.length > st.txDataLeft then data.take st.txDataLeft else data
  let hdrLeft := st1.txHdr.drop st1.txHdrOfs
  let body := bodyBytes st.role (st1.txHdr.drop (st1.txHdr.length - 4)) st1.txDataOfs data1
  let wdata := hdrLeft ++ body
  let ret := lw wdata.length
  if ret ≤ 0 then (ret, st1, []) else
  let wire := wdata.take ret.toNat
  if ret.toNat < hdrLeft.length then (0, { st1 with txHdrOfs := st1.txHdrOfs + ret.toNat }, wire) else
  let sent := ret.toNat - hdrLeft.length
  ((sent : Int), { st1 with txHdrOfs := st1.txHdr.length, txDataOfs := st1.txDataOfs + sent,
                            txDataLeft := st1.txDataLeft - sent }, wire)

/-- the caller of the session layer's `l_write` (coap_send_internal → coap_session_delay_pdu / coap_write_session:
`partial_write += bytes_written`): offers the data not yet taken until everything is, one lower-layer behaviour per
call; a negative return ends the attempt.  (done, state, bytes on the wire) -/
def sendAll (key : Bytes) : List (Nat → Int) → St → Bytes → Bool × St × Bytes
  | [], st, _ => (false, st, [])
  | lw :: lws, st, rest =>
    let r := wsWrite st key rest lw
    if r.1 < 0 then (false, r.2.1, r.2.2)
    else if r.1.toNat ≥ rest.length then (true, r.2.1, r.2.2)
    else
      let q := sendAll key lws r.2.1 (rest.drop r.1.toNat)
      (q.1, q.2.1, r.2.2 ++ q.2.2)

/-- several messages one after the other, each with its key and the lower-layer behaviours met while sending it;
stops at the first message that is not sent completely -/
def sendMsgs : List (Bytes × Bytes × List (Nat → Int)) → St → Bool × St × Bytes
  | [], st => (true, st, [])
  | m :: rest, st =>
    let q := sendAll m.1 m.2.2 st m.2.1
    if q.1 then
      let r := sendMsgs rest q.2.1
      (r.1, r.2.1, q.2.2 ++ r.2.2)
    else (false, q.2.1, q.2.2)

/-- the Close frame of `coap_ws_close`: `WS_B0_FIN_BIT | WS_OP_CLOSE`, `ws_header[1] = 2` (`|= WS_B1_MASK_BIT` and the
key for the client), the status code high byte first, masked for the client -/
def closeFrame (role : Role) (key : Bytes) (reason : Nat) : Bytes :=
  match role with
  | .client => (0x80 ||| 0x08) :: ((2 : UInt8) ||| 0x80) :: (key ++ maskData key 0 [u8 (reason / 2 ^ 8), u8 reason])
  | .server => (0x80 ||| 0x08) :: (2 : UInt8) :: [u8 (reason / 2 ^ 8), u8 reason]

/-- the part of `coap_ws_close` that writes: nothing unless the layer is up and no Close was sent; a zero
`close_reason` becomes 1000; `sent_close` is set before the write -/
def wsClose (st : St) (key : Bytes) (lw : Nat → Int) : St × Bytes :=
  if st.up && !st.sentClose then
    let reason := if st.closeReason = 0 then 1000 else st.closeReason
    let fr := closeFrame st.role key reason
    let st' : St := match st.role with
      | .client => { st with maskKey := key, closeReason := reason, sentClose := true }
      | .server => { st with closeReason := reason, sentClose := true }
    (st', fr.take (lw fr.length).toNat)
  else (st, [])

/-- the lower layer that accepts everything it is offered -/
def lwAll (n : Nat) : Int := n

/-- several messages written back to back (each with its own masking key) to a lower layer that accepts
everything: the bytes on the wire -/
def writeAll (role : Role) : List (Bytes × Bytes) → Bytes
  | [] => []
  | (key, data) :: rest => frame role key data ++ writeAll role rest

end Coap.M.WsW
