import CoapVerif.Model.Replay
/-
C15 — Appendix B.2 (context re-derivation with an ID Context exchange), CLIENT side of the response path of
`coap_oscore_decrypt_pdu` (src/coap_oscore.c, `if (session->b_2_step != COAP_OSCORE_B_2_NONE)` in the response branch,
`oscore_unwrap_kid_context`, `oscore_cbor_get_element_size`, the error exits), one security context.  Transcribed from the
tree after the R15c fix 74ce665 (the Appendix B.2 state is put back when the response does not verify).

The Sender Key, Recipient Key and Common IV are functions of the ID Context (`oscore_update_ctx` re-derives all three
from `osc_ctx->id_context`), so the state is `b_2_step` and the ID Context.  Covered: responses that do NOT verify
(any kid context field, any step).  NOT covered (not tied to the compiled code): verified responses — the step 3 trap
(`R2 || R3`, retransmission), the server side (`oscore_duplicate_ctx`, steps 2 and 4).  Core Lean only.
-/
namespace Coap.ReplayB2
open Coap.Replay

/-- `session->b_2_step` (`COAP_OSCORE_B_2_NONE` = 0, `STEP_1` … `STEP_5` = 1 … 5) and `osc_ctx->id_context` (bytes). -/
structure B2 where
  step : Nat
  idctx : List Nat
  deriving DecidableEq, Repr

/-- big-endian value of the bytes (`size = (size << 8) + getal`) -/
def beVal : List Nat → Nat → Nat
  | [], acc => acc
  | b :: r, acc => beVal r (acc * 256 + b)

/-- `oscore_unwrap_kid_context(wrapped, out)`: the kid context field of the option is a CBOR byte string; `none` = 0
returned.  `head = (ptr[0] & 0x1f) < 0x18 ? 1 : 1 + (1 << (ptr[0] & 3))`, `if (length < head) return 0`,
`out->length = oscore_cbor_get_element_size(&ptr, &length)`, `return out->length <= length`. -/
def unwrap (w : List Nat) : Option (List Nat) :=
  match w with
  | [] => none                                   -- !ptr || length == 0
  | b :: rest =>
    let c := b % 32
    if c < 24 then
      if c ≤ rest.length then some (rest.take c) else none
    else
      let num := 2 ^ (c % 4)
      if rest.length + 1 < 1 + num then none
      else
        let size := beVal (rest.take num) 0
        let rem := rest.drop num
        if size ≤ rem.length then some (rem.take size) else none

/-- the Appendix B.2 block of the response branch, BEFORE the response is verified: `none` = `goto error` (the kid
context is not a CBOR byte string); otherwise the state it leaves — `STEP_3` with the ID Context `kid context || ID
Context` (`oscore_update_ctx`) when the option carries a kid context that differs from the ID Context, `STEP_5`
otherwise. -/
def b2Update (s : B2) (kc : Option (List Nat)) : Option B2 :=
  match kc with
  | none => some { s with step := 5 }            -- ptr == NULL
  | some w =>
    match unwrap w with
    | none => none
    | some k =>
      if k ≠ s.idctx then some { step := 3, idctx := k ++ s.idctx }
      else some { s with step := 5 }

/-- A response that does not verify arrives (its token is that of an outstanding request, the kid context field of its
OSCORE option is `kc`): `coap_oscore_decrypt_pdu` returns NULL; `error_no_ack:` — `if (b_2_restore) { b_2_step =
b_2_prev_step; if (b_2_prev_id_context) oscore_update_ctx(osc_ctx, b_2_prev_id_context); }`. -/
def recvForged (s : B2) (kc : Option (List Nat)) : B2 × Verdict :=
  if s.step = 0 then (s, .drop)                  -- b_2_step == NONE: the block is skipped, nothing to restore
  else
    -- b_2_restore = 1; b_2_prev_step = session->b_2_step;
    let prevStep := s.step
    match b2Update s kc with
    | none => ({ s with step := prevStep }, .drop)                  -- goto error: no ID Context was saved
    | some s1 =>
      -- b_2_prev_id_context is set exactly when oscore_update_ctx() ran (STEP_3)
      let prevId : Option (List Nat) := if s1.step = 3 then some s.idctx else none
      -- decryption fails: goto error
      ({ step := prevStep, idctx := match prevId with | some i => i | none => s1.idctx }, .drop)

/-- the state the unpatched code left (no restore): for the `decide`d witness of the defect -/
def recvForgedUnpatched (s : B2) (kc : Option (List Nat)) : B2 :=
  if s.step = 0 then s else match b2Update s kc with | none => s | some s1 => s1

def run : B2 → List (Option (List Nat)) → List (Verdict × B2)
  | _, [] => []
  | s, kc :: r => let x := recvForged s kc; (x.2, x.1) :: run x.1 r

end Coap.ReplayB2
