import CoapVerif.Model.Replay
/-
C15 — Appendix B.2 (context re-derivation with an ID Context exchange), CLIENT side of the response path of
`coap_oscore_decrypt_pdu` (src/coap_oscore.c, `if (session->b_2_step != COAP_OSCORE_B_2_NONE)` in the response branch,
`oscore_unwrap_kid_context`, `oscore_cbor_get_element_size`, the error exits), one security context.  Transcribed from the
tree after the R15c fix 6ebee56 (the Appendix B.2 state is put back when the response does not verify).

The Sender Key, Recipient Key and Common IV are functions of the ID Context (`oscore_update_ctx` re-derives all three
from `osc_ctx->id_context`), so the state is `b_2_step` and the ID Context.  Covered: responses that do NOT verify
(any kid context field, any step).  NOT covered (not tied to the compiled code): verified responses — the step 3 trap
(`R2 || R3`, retransmission), and verified requests on the server side (below: requests that do not verify).  Core Lean only.
-/
namespace Coap.ReplayB2
open Coap.Replay

/-- `session->b_2_step` (`COAP_OSCORE_B_2_NONE` = 0, `STEP_1` … `STEP_5` = 1 … 5) and `osc_ctx->id_context` (bytes). -/
structure B2 where
  step : Nat
  idctx : List Nat
  deriving DecidableEq, Repr

/-- big-endian value of the bytes (`size = (size << 8) + getal`) -/
def beVal : List Nat → Nat → Nat
  | [], acc => acc
  | b :: r, acc => beVal r (acc * 256 + b)

/-- `oscore_unwrap_kid_context(wrapped, out)`: the kid context field of the option is a CBOR byte string; `none` = 0
returned.  `head = (ptr[0] & 0x1f) < 0x18 ? 1 : 1 + (1 << (ptr[0] & 3))`, `if (length < head) return 0`,
`out->length = oscore_cbor_get_element_size(&ptr, &length)`, `return out->length <= length`. -/
def unwrap (w : List Nat) : Option (List Nat) :=
  match w with
  | [] => none                                   -- !ptr || length == 0
  | b :: rest =>
    let c := b % 32
    if c < 24 then
      if c ≤ rest.length then some (rest.take c) else none
    else
      let num := 2 ^ (c % 4)
      if rest.length + 1 < 1 + num then none
      else
        let size := beVal (rest.take num) 0
        let rem := rest.drop num
        if size ≤ rem.length then some (rem.take size) else none

/-- the Appendix B.2 block of the response branch, BEFORE the response is verified: `none` = `goto error` (the kid
context is not a CBOR byte string); otherwise the state it leaves — `STEP_3` with the ID Context `kid context || ID
Context` (`oscore_update_ctx`) when the option carries a kid context that differs from the ID Context, `STEP_5`
otherwise. -/
def b2Update (s : B2) (kc : Option (List Nat)) : Option B2 :=
  match kc with
  | none => some { s with step := 5 }            -- ptr == NULL
  | some w =>
    match unwrap w with
    | none => none
    | some k =>
      if k ≠ s.idctx then some { step := 3, idctx := k ++ s.idctx }
      else some { s with step := 5 }

/-- A response that does not verify arrives (its token is that of an outstanding request, the kid context field of its
OSCORE option is `kc`): `coap_oscore_decrypt_pdu` returns NULL; `error_no_ack:` — `if (b_2_restore) { b_2_step =
b_2_prev_step; if (b_2_prev_id_context) oscore_update_ctx(osc_ctx, b_2_prev_id_context); }`. -/
def recvForged (s : B2) (kc : Option (List Nat)) : B2 × Verdict :=
  if s.step = 0 then (s, .drop)                  -- b_2_step == NONE: the block is skipped, nothing to restore
  else
    -- b_2_restore = 1; b_2_prev_step = session->b_2_step;
    let prevStep := s.step
    match b2Update s kc with
    | none => ({ s with step := prevStep }, .drop)                  -- goto error: no ID Context was saved
    | some s1 =>
      -- b_2_prev_id_context is set exactly when oscore_update_ctx() ran (STEP_3)
      let prevId : Option (List Nat) := if s1.step = 3 then some s.idctx else none
      -- decryption fails: goto error
      ({ step := prevStep, idctx := match prevId with | some i => i | none => s1.idctx }, .drop)

/-- the state the unpatched code left (no restore): for the `decide`d witness of the defect -/
def recvForgedUnpatched (s : B2) (kc : Option (List Nat)) : B2 :=
  if s.step = 0 then s else match b2Update s kc with | none => s | some s1 => s1

def run : B2 → List (Option (List Nat)) → List (Verdict × B2)
  | _, [] => []
  | s, kc :: r => let x := recvForged s kc; (x.2, x.1) :: run x.1 r

/-! ### Server side: the request path

`coap_oscore_decrypt_pdu`, request branch, from `oscore_find_context(…, &cose->kid_context, NULL, …)` to the error exits,
for requests that do NOT verify; the kid of the request is the recipient id of every security context of the
`coap_context_t` (the setting of the op `b2s`), all contexts have `rfc8613_b_2` set and `OSCORE_MODE_SINGLE`.
Transcribed from the tree after fix 9442af8. -/

/-- `session->b_2_step`, `session->oscore_r2` (`none` = 0) and the ID Context (`none` = NULL) of every security context
in chain order. -/
structure Srv where
  step : Nat
  r2 : Option (List Nat)
  ctxs : List (Option (List Nat))
  deriving DecidableEq, Repr

/-- `oscore_find_context(c, kid, &kid_context, NULL, …)`, recipient id equal: position of the first context whose ID
Context equals the kid context field as received (a context without ID Context matches the empty field only) -/
def findExact (ctxs : List (Option (List Nat))) (w : List Nat) : Option Nat :=
  ctxs.findIdx? (fun c => match c with
    | some i => decide (i.length = w.length) && (decide (w.length = 0) || decide (i = w))
    | none => decide (w.length = 0))

/-- `oscore_find_context(c, kid, NULL, oscore_r2 != 0 ? &oscore_r2 : NULL, …)`: with R2 the first context whose ID
Context is longer than 8 bytes and starts with R2, without it the first context -/
def findB2 (ctxs : List (Option (List Nat))) (r2 : Option (List Nat)) : Option Nat :=
  match r2 with
  | none => ctxs.findIdx? (fun _ => true)
  | some r => ctxs.findIdx? (fun c => match c with
    | some i => decide (i.length > 8) && decide (i.take 8 = r)
    | none => false)

/-- what the request path does with the contexts BEFORE the request is verified: `none` = no security context
("Security context not found", 4.01); `some (s', restore)`: the state it leaves and whether `b_2_restore` is set -/
def srvUpdate (s : Srv) (w : List Nat) : Option (Srv × Bool) :=
  match findExact s.ctxs w with
  | some _ =>
    -- else if (session->b_2_step != COAP_OSCORE_B_2_NONE) session->b_2_step = COAP_OSCORE_B_2_NONE;   ("server finished")
    some ({ s with step := 0 }, false)
  | none =>
    if w.length > 0 then
      match findB2 s.ctxs s.r2 with
      | none => none
      | some idx =>
        match unwrap w with
        | none => none                                         -- osc_ctx = NULL
        | some k =>
          match s.r2 with
          | some _ => some ({ s with step := 4, ctxs := s.ctxs.set idx (some k) }, true)      -- step 4: oscore_update_ctx
          | none => some ({ s with step := 2, ctxs := s.ctxs ++ [some k] }, true)             -- step 2: oscore_duplicate_ctx
    else none

/-- A request that does not verify (kid context field `w`): verdict (`rej401`: no context / `rej400`: decryption failed)
and the state after the error exit — `if (b_2_restore) { b_2_step = b_2_prev_step; oscore_update_ctx(prev ID Context);
oscore_remove_context(the context set up for the request) }`. -/
def recvForgedReq (s : Srv) (w : List Nat) : Srv × Verdict :=
  match srvUpdate s w with
  | none => (s, .rej401)
  | some (s1, restore) =>
    if restore then ({ s1 with step := s.step, ctxs := s.ctxs }, .rej400)
    else (s1, .rej400)

/-- the state the unpatched code left -/
def recvForgedReqUnpatched (s : Srv) (w : List Nat) : Srv :=
  match srvUpdate s w with | none => s | some (s1, _) => s1

def runSrv : Srv → List (List Nat) → List (Verdict × Srv)
  | _, [] => []
  | s, w :: r => let x := recvForgedReq s w; (x.2, x.1) :: runSrv x.1 r

end Coap.ReplayB2
