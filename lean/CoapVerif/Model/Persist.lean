import CoapVerif.Util
/-
M for C17 — observe persistence (src/coap_subscribe.c, `#if COAP_WITH_OBSERVE_PERSIST` part, and the call-outs in
src/coap_resource.c).  Core Lean only.

* a file system `Name → Option Bytes` with the stdio subset the code uses and PROCESS-KILL crash semantics:
  what was flushed or closed survives, an unflushed stdio buffer survives only up to an arbitrary prefix
  (`keep`), `rename` is atomic;
* the three record formats (dyn-resource / observe: binary, length-prefixed; obs-cnt: text lines), readers
  transcribed `fread` by `fread` (so the reader also yields the sizes it asks for);
* every updater as the SEQUENCE OF STDIO OPERATIONS it performs, computed from the file contents it reads:
  `dynAdded`, `dynDeleted`, `obsAdded`, `obsDeleted`, `cntTrack`, `cntDeleted`, and the start-up loaders
  (`loadDyn`, `loadCnt`, `loadObs` — the latter rewrites the observe file with the new keys and, through
  `coap_add_observer`, runs `cntTrack`);
* the server-side call-outs (`Srv`): which updaters run, in which order, for resource creation / deletion,
  observe registration / cancellation, notification, start-up; the Observe counter arithmetic incl. the
  rounding `((n + f) / f) * f - 1` and the 24-bit mask;
* the endpoints of the context (`Ep`, `Srv.eps`) and the endpoint search at the head of
  `coap_persist_observe_add_lkd` (`epWalk`, `findEp`): a stored observation is re-established on the endpoint with
  the record's protocol and listen address, wherever it is in `context->endpoint`.

Modelled code = the tree AFTER the three `fix:` commits (dyn file opened "r"; counter entry removed after the
dyn entry; empty resource name neither written nor read).  The pinned `coap_op_dyn_resource_added` (mode "a") is kept as `dynAddedPinned` for the witness.

Assumptions made explicit by the model: stdio calls do not fail for lack of space / permissions (only
`fopen "r"` of a missing file and reads at end of file fail); the three file names and their `.tmp` siblings
are pairwise distinct (`Name` is a free datatype).
-/
namespace Coap.Persist

/-! ## file system -/

inductive FileId | dyn | obs | cnt
  deriving DecidableEq, Repr

inductive Name
  | main (f : FileId)
  | tmp (f : FileId)
  deriving DecidableEq, Repr

inductive Mode | r | w | wp | a
  deriving DecidableEq, Repr

/-- one stdio / rename / remove call; a stream is identified by the name it was opened with -/
inductive Op
  | fopen (n : Name) (m : Mode)
  | fread (n : Name) (sz : Nat)          -- fread(buf, sz, 1, fp)
  | fgets (n : Name) (cap : Nat)         -- fgets(buf, cap, fp)
  | fwrite (n : Name) (bs : Bytes)       -- fwrite / fprintf: the bytes appended to the stream
  | fflush (n : Name)
  | fclose (n : Name)
  | rename (a b : Name)
  | remove (a : Name)
  deriving DecidableEq, Repr

structure FS where
  disk : Name → Option Bytes      -- what a reader opening the file now would see minus unflushed buffers
  wr : Name → Option Bytes        -- stream open for writing: its unflushed buffer
  rd : Name → Option Bytes        -- stream open for reading: bytes not yet consumed

def upd (f : Name → Option Bytes) (n : Name) (v : Option Bytes) : Name → Option Bytes :=
  fun m => if m = n then v else f m

def FS.empty : FS := ⟨fun _ => none, fun _ => none, fun _ => none⟩

/-- `fgets(buf, cap, fp)`: up to `cap-1` bytes, stopping after a newline -/
def lineOf : Nat → Bytes → Bytes
  | 0, _ => []
  | _, [] => []
  | n+1, b :: r => if b = 10 then [b] else b :: lineOf n r

def flushed (fs : FS) (n : Name) : Option Bytes :=
  match fs.wr n with
  | some buf => some ((fs.disk n).getD [] ++ buf)
  | none => fs.disk n

def step (fs : FS) : Op → FS
  | .fopen n .r =>
    match fs.disk n with
    | some c => { fs with rd := upd fs.rd n (some c) }
    | none => fs                                             -- NULL
  | .fopen n .w => { fs with disk := upd fs.disk n (some []), wr := upd fs.wr n (some []) }
  | .fopen n .wp => { fs with disk := upd fs.disk n (some []), wr := upd fs.wr n (some []) }
  | .fopen n .a => { fs with disk := upd fs.disk n (some ((fs.disk n).getD [])), wr := upd fs.wr n (some []) }
  | .fread n sz =>
    match fs.rd n with
    | some rest => { fs with rd := upd fs.rd n (some (rest.drop sz)) }
    | none => fs                                             -- not open for reading: returns 0
  | .fgets n cap =>
    match fs.rd n with
    | some rest => { fs with rd := upd fs.rd n (some (rest.drop (lineOf (cap - 1) rest).length)) }
    | none => fs
  | .fwrite n bs =>
    match fs.wr n with
    | some buf => { fs with wr := upd fs.wr n (some (buf ++ bs)) }
    | none => fs
  | .fflush n =>
    match fs.wr n with
    | some _ => { fs with disk := upd fs.disk n (flushed fs n), wr := upd fs.wr n (some []) }
    | none => fs
  | .fclose n => { fs with disk := upd fs.disk n (flushed fs n), wr := upd fs.wr n none, rd := upd fs.rd n none }
  | .rename a b =>
    match fs.disk a with
    | some c => { fs with disk := upd (upd fs.disk b (some c)) a none }
    | none => fs
  | .remove a => { fs with disk := upd fs.disk a none }

def exec (fs : FS) (ops : List Op) : FS := ops.foldl step fs

/-- what is on disk after the process is killed: closed/flushed data, plus an arbitrary prefix (`keep n` bytes)
of each unflushed stdio buffer (stdio may have written part of it out on its own) -/
def crashDisk (fs : FS) (keep : Name → Nat) : Name → Option Bytes :=
  fun n => match fs.disk n, fs.wr n with
    | some c, some buf => some (c ++ buf.take (keep n))
    | d, _ => d

/-- the file system a restarted process finds -/
def afterCrash (fs : FS) (keep : Name → Nat) : FS := ⟨crashDisk fs keep, fun _ => none, fun _ => none⟩

/-! ## record formats -/

/-- `k` bytes little-endian (x86-64 `ssize_t`, `size_t`, `coap_proto_t`, pointers as written by `fwrite(&v, sizeof v, …)`) -/
def le : Nat → Nat → Bytes
  | 0, _ => []
  | k+1, n => UInt8.ofNat (n % 256) :: le k (n / 256)

def unle : Bytes → Nat
  | [] => 0
  | b :: r => b.toNat + 256 * unle r

/-- sizes of the fixed fields (checked against the compiled code by the op-log comparison) -/
def szKey : Nat := 8
def szProto : Nat := 4
def szAddr : Nat := 32       -- sizeof(coap_address_t)
def szTuple : Nat := 64      -- sizeof(coap_addr_tuple_t)
def szLen : Nat := 8         -- sizeof(ssize_t)
def maxLen : Nat := 0x10000  -- the readers refuse longer fields
def minusOne : Nat := 2^64 - 1

/-- `fread(buf, n, 1, fp) == 1` on a stream holding `bs`: needs `n > 0` and `n` bytes -/
def rdN (n : Nat) (bs : Bytes) : Option (Bytes × Bytes) :=
  if n = 0 ∨ bs.length < n then none else some (bs.take n, bs.drop n)

/-- `size == 0 || fread(buf, size, 1, fp) == 1`: a zero-length field is not read at all (dyn record name after fix a16f06e:
the root resource has an empty name) -/
def rdN0 (n : Nat) (bs : Bytes) : Option (Bytes × Bytes) := if n = 0 then some ([], bs) else rdN n bs

/-- the sizes of the stdio calls made for a field that is skipped when empty -/
def nz (n : Nat) : List Nat := if n = 0 then [] else [n]

/-- the C test `size < 0 || size > 0x10000` on an `ssize_t` read as 8 LE bytes -/
def badLen (n : Nat) : Bool := n ≥ 2^63 || n > maxLen

structure DynRec where
  proto : Nat
  name : Bytes
  pkt : Bytes
  deriving DecidableEq, Repr

def encDyn (r : DynRec) : Bytes :=
  le szProto r.proto ++ le szLen r.name.length ++ r.name ++ le szLen r.pkt.length ++ r.pkt

/-- the `fwrite`s of `coap_op_dyn_resource_write` (an empty name is not written) -/
def dynWrites (r : DynRec) : List Bytes :=
  [le szProto r.proto, le szLen r.name.length] ++ (if r.name.length = 0 then [] else [r.name]) ++
  [le szLen r.pkt.length, r.pkt]

/-- `coap_op_dyn_resource_read`: the sizes of the `fread`s it issues, and its result -/
def dynRead (bs : Bytes) : List Nat × Option (DynRec × Bytes) :=
  match rdN szProto bs with
  | none => ([szProto], none)
  | some (p, b1) =>
    match rdN szLen b1 with
    | none => ([szProto, szLen], none)
    | some (l1, b2) =>
      if badLen (unle l1) then ([szProto, szLen], none) else
      match rdN0 (unle l1) b2 with
      | none => ([szProto, szLen] ++ nz (unle l1), none)
      | some (nm, b3) =>
        match rdN szLen b3 with
        | none => ([szProto, szLen] ++ nz (unle l1) ++ [szLen], none)
        | some (l2, b4) =>
          if badLen (unle l2) then ([szProto, szLen] ++ nz (unle l1) ++ [szLen], none) else
          match rdN (unle l2) b4 with
          | none => ([szProto, szLen] ++ nz (unle l1) ++ [szLen, unle l2], none)
          | some (pk, b5) => ([szProto, szLen] ++ nz (unle l1) ++ [szLen, unle l2], some (⟨unle p, nm, pk⟩, b5))

structure ObsRec where
  key : Nat            -- the coap_subscription_t pointer of the writing process
  proto : Nat
  listen : Bytes       -- coap_address_t, szAddr bytes
  tuple : Bytes        -- coap_addr_tuple_t, szTuple bytes
  pkt : Bytes
  osc : Option Bytes
  deriving DecidableEq, Repr

def obsWrites (r : ObsRec) : List Bytes :=
  [le szKey r.key, le szProto r.proto, r.listen, r.tuple, le szLen r.pkt.length, r.pkt] ++
  (match r.osc with
   | some o => [le szLen o.length, o]
   | none => [le szLen minusOne])

def encObs (r : ObsRec) : Bytes := (obsWrites r).flatten

/-- `coap_op_observe_read` -/
def obsRead (bs : Bytes) : List Nat × Option (ObsRec × Bytes) :=
  match rdN szKey bs with
  | none => ([szKey], none)
  | some (k, b1) =>
    match rdN szProto b1 with
    | none => ([szKey, szProto], none)
    | some (p, b2) =>
      match rdN szAddr b2 with
      | none => ([szKey, szProto, szAddr], none)
      | some (la, b3) =>
        match rdN szTuple b3 with
        | none => ([szKey, szProto, szAddr, szTuple], none)
        | some (tu, b4) =>
          match rdN szLen b4 with
          | none => ([szKey, szProto, szAddr, szTuple, szLen], none)
          | some (l1, b5) =>
            if badLen (unle l1) then ([szKey, szProto, szAddr, szTuple, szLen], none) else
            match rdN (unle l1) b5 with
            | none => ([szKey, szProto, szAddr, szTuple, szLen, unle l1], none)
            | some (pk, b6) =>
              match rdN szLen b6 with
              | none => ([szKey, szProto, szAddr, szTuple, szLen, unle l1, szLen], none)
              | some (l2, b7) =>
                if unle l2 = minusOne then
                  ([szKey, szProto, szAddr, szTuple, szLen, unle l1, szLen], some (⟨unle k, unle p, la, tu, pk, none⟩, b7))
                else if badLen (unle l2) then ([szKey, szProto, szAddr, szTuple, szLen, unle l1, szLen], none) else
                match rdN (unle l2) b7 with
                | none => ([szKey, szProto, szAddr, szTuple, szLen, unle l1, szLen, unle l2], none)
                | some (os, b8) =>
                  ([szKey, szProto, szAddr, szTuple, szLen, unle l1, szLen, unle l2],
                   some (⟨unle k, unle p, la, tu, pk, some os⟩, b8))

/-! ### the counter file: text lines `<uri-path> <decimal>\n` -/

/-- `%u` of a 32-bit value: at most 10 digits -/
def decF : Nat → Nat → Bytes
  | 0, _ => []
  | f+1, n => if n < 10 then [UInt8.ofNat (48 + n)] else decF f (n / 10) ++ [UInt8.ofNat (48 + n % 10)]

def decimal (n : Nat) : Bytes := decF 10 n

def isDigit (b : UInt8) : Bool := 48 ≤ b.toNat && b.toNat ≤ 57

def atoiGo (acc : Nat) : Bytes → Nat
  | [] => acc
  | d :: r => if isDigit d then atoiGo (acc * 10 + (d.toNat - 48)) r else acc

def isSpace (b : UInt8) : Bool := b = 32 || (9 ≤ b.toNat && b.toNat ≤ 13)

/-- `(uint32_t)atoi(s)`: leading white space, optional sign, digits (no overflow for the values `%u` of a 24-bit
counter produces) -/
def atoi (s : Bytes) : Nat :=
  match s.dropWhile isSpace with
  | 45 :: r => (2^32 - atoiGo 0 r % 2^32) % 2^32
  | 43 :: r => atoiGo 0 r % 2^32
  | r => atoiGo 0 r % 2^32

/-- a `char[]` seen as a C string -/
def cstr (bs : Bytes) : Bytes := bs.takeWhile (· ≠ 0)

structure CntRec where
  name : Bytes
  val : Nat
  deriving DecidableEq, Repr

/-- `fprintf(fp, "%s %u\n", name, val)` -/
def encCnt (r : CntRec) : Bytes := cstr r.name ++ [32] ++ decimal r.val ++ [10]

def cntBuf : Nat := 1500

/-- one iteration of the `fgets` loops: `none` = end of file, `some none` = a line without a space (`break`) -/
def cntLine (bs : Bytes) : Option (Option CntRec × Bytes) :=
  match bs with
  | [] => none
  | _ =>
    let line := lineOf (cntBuf - 1) bs
    let rest := bs.drop line.length
    let s := cstr line
    let key := s.takeWhile (· ≠ 32)
    if key.length = s.length then some (none, rest)          -- strchr(buf, ' ') == NULL
    else some (some ⟨key, atoi (s.drop (key.length + 1))⟩, rest)

/-! ## the updaters as op sequences -/

open Op Name

/-- what `fopen(name, "r")` returns -/
def exists? (fs : FS) (n : Name) : Bool := (fs.disk n).isSome

def content (fs : FS) (n : Name) : Bytes := (fs.disk n).getD []

def writesTo (n : Name) (ws : List Bytes) : List Op := ws.map (fwrite n)
def readsFrom (n : Name) (szs : List Nat) : List Op := szs.map (fread n)

/-- the copy loop shared by `coap_op_dyn_resource_added` / `coap_op_resource_deleted`:
read a record, copy it unless it is `name`'s -/
def dynCopy (name : Bytes) : Nat → Bytes → List Op
  | 0, _ => []
  | fuel+1, bs =>
    match dynRead bs with
    | (szs, none) => readsFrom (main .dyn) szs
    | (szs, some (r, rest)) =>
      readsFrom (main .dyn) szs ++ (if r.name ≠ name then writesTo (tmp .dyn) (dynWrites r) else []) ++
      dynCopy name fuel rest

/-- `coap_op_dyn_resource_added` (after fix ec63050: "r", file may be missing) -/
def dynAdded (fs : FS) (r : DynRec) : List Op :=
  let old := content fs (main .dyn)
  [fopen (main .dyn) .r, fopen (tmp .dyn) .wp] ++
  (if exists? fs (main .dyn) then dynCopy r.name (old.length + 1) old else []) ++
  writesTo (tmp .dyn) (dynWrites r) ++
  [fflush (tmp .dyn), fclose (tmp .dyn)] ++
  (if exists? fs (main .dyn) then [fclose (main .dyn)] else []) ++
  [rename (tmp .dyn) (main .dyn)]

/-- the pinned `coap_op_dyn_resource_added`: the save file is opened "a" and then read -/
def dynAddedPinned (_fs : FS) (r : DynRec) : List Op :=
  [fopen (main .dyn) .a, fopen (tmp .dyn) .wp, fread (main .dyn) szProto] ++
  writesTo (tmp .dyn) (dynWrites r) ++
  [fflush (tmp .dyn), fclose (tmp .dyn), fclose (main .dyn), rename (tmp .dyn) (main .dyn)]

/-- the dyn-file part of `coap_op_resource_deleted` -/
def dynDeleted (fs : FS) (name : Bytes) : List Op :=
  let old := content fs (main .dyn)
  if exists? fs (main .dyn) then
    [fopen (main .dyn) .r, fopen (tmp .dyn) .wp] ++ dynCopy name (old.length + 1) old ++
    [fflush (tmp .dyn), fclose (tmp .dyn), fclose (main .dyn), rename (tmp .dyn) (main .dyn)]
  else [fopen (main .dyn) .r]

/-- copy loop of `coap_op_observe_added` / `coap_op_observe_deleted`: drop the record with key `key` -/
def obsCopy (key : Nat) : Nat → Bytes → List Op
  | 0, _ => []
  | fuel+1, bs =>
    match obsRead bs with
    | (szs, none) => readsFrom (main .obs) szs
    | (szs, some (r, rest)) =>
      readsFrom (main .obs) szs ++ (if r.key ≠ key then writesTo (tmp .obs) (obsWrites r) else []) ++
      obsCopy key fuel rest

/-- `coap_op_observe_added` -/
def obsAdded (fs : FS) (r : ObsRec) : List Op :=
  let old := content fs (main .obs)
  [fopen (main .obs) .r, fopen (tmp .obs) .wp] ++
  (if exists? fs (main .obs) then obsCopy r.key (old.length + 1) old else []) ++
  writesTo (tmp .obs) (obsWrites r) ++
  [fflush (tmp .obs), fclose (tmp .obs)] ++
  (if exists? fs (main .obs) then [fclose (main .obs)] else []) ++
  [rename (tmp .obs) (main .obs)]

/-- `coap_op_observe_deleted` -/
def obsDeleted (fs : FS) (key : Nat) : List Op :=
  let old := content fs (main .obs)
  if exists? fs (main .obs) then
    [fopen (main .obs) .r, fopen (tmp .obs) .wp] ++ obsCopy key (old.length + 1) old ++
    [fflush (tmp .obs), fclose (tmp .obs), fclose (main .obs), rename (tmp .obs) (main .obs)]
  else [fopen (main .obs) .r]

/-- the `fgets` loop of `coap_op_obs_cnt_track_observe` / `coap_op_obs_cnt_deleted` -/
def cntCopy (name : Bytes) : Nat → Bytes → List Op
  | 0, _ => []
  | fuel+1, bs =>
    match cntLine bs with
    | none => [fgets (main .cnt) cntBuf]
    | some (none, _) => [fgets (main .cnt) cntBuf]
    | some (some r, rest) =>
      fgets (main .cnt) cntBuf :: (if r.name ≠ name then [fwrite (tmp .cnt) (encCnt r)] else []) ++
      cntCopy name fuel rest

/-- `coap_op_obs_cnt_track_observe` -/
def cntTrack (fs : FS) (r : CntRec) : List Op :=
  let old := content fs (main .cnt)
  [fopen (main .cnt) .r, fopen (tmp .cnt) .wp] ++
  (if exists? fs (main .cnt) then cntCopy r.name (old.length + 1) old else []) ++
  [fwrite (tmp .cnt) (encCnt r), fflush (tmp .cnt), fclose (tmp .cnt)] ++
  (if exists? fs (main .cnt) then [fclose (main .cnt)] else []) ++
  [rename (tmp .cnt) (main .cnt)]

/-- `coap_op_obs_cnt_deleted` -/
def cntDeleted (fs : FS) (name : Bytes) : List Op :=
  let old := content fs (main .cnt)
  if exists? fs (main .cnt) then
    [fopen (main .cnt) .r, fopen (tmp .cnt) .wp] ++ cntCopy name (old.length + 1) old ++
    [fflush (tmp .cnt), fclose (tmp .cnt), fclose (main .cnt), rename (tmp .cnt) (main .cnt)]
  else [fopen (main .cnt) .r]

/-! ## decoding whole files (what the loaders see) -/

def dynAll : Nat → Bytes → List DynRec
  | 0, _ => []
  | fuel+1, bs => match (dynRead bs).2 with
    | none => []
    | some (r, rest) => r :: dynAll fuel rest

def obsAll : Nat → Bytes → List ObsRec
  | 0, _ => []
  | fuel+1, bs => match (obsRead bs).2 with
    | none => []
    | some (r, rest) => r :: obsAll fuel rest

def cntAll : Nat → Bytes → List CntRec
  | 0, _ => []
  | fuel+1, bs => match cntLine bs with
    | some (some r, rest) => r :: cntAll fuel rest
    | _ => []

def dynFile (fs : FS) : List DynRec := dynAll ((content fs (main .dyn)).length + 1) (content fs (main .dyn))
def obsFile (fs : FS) : List ObsRec := obsAll ((content fs (main .obs)).length + 1) (content fs (main .obs))
def cntFile (fs : FS) : List CntRec := cntAll ((content fs (main .cnt)).length + 1) (content fs (main .cnt))

/-! ## the Observe counter -/

def mask24 (n : Nat) : Nat := n % 2^24

/-- `coap_op_obs_cnt_load_disk`: the saved value `n` is rounded up to the last value that can have been sent
before the next save (`uint32_t` arithmetic), then `coap_persist_set_observe_num` masks to 24 bits -/
def roundUp (n f : Nat) : Nat := mask24 ((((n + f) % 2^32 / f) * f % 2^32 + 2^32 - 1) % 2^32)

/-- `coap_resource_notify_observers_lkd`: the next value; it is saved when it is a multiple of `f` -/
def nextObs (n : Nat) : Nat := mask24 (n + 1)

def initialObserve : Nat := 2

/-! ## the server side: which updaters run when (src/coap_resource.c call-outs) -/

structure Sub where
  key : Nat
  client : Nat
  ver : Nat
  orec : ObsRec           -- what `observe_added` was given (key, addresses, the request packet)
  deriving Repr

structure Res where
  name : Bytes
  observe : Nat
  subs : List Sub          -- newest first (LL_PREPEND)
  deriving Repr

/-- an endpoint of the server context: `ep->proto` and the bytes of `ep->bind_addr` (`coap_address_t`) -/
structure Ep where
  proto : Nat
  addr : Bytes
  deriving DecidableEq, Repr

def protoUdp : Nat := 1      -- COAP_PROTO_UDP

/-- the loop `ep = context->endpoint; while (ep) { if (ep->proto == e_proto && memcmp(e_listen_addr, &ep->bind_addr, …) == 0)
break; ep = ep->next; }` of `coap_persist_observe_add_lkd` -/
def epWalk (proto : Nat) (listen : Bytes) : List Ep → Option Ep
  | [] => none
  | e :: r => if e.proto = proto ∧ e.addr = listen then some e else epWalk proto listen r

/-- the endpoint `coap_persist_observe_add_lkd` creates the session on: `e_proto != COAP_PROTO_UDP` → NULL, then EVERY
endpoint of the context is tried (in `context->endpoint` order) until one has the record's protocol and listen address -/
def findEp (eps : List Ep) (proto : Nat) (listen : Bytes) : Option Ep :=
  if proto ≠ protoUdp then none else epWalk proto listen eps

structure Srv where
  res : List Res
  nextKey : Nat
  f : Nat
  eps : List Ep := []        -- `context->endpoint` (LL_PREPEND: the endpoint created last comes first)
  deriving Repr

def Srv.find (s : Srv) (name : Bytes) : Option Res := s.res.find? (·.name = name)

def Srv.setRes (s : Srv) (r : Res) : Srv :=
  { s with res := s.res.map fun x => if x.name = r.name then r else x }

/-- run one updater: its ops are computed from the current file system, executed, and logged -/
def runUpd (st : FS × List Op) (u : FS → List Op) : FS × List Op :=
  let ops := u st.1
  (exec st.1 ops, st.2 ++ ops)

/-- `coap_add_resource` from the unknown-resource handler (observable resource, `unknown_pdu` set) -/
def evCreate (s : Srv) (fs : FS) (name pkt : Bytes) (proto : Nat) : Srv × FS × List Op :=
  match s.find name with
  | some _ => (s, fs, [])       -- the PUT goes to the existing resource's handler
  | none =>
    let st := runUpd (fs, []) (fun fs => dynAdded fs ⟨proto, name, pkt⟩)
    ({ s with res := s.res ++ [⟨name, initialObserve, []⟩] }, st.1, st.2)

/-- `coap_delete_observer`: `observe_deleted` call-out, then unlink -/
def delSub (r : Res) (k : Nat) : Res := { r with subs := r.subs.filter (·.key ≠ k) }

/-- `coap_free_resource` with `observe_no_clear == 0` -/
def evDelete (s : Srv) (fs : FS) (name : Bytes) : Srv × FS × List Op :=
  match s.find name with
  | none => (s, fs, [])
  | some r =>
    -- coap_resource_notify_observers_lkd(): only with subscribers
    let (obs', st0) :=
      if r.subs.isEmpty then (r.observe, (fs, []))
      else
        let n := nextObs r.observe
        (n, if n % s.f = 0 then runUpd (fs, []) (fun fs => cntTrack fs ⟨name, n⟩) else (fs, []))
    let _ := obs'
    -- resource_deleted(): dyn file, then counter file (order after fix 7d9959f)
    let st1 := runUpd st0 (fun fs => dynDeleted fs name)
    let st2 := runUpd st1 (fun fs => cntDeleted fs name)
    -- observe_deleted() for every subscriber, in list order
    let st3 := r.subs.foldl (fun st sub => runUpd st (fun fs => obsDeleted fs sub.key)) st2
    ({ s with res := s.res.filter (·.name ≠ name) }, st3.1, st3.2)

/-- `coap_add_observer` reached from a GET with Observe:0 (`mkRec key` builds the record `observe_added` gets) -/
def evObserve (s : Srv) (fs : FS) (name : Bytes) (client ver : Nat) (mkRec : Nat → ObsRec) : Srv × FS × List Op :=
  match s.find name with
  | none => (s, fs, [])
  | some r =>
    match r.subs.find? (fun x => x.client = client ∧ x.ver = ver) with
    | some _ => (s, fs, [])                      -- same session and token: nothing changes
    | none =>
      -- same session + same request (cache key): the old subscription is deleted first
      let (r1, st1) :=
        match r.subs.find? (fun x => x.client = client) with
        | some old => (delSub r old.key, runUpd (fs, []) (fun fs => obsDeleted fs old.key))
        | none => (r, (fs, []))
      let key := s.nextKey
      let rec' := mkRec key
      let r2 : Res := { r1 with subs := ⟨key, client, ver, rec'⟩ :: r1.subs }
      let st2 := runUpd st1 (fun fs => obsAdded fs rec')
      let st3 := runUpd st2 (fun fs => cntTrack fs ⟨name, r.observe⟩)
      ({ s.setRes r2 with nextKey := key + 1 }, st3.1, st3.2)

/-- GET with Observe:1: `coap_delete_observer_request` (token, else cache key) -/
def evCancel (s : Srv) (fs : FS) (name : Bytes) (client : Nat) : Srv × FS × List Op :=
  match s.find name with
  | none => (s, fs, [])
  | some r =>
    match r.subs.find? (fun x => x.client = client) with
    | none => (s, fs, [])
    | some old =>
      let st := runUpd (fs, []) (fun fs => obsDeleted fs old.key)
      (s.setRes (delSub r old.key), st.1, st.2)

/-- `coap_resource_notify_observers` + `coap_check_notify`: returns the Observe value put on the wire (once per
subscriber) -/
def evNotify (s : Srv) (fs : FS) (name : Bytes) : Srv × FS × List Op × List Nat :=
  match s.find name with
  | none => (s, fs, [], [])
  | some r =>
    if r.subs.isEmpty then (s, fs, [], []) else
    let n := nextObs r.observe
    let st := if n % s.f = 0 then runUpd (fs, []) (fun fs => cntTrack fs ⟨name, n⟩) else (fs, [])
    (s.setRes { r with observe := n }, st.1, st.2, r.subs.map fun _ => n)

/-- `coap_persist_set_observe_num` + the `track_observe_value` call-out (harness event `j`) -/
def evJump (s : Srv) (fs : FS) (name : Bytes) (v : Nat) : Srv × FS × List Op :=
  match s.find name with
  | none => (s, fs, [])
  | some r =>
    let n := mask24 v
    let st := runUpd (fs, []) (fun fs => cntTrack fs ⟨name, n⟩)
    (s.setRes { r with observe := n }, st.1, st.2)

/-! ### start-up: `coap_persist_startup` = dyn loader, counter loader, observe loader -/

/-- `coap_op_dyn_resource_load_disk`: read-only; every record whose resource does not exist is handed to the
application's unknown-resource handler, which creates it -/
def loadDynOps : Nat → Bytes → List Op
  | 0, _ => []
  | fuel+1, bs =>
    match dynRead bs with
    | (szs, none) => readsFrom (main .dyn) szs
    | (szs, some (_, rest)) => readsFrom (main .dyn) szs ++ loadDynOps fuel rest

def loadDyn (fs : FS) (s : Srv) : Srv × List Op :=
  if exists? fs (main .dyn) then
    let old := content fs (main .dyn)
    let recs := dynAll (old.length + 1) old
    let s' := recs.foldl (fun s r => match s.find r.name with
      | some _ => s
      | none => { s with res := s.res ++ [⟨r.name, initialObserve, []⟩] }) s
    (s', [fopen (main .dyn) .r] ++ loadDynOps (old.length + 1) old ++ [fclose (main .dyn)])
  else (s, [fopen (main .dyn) .r])

/-- `coap_op_obs_cnt_load_disk` -/
def loadCntOps : Nat → Bytes → List Op
  | 0, _ => []
  | fuel+1, bs =>
    match cntLine bs with
    | some (some _, rest) => fgets (main .cnt) cntBuf :: loadCntOps fuel rest
    | _ => [fgets (main .cnt) cntBuf]

def loadCnt (fs : FS) (s : Srv) : Srv × List Op :=
  if exists? fs (main .cnt) then
    let old := content fs (main .cnt)
    let recs := cntAll (old.length + 1) old
    let s' := recs.foldl (fun s c => match s.find c.name with
      | some r => s.setRes { r with observe := roundUp c.val s.f }
      | none => s) s
    (s', [fopen (main .cnt) .r] ++ loadCntOps (old.length + 1) old ++ [fclose (main .cnt)])
  else (s, [fopen (main .cnt) .r])

/-- what `coap_persist_observe_add` learns from a stored request packet: the resource path, the client (session)
and the token — an oracle for the model (`coap_pdu_parse`, `coap_get_uri_path`, `coap_endpoint_get_session`) -/
abbrev PktInfo := Bytes → Option (Bytes × Nat × Nat)

/-- the loop of `coap_op_observe_load_disk`: re-establish each stored observation (which, through
`coap_add_observer`, saves the resource's counter), write it back under its new key -/
def loadObsLoop (info : PktInfo) : Nat → Bytes → Srv → (FS × List Op) → Srv × (FS × List Op)
  | 0, _, s, st => (s, st)
  | fuel+1, bs, s, st =>
    match obsRead bs with
    | (szs, none) => (s, runUpd st (fun _ => readsFrom (main .obs) szs))
    | (szs, some (r, rest)) =>
      let st := runUpd st (fun _ => readsFrom (main .obs) szs)
      -- coap_persist_observe_add_lkd: UDP only, the endpoint the request came in on must exist in this context
      match findEp s.eps r.proto r.listen with
      | none => loadObsLoop info fuel rest s st              -- no such endpoint: the record is dropped
      | some _ =>
      match info r.pkt with
      | none => loadObsLoop info fuel rest s st
      | some (name, client, ver) =>
        match s.find name with
        | none => loadObsLoop info fuel rest s st            -- "resource not defined": the record is dropped
        | some res =>
          match res.subs.find? (fun x => x.client = client ∧ x.ver = ver) with
          | some ex =>
            -- coap_add_observer finds the subscription: same key is written again
            let st := runUpd st (fun _ => writesTo (tmp .obs) (obsWrites { r with key := ex.key }))
            loadObsLoop info fuel rest s st
          | none =>
            let res1 := match res.subs.find? (fun x => x.client = client) with
              | some old => delSub res old.key      -- observe_deleted is not registered yet: no file update
              | none => res
            let key := s.nextKey
            let r' : ObsRec := { r with key := key }
            let res2 : Res := { res1 with subs := ⟨key, client, ver, r'⟩ :: res1.subs }
            let st := runUpd st (fun fs => cntTrack fs ⟨name, res.observe⟩)
            let st := runUpd st (fun _ => writesTo (tmp .obs) (obsWrites r'))
            loadObsLoop info fuel rest ({ s.setRes res2 with nextKey := key + 1 }) st

def loadObs (info : PktInfo) (fs : FS) (s : Srv) : Srv × FS × List Op :=
  if exists? fs (main .obs) then
    let old := content fs (main .obs)
    let st := runUpd (fs, []) (fun _ => [fopen (main .obs) .r, fopen (tmp .obs) .wp])
    let (s', st) := loadObsLoop info (old.length + 1) old s st
    let st := runUpd st (fun _ => [fflush (tmp .obs), fclose (tmp .obs), fclose (main .obs),
                                   rename (tmp .obs) (main .obs)])
    (s', st.1, st.2)
  else (s, fs, [fopen (main .obs) .r])

/-- `coap_persist_startup(ctx, dyn, obs, cnt, f)` on a fresh context whose endpoints are `eps` -/
def startup (info : PktInfo) (eps : List Ep) (fs : FS) (f nextKey : Nat) : Srv × FS × List Op :=
  let s0 : Srv := ⟨[], nextKey, if f = 0 then 1 else f, eps⟩
  let (s1, o1) := loadDyn fs s0
  let fs1 := exec fs o1
  let (s2, o2) := loadCnt fs1 s1
  let fs2 := exec fs1 o2
  let (s3, fs3, o3) := loadObs info fs2 s2
  (s3, fs3, o1 ++ o2 ++ o3)

end Coap.Persist
