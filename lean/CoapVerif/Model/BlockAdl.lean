import CoapVerif.Model.BlockXmit
/-!
# M — coap_add_data_large_internal on a session that already holds large transfers (round S09)

`adlRel` (Model/BlockXmit.lean) says what ONE call does with the release callback of the body handed in, on a session
without lg_xmits.  This file transcribes the part in front of it and the `fail:` label behind it — the part in which the
LOCAL VARIABLE `lg_xmit` matters:

  * "See if this token is already in use for large bodies" (requests: LL_FOREACH_SAFE over session->lg_xmit comparing
    `b.b1.app_token`) / "Check if resource+query+rtag is already in use" (responses: coap_find_lg_xmit_response): the
    transfer found is superseded — LL_DELETE, coap_block_delete_lg_xmit (its release callback runs), `lg_xmit = NULL`;
  * every exit of the rest of the function, with the allocation that may fail on the way (`af`):
    `lg_xmit = coap_malloc_type(COAP_LG_XMIT, …)`, `coap_new_binary(…)` for the application token (requests),
    `lg_xmit->pdu.token = coap_malloc_type(COAP_PDU_BUF, …)`;
  * `fail:` — `if (lg_xmit) { pdu->lg_xmit = NULL; coap_block_delete_lg_xmit(session, lg_xmit); } else if (release_func)
    release_func(session, app_ptr);` — which callback runs there is decided by the local variable;
  * the callers' own refusal in front of it (coap_add_data_large_response_lkd `error:`: the function is not entered).

The session is `(lg_xmits linked, head first; release callback invocations so far, one entry per call)`; an lg_xmit is
`(key, body)`: `key` = what the search compares (token / resource + query + Request-Tag), `body` = the body whose
release callback (`release_func`, `app_ptr`) it holds.  T2 op `adlx` (harness/block.c `do_adlx`, Driver/BlockAdl.lean).
-/

namespace Coap.Block

/-- how the part of `coap_add_data_large_internal` behind the search ends -/
inductive AdlExit where
  | refused                 -- the caller's `error:` in front of the function (Block2 option cannot be written): release_func, return 0
  | failSearch              -- `goto fail` before `lg_xmit = coap_malloc_type(…)` was reached (or with its NULL result):
                            -- the local `lg_xmit` is what the search left in it
  | failNew                 -- `goto fail` with `lg_xmit` = the new, not yet linked lg_xmit (it holds release_func)
  | linked (blk : Nat)      -- LL_PREPEND(session->lg_xmit, lg_xmit); return 1
  | released                -- "if (release_func) release_func(session, app_ptr)"; return 1
  deriving Repr, DecidableEq

/-- `coap_add_data(pdu, rem, …)` and what follows; `lg` = block size of the lg_xmit allocated on this path -/
def adlExitFinish (maxSize tokOpts rem : Nat) (lg : Option Nat) : AdlExit :=
  if rem ≠ 0 ∧ tokOpts + 1 + rem > maxSize then (match lg with | some _ => .failNew | none => .failSearch)
  else match lg with
    | some b => .linked b
    | none => .released

/-- `adlLgTail` (Model/Block.lean), exits only -/
def adlExitLgTail (maxSize tokLen base d b2 length extra : Nat) (sb : BlockB) : AdlExit :=
  let chunk : Nat := 2 ^ (b2 + 4)
  let bv := blockValue sb.num sb.m sb.aszx
  let tokOpts1 := base + optEncodeSize d (varLen bv) + extra
  let avail2 := adlAvail maxSize tokOpts1 tokLen
  if avail2 < chunk then
    if avail2 < 16 then .failNew                                        -- "… does not fit (3)"
    else
      let b3 := adlBlkSize avail2
      let bv3 := blockValue ((sb.num * 2 ^ (b2 - b3)) % 2 ^ 32) sb.m b3
      let tokOpts2 := base + optEncodeSize d (varLen bv3) + extra
      adlExitFinish maxSize tokOpts2 (min (2 ^ (b3 + 4)) length) (some b3)
  else adlExitFinish maxSize tokOpts1 (min sb.chunk length) (some b2)

/-- `adlBody` (Model/Block.lean), exits only, with the allocation failure point `af` (0: none; 1: the lg_xmit; 2: the
application token copy — requests only, `isReq`; 3: the skeleton PDU copy) in the order the code allocates -/
def adlExitBody (maxSize tokLen base d tokOpts0 b2 length extra : Nat) (blk : Option Nat) (isReq : Bool) (af : Nat) :
    AdlExit :=
  let avail := adlAvail maxSize tokOpts0 tokLen
  if avail < 16 ∧ ((length : Int) > avail ∨ blk.isSome) then .failSearch           -- "… does not fit (2)"
  else if (blk.isSome ∧ length > 2 ^ (b2 + 4)) ∨ (length : Int) > avail then
    if af = 1 then .failSearch                                                     -- "if (!lg_xmit) goto fail;"
    else if af = 2 ∧ isReq then .failNew                                           -- "if (!lg_xmit->b.b1.app_token) goto fail;"
    else
      match setupBlockB maxSize (tokOpts0 + extra) 0 b2 length with
      | none => .failNew
      | some sb =>
        if af = 3 then .failNew                                                    -- "if (!lg_xmit->pdu.token) goto fail;"
        else adlExitLgTail maxSize tokLen base d b2 length extra sb
  else
    let bvOpt := match blk with | some _ => some (blockValue 0 0 b2) | none => none
    let tokOpts1 := base + (match bvOpt with | some v => optEncodeSize d (varLen v) | none => 0)
    adlExitFinish maxSize tokOpts1 length none

/-- `coap_add_data_large_request`: the arguments of `addDataLarge` / `adlRel` + the allocation failure point -/
def adlExitReq (maxSize tokLen optBytes lastOpt : Nat) (blk : Option Nat) (maxBlk length rtagLen af : Nat) : AdlExit :=
  let d := 27 - lastOpt
  let tokOpts0 := tokLen + optBytes + (match blk with | some s => optEncodeSize d (varLen (blockValue 0 0 s)) | none => 0)
  let b0 := adlBlkSize (adlAvail maxSize tokOpts0 tokLen)
  let b1 := if maxBlk ≠ 0 ∧ b0 > maxBlk then maxBlk else b0
  let b2 := match blk with | some s => if s < b1 then s else b1 | none => b1
  adlExitBody maxSize tokLen (tokLen + optBytes) d tokOpts0 b2 length
    (optEncodeSize (60 - 27) (varLen length) + optEncodeSize (292 - 60) rtagLen) blk true af

/-- `coap_add_data_large_response` for a request carrying Block2 (0, _, `reqSzx`): the arguments of `addDataLargeRsp` -/
def adlExitRsp (maxSize tokLen optBytes lastOpt reqSzx maxBlk length etagLen af : Nat) : AdlExit :=
  match rspCfg maxSize tokLen optBytes lastOpt maxBlk length etagLen reqSzx with
  | some c => adlExitBody c.maxSize c.tokLen c.base c.d c.tokOpts0 c.b2 length c.extra c.blk false af
  | none => .refused

/-- what `adlRel` reports of an exit: `(calls of release_func made before returning, an lg_xmit holding it is linked)` -/
def AdlExit.rel : AdlExit → Nat × Bool
  | .linked _ => (0, true)
  | _ => (1, false)

/-! ## the session -/

/-- an lg_xmit linked into `session->lg_xmit` -/
structure XmitEnt where
  key : Nat
  body : Nat
  deriving Repr, DecidableEq

/-- `(session->lg_xmit, head first; bodies whose release callback has run — one entry per invocation)` -/
structure AdlSess where
  xmits : List XmitEnt := []
  rel : List Nat := []
  deriving Repr, DecidableEq

/-- the search: the first lg_xmit with the key -/
def findKey : List XmitEnt → Nat → Option XmitEnt
  | [], _ => none
  | e :: rest, k => if e.key = k then some e else findKey rest k

/-- LL_DELETE of that element -/
def removeKey : List XmitEnt → Nat → List XmitEnt
  | [], _ => []
  | e :: rest, k => if e.key = k then rest else e :: removeKey rest k

/-- The search in front: a transfer with the key is superseded (unlinked, deleted: its callback runs).  Second component:
the LOCAL VARIABLE `lg_xmit` afterwards, as the body whose callback the lg_xmit it points to holds — `lg_xmit = NULL` behind
the delete, NULL as well when the loop ran off the end / coap_find_lg_xmit_response found nothing. -/
def adlSupersede (s : AdlSess) (key : Nat) : AdlSess × Option Nat :=
  match findKey s.xmits key with
  | some e => ({ xmits := removeKey s.xmits key, rel := e.body :: s.rel }, none)
  | none => (s, none)

/-- `fail:` — `loc` = the local `lg_xmit`: non-NULL → coap_block_delete_lg_xmit runs the callback THAT lg_xmit holds,
NULL → release_func of the body handed in -/
def adlFailPath (loc : Option Nat) (body : Nat) (rel : List Nat) : List Nat :=
  match loc with
  | some b => b :: rel
  | none => body :: rel

/-- one call handing libcoap the body `body` for a transfer with key `key` -/
def adlCall (s : AdlSess) (key body : Nat) (ex : AdlExit) : AdlSess :=
  match ex with
  | .refused => { s with rel := body :: s.rel }
  | _ =>
    let (s1, loc) := adlSupersede s key
    match ex with
    | .failSearch => { s1 with rel := adlFailPath loc body s1.rel }
    | .failNew => { s1 with rel := adlFailPath (some body) body s1.rel }
    | .linked _ => { s1 with xmits := { key := key, body := body } :: s1.xmits }
    | _ => { s1 with rel := body :: s1.rel }

/-- events of a session's life as far as lg_xmits go: a call of coap_add_data_large_request/_response (bodies are
numbered in call order), the expiry of every linked lg_xmit (coap_block_check_lg_xmit_timeouts: LL_DELETE +
coap_block_delete_lg_xmit per element), the session being freed (LL_FOREACH_SAFE in coap_session_mfree) -/
inductive AdlEv where
  | call (key : Nat) (ex : AdlExit)
  | expire
  | free
  deriving Repr, DecidableEq

def adlReleaseAll (s : AdlSess) : AdlSess := { xmits := [], rel := s.xmits.map (·.body) ++ s.rel }

/-- state = (session, number of bodies handed over so far) -/
def adlEvStep (st : AdlSess × Nat) : AdlEv → AdlSess × Nat
  | .call key ex => (adlCall st.1 key st.2 ex, st.2 + 1)
  | .expire => (adlReleaseAll st.1, st.2)
  | .free => (adlReleaseAll st.1, st.2)

def adlRun (evs : List AdlEv) : AdlSess × Nat := evs.foldl adlEvStep ({}, 0)

end Coap.Block
