/-
M for C13 — libcoap's global lock (`global_lock`), transcribed from

  src/coap_threadsafe.c                      coap_lock_lock_func / coap_lock_unlock_func (both variants:
                                             with and without COAP_THREAD_RECURSIVE_CHECK)
  include/coap3/coap_threadsafe_internal.h   coap_lock_lock, coap_lock_unlock, coap_lock_callback,
                                             coap_lock_callback_ret, coap_lock_callback_release,
                                             coap_lock_callback_ret_release (coap_lock_invert has the body of
                                             coap_lock_callback_release)
  src/coap_io.c                              the release window of coap_io_process_with_fds_lkd (`Cb.win`)
  src/coap_net.c                             coap_startup(): the `coap_started` guard in front of coap_lock_init() (`startupFunc`)
  include/coap3/coap_mutex_internal.h        coap_mutex_lock/unlock/trylock = pthread mutex, coap_thread_pid

Core Lean only.  Conventions (FRAMEWORK.md §3): every C quantity is a `Nat`; `uint32_t` arithmetic is `% 2^32`
where the C code does it; `assert(e)` is transcribed as "set the sticky `fault` flag when `e` is false and go on"
(that is what an NDEBUG build does after the point where a debug build would abort); unlocking a mutex the thread
does not hold (undefined for a default pthread mutex) also sets `fault`.

MODEL DECISION A1 (atomicity).  One *token* (one call of coap_lock_lock_func / coap_lock_unlock_func, one
`in_callback++`, one `in_callback--`) is one atomic step.  The only reads of `global_lock` made by a thread that
does not hold the mutex are `global_lock.in_callback && coap_thread_pid == global_lock.pid` at the top of
coap_lock_lock_func (no-recursive-check variant) and `coap_thread_pid == global_lock.pid` after a failed trylock
(recursive-check variant); `pid` is only ever written, by a thread holding the mutex, with its own id or 0, so for a
reader that is not the holder the comparison is false in every intermediate state, and the step is insensitive to
where inside the holder's token it is scheduled.  (That these unsynchronised reads are data races in the C11 sense is
outside the lock protocol and is TSan-observed only — see "partial" in design/C13.md.)
MODEL DECISION A2.  `coap_started = 1` (coap_startup() has been called): coap_lock_lock_func never takes its
`return 0` branch, so the `failed` argument of coap_lock_lock() is never executed.  The system starts *after* the
first coap_startup(); every later coap_startup() (documented: "subsequent calls are ignored") is the token `startup`.
MODEL DECISION A3.  Thread `t : Nat` has `coap_thread_pid = t + 1`; `pid = 0` is "nobody" as in the C code.
-/
namespace Coap.Lock

abbrev Tid := Nat

/-- `coap_lock_t global_lock` + the state of its pthread mutex (`owner`). -/
structure G where
  owner : Option Tid     -- who holds global_lock.mutex
  pid : Nat              -- global_lock.pid (0 = none, t+1 = thread t)
  inCb : Nat             -- global_lock.in_callback  (uint32_t)
  cnt : Nat              -- global_lock.lock_count   (uint32_t)
  fault : Bool           -- an assert() failed / the mutex was unlocked by a non-owner (sticky)
  deriving DecidableEq, Repr

def G.init : G := { owner := none, pid := 0, inCb := 0, cnt := 0, fault := false }

abbrev selfPid (t : Tid) : Nat := t + 1

/-- uint32_t wrap-around -/
def u32 (n : Nat) : Nat := n % 4294967296

/-- `assert(e)` -/
def G.assert (g : G) (e : Bool) : G := if e then g else { g with fault := true }

/-- `coap_mutex_unlock(&global_lock.mutex)` by thread `t` -/
def mutexUnlock (t : Tid) (g : G) : G :=
  if g.owner = some t then { g with owner := none } else { g with fault := true }

/-- `coap_lock_unlock_func()` — identical in both variants (the recursive-check one also records file/line):
```
  assert(coap_thread_pid == global_lock.pid);
  if (global_lock.in_callback) {
    assert(global_lock.lock_count > 0);
    global_lock.lock_count--;
  } else {
    global_lock.pid = 0;
    coap_mutex_unlock(&global_lock.mutex);
  }
``` -/
def unlockFunc (t : Tid) (g : G) : G :=
  let g := g.assert (selfPid t == g.pid)
  if g.inCb != 0 then
    let g := g.assert (decide (g.cnt > 0))
    { g with cnt := u32 (g.cnt + 4294967295) }
  else
    mutexUnlock t { g with pid := 0 }

/-- `coap_lock_lock_func()`; `none` = the calling thread blocks in `coap_mutex_lock()`.
`rc = false` (no COAP_THREAD_RECURSIVE_CHECK):
```
  if (global_lock.in_callback && coap_thread_pid == global_lock.pid) {
    global_lock.lock_count++;
    assert(global_lock.in_callback == global_lock.lock_count);
    return 1;
  }
  coap_mutex_lock(&global_lock.mutex);
  assert(!global_lock.in_callback);
  global_lock.pid = coap_thread_pid;
  return 1;
```
`rc = true` (COAP_THREAD_RECURSIVE_CHECK):
```
  if (coap_mutex_trylock(&global_lock.mutex)) {
    if (coap_thread_pid == global_lock.pid) {
      if (global_lock.in_callback) {
        global_lock.lock_count++;
        assert(global_lock.in_callback == global_lock.lock_count);
        return 1;
      } else {
        coap_log_alert("Thread Deadlock: …"); assert(0);          -- NDEBUG: falls through to coap_mutex_lock()
      }
    }
    coap_mutex_lock(&global_lock.mutex);
  }
  assert(!global_lock.in_callback);
  global_lock.pid = coap_thread_pid;
  return 1;
``` -/
def lockFunc (rc : Bool) (t : Tid) (g : G) : Option G :=
  let acquire (g : G) : G :=
    let g := { g with owner := some t }
    let g := g.assert (g.inCb == 0)
    { g with pid := selfPid t }
  let reenter (g : G) : G :=
    let g := { g with cnt := u32 (g.cnt + 1) }
    g.assert (g.inCb == g.cnt)
  if rc then
    match g.owner with
    | some _ =>                                  -- trylock failed
      if selfPid t == g.pid then
        if g.inCb != 0 then some (reenter g)
        else none                                -- "Thread Deadlock": blocks on its own mutex
      else none                                  -- waits for the other thread
    | none => some (acquire g)
  else
    if g.inCb != 0 && selfPid t == g.pid then some (reenter g)
    else match g.owner with
      | some _ => none                           -- coap_mutex_lock() blocks (also on the caller's own mutex)
      | none => some (acquire g)

/-- `coap_startup()` as far as `global_lock` is concerned; `started` = the value of `coap_started` on entry:
```
  if (coap_started)
    return;
  coap_started = 1;
  coap_lock_init();        -- memset(&global_lock.mutex, 0, …); coap_mutex_init(&global_lock.mutex);
  …                        -- clock, PRNG, memory, DTLS: nothing that touches global_lock
```
`coap_lock_init()` re-creates the mutex (nobody holds the new one) and leaves pid / in_callback / lock_count alone. -/
def startupFunc (started : Bool) (g : G) : G :=
  if started then g else { g with owner := none }

/-- the four callback macros, and the *release window* of an internal function: library code that is entered with
the lock held gives it up around a blocking wait and takes it again before it goes on
(`coap_lock_unlock(ctx); nfds = epoll_wait(…); coap_lock_lock(ctx, return -1);` in coap_io_process_with_fds_lkd).
`window(body)` = `cbIn win; body; cbOut win`: the body runs without the lock, so — like application code inside a
`…_release` callback — it may touch library state only through the public API (that the bodies of the tree's windows
touch nothing at all is the T1 fact `LockFn.quiet`). -/
inductive Cb where
  | keep      -- coap_lock_callback(c, func)
  | ret       -- coap_lock_callback_ret(r, c, func)
  | rel       -- coap_lock_callback_release(c, func, failed)   (and coap_lock_invert)
  | retRel    -- coap_lock_callback_ret_release(r, c, func, failed)
  | win       -- coap_lock_unlock(c); <body>; coap_lock_lock(c, failed)      (release window, no application callback)
  deriving DecidableEq, Repr

def Cb.releases : Cb → Bool
  | .keep => false
  | .ret => false
  | .rel => true
  | .retRel => true
  | .win => true

/-- `coap_lock_check_locked(c)`: `assert(coap_thread_pid == global_lock.pid)` -/
def checkLocked (t : Tid) (g : G) : G := g.assert (selfPid t == g.pid)

/-- the part of a callback macro executed *before* `func`:
```
coap_lock_callback(c,func):            coap_lock_check_locked(c); global_lock.in_callback++;          func; …
coap_lock_callback_ret(r,c,func):      coap_lock_check_locked(c); global_lock.in_callback++;    (r) = func; …
coap_lock_callback_release(c,func,f):  coap_lock_check_locked(c); coap_lock_unlock(c);                func; …
coap_lock_callback_ret_release(…):     coap_lock_check_locked(c); coap_lock_unlock(c);          (r) = func; …
```
(`coap_lock_unlock(c)` is `assert(c); coap_lock_unlock_func();`, `c` is never NULL at the call sites.)
A release window opens with the bare `coap_lock_unlock(c)` (no coap_lock_check_locked). -/
def cbBefore (t : Tid) (k : Cb) (g0 : G) : G :=
  let g := checkLocked t g0
  match k with
  | .keep => { g with inCb := u32 (g.inCb + 1) }
  | .ret => { g with inCb := u32 (g.inCb + 1) }
  | .rel => unlockFunc t g
  | .retRel => unlockFunc t g
  | .win => unlockFunc t g0

/-- the part of a callback macro executed *after* `func` (`none` = blocks in coap_lock_lock):
```
coap_lock_callback / _ret:                   …; global_lock.in_callback--;
coap_lock_callback_release / _ret_release:   …; coap_lock_lock(c,failed);
release window:                              …; coap_lock_lock(c,failed);
``` -/
def cbAfter (rc : Bool) (t : Tid) (k : Cb) (g : G) : Option G :=
  match k with
  | .keep => some { g with inCb := u32 (g.inCb + 4294967295) }
  | .ret => some { g with inCb := u32 (g.inCb + 4294967295) }
  | .rel => lockFunc rc t g
  | .retRel => lockFunc rc t g
  | .win => lockFunc rc t g

/-- What a thread does, as a flat token sequence (a well-nested program is a Dyck-like word, see `wn`):
`lock` = entry of a `COAP_API` wrapper (`coap_lock_lock(c, return …)`), `unlock` = its exit,
`cbIn k`/`cbOut k` = the halves of callback macro `k` around the application's function; `cbIn win`/`cbOut win` =
the `coap_lock_unlock` / `coap_lock_lock` that open and close a release window inside library code;
`startup` = a repeated `coap_startup()` issued by application code (top level or inside a callback). -/
inductive Tok where
  | lock
  | unlock
  | cbIn (k : Cb)
  | cbOut (k : Cb)
  | startup       -- application code calls coap_startup() again (a second component initialising "its" libcoap)
  deriving DecidableEq, Repr

/-- one token executed by thread `t`; `none` = `t` blocks on the mutex -/
def tokStep (rc : Bool) (t : Tid) (tok : Tok) (g : G) : Option G :=
  match tok with
  | .lock => lockFunc rc t g
  | .unlock => some (unlockFunc t g)
  | .cbIn k => some (cbBefore t k g)
  | .cbOut k => cbAfter rc t k g
  | .startup => some (startupFunc true g)        -- A2: coap_started = 1

/-! ### the pinned (pre-fix) `coap_lock_callback_ret` of the no-recursive-check variant, kept for the witness
```
#define coap_lock_callback_ret(r,c,func) do { coap_lock_check_locked(c); global_lock.in_callback++;
    global_lock.in_callback++; (r) = func; global_lock.in_callback--; } while (0)
``` -/
def Pinned.cbBeforeRet (t : Tid) (g : G) : G :=
  let g := checkLocked t g
  let g := { g with inCb := u32 (g.inCb + 1) }
  { g with inCb := u32 (g.inCb + 1) }

def Pinned.tokStep (rc : Bool) (t : Tid) (tok : Tok) (g : G) : Option G :=
  match tok with
  | .cbIn .ret => some (Pinned.cbBeforeRet t g)
  | _ => Lock.tokStep rc t tok g

/-! ### a `coap_startup()` that initialises the lock *before* looking at `coap_started` (seeded defect C13-7), kept
for a `decide`d witness: the repeated call re-creates the mutex under its holder
```
  coap_lock_init();  if (coap_started) return;  coap_started = 1; …
``` -/
def Seeded.startupFunc (_started : Bool) (g : G) : G := { g with owner := none }

def Seeded.tokStep (rc : Bool) (t : Tid) (tok : Tok) (g : G) : Option G :=
  match tok with
  | .startup => some (Seeded.startupFunc true g)
  | _ => Lock.tokStep rc t tok g

/-! ### threads, call stacks, well-nested programs, the interleaving semantics -/

/-- a frame of a thread's call stack, as far as locking is concerned -/
inductive Frame where
  | api             -- inside a COAP_API function (library code, between coap_lock_lock and coap_lock_unlock)
  | cb (k : Cb)     -- inside an application callback invoked through macro `k`
  deriving DecidableEq, Repr

def stackStep (tok : Tok) (st : List Frame) : List Frame :=
  match tok with
  | .lock => .api :: st
  | .unlock => st.tail
  | .cbIn k => .cb k :: st
  | .cbOut _ => st.tail
  | .startup => st

/-- nesting bound: the two counters are `uint32_t` -/
def maxDepth : Nat := 4294967295

/-- `wn st p`: with call stack `st` (top first) the remaining program `p` is well nested and returns to the
top level: application code (top level or inside a callback) only calls the API (a lock-taking function, or a
repeated coap_startup()); library code (inside an API function) only invokes callbacks or returns — it never calls a
lock-taking API function itself (T1 `HeldFn.apiCalls = 0`, and `C13.lib_api_call_deadlocks_or_faults` for what would
happen); a callback returns through the macro that invoked it. -/
def wn : List Frame → List Tok → Bool
  | st, [] => st.isEmpty
  | [], .lock :: p => wn [.api] p
  | .cb k :: st, .lock :: p => decide (st.length + 1 < maxDepth) && wn (.api :: .cb k :: st) p
  | .api :: st, .unlock :: p => wn st p
  | .api :: st, .cbIn k :: p => decide (st.length + 1 < maxDepth) && wn (.cb k :: .api :: st) p
  | .cb k :: st, .cbOut k' :: p => decide (k = k') && wn st p
  | [], .startup :: p => wn [] p
  | .cb k :: st, .startup :: p => wn (.cb k :: st) p
  | _, _ => false

structure Thread where
  stack : List Frame
  prog : List Tok

structure Sys where
  g : G
  thr : Tid → Thread

def Sys.init (progs : Tid → List Tok) : Sys :=
  { g := G.init, thr := fun t => { stack := [], prog := progs t } }

def Sys.upd (s : Sys) (t : Tid) (g' : G) (th : Thread) : Sys :=
  { g := g', thr := fun u => if u = t then th else s.thr u }

/-- thread `t` can take its next token (it is not blocked) -/
def enabled (rc : Bool) (s : Sys) (t : Tid) : Prop :=
  ∃ tok rest g', (s.thr t).prog = tok :: rest ∧ tokStep rc t tok s.g = some g'

/-- thread `t` stands in front of a token that blocks -/
def blocked (rc : Bool) (s : Sys) (t : Tid) : Prop :=
  ∃ tok rest, (s.thr t).prog = tok :: rest ∧ tokStep rc t tok s.g = none

def terminated (s : Sys) (t : Tid) : Prop := (s.thr t).prog = []

/-- one step of the system: the scheduler picks any thread whose next token does not block -/
inductive Step (rc : Bool) : Sys → Sys → Prop where
  | mk (s : Sys) (t : Tid) (tok : Tok) (rest : List Tok) (g' : G)
      (hp : (s.thr t).prog = tok :: rest) (hs : tokStep rc t tok s.g = some g') :
      Step rc s (s.upd t g' { stack := stackStep tok (s.thr t).stack, prog := rest })

inductive Reach (rc : Bool) (progs : Tid → List Tok) : Sys → Prop where
  | init : Reach rc progs (Sys.init progs)
  | step {s s'} : Reach rc progs s → Step rc s s' → Reach rc progs s'

/-- thread `t` is executing library code (its innermost frame is an API function) -/
def inLib (s : Sys) (t : Tid) : Prop := (s.thr t).stack.head? = some .api

/-! ### executable single-thread run, used by the driver (T2) -/

structure Obs where
  pidSet : Bool
  inCb : Nat
  cnt : Nat
  held : Bool
  fault : Bool
  deriving DecidableEq, Repr

def G.obs (g : G) : Obs :=
  { pidSet := g.pid != 0, inCb := g.inCb, cnt := g.cnt, held := g.owner.isSome, fault := g.fault }

/-- run the tokens on thread `t`; the observations after every token; `none` at the end = blocked there -/
def runSeq (step : Tid → Tok → G → Option G) (t : Tid) : List Tok → G → List (Option Obs)
  | [], _ => []
  | tok :: p, g =>
    match step t tok g with
    | none => [none]
    | some g' => some g'.obs :: runSeq step t p g'

/-- run a schedule over several threads: each entry names the thread that is given the next turn;
the entry's result is `some obs` (token executed), or `none` (that thread is blocked or has terminated).
Returns the observations and the state reached. -/
def runSched (rc : Bool) : List Tid → (Tid → List Tok) → G → List (Option Obs) × (Tid → List Tok) × G
  | [], progs, g => ([], progs, g)
  | t :: sch, progs, g =>
    match progs t with
    | [] => let r := runSched rc sch progs g; (none :: r.1, r.2)
    | tok :: rest =>
      match tokStep rc t tok g with
      | none => let r := runSched rc sch progs g; (none :: r.1, r.2)
      | some g' =>
        let r := runSched rc sch (fun u => if u = t then rest else progs u) g'
        (some g'.obs :: r.1, r.2)

/-- run `n` threads round-robin (starting with thread `t`) until all have finished; `none` = out of fuel (stuck) -/
def finish (rc : Bool) (n : Nat) : Nat → Tid → (Tid → List Tok) → G → Option G
  | 0, _, progs, g => if (List.range n).all (fun u => (progs u).isEmpty) then some g else none
  | fuel + 1, t, progs, g =>
    if (List.range n).all (fun u => (progs u).isEmpty) then some g else
    match progs t with
    | [] => finish rc n fuel ((t + 1) % n) progs g
    | tok :: rest =>
      match tokStep rc t tok g with
      | none => finish rc n fuel ((t + 1) % n) progs g
      | some g' => finish rc n fuel ((t + 1) % n) (fun u => if u = t then rest else progs u) g'

/-! ### shapes of the T1 facts (filled in by extract/threadcfg.c + extract/apiscan.py → Generated/ThreadCfg.lean) -/

/-- one `COAP_API` function as seen by the static scan -/
structure ApiSite where
  file : String
  name : String
  locks : Bool       -- takes global_lock with coap_lock_lock() (whose failure branch returns)
  callsLkd : Bool    -- calls library code (`…_lkd` workers) only while locked, and calls at least one
  unlocks : Bool     -- every path from the lock to a `return` / the end of the function passes coap_lock_unlock()
  deriving DecidableEq, Repr

def ApiSite.bracketed (s : ApiSite) : Bool := s.locks && s.callsLkd && s.unlocks

/-- one function of the compiled sources that releases / takes the global lock itself (extract/lockbal.py):
the lock depth relative to the function's entry, followed along every path of its statement tree -/
structure LockFn where
  file : String
  name : String
  api : Bool             -- a `COAP_API` function
  entryHeld : Bool       -- entered with the lock held (it releases below its entry level / asserts the lock)
  unlocks : Nat          -- coap_lock_unlock sites
  locks : Nat            -- coap_lock_lock sites
  cbRelease : Nat        -- coap_lock_callback_release / _ret_release / coap_lock_invert sites
  windows : Nat          -- sites that leave the entry level (open a release window / a locked region)
  exitsBalanced : Bool   -- every `return` and the end of the function are reached at the entry level
  loopsBalanced : Bool   -- every loop back-edge is at a level the loop was entered with
  failLeaves : Bool      -- the failure action of every coap_lock_lock / callback-release macro leaves the function
  ordered : Bool         -- no unlock while released, no lock while taken, no lock macro / assertion inside a window
  quiet : Bool           -- inside a release window nothing touches library state (no `_lkd` call, no `ctx->…`)
  deriving DecidableEq, Repr

def LockFn.balanced (f : LockFn) : Bool :=
  f.exitsBalanced && f.loopsBalanced && f.failLeaves && f.ordered && f.quiet

/-- one function of the compiled sources that has code running under the global lock: it is entered with the lock
held (`*_lkd`, asserts the lock, or reached by direct calls from such code) or takes it itself (extract/lockbal.py
`held_functions`) -/
structure HeldFn where
  file : String
  name : String
  entersHeld : Bool      -- entered with the lock held (false: a COAP_API wrapper / coap_new_context, which takes it)
  heldCalls : Nat        -- call sites it executes with the lock held
  apiCalls : Nat         -- … of which call a function that takes the lock at its own entry level (public API)
  deriving DecidableEq, Repr

/-- one invocation of an application-supplied function pointer in a compiled source file -/
structure CbSite where
  file : String
  func : String      -- enclosing function
  callee : String    -- the call expression
  k : Nat            -- ordinal among the sites with the same file/func/callee
  listed : Bool      -- its type is one the property enumerates: request, response, NACK, event, ping, pong handler
  wrapped : Bool     -- it is (inside) the `func` argument of a coap_lock_callback* macro
  deriving DecidableEq, Repr

/-- one build configuration (as configured by the build system from the current tree) -/
structure BuildCfg where
  name : String
  define : String            -- replacement text of the macro COAP_THREAD_SAFE in the generated header ("" = undefined)
  ifHolds : Bool             -- `#if COAP_THREAD_SAFE` is taken
  lockLinked : Bool          -- the library contains coap_lock_lock_func and coap_startup() initialises global_lock
  advertised : Bool          -- coap_threadsafe_is_supported() != 0
  recursiveCheck : Bool      -- `#if COAP_THREAD_RECURSIVE_CHECK`
  deriving DecidableEq, Repr

def BuildCfg.compiledIn (c : BuildCfg) : Bool := c.ifHolds && c.lockLinked

end Coap.Lock
