import CoapVerif.Model.Oscore
/-
M — libcoap's CLIENT-side OSCORE association store (`session->associations`, a uthash keyed by the token
bytes; struct oscore_association_t in include/oscore/oscore_context.h) and the places that touch it:

  * the tail of `coap_oscore_new_pdu_encrypted_lkd` (src/coap_oscore.c) for a request — "Set up an
    association for handling a response if this is a request": `oscore_find_association(session, &pdu_token)`;
    found: `is_observe = doing_observe && observe_value != 1` (fix 394e338), then "Refresh the association":
    `nonce`, `aad`, `partial_iv` are replaced by copies of `cose->nonce`, `cose->aad`, `cose->partial_iv`
    (all three — the response to the new request is verified with them); not found:
    `oscore_new_association(…, &cose->aad, &cose->nonce, &cose->partial_iv, doing_observe)`;
  * `coap_oscore_decrypt_pdu` for a response: `oscore_find_association` by the token (none: rejected);
    nonce = `association->nonce` when the response has no Partial IV, else generated from the Recipient ID and
    the response's Partial IV; the external AAD is REBUILT from `snd_ctx->sender_id` and
    `association->partial_iv` (`association->aad` is not used on this side); on success
    `if (association->is_observe == 0) oscore_delete_association()`; on failure the association stays
    (fix 7bc4d64).

The association also holds `recipient_ctx` (one context here), `sent_pdu` (Appendix B only) and `last_seen`
(unused).  The SERVER side of the store — the request path of `coap_oscore_decrypt_pdu` (association created /
refreshed only after the request has been decrypted successfully, fix b3c6528) and the response path of
`coap_oscore_new_pdu_encrypted_lkd` (`is_observe` forces the Partial IV, fix 155f0b4) — is Model/OscoreSrv.lean;
neither fix touches the client-side code transcribed here.  Core Lean only.
-/
namespace Coap.M.Oscore

structure Assoc where
  token : Bytes
  aad : Bytes
  nonce : Bytes
  piv : Bytes
  isObserve : Bool
  deriving Repr, DecidableEq

/-- `OSCORE_ASSOCIATIONS_FIND` -/
def findAssoc (as : List Assoc) (t : Bytes) : Option Assoc := List.find? (fun a => a.token = t) as

/-- assignments through the pointer `oscore_find_association` returned -/
def updAssoc (as : List Assoc) (t : Bytes) (f : Assoc → Assoc) : List Assoc :=
  as.map fun a => if a.token = t then f a else a

/-- `oscore_delete_association` -/
def delAssoc (as : List Assoc) (t : Bytes) : List Assoc := List.filter (fun a => a.token ≠ t) as

/-- the association part of protecting a request with token `t`; `aad`, `nonce`, `piv` are what `cose` holds
(the values the request has just been protected with), `doingObserve` / `observeValue` come from its Observe option -/
def protectAssoc (as : List Assoc) (t aad nonce piv : Bytes) (doingObserve : Bool) (observeValue : Nat) : List Assoc :=
  match findAssoc as t with
  | some _ =>
    updAssoc as t fun a =>
      { a with isObserve := doingObserve && observeValue != 1, nonce := nonce, aad := aad, piv := piv }
  | none => ⟨t, aad, nonce, piv, doingObserve⟩ :: as

/-- what `coap_oscore_decrypt_pdu` feeds the AEAD with for a response with Partial IV `rpiv` (`[]` = none) under
association `a`: (nonce, AAD).  `sid` / `rid` are the client's Sender / Recipient ID. -/
def responseInputs (alg : Int) (civ sid rid : Bytes) (a : Assoc) (rpiv : Bytes) : R (Bytes × Bytes) :=
  let aad := prepareAad (prepareEAad alg sid a.piv)
  if rpiv.length = 0 then R.ok (a.nonce, aad)
  else
    match generateNonce civ rid rpiv with
    | R.ok n => R.ok (n, aad)
    | R.rej => R.rej
    | R.oob => R.oob

/-- the association part of `coap_oscore_decrypt_pdu` for a response with token `t` whose OSCORE option decodes;
`verified` = the AEAD accepted and the plaintext parsed -/
def decryptAssoc (as : List Assoc) (t : Bytes) (verified : Bool) : List Assoc :=
  match findAssoc as t with
  | none => as
  | some a => if verified && !a.isObserve then delAssoc as t else as

inductive AStep where
  | protect (t aad nonce piv : Bytes) (doingObserve : Bool) (observeValue : Nat)
  | decrypt (t : Bytes) (verified : Bool)
  deriving Repr, DecidableEq

def assocStep (as : List Assoc) : AStep → List Assoc
  | .protect t aad nonce piv o v => protectAssoc as t aad nonce piv o v
  | .decrypt t ok => decryptAssoc as t ok

def assocRun (as : List Assoc) (steps : List AStep) : List Assoc := steps.foldl assocStep as

/-- (aad, nonce, partial_iv) of the latest `protect` step per token -/
def assocTrack (acc : Bytes → Option (Bytes × Bytes × Bytes)) : AStep → Bytes → Option (Bytes × Bytes × Bytes)
  | .protect t aad nonce piv _ _ => fun t' => if t' = t then some (aad, nonce, piv) else acc t'
  | .decrypt _ _ => acc

def assocLatest (steps : List AStep) : Bytes → Option (Bytes × Bytes × Bytes) :=
  steps.foldl assocTrack (fun _ => none)

end Coap.M.Oscore
