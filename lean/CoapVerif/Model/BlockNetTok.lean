import CoapVerif.Model.BlockNet
/-
M — TOKENS in the composed Block2 system (round R09c).  What is added to `Model/BlockNet.lean`:

  * every request / response datagram carries a token: the application's on the GET, the one libcoap substitutes on every
    follow-up request — `STATE_TOKEN_FULL(lg_crcv->state_token, ++lg_crcv->retry_counter)` (`uint16_t` counter), encoded by
    `coap_encode_var_safe8` — the server echoes the token of the request it answers;
  * the client's `session->lg_crcv` LIST with the lookup by token in front of `crcvFound`
    (`coap_handle_response_get_block`: `token_match != STATE_TOKEN_BASE(lg_crcv->state_token) &&
    !coap_binary_equal(&rcvd->actual_token, lg_crcv->app_token)` → `continue`), `coap_block_new_lg_crcv`
    (`state_token = STATE_TOKEN_FULL(++session->tx_token, 1)`, `retry_counter = 1`, `app_token` = token of the PDU it is
    built from, `LL_PREPEND`), the recursion with `COAP_RECURSE_NO`, and `coap_send`'s "See if this token is already in use
    for large body responses" (first element with the application token deleted, new one prepended);
  * the token `rcvd` carries when the response handler sees it: on every path through a FOUND lg_crcv that ends in the
    handler `coap_update_token(rcvd, lg_crcv->app_token)` has run (the five sites: per-block delivery, give-to-app, "no
    Block2", the fall-through behind `cache_lg_crcv:`, `expire_lg_crcv:`); when no lg_crcv matched nobody touches it.

`released` is a ghost: the `STATE_TOKEN_BASE` of every lg_crcv deleted so far.  Core Lean only.
-/
namespace Coap.Block

/-- `coap_encode_var_safe8(buf, 8, val)`: the loop `for (n = 0; tval && n < 8; ++n) tval >>= 8` unrolled -/
def len8 (n : Nat) : Nat :=
  if n = 0 then 0 else if n < 2 ^ 8 then 1 else if n < 2 ^ 16 then 2 else if n < 2 ^ 24 then 3
  else if n < 2 ^ 32 then 4 else if n < 2 ^ 40 then 5 else if n < 2 ^ 48 then 6 else if n < 2 ^ 56 then 7 else 8

def encodeVar8 (n : Nat) : Bytes := encodeVarAux (len8 n) n

/-- responses that end in the application's response handler (return 0, or called from inside) -/
def callsHandler : CrcvOut → Bool
  | .plain _ => true
  | .randomAccess _ _ _ => true
  | .err402 => true
  | .err408 => true
  | .block _ _ _ _ => true
  | .last _ _ _ => true
  | .body _ _ => true
  | _ => false

/-- one element of `session->lg_crcv` -/
structure CrcvT where
  appTok : Bytes                -- lg_crcv->app_token
  state : Nat                   -- lg_crcv->state_token
  retry : Nat                   -- lg_crcv->retry_counter (uint16_t)
  lg : Crcv
  deriving Repr

structure CliT where
  crcvs : List CrcvT := []      -- session->lg_crcv
  txTok : Nat := 0              -- session->tx_token
  released : List Nat := []     -- ghost: STATE_TOKEN_BASE of every lg_crcv deleted so far
  deriving Repr

structure TRes where
  out : CrcvOut
  shown : Bytes                 -- rcvd->actual_token behind the call (what the handler sees, if it is called)
  reqTok : Option Bytes         -- token of the request transmitted during the call
  deriving Repr

/-- the `LL_FOREACH(session->lg_crcv, lg_crcv)` of coap_handle_response_get_block: the first element the token matches is
processed; `none` = fell through the list.  Result: the list afterwards, the bases released, what happened -/
def crcvScanT (single : Bool) (cap : Nat) (junk : UInt8) (tok : Bytes) (r : Resp) :
    List CrcvT → Option (List CrcvT × List Nat × TRes)
  | [] => none
  | e :: es =>
    if stateTokenBase (decodeVar8 tok) ≠ stateTokenBase e.state ∧ tok ≠ e.appTok then
      match crcvScanT single cap junk tok r es with                 -- "try out the next one"
      | some x => some (e :: x.1, x.2.1, x.2.2)
      | none => none
    else
      let res := crcvFound single cap junk e.lg r
      -- every request sent from here carries STATE_TOKEN_FULL(state_token, ++retry_counter)
      let retry' := if (nextReq res.2).isSome then (e.retry + 1) % 65536 else e.retry
      let x : TRes :=
        { out := res.2,
          shown := if callsHandler res.2 then e.appTok else tok,   -- coap_update_token(rcvd, app_token)
          reqTok := if (nextReq res.2).isSome then some (encodeVar8 (stateTokenFull e.state retry')) else none }
      match res.1 with
      | some lg' => some ({ e with retry := retry', lg := lg' } :: es, [], x)
      | none => some (es, [stateTokenBase e.state], x)              -- LL_DELETE + coap_block_delete_lg_crcv

/-- `coap_handle_response_get_block(context, session, sent, rcvd, COAP_RECURSE_OK)` for a 2.xx response carrying token
`tok`; `sentTok` = token of `sent` (none = `sent` is NULL) -/
def crcvStepT (single : Bool) (cap : Nat) (junk : UInt8) (c : CliT) (sentTok : Option Bytes) (tok : Bytes) (r : Resp) :
    CliT × TRes :=
  match crcvScanT single cap junk tok r c.crcvs with
  | some x => ({ c with crcvs := x.1, released := c.released ++ x.2.1 }, x.2.2)
  | none =>
    match sentTok with
    | none =>
      match r.blk with
      | some _ => (c, { out := .skip, shown := tok, reqTok := none })      -- "large body receive internal issue"
      | none => (c, { out := .plain r.payload, shown := tok, reqTok := none })
    | some st =>
      match r.blk with
      | some (num, m, szx) =>
        if num ≠ 0 then
          (c, { out := .randomAccess (num * 2 ^ (szx + 4)) r.payload
                         (num * 2 ^ (szx + 4) + r.payload.length + (if m ≠ 0 then 1 else 0)),
                shown := tok, reqTok := none })
        else
          -- coap_block_new_lg_crcv(session, sent, NULL), LL_PREPEND, recursion with COAP_RECURSE_NO: the elements behind
          -- the new one did not match before
          let tx := (c.txTok + 1) % 2 ^ 64
          let e : CrcvT := { appTok := st, state := stateTokenFull tx 1, retry := 1, lg := {} }
          match crcvScanT single cap junk tok r [e] with
          | some x => ({ c with crcvs := x.1 ++ c.crcvs, txTok := tx, released := c.released ++ x.2.1 }, x.2.2)
          | none => ({ c with crcvs := e :: c.crcvs, txTok := tx },
                     { out := .plain r.payload, shown := tok, reqTok := none })
      | none => (c, { out := .plain r.payload, shown := tok, reqTok := none })

/-- `coap_send_lkd` of a request with token `tok` when an lg_crcv is needed: "See if this token is already in use for large
body responses" (first element with this application token deleted), then coap_block_new_lg_crcv + LL_PREPEND -/
def dropApp (tok : Bytes) : List CrcvT → List CrcvT × List Nat
  | [] => ([], [])
  | e :: es =>
    if tok = e.appTok then (es, [stateTokenBase e.state])
    else ((e :: (dropApp tok es).1), (dropApp tok es).2)

def cliSendT (c : CliT) (tok : Bytes) : CliT :=
  let tx := (c.txTok + 1) % 2 ^ 64
  { crcvs := { appTok := tok, state := stateTokenFull tx 1, retry := 1, lg := {} } :: (dropApp tok c.crcvs).1,
    txTok := tx, released := c.released ++ (dropApp tok c.crcvs).2 }

/-- `coap_block_check_lg_crcv_timeouts`: element `i` has timed out -/
def cliExpireT (c : CliT) (i : Nat) : CliT :=
  match c.crcvs[i]? with
  | some e => { c with crcvs := c.crcvs.eraseIdx i, released := c.released ++ [stateTokenBase e.state] }
  | none => c

/-! ## the composed system -/

structure B2TSys where
  net : B2Sys := {}             -- server, datagrams, outputs as in `b2Step` (`net.cli` is not used)
  cli : CliT := {}
  reqToks : List Bytes := []    -- token of request datagram i
  rspToks : List Bytes := []    -- token of response datagram j
  hToks : List (Bytes × List Nat) := []
                                -- every response-handler call: the token it saw, and (ghost) the bases released before

inductive B2TEvent where
  | appGet (szx : Nat)
  | reqArrives (i : Nat)
  | rspArrives (j : Nat) (sent : Bool)   -- `sent` = the request this response answers is still queued (same token)
  | srvExpire
  | cliExpire (i : Nat)
  | cliNew
  deriving Repr, DecidableEq

def b2tStep (P : B2Par) (appTok : Bytes) (s : B2TSys) : B2TEvent → B2TSys
  | .appGet szx => { s with net := { s.net with reqs := s.net.reqs ++ [(0, szx)] }, reqToks := s.reqToks ++ [appTok] }
  | .reqArrives i =>
    match s.net.reqs[i]?, s.reqToks[i]? with
    | some (num, szx), some tok =>
      let n' := srvOnReq P s.net num szx
      -- the response is built from the request: same token
      { s with net := n', rspToks := s.rspToks ++ List.replicate (n'.rsps.length - s.net.rsps.length) tok }
    | _, _ => s
  | .rspArrives j sent =>
    match s.net.rsps[j]?, s.rspToks[j]? with
    | some r, some tok =>
      let res := crcvStepT P.single P.cap P.junk s.cli (if sent then some tok else none) tok r
      let q := match nextReq res.2.out, res.2.reqTok with
               | some q, some t => ([q], [t])
               | _, _ => ([], [])
      { s with cli := res.1,
               net := { s.net with outs := s.net.outs ++ [res.2.out], reqs := s.net.reqs ++ q.1 },
               reqToks := s.reqToks ++ q.2,
               hToks := s.hToks ++ (if callsHandler res.2.out then [(res.2.shown, s.cli.released)] else []) }
    | _, _ => s
  | .srvExpire => { s with net := { s.net with srv := none } }
  | .cliExpire i => { s with cli := cliExpireT s.cli i }
  | .cliNew => { s with cli := cliSendT s.cli appTok }

end Coap.Block
