import CoapVerif.Model.LinkFormat
import CoapVerif.Model.Uri
/-
M — how block-wise GETs of `/.well-known/core` are served (the part of the Block2 response cache that
decides WHICH body a block comes from; the block layer as a whole is C09's):

  handle_request (src/coap_net.c)            query = coap_get_query(pdu)                         → `MU.getQuery`
  coap_handle_request_send_block             block.num == 0 → fresh copy; else look the transfer up → `serve`
  coap_find_lg_xmit_response                 match on (resource, request code, query string)     → `findXmit`
  hnd_get_wellknown_lkd                      body for the first Uri-Query option, handed over WITH `query` → `getBody`
  coap_add_data_large_response_lkd           "Illegal block requested" check                      → `serve`
  coap_add_data_large_internal               delete the entry with the same (resource, query), then either one block
                                             of the fresh body (num ≠ 0), or a new lg_xmit (LL_PREPEND) when the body
                                             needs more than one block, or the whole body         → `serve`

Scope of this transcription: GET requests for the one pseudo resource carrying a Block2 option (SZX ≤ 6), no ETag,
Request-Tag, Observe or Q-Block2 option, a UDP session in COAP_BLOCK_USE_LIBCOAP mode whose PDU size admits SZX 6,
no cache expiry between the requests.  `session->lg_xmit` is the list `Cache` (one per session).
-/
namespace Coap.M.LF
open Coap Coap.LF

/-- a Block2 response `coap_lg_xmit_t`: `b.b2.query`, `data`/`length`, `blk_size` -/
structure LgXmit where
  key : Option Bytes
  data : Bytes
  szx : Nat
  deriving DecidableEq, Repr

abbrev Cache := List LgXmit

/-- `coap_string_equal(query ? query : &empty, lg_xmit->b.b2.query ? lg_xmit->b.b2.query : &empty)` -/
def keyEq (a b : Option Bytes) : Bool := a.getD [] == b.getD []

/-- `coap_find_lg_xmit_response` (same resource, same method, no Request-Tag on either side) -/
def findXmit (c : Cache) (k : Option Bytes) : Option LgXmit := c.find? (fun e => keyEq e.key k)

structure Req where
  /-- values of the Uri-Query options -/
  opts : List Bytes
  num : Nat
  szx : Nat
  deriving DecidableEq, Repr

inductive Resp where
  /-- 2.05 with this payload and this M bit -/
  | blk (payload : Bytes) (more : Bool)
  /-- 4.00 / 5.00 -/
  | err (code : Nat)
  deriving DecidableEq, Repr

/-- the handler path: hnd_get_wellknown_lkd → coap_add_data_large_response_lkd → coap_add_data_large_internal -/
def serveFresh (t : Table) (c : Cache) (key : Option Bytes) (r : Req) : R (Cache × Resp) :=
  match getBody t r.opts with
  | R.oob => R.oob
  | R.rej => R.ok (c, Resp.err 503)
  | R.ok body =>
    let chunk := 2 ^ (r.szx + 4)
    if body.length = 0 then R.ok (c, Resp.blk [] false)                    -- wkc_len == 0: Content-Format only
    else if r.num ≠ 0 ∧ body.length ≤ r.num * chunk then R.ok (c, Resp.err 400)   -- "Illegal block requested"
    else
      -- "Check if resource+query+rtag is already in use for large bodies": LL_DELETE
      let c1 := c.eraseP (fun e => keyEq e.key key)
      if r.num ≠ 0 then                                                   -- "App is defining a single block to send"
        R.ok (c1, Resp.blk (block body chunk r.num) (decide ((r.num + 1) * chunk < body.length)))
      else if body.length > chunk then                                    -- new lg_xmit, LL_PREPEND
        R.ok (⟨key, body, r.szx⟩ :: c1, Resp.blk (body.take chunk) true)
      else R.ok (c1, Resp.blk body false)

/-- one request of one session -/
def serve (t : Table) (c : Cache) (r : Req) : R (Cache × Resp) :=
  match MU.getQuery r.opts with
  | R.oob => R.oob
  | R.rej => R.rej
  | R.ok key =>
    if r.num = 0 then serveFresh t c key r                                 -- "Get a fresh copy of the data"
    else
      match findXmit c key with
      | none => serveFresh t c key r
      | some e =>
        -- "ignoring request to change Block size": the transfer's own size is used
        let chunk := 2 ^ (e.szx + 4)
        if e.data.length ≤ r.num * chunk then R.ok (c, Resp.err 500)      -- coap_add_block_b_data fails
        else R.ok (c, Resp.blk (block e.data chunk r.num) (decide (r.num * chunk + chunk < e.data.length)))

/-! ### a client script: several transfers, any interleaving of their block requests -/

/-- one transfer: the session it runs on and its Uri-Query options -/
structure Xfer where
  sid : Nat
  opts : List Bytes
  deriving DecidableEq, Repr

/-- what the client of a transfer has so far -/
structure XState where
  buf : Bytes
  /-- next block number to ask for = number of responses so far -/
  next : Nat
  done : Bool
  failed : Bool
  deriving DecidableEq, Repr

structure SState where
  /-- `session->lg_xmit` of session `sid` -/
  cache : Nat → Cache
  x : Nat → XState

def upd {α : Type} (f : Nat → α) (i : Nat) (v : α) : Nat → α := fun j => if j = i then v else f j

def SState.init : SState := ⟨fun _ => [], fun _ => ⟨[], 0, false, false⟩⟩

/-- transfer `i` sends its next block request (nothing happens if it is complete or `i` names no transfer) -/
def stepX (t : Table) (szx : Nat) (xs : List Xfer) (st : SState) (i : Nat) : SState :=
  match xs[i]? with
  | none => st
  | some xf =>
    let x := st.x i
    if x.done then st
    else
      match serve t (st.cache xf.sid) ⟨xf.opts, x.next, szx⟩ with
      | R.ok (c', Resp.blk p more) =>
        ⟨upd st.cache xf.sid c', upd st.x i ⟨x.buf ++ p, x.next + 1, !more, false⟩⟩
      | R.ok (c', Resp.err _) => ⟨upd st.cache xf.sid c', upd st.x i ⟨x.buf, x.next + 1, true, true⟩⟩
      | _ => ⟨st.cache, upd st.x i ⟨x.buf, x.next + 1, true, true⟩⟩

def runX (t : Table) (szx : Nat) (xs : List Xfer) : SState → List Nat → SState
  | st, [] => st
  | st, i :: r => runX t szx xs (stepX t szx xs st i) r

/-- transfer `i` keeps asking until it is complete (at most `fuel` requests): nothing but further `stepX`s -/
def drainX (t : Table) (szx : Nat) (xs : List Xfer) : Nat → SState → Nat → SState
  | 0, st, _ => st
  | f + 1, st, i => if (st.x i).done then st else drainX t szx xs f (stepX t szx xs st i) i

end Coap.M.LF
