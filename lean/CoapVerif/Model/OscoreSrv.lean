import CoapVerif.Model.Oscore
/-
M — libcoap's SERVER-side use of `session->recipient_ctx` and of the association store when requests under several
security contexts arrive on one session (src/coap_oscore.c):

  * `coap_oscore_decrypt_pdu` for a request: `oscore_find_context()` gives `rcp_ctx` (Model/OscoreCtx.lean; here
    its position in the store); `session->recipient_ctx = rcp_ctx` ("to be used for encryption of returned response
    later" — it is NOT: see below); after the replay check, AAD and nonce are computed and the AEAD runs; a request
    that does not verify (or whose plaintext does not parse) leaves through `error:` with the associations
    untouched.  Only then (fix b3c6528: before, this block sat in front of the AEAD) "Set up an association for use in
    the response, now that the request is verified": `oscore_find_association(session, &pdu_token)`; found:
    `nonce`, `partial_iv`, `aad` replaced and `association->recipient_ctx = rcp_ctx` (`is_observe` untouched); not
    found: `oscore_new_association(session, NULL, &pdu_token, rcp_ctx, aad, nonce, partial_iv, 0)`.  When the
    plaintext carries an Observe option (any value): `association->is_observe = 1` (it is never reset).
  * `coap_oscore_new_pdu_encrypted_lkd` for a response (RFC 8613 8.3 step 1): `association =
    oscore_find_association(session, &pdu_token)` (none: error); `rcp_ctx = association->recipient_ctx; osc_ctx =
    rcp_ctx->osc_ctx; snd_ctx = osc_ctx->sender_context` — Sender Key, Sender ID, Common IV and Sender Sequence Number
    of the response are those of the ASSOCIATION's context; `session->recipient_ctx` is only read for requests.
    `if (association->is_observe && !doing_observe && send_partial_iv == OSCORE_SEND_NO_IV) send_partial_iv =
    OSCORE_SEND_PARTIAL_IV;` (fix 155f0b4), then the Partial IV / fresh nonce / `oscore_increment_sender_seq` branch
    is taken `if (coap_request || doing_observe || send_partial_iv == OSCORE_SEND_PARTIAL_IV)`, else `association->nonce`
    is used.  After the response has been built: `if (association->is_observe == 0) oscore_delete_association()`.

A recipient context is represented by its position (context, recipient in its chain) in the store.  Core Lean only.
-/
namespace Coap.M.Oscore

abbrev RPos := Nat × Nat

structure SAssoc where
  token : Bytes
  rcp : RPos                 -- association->recipient_ctx
  aad : Bytes
  nonce : Bytes
  piv : Bytes
  isObserve : Bool
  isClient : Bool            -- association->is_client (fix 48ee5dc): set up / taken over by a request SENT from this end
  deriving Repr, DecidableEq

/-- the server session as far as OSCORE goes -/
structure Srv where
  rcp : Option RPos          -- session->recipient_ctx
  as : List SAssoc           -- session->associations
  deriving Repr, DecidableEq

def findSAssoc (as : List SAssoc) (t : Bytes) : Option SAssoc := List.find? (fun a => a.token = t) as

/-- `coap_oscore_decrypt_pdu` for a request with token `t` for which `oscore_find_context` returned `pos` and the
replay check passed; `verified` = the AEAD accepted and the plaintext parsed, `observe` = the plaintext carries Observe.
`session->recipient_ctx` is assigned before the AEAD runs, the association is touched after it (fix b3c6528). -/
def srvDecrypt (s : Srv) (t : Bytes) (pos : RPos) (aad nonce piv : Bytes) (verified observe : Bool) : Srv :=
  if !verified then ⟨some pos, s.as⟩ else
  let as1 :=
    match findSAssoc s.as t with
    | some _ => s.as.map fun a => if a.token = t then { a with nonce := nonce, piv := piv, aad := aad, rcp := pos, isClient := false } else a
    | none => ⟨t, pos, aad, nonce, piv, false, false⟩ :: s.as
  let as2 := if observe then as1.map fun a => if a.token = t then { a with isObserve := true } else a else as1
  ⟨some pos, as2⟩

/-- RFC 8613 8.3 step 1 in `coap_oscore_new_pdu_encrypted_lkd`: the recipient context (hence the Sender Context) a response
with token `t` is protected with — `association->recipient_ctx`; `none`: no association, the function fails -/
def srvResponseCtx (s : Srv) (t : Bytes) : Option RPos :=
  match findSAssoc s.as t with
  | none => none                                        -- association == NULL
  | some a => if a.isClient then none else some a.rcp   -- || association->is_client: goto error (fix 48ee5dc)

/-- the association a response with token `t` is protected under (`association->nonce` when the response carries no
Partial IV of its own, `association->aad` / `partial_iv` always); `none`: the function fails -/
def srvResponseAssoc (s : Srv) (t : Bytes) : Option SAssoc :=
  match findSAssoc s.as t with
  | none => none
  | some a => if a.isClient then none else some a

/-- does `coap_oscore_new_pdu_encrypted_lkd` take the Partial IV / fresh nonce / `oscore_increment_sender_seq` branch for
a response with token `t`?  `doingObserve`: the response carries Observe; `ask`: `send_partial_iv == OSCORE_SEND_PARTIAL_IV`
on entry.  `none`: no association, the function fails.  (fix 155f0b4: `association->is_observe` forces it) -/
def srvOwnPiv (s : Srv) (t : Bytes) (doingObserve ask : Bool) : Option Bool :=
  (srvResponseAssoc s t).map fun a =>
    let ask' := if a.isObserve && !doingObserve && !ask then true else ask
    doingObserve || ask'

/-- the association part of protecting a response with token `t` (the response could be built) -/
def srvProtect (s : Srv) (t : Bytes) : Srv :=
  match findSAssoc s.as t with
  | some a => if a.isClient then s else                -- `goto error` before anything is touched (fix 48ee5dc)
              if a.isObserve then s else { s with as := s.as.filter fun a => a.token ≠ t }
  | none => s

/-- the tail of `coap_oscore_new_pdu_encrypted_lkd` for a REQUEST SENT from this end on the same session (`coap_request`;
the request could be protected — `pos` = `rcp_ctx = session->recipient_ctx`, not NULL): "Set up an association for handling a
response".  `oscore_find_association(session, &pdu_token)` looks in the SAME table the received requests use; found: "The
association now belongs to this request": `is_client = 1`, `is_observe = doing_observe && observe_value != 1`, `nonce`,
`aad`, `partial_iv` replaced by `cose`'s (this end's own Partial IV and the nonce made from it), `recipient_ctx = rcp_ctx`;
not found: `oscore_new_association(…, rcp_ctx, aad, nonce, partial_iv, doing_observe)` (at the head), then `is_client = 1`. -/
def srvRequest (s : Srv) (t : Bytes) (pos : RPos) (aad nonce piv : Bytes) (doingObserve : Bool) (observeValue : Nat) : Srv :=
  match findSAssoc s.as t with
  | some _ =>
    { s with as := s.as.map fun a => if a.token = t then
        { a with isClient := true, isObserve := doingObserve && observeValue != 1, nonce := nonce, aad := aad, piv := piv,
                 rcp := pos } else a }
  | none => { s with as := ⟨t, pos, aad, nonce, piv, doingObserve, true⟩ :: s.as }

/-- the response path of `coap_oscore_decrypt_pdu` as far as the table goes: a response with token `t` whose OSCORE option
decodes arrives; `verified` = the AEAD accepted (under the association's nonce / AAD, whoever set them) and the plaintext
parsed.  `is_client` is not looked at here. -/
def srvRespIn (s : Srv) (t : Bytes) (verified : Bool) : Srv :=
  match findSAssoc s.as t with
  | none => s
  | some a => if verified && !a.isObserve then { s with as := s.as.filter fun a => a.token ≠ t } else s

inductive SrvStep where
  | decrypt (t : Bytes) (pos : RPos) (aad nonce piv : Bytes) (verified observe : Bool)
  | protect (t : Bytes)
  | request (t : Bytes) (pos : RPos) (aad nonce piv : Bytes) (doingObserve : Bool) (observeValue : Nat)   -- a request SENT from this end
  | respIn (t : Bytes) (verified : Bool)                                                      -- a response arrives
  deriving Repr, DecidableEq

def srvStep (s : Srv) : SrvStep → Srv
  | .decrypt t pos aad nonce piv v o => srvDecrypt s t pos aad nonce piv v o
  | .protect t => srvProtect s t
  | .request t pos aad nonce piv o v => srvRequest s t pos aad nonce piv o v
  | .respIn t v => srvRespIn s t v

def srvRun (s : Srv) (steps : List SrvStep) : Srv := steps.foldl srvStep s

/-- the recipient context of the latest VERIFIED `decrypt` step per token, forgotten when a request SENT from this end takes the
token over (fix 48ee5dc) — a function of the `decrypt` and `request` steps alone -/
def srvTrack (acc : Bytes → Option RPos) : SrvStep → Bytes → Option RPos
  | .decrypt t pos _ _ _ v _ => if v then fun t' => if t' = t then some pos else acc t' else acc
  | .protect _ => acc
  | .request t _ _ _ _ _ _ => fun t' => if t' = t then none else acc t'
  | .respIn _ _ => acc

def srvLatest (steps : List SrvStep) : Bytes → Option RPos := steps.foldl srvTrack (fun _ => none)

/-- (recipient context, aad, nonce, partial_iv) of the RECEIVED request a response with the token would answer: those of the
latest VERIFIED `decrypt` step with the token, `none` again once a request SENT from this end has used the token since -/
def srvTrackReq (acc : Bytes → Option (RPos × Bytes × Bytes × Bytes)) : SrvStep → Bytes → Option (RPos × Bytes × Bytes × Bytes)
  | .decrypt t pos aad nonce piv v _ => if v then fun t' => if t' = t then some (pos, aad, nonce, piv) else acc t' else acc
  | .protect _ => acc
  | .request t _ _ _ _ _ _ => fun t' => if t' = t then none else acc t'
  | .respIn _ _ => acc

def srvLatestReq (steps : List SrvStep) : Bytes → Option (RPos × Bytes × Bytes × Bytes) :=
  steps.foldl srvTrackReq (fun _ => none)

end Coap.M.Oscore
