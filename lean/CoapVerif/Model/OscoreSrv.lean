import CoapVerif.Model.Oscore
/-
M — libcoap's SERVER-side use of `session->recipient_ctx` and of the association store when requests under several
security contexts arrive on one session (src/coap_oscore.c):

  * `coap_oscore_decrypt_pdu` for a request: `oscore_find_context()` gives `rcp_ctx` (Model/OscoreCtx.lean; here
    its position in the store); `session->recipient_ctx = rcp_ctx` ("to be used for encryption of returned response
    later" — it is NOT: see below); after the replay check, AAD and nonce are computed and the AEAD runs; a request
    that does not verify (or whose plaintext does not parse) leaves through `error:` with the associations
    untouched.  Only then (fix b3c6528: before, this block sat in front of the AEAD) "Set up an association for use in
    the response, now that the request is verified": `oscore_find_association(session, &pdu_token)`; found:
    `nonce`, `partial_iv`, `aad` replaced and `association->recipient_ctx = rcp_ctx` (`is_observe` untouched); not
    found: `oscore_new_association(session, NULL, &pdu_token, rcp_ctx, aad, nonce, partial_iv, 0)`.  When the
    plaintext carries an Observe option (any value): `association->is_observe = 1` (it is never reset).
  * `coap_oscore_new_pdu_encrypted_lkd` for a response (RFC 8613 8.3 step 1): `association =
    oscore_find_association(session, &pdu_token)` (none: error); `rcp_ctx = association->recipient_ctx; osc_ctx =
    rcp_ctx->osc_ctx; snd_ctx = osc_ctx->sender_context` — Sender Key, Sender ID, Common IV and Sender Sequence Number
    of the response are those of the ASSOCIATION's context; `session->recipient_ctx` is only read for requests.
    `if (association->is_observe && !doing_observe && send_partial_iv == OSCORE_SEND_NO_IV) send_partial_iv =
    OSCORE_SEND_PARTIAL_IV;` (fix 155f0b4), then the Partial IV / fresh nonce / `oscore_increment_sender_seq` branch
    is taken `if (coap_request || doing_observe || send_partial_iv == OSCORE_SEND_PARTIAL_IV)`, else `association->nonce`
    is used.  After the response has been built: `if (association->is_observe == 0) oscore_delete_association()`.

A recipient context is represented by its position (context, recipient in its chain) in the store.  Core Lean only.
-/
namespace Coap.M.Oscore

abbrev RPos := Nat × Nat

structure SAssoc where
  token : Bytes
  rcp : RPos                 -- association->recipient_ctx
  aad : Bytes
  nonce : Bytes
  piv : Bytes
  isObserve : Bool
  deriving Repr, DecidableEq

/-- the server session as far as OSCORE goes -/
structure Srv where
  rcp : Option RPos          -- session->recipient_ctx
  as : List SAssoc           -- session->associations
  deriving Repr, DecidableEq

def findSAssoc (as : List SAssoc) (t : Bytes) : Option SAssoc := List.find? (fun a => a.token = t) as

/-- `coap_oscore_decrypt_pdu` for a request with token `t` for which `oscore_find_context` returned `pos` and the
replay check passed; `verified` = the AEAD accepted and the plaintext parsed, `observe` = the plaintext carries Observe.
`session->recipient_ctx` is assigned before the AEAD runs, the association is touched after it (fix b3c6528). -/
def srvDecrypt (s : Srv) (t : Bytes) (pos : RPos) (aad nonce piv : Bytes) (verified observe : Bool) : Srv :=
  if !verified then ⟨some pos, s.as⟩ else
  let as1 :=
    match findSAssoc s.as t with
    | some _ => s.as.map fun a => if a.token = t then { a with nonce := nonce, piv := piv, aad := aad, rcp := pos } else a
    | none => ⟨t, pos, aad, nonce, piv, false⟩ :: s.as
  let as2 := if observe then as1.map fun a => if a.token = t then { a with isObserve := true } else a else as1
  ⟨some pos, as2⟩

/-- RFC 8613 8.3 step 1 in `coap_oscore_new_pdu_encrypted_lkd`: the recipient context (hence the Sender Context) a response
with token `t` is protected with — `association->recipient_ctx`; `none`: no association, the function fails -/
def srvResponseCtx (s : Srv) (t : Bytes) : Option RPos := (findSAssoc s.as t).map (·.rcp)

/-- does `coap_oscore_new_pdu_encrypted_lkd` take the Partial IV / fresh nonce / `oscore_increment_sender_seq` branch for
a response with token `t`?  `doingObserve`: the response carries Observe; `ask`: `send_partial_iv == OSCORE_SEND_PARTIAL_IV`
on entry.  `none`: no association, the function fails.  (fix 155f0b4: `association->is_observe` forces it) -/
def srvOwnPiv (s : Srv) (t : Bytes) (doingObserve ask : Bool) : Option Bool :=
  (findSAssoc s.as t).map fun a =>
    let ask' := if a.isObserve && !doingObserve && !ask then true else ask
    doingObserve || ask'

/-- the association part of protecting a response with token `t` (the response could be built) -/
def srvProtect (s : Srv) (t : Bytes) : Srv :=
  match findSAssoc s.as t with
  | some a => if a.isObserve then s else { s with as := s.as.filter fun a => a.token ≠ t }
  | none => s

inductive SrvStep where
  | decrypt (t : Bytes) (pos : RPos) (aad nonce piv : Bytes) (verified observe : Bool)
  | protect (t : Bytes)
  deriving Repr, DecidableEq

def srvStep (s : Srv) : SrvStep → Srv
  | .decrypt t pos aad nonce piv v o => srvDecrypt s t pos aad nonce piv v o
  | .protect t => srvProtect s t

def srvRun (s : Srv) (steps : List SrvStep) : Srv := steps.foldl srvStep s

/-- the recipient context of the latest VERIFIED `decrypt` step per token — a function of the `decrypt` steps alone -/
def srvTrack (acc : Bytes → Option RPos) : SrvStep → Bytes → Option RPos
  | .decrypt t pos _ _ _ v _ => if v then fun t' => if t' = t then some pos else acc t' else acc
  | .protect _ => acc

def srvLatest (steps : List SrvStep) : Bytes → Option RPos := steps.foldl srvTrack (fun _ => none)

end Coap.M.Oscore
