/-
C12 — the `Sessions` layer of the endpoint model (DESIGN.md §4.0, §4 C12).  Core Lean only.

M: transcription of libcoap's server-session bookkeeping
     src/coap_session.c  coap_endpoint_get_session, coap_session_reference/release_lkd, coap_session_free,
                         coap_session_disconnected_lkd, coap_free_endpoint_lkd, coap_session_send_ping_lkd
     src/coap_io.c       coap_io_prepare_io_lkd  (retransmission loop, idle reclamation loop)
     src/coap_net.c      coap_free_context_lkd (teardown order), coap_wait_ack / coap_delete_node_lkd (queue node = holder),
                         coap_retransmit, RST branch of coap_dispatch, coap_io_do_epoll_lkd (ends with a prepare pass)
     src/coap_resource.c coap_add_observer (token known / same cache key under a NEW token: the old entry is deleted and
                         a new one created / new entry), coap_delete_observer, coap_delete_observer_request,
                         coap_delete_observers, coap_free_resource, coap_resource_notify_observers_lkd,
                         coap_check_notify_lkd / coap_notify_observers (NON notifications: both observable resources of the
                         harness carry COAP_RESOURCE_FLAGS_NOTIFY_NON_ALWAYS)
     src/coap_net.c      RST branch of coap_dispatch for a message id that is NOT in the send queue: the observation whose
                         last notification carried that id is cancelled under a temporary session reference
     src/coap_async.c    coap_register_async_lkd / coap_free_async_sub / coap_delete_all_async
     src/coap_net.c      coap_check_async (second statement of coap_io_prepare_io_lkd): a DELAYED async entry that is due
                         re-invokes the request handler, which takes some time (the clock moves on DURING the pass), the
                         NON response is sent (`last_rx_tx` = the clock, later than the pass's `now`), the entry is freed
   coap_io_prepare_io_lkd(ctx, …, now) is modelled with its `now` ARGUMENT (`St.prepareIoAt`): the due tests of
   coap_check_async, of the retransmission loop and of the idle reclamation compare with that argument, everything that
   stamps a time (`coap_ticks()` in the send path, in coap_retransmit) reads the clock `St.now`, which is ≥ the argument.
   Every object is a token (a `Nat` serial) in an ALLOCATION LEDGER (`alloc id` / `free id`, chronological).
   STREAM sessions (CoAP over TCP, RFC 8323; `COAP_PROTO_RELIABLE`):
     src/coap_net.c      coap_accept_endpoint → coap_new_server_session (src/coap_session.c): NO lookup, NO idle accounting,
                         coap_make_session, SESSIONS_ADD, SERVER_SESSION_NEW, CSM sent, `last_rx_tx = now`;
                         coap_io_do_epoll_lkd for a session socket: `reference; coap_read_session; release`, prepare pass;
                         coap_read_session, stream branch: `last_rx_tx = now` when bytes were read, the header is collected
                         in `read_header` (`partial_read` counts), THEN `session->partial_pdu = coap_pdu_init(…)`; when the
                         last byte has arrived the PDU is detached (`partial_pdu = NULL; partial_read = 0`), dispatched and
                         deleted; a read of 0 bytes / an error: `coap_session_disconnected_lkd(NOT_DELIVERABLE)`
     src/coap_session.c  coap_session_disconnected_lkd on a reliable session: additionally `state = NONE`,
                         `coap_delete_pdu(partial_pdu); partial_pdu = NULL; partial_read = 0`, the socket is closed;
                         coap_session_mfree: `if (session->partial_pdu) coap_delete_pdu(session->partial_pdu)`
     src/coap_io.c       the reclamation test: `ref == 0 && delayqueue == NULL && (last_rx_tx + session_timeout <= now ||
                         state == COAP_SESSION_STATE_NONE)` — a closed stream session is reclaimed by the next pass once
                         nothing references it, and NOT before
     src/coap_net.c      coap_send_pdu: `state == NONE` on a server session → -1: nothing is written, `last_rx_tx` stays

   CALL HOME (a server session the application takes over as a client session):
     src/coap_session.c  coap_session_set_type_client: `if (type == SERVER) { coap_session_reference_lkd(session); type =
                         CLIENT; return 1; } return 0;` — the session STAYS in `endpoint->sessions` (it keeps
                         `session->endpoint`); coap_session_release_lkd: `if (ref > 0) --ref; if (ref == 0 && type ==
                         COAP_SESSION_TYPE_CLIENT) coap_session_free(session);` — no SERVER_SESSION_DEL event;
                         coap_session_free: coap_session_mfree, `if (session->endpoint) SESSIONS_DELETE(session->endpoint->
                         sessions, session); else if (session->context) SESSIONS_DELETE(session->context->sessions, session);`
                         — the table is chosen by where the session LIVES, not by its type —, free.
                         The type tests of the modelled code: idle accounting of coap_endpoint_get_session and the
                         reclamation test of coap_io_prepare_io_lkd count `type == SERVER` sessions only; coap_send_lkd
                         and coap_session_send_ping_lkd refuse a CLIENT session without a socket of its own
                         (`!coap_netif_available(session)`: a datagram session born on an endpoint has none);
                         coap_free_endpoint_lkd raises SERVER_SESSION_DEL for and frees every session of the table.

S: `Peer ⇀ session` (partial injective map, `lookup`), `ref s = #holders s`.

SPEC DECISION D9  : `peer_session_functional_injective` is about the `(remote, local port, proto)` key as used for UDP, and
                    for DTLS without connection-id re-keying (the CID branch of coap_endpoint_get_session re-keys a session).
SPEC DECISION D13 : "stays valid while the application refers to it" is scoped to the life of the context: freeing the
                    context ends every session (a session points into its context and cannot outlive it); the application
                    must not use session pointers after coap_free_context().  "Everything is released" has priority.
SPEC DECISION D14 : the application only releases references it holds (`appRelease` without a held reference is skipped
                    by the harness and is a no-op in M): releasing somebody else's reference is outside the property.
SPEC DECISION D15 : "the oldest idle one when the idle-session limit is reached" is the rule of coap_endpoint_get_session,
                    i.e. of sessions created from datagrams; accepting a stream connection (coap_new_server_session) does
                    no idle accounting and evicts nothing (a stream session is bound to its connection).
SPEC DECISION D16 : call home is modelled for datagram sessions.  (Round R12c LIFTED the rest of D16: the application may
                    release the reference coap_session_set_type_client() gave it at ANY time; if other holders remain the
                    session lives on as a CLIENT session and libcoap frees it from inside whichever release comes last —
                    `St.releaseHolder`.  In the datagram receive path that was a use after free — handle_request →
                    coap_delete_observer freed the session in the middle of the dispatch — fixed by 0081e3a: a temporary
                    reference around the handling of the datagram in coap_read_endpoint, as the stream path has.)
SPEC DECISION D17 : the application passes the pointer of a CLIENT session to libcoap only while it holds a reference on
                    it (call-home or coap_session_reference): `coap_session_disconnected(session)` on a client session the
                    application holds no reference on is skipped (an unreferenced client session may be freed by any
                    library call — here by the coap_delete_observers inside coap_session_disconnected_lkd itself).
-/
namespace Coap.Sessions

/-! ## the verified ledger monitor -/

inductive AllocEvent where
  | alloc (id : Nat)
  | free (id : Nat)
  deriving DecidableEq, Repr

/-- replay a trace on the multiset of live ids; `none` = a free of something that is not live -/
def runLedger : List AllocEvent → List Nat → Option (List Nat)
  | [], live => some live
  | .alloc i :: t, live => runLedger t (i :: live)
  | .free i :: t, live => if i ∈ live then runLedger t (live.erase i) else none

/-- the monitor: every free hits a live object and nothing is live at the end -/
def ledgerOk (tr : List AllocEvent) : Bool :=
  match runLedger tr [] with
  | some [] => true
  | _ => false

/-- diagnostic version for the driver (same run, says what went wrong first) -/
def ledgerVerdict (tr : List AllocEvent) : String :=
  let rec go (t : List AllocEvent) (live seen : List Nat) : String :=
    match t with
    | [] => if live.isEmpty then "ok" else "leak:" ++ toString live.length
    | .alloc i :: t => go t (i :: live) (i :: seen)
    | .free i :: t =>
      if i ∈ live then go t (live.erase i) seen
      else if i ∈ seen then "double-free:" ++ toString i else "free-unallocated:" ++ toString i
  go tr [] []

/-! ## state -/

/-- the key of the endpoint's session hash: `coap_addr_hash_t` = remote address+port, local port, protocol -/
structure Peer where
  remote : Nat
  lport : Nat
  proto : Nat
  deriving DecidableEq, Repr

/-- who holds a reference on a session -/
inductive HKind where
  | app                      -- coap_session_reference() by the application
  | home                     -- the reference coap_session_set_type_client() takes for the application ("call home")
  | obs (k q tok note : Nat) -- coap_subscription_t on observable resource k: cache key (query variant q; the key also
                             -- covers the session and the Uri-Path), token, and `obs->pdu->mid` named by the index
                             -- (per session, from 1) of the last notification sent for it (0: none sent yet)
  | async                    -- coap_async_t with delay 0 (never fires; freed by the application or at teardown)
  | asyncD (due dur : Nat)   -- coap_async_t of a delayed response: `async->delay` (absolute; 0 = never) and the time the
                             -- request handler will take when libcoap re-invokes it (an input of the history)
  | node (cnt due : Nat)     -- coap_queue_t in context->sendqueue (retransmit_cnt, absolute deadline)
  deriving DecidableEq, Repr

structure Holder where
  hid : Nat                  -- ledger id of the holding object (application references are not allocations: 0)
  sid : Nat                  -- the session it points to
  kind : HKind
  deriving DecidableEq, Repr

structure Sess where
  sid : Nat                  -- ledger id of the coap_session_t
  idx : Nat                  -- index of its SERVER_SESSION_NEW event (canonical name in the differential runs)
  peer : Peer
  ref : Nat
  last : Nat                 -- last_rx_tx
  conActive : Nat
  delayq : Nat               -- length of session->delayqueue (entries hold NO reference: node->session = NULL; the
                             -- coap_queue_t objects themselves are in `St.partials`)
  notes : Nat                -- notifications sent on this session so far (each takes a fresh message id of the session);
                             -- on a stream session: every message with a non-empty, non-signalling code written to it
  closed : Bool := false     -- `state == COAP_SESSION_STATE_NONE`: a stream session whose connection is gone
  pend : Nat := 0            -- `session->partial_read`: bytes of an unfinished message received so far
  client : Bool := false     -- `type == COAP_SESSION_TYPE_CLIENT`: taken over by coap_session_set_type_client() (it still
                             -- lives in its endpoint's table)
  deriving DecidableEq, Repr

inductive SEvent where
  | new (sid : Nat)          -- COAP_EVENT_SERVER_SESSION_NEW
  | del (sid : Nat)          -- COAP_EVENT_SERVER_SESSION_DEL
  | handed (sid : Nat)       -- GHOST (libcoap raises no event): a session that was turned into a client session is freed by
                             -- its last coap_session_release — it leaves the table WITHOUT a SERVER_SESSION_DEL
  deriving DecidableEq, Repr

structure St where
  now : Nat := 1000
  timeout : Nat := 0                       -- ctx->session_timeout (s), 0 = COAP_DEFAULT_SESSION_TIMEOUT
  maxIdle : Nat := 0                       -- ctx->max_idle_sessions, 0 = no limit
  eps : List (Nat × Nat) := []             -- ctx->endpoint list (LL_PREPEND order): (local port, proto)
  sessions : List Sess := []               -- all endpoints' tables, creation order (= uthash iteration order)
  holders : List Holder := []
  partials : List (Nat × Nat) := []        -- objects that HANG OFF a session without holding a reference on it: (ledger id, session).
                                           -- Stream sessions: `session->partial_pdu` (the coap_pdu_t); datagram sessions: the
                                           -- coap_queue_t nodes of `session->delayqueue` (a Confirmable waiting for its NSTART
                                           -- slot), in queue order.  Both are released by coap_session_mfree and by
                                           -- coap_session_disconnected_lkd; the two never exist on the same session
  resAlive : List Nat := []                -- observable resources still registered
  dirty : List Nat := []                   -- resources with r->dirty set (then ctx->observe_pending is set as well)
  ctxObjs : List Nat := []                 -- ledger ids of context, endpoints, resources
  ledger : List AllocEvent := []           -- chronological
  events : List SEvent := []               -- chronological
  next : Nat := 1                          -- next ledger serial
  nsess : Nat := 0                         -- sessions created so far
  freed : Bool := false
  nown : Nat := 0                          -- client sessions PROPER (coap_new_client_session: context->sessions) alive; their
                                           -- coap_session_t objects are among `ctxObjs` (see `St.newOwned`)
  deriving Repr

def COAP_DEFAULT_SESSION_TIMEOUT : Nat := 300
def TICKS_PER_SECOND : Nat := 1000
def ACK_TIMEOUT_TICKS : Nat := 2000          -- coap_calc_timeout(session, r = 0)
def MAX_RETRANSMIT : Nat := 4
def COAP_PROTO_UDP : Nat := 1
def COAP_PROTO_TCP : Nat := 3
/-- `COAP_PROTO_RELIABLE(proto)`: TCP, TLS, WS, WSS -/
def Peer.reliable (p : Peer) : Bool := p.proto ≥ COAP_PROTO_TCP
/-- the request a stream peer may send in two parts (harness: GET /r, token [S], 20 bytes payload): 27 bytes, of which
    `coap_pdu_parse_header_size` + token-length extension = 3 are the header that is collected in `session->read_header`
    BEFORE `session->partial_pdu` is allocated -/
def PART_LEN : Nat := 27
def PART_HDR : Nat := 3

/-- S: the number of holders of a session (application references, observer entries, async entries, queued messages) -/
def St.holds (st : St) (sid : Nat) : Nat := st.holders.countP (fun h => h.sid == sid)

/-! ## primitives (each one is a C statement group; all total, all guarded exactly as the C) -/

def St.lookup (st : St) (p : Peer) : Option Sess := st.sessions.find? (fun s => s.peer = p)

def St.getSess (st : St) (sid : Nat) : Option Sess := st.sessions.find? (fun s => s.sid = sid)

def St.updSess (st : St) (sid : Nat) (f : Sess → Sess) : St :=
  { st with sessions := st.sessions.map fun s => if s.sid = sid then f s else s }

/-- `coap_session_reference_lkd`: `++session->ref` -/
def Sess.reference (s : Sess) : Sess := { s with ref := s.ref + 1 }
/-- `coap_session_release_lkd` on a server session: `if (ref > 0) --ref` (nothing is freed at 0) -/
def Sess.release (s : Sess) : Sess := { s with ref := s.ref - 1 }

def HKind.isAlloc : HKind → Bool
  | .app => false
  | .home => false
  | _ => true

/-- a new holder object pointing at `sid`: allocate it (unless it is the application), `coap_session_reference_lkd` -/
def St.addHolder (st : St) (sid : Nat) (k : HKind) : St :=
  if k.isAlloc then
    { (st.updSess sid Sess.reference) with
      holders := st.holders ++ [⟨st.next, sid, k⟩], ledger := st.ledger ++ [.alloc st.next], next := st.next + 1 }
  else
    { (st.updSess sid Sess.reference) with holders := st.holders ++ [⟨0, sid, k⟩] }

/-- the holder object goes away: `coap_session_release_lkd(h->session)`, free the object -/
def St.dropHolder (st : St) (h : Holder) : St :=
  if h ∈ st.holders then
    { (st.updSess h.sid Sess.release) with
      holders := st.holders.erase h,
      ledger := if h.kind.isAlloc then st.ledger ++ [.free h.hid] else st.ledger }
  else st

def St.dropHolders (st : St) (hs : List Holder) : St := hs.foldl St.dropHolder st

/-- `session->partial_pdu = coap_pdu_init(…)` in coap_read_session once the header of a message is complete -/
def St.addPartial (st : St) (sid : Nat) : St :=
  { st with partials := st.partials ++ [(st.next, sid)], ledger := st.ledger ++ [.alloc st.next], next := st.next + 1 }

/-- `if (session->partial_pdu) coap_delete_pdu(session->partial_pdu)` (coap_session_mfree), with `partial_pdu = NULL`
    (coap_session_disconnected_lkd, and coap_read_session when the message is complete and has been dispatched) -/
def St.dropPartial (st : St) (sid : Nat) : St :=
  { st with partials := st.partials.filter (fun x => x.2 != sid),
            ledger := st.ledger ++ (st.partials.filter (fun x => x.2 == sid)).map fun x => .free x.1 }

/-- `session->delayqueue = q->next; …; coap_wait_ack(context, session, q)` in coap_session_connected: the node that waited
    in the session's delay queue is NOT freed and no new one is allocated — the same coap_queue_t (same ledger id) goes
    into `context->sendqueue`, and coap_wait_ack takes the reference that a queued message holds on its session:
    `node->session = coap_session_reference_lkd(session)`.  From here on coap_delete_node_lkd releases it. -/
def St.promote (st : St) (x : Nat × Nat) (due : Nat) : St :=
  if x ∈ st.partials then
    { (st.updSess x.2 Sess.reference) with
      holders := st.holders ++ [⟨x.1, x.2, .node 0 due⟩], partials := st.partials.erase x }
  else st

def NSTART : Nat := 1

/-- `coap_session_connected(session)` on an ESTABLISHED datagram session = the flush of `session->delayqueue`, called
    whenever an exchange of the session ends (`if (sent && session->con_active) { session->con_active--; if (state ==
    ESTABLISHED) coap_session_connected(session); }` in the ACK / RST / bad-packet branches of coap_dispatch, and in
    coap_retransmit when it gives up):
    ```
    while (session->delayqueue && …) {
      q = session->delayqueue;
      if (q->pdu->type == COAP_MESSAGE_CON && COAP_PROTO_NOT_RELIABLE(proto)) {
        if (session->con_active >= COAP_NSTART(session)) break;
        session->con_active++;
      }
      session->delayqueue = q->next;  coap_session_send_pdu(session, q->pdu);     /* last_rx_tx = clock */
      if (CON && NOT_RELIABLE) coap_wait_ack(session->context, session, q);       /* reference, into the sendqueue */
    }
    ```
    Every delayed entry of this alphabet is a Confirmable and NSTART = 1, so at most one entry leaves per call.
    (A stream session has no delayed entries here — the write shim takes everything — and its `partials` entry is the
    partly received PDU: nothing to flush.) -/
def St.flushDelayed (st : St) (sid : Nat) : St :=
  match st.getSess sid with
  | none => st
  | some s =>
    if s.peer.reliable || s.conActive ≥ NSTART then st else
    match st.partials.find? (fun x => x.2 == sid) with
    | none => st
    | some x =>
      (st.updSess sid fun t => { t with conActive := t.conActive + 1, delayq := t.delayq - 1, last := st.now }).promote x
        (st.now + ACK_TIMEOUT_TICKS)

/-- `coap_handle_event_lkd(ctx, COAP_EVENT_SERVER_SESSION_DEL, s); coap_session_free(s);`
    coap_session_free → coap_session_mfree releases what hangs off the session (here: the partly received PDU), then the
    session is unlinked and freed.
    The three call sites (eviction in coap_endpoint_get_session, reclamation in coap_io_prepare_io_lkd,
    coap_free_endpoint_lkd) have each tested `s->ref == 0` on this very session immediately before (the last one
    forces it since the fix), so the `if (session->ref) return;` inside coap_session_free never fires after the event
    has been raised; M keeps that test in front of both. -/
def St.reclaim (st : St) (sid : Nat) : St :=
  match st.getSess sid with
  | none => st
  | some s =>
    if s.ref ≠ 0 then st
    else { (st.dropPartial sid) with
             events := st.events ++ [SEvent.del sid],
             sessions := st.sessions.filter (fun t => t.sid ≠ sid),
             ledger := (st.dropPartial sid).ledger ++ [.free sid] }

/-- the tail of `coap_session_release_lkd`: `if (session->ref == 0 && session->type == COAP_SESSION_TYPE_CLIENT)
    coap_session_free(session);` — coap_session_mfree (what hangs off the session), `if (session->endpoint)
    SESSIONS_DELETE(session->endpoint->sessions, session)`: a session that was born on an endpoint is unlinked from THAT
    table whatever its type says, then freed.  No event is raised (`SEvent.handed` is M's ghost record of it). -/
def St.clientFree (st : St) (sid : Nat) : St :=
  match st.getSess sid with
  | none => st
  | some s =>
    if s.ref ≠ 0 || !s.client then st
    else { (st.dropPartial sid) with
             events := st.events ++ [SEvent.handed sid],
             sessions := st.sessions.filter (fun t => t.sid ≠ sid),
             ledger := (st.dropPartial sid).ledger ++ [.free sid] }

/-- the holder object goes away, with `coap_session_release_lkd(h->session)` IN FULL: `--ref` (`St.dropHolder`), then
    `if (session->ref == 0 && session->type == COAP_SESSION_TYPE_CLIENT) coap_session_free(session)` (`St.clientFree`):
    a session the application has taken over (call home) and whose call-home reference it has already released is freed
    from inside whichever library object lets go LAST — coap_free_async_sub, coap_delete_node_lkd (give-up of
    coap_retransmit), coap_delete_observer (coap_free_resource, coap_free_context), the application's own
    coap_session_release.  On a server session, or while another reference is left, this is `St.dropHolder`. -/
def St.releaseHolder (st : St) (h : Holder) : St := (st.dropHolder h).clientFree h.sid

def St.releaseHolders (st : St) (hs : List Holder) : St := hs.foldl St.releaseHolder st

/-- `coap_new_client_session(ctx, NULL, server, proto)` on THIS context (round R12d, lifetime only):
    coap_session_create_client → coap_make_session(type = CLIENT, endpoint = NULL), own socket (own ephemeral local
    port: its (remote, local, proto) triple is in no endpoint's table and equals no other session's),
    `SESSIONS_ADD(ctx->sessions, session)` — never in an endpoint table, one session per call also to the same peer,
    NO SERVER_SESSION_NEW event.  The application keeps the reference it is returned (and may take more with
    coap_session_reference) and — in this alphabet — releases none of them: the session belongs to the context until
    `coap_free_context_lkd`, whose loop `SESSIONS_ITER_SAFE(context->sessions, sp, rtmp) { if (sp->ref > 1) sp->ref = 1;
    coap_session_release_lkd(sp); }` (AFTER fix a610d3d) frees it whatever the application's count — no
    SERVER_SESSION_DEL event.  M: a ledger object owned by the context (`ctxObjs`: freed by the teardown with the
    context), counted in `nown`; the session is outside `sessions` (the peer ⇀ session map of the endpoints' tables). -/
def St.newOwned (st : St) : St :=
  { st with ctxObjs := st.ctxObjs ++ [st.next], ledger := st.ledger ++ [.alloc st.next], next := st.next + 1,
            nown := st.nown + 1 }

/-- `coap_make_session` + SESSIONS_ADD + COAP_EVENT_SERVER_SESSION_NEW -/
def St.newSession (st : St) (p : Peer) : St :=
  { st with
    sessions := st.sessions ++ [⟨st.next, st.nsess, p, 0, st.now, 0, 0, 0, false, 0, false⟩],
    ledger := st.ledger ++ [.alloc st.next], events := st.events ++ [.new st.next],
    next := st.next + 1, nsess := st.nsess + 1 }

/-! ## coap_endpoint_get_session -/

/-- the idle test used both by eviction and reclamation: `ref == 0 && delayqueue == NULL && type == COAP_SESSION_TYPE_SERVER`
    (coap_endpoint_get_session counts `type == SERVER` sessions only, coap_io_prepare_io_lkd tests it first) -/
def Sess.idle (s : Sess) : Bool := s.ref == 0 && (s.delayq == 0 && !s.client)

def Sess.onEp (s : Sess) (lport proto : Nat) : Bool := s.peer.lport == lport && s.peer.proto == proto

/-- sessions of one endpoint, in SESSIONS_ITER order -/
def St.epSessions (st : St) (lport proto : Nat) : List Sess := st.sessions.filter (·.onEp lport proto)

/-- the scan `if (oldest==NULL || session->last_rx_tx < oldest->last_rx_tx) oldest = session;` -/
def oldestOf : List Sess → Option Sess → Option Sess
  | [], o => o
  | s :: t, none => oldestOf t (some s)
  | s :: t, some o => oldestOf t (if s.last < o.last then some s else some o)

def St.idleOn (st : St) (lport proto : Nat) : List Sess := (st.epSessions lport proto).filter Sess.idle

/-- returns the new state and the session (by sid) that will handle the datagram -/
def St.getSession (st : St) (p : Peer) : St × Nat :=
  match st.lookup p with
  | some s => (st.updSess s.sid fun t => { t with last := st.now }, s.sid)
  | none =>
    let idle := st.idleOn p.lport p.proto
    let st1 :=
      if st.maxIdle > 0 && idle.length ≥ st.maxIdle then
        match oldestOf idle none with
        | some o => st.reclaim o.sid
        | none => st
      else st
    (st1.newSession p, st1.next)

/-! ## coap_io_prepare_io_lkd -/

def St.timeoutTicks (st : St) : Nat :=
  (if st.timeout > 0 then st.timeout else COAP_DEFAULT_SESSION_TIMEOUT) * TICKS_PER_SECOND

def isNode : HKind → Bool
  | .node _ _ => true
  | _ => false

def nodeDue : HKind → Nat
  | .node _ d => d
  | _ => 0

/-- one popped send-queue node (`coap_retransmit`) -/
def St.retransmit (st : St) (h : Holder) : St :=
  match h.kind with
  | .node cnt _ =>
    if h ∈ st.holders then
      if cnt < MAX_RETRANSMIT then
        -- retransmit_cnt++, re-insert at now + (timeout << cnt), con_active-- / send / con_active++, last_rx_tx = now
        let st1 := st.updSess h.sid fun s =>
          { s with conActive := (if s.conActive > 0 then s.conActive - 1 else 0) + 1, last := st.now }
        { st1 with holders := st1.holders.map fun x =>
            if x = h then { h with kind := .node (cnt + 1) (st.now + ACK_TIMEOUT_TICKS * 2 ^ (cnt + 1)) } else x }
      else
        -- give up: con_active--, coap_session_connected (flush of the session's delay queue), NACK, coap_delete_node_lkd
        ((st.updSess h.sid fun s => { s with conActive := s.conActive - 1 }).flushDelayed h.sid).releaseHolder h
    else st
  | _ => st

/-- `s->last_rx_tx + session_timeout <= now || s->state == COAP_SESSION_STATE_NONE` -/
def Sess.expired (s : Sess) (timeoutTicks now : Nat) : Bool := s.last + timeoutTicks ≤ now || s.closed

/-- the reclamation test of coap_io_prepare_io_lkd for one session of the SESSIONS_ITER_SAFE walk:
    `s->ref == 0 && s->delayqueue == NULL && (s->last_rx_tx + session_timeout <= now || s->state == COAP_SESSION_STATE_NONE)`
    with the `now` ARGUMENT of the pass
    (the addition cannot wrap: ticks are 64 bit milliseconds).  `last_rx_tx` may be LATER than `now` — the session was
    used after the caller read the clock — and then the first disjunct is simply false.  `ref == 0 && delayqueue == NULL`
    guards BOTH disjuncts: a closed stream session that is still referenced stays. -/
def St.reclaimStep (st : St) (now : Nat) (sid : Nat) : St :=
  match st.getSess sid with
  | none => st
  | some s =>
    if s.idle && s.expired st.timeoutTicks now then st.reclaim sid
    else
      -- "Make sure the session object is not deleted in any callbacks": reference … release
      (st.updSess sid Sess.reference).updSess sid Sess.release

/-! ### coap_check_notify_lkd (first statement of coap_io_prepare_io_lkd) -/

def HKind.setNote : HKind → Nat → HKind
  | .obs k q t _, n => .obs k q t n
  | x, _ => x

/-- one subscriber of a dirty resource in coap_notify_observers (NON: never postponed, nothing queued):
    `obs->pdu->mid = response->mid = coap_new_message_id_lkd(obs->session)`, the GET handler fills the response,
    coap_send_internal → `last_rx_tx = now` -/
def St.notifyOne (st : St) (h : Holder) : St :=
  match st.getSess h.sid with
  | none => st
  | some s =>
    let st1 := st.updSess h.sid fun t => { t with last := st.now, notes := s.notes + 1 }
    { st1 with holders := st1.holders.map fun x => if x = h then { h with kind := h.kind.setNote (s.notes + 1) } else x }

def isObs (k : Nat) : HKind → Bool
  | .obs j _ _ _ => j == k
  | _ => false

/-- `LL_FOREACH_SAFE(r->subscribers, obs, otmp)`: the list is LL_PREPENDed, i.e. newest subscription first -/
def St.notifyRes (st : St) (k : Nat) : St :=
  ((st.holders.filter fun h => isObs k h.kind).reverse).foldl St.notifyOne st

/-- `if (observe_pending) RESOURCES_ITER(r) coap_notify_observers(r)` (iteration = registration order), `r->dirty = 0` -/
def St.checkNotify (st : St) : St :=
  let st1 := (st.resAlive.filter (· ∈ st.dirty)).foldl St.notifyRes st
  { st1 with dirty := [] }

/-! ### coap_check_async (second statement of coap_io_prepare_io_lkd) -/

def isDelayed : HKind → Bool
  | .asyncD _ _ => true
  | _ => false

/-- one entry of `LL_FOREACH_SAFE(context->async_state, async, tmp)`:
    ```
    if (async->delay != 0 && async->delay <= now) {
      handle_request(context, async->session, async->pdu);   /* the application's handler runs: the clock moves on by
                                                                 `dur`; its NON response is sent: coap_ticks(&last_rx_tx) */
      coap_free_async_lkd(async->session, async);             /* coap_session_release_lkd, free */
    }
    ```
    The response carries a message id generated by the server and a non-empty code: the peer counts it like a notification. -/
def St.fireAsync (st : St) (now : Nat) (h : Holder) : St :=
  match h.kind with
  | .asyncD due dur =>
    if h ∈ st.holders && due ≠ 0 && due ≤ now then
      let st1 := { st with now := st.now + dur }
      -- coap_send_pdu on a closed stream session: -1, nothing is written
      (st1.updSess h.sid fun s => if s.closed then s else { s with last := st1.now, notes := s.notes + 1 }).releaseHolder h
    else st
  | _ => st

/-- the list is LL_PREPENDed: newest entry first -/
def St.checkAsync (st : St) (now : Nat) : St :=
  ((st.holders.filter fun h => isDelayed h.kind).reverse).foldl (fun acc h => acc.fireAsync now h) st

/-- coap_check_notify_lkd, coap_check_async(ctx, now), the retransmission loop -/
def St.preReclaim (st0 : St) (now : Nat) : St :=
  let st := st0.checkNotify.checkAsync now
  -- retransmissions due (a re-queued node is due strictly later than the clock ≥ now, so one pass over a snapshot)
  let due := st.holders.filter fun h => isNode h.kind && nodeDue h.kind ≤ now
  due.foldl St.retransmit st

/-- LL_FOREACH(ctx->endpoint, ep) SESSIONS_ITER_SAFE(ep->sessions, s, rtmp) -/
def St.reclaimPass (st1 : St) (now : Nat) : St :=
  st1.eps.foldl (fun acc ep => ((acc.epSessions ep.1 ep.2).map (·.sid)).foldl (fun a sid => a.reclaimStep now sid) acc) st1

/-- `coap_io_prepare_io_lkd(ctx, …, now)` -/
def St.prepareIoAt (st0 : St) (now : Nat) : St := (st0.preReclaim now).reclaimPass now

/-- the pass as libcoap itself runs it (`coap_ticks(&now)` immediately before) -/
def St.prepareIo (st0 : St) : St := st0.prepareIoAt st0.now

/-! ## events of the history -/

inductive Req where
  | plain                    -- GET /r
  | obsReg (k q tok : Nat)   -- GET /ok[?x] Observe:0 with token variant tok
  | obsDereg (k q tok : Nat) -- GET /ok[?x] Observe:1 with token variant tok
  | async                    -- GET /a, handler registers an async entry
  | slow (d dur : Nat)       -- NON GET /b: the handler registers a DELAYED async entry (`d` ticks, 0 = never) and will take
                             -- `dur` ticks to produce the answer when libcoap re-invokes it
  deriving DecidableEq, Repr

inductive Event where
  | rx (p : Peer) (r : Req)
  | rst (p : Peer)           -- peer answers its session's outstanding CON with RST
  | ping (p : Peer)          -- coap_session_send_ping
  | sendCon (p : Peer)       -- application: coap_send(session, separate Confirmable 2.05) on the peer's session
  | ack (p : Peer) (bad : Bool)  -- peer answers its session's outstanding CON with an ACK carrying the same message id:
                             -- an empty ACK, or (`bad`) one that coap_dispatch classifies as a bad packet (request code
                             -- in an ACK, invalid code class)
  | asyncFree (p : Peer)
  | appRef (p : Peer)
  | appRelease (p : Peer)
  | disconnect (p : Peer)
  | callHome (p : Peer)      -- application: coap_session_set_type_client(session) on the peer's session
  | endCallHome (p : Peer)   -- application: coap_session_release(session) with the reference the call above gave it (D16)
  | connect (p : Peer)       -- a stream peer connects (accept) and sends its CSM
  | partialRx (p : Peer) (c : Nat)  -- a stream peer sends only the first `c` (0 < c < PART_LEN) bytes of a request
  | restRx (p : Peer)        -- … and the rest of it
  | peerClose (p : Peer)     -- a stream peer closes its connection: the server reads EOF
  | delResource (k : Nat)
  | changed (k : Nat)        -- application: coap_resource_notify_observers(/ok)
  | noteRst (p : Peer) (j : Nat)   -- peer answers the notification it received j-th from last (on its session) with RST
  | noteAck (p : Peer) (j : Nat)   -- … with an empty ACK
  | advance (d : Nat)
  | io
  | ioStale (d : Nat)        -- coap_io_prepare_epoll(ctx, now) with a `now` the application read `d` ticks ago
  | setMaxIdle (n : Nat)
  | setTimeout (n : Nat)
  | ownClient (extra : Nat)  -- application: coap_new_client_session() on this context, then `extra` coap_session_reference()s;
                             -- it keeps all of them until coap_free_context()
  | freeContext
  deriving DecidableEq, Repr

def St.findHolder (st : St) (sid : Nat) (pred : HKind → Bool) : Option Holder :=
  st.holders.find? fun h => h.sid == sid && pred h.kind

def St.holdersOf (st : St) (sid : Nat) (pred : HKind → Bool) : List Holder :=
  st.holders.filter fun h => h.sid == sid && pred h.kind

def isAnyObs : HKind → Bool
  | .obs _ _ _ _ => true
  | _ => false
/-- coap_find_observer(resource k, session, token) -/
def isObsTok (k tok : Nat) : HKind → Bool
  | .obs j _ t _ => j == k && t == tok
  | _ => false
/-- coap_find_observer_cache_key(resource k, session, key): the key digests the session pointer and every option of the
    request except Observe / ETag / OSCORE, i.e. here Uri-Path (= k) and Uri-Query (= q) -/
def isObsKey (k q : Nat) : HKind → Bool
  | .obs j c _ _ => j == k && c == q
  | _ => false
/-- `obs->pdu->mid == pdu->mid` for the message id of the session's `n`-th notification -/
def hasNote (n : Nat) : HKind → Bool
  | .obs _ _ _ m => m == n
  | _ => false

/-- `coap_add_observer(resource k, session, token, request)`.
    Tokens are unique per (resource, session) — a known token returns the existing entry — and so are cache keys (an entry
    with the same key is removed before a new one is created), so the first match of a search is the only one. -/
def St.addObserver (st : St) (sid k q tok : Nat) : St :=
  match st.findHolder sid (isObsTok k tok) with
  | some _ => st                                     -- coap_find_observer: subscription exists, returned as it is
  | none =>
    match st.findHolder sid (isObsKey k q) with
    | some old =>
      -- same resource and query under a new token: `coap_delete_observer(resource, session, &s->pdu->actual_token)`
      -- (LL_DELETE, coap_session_release_lkd, free), then a new subscription (`coap_session_reference_lkd`)
      (st.dropHolder old).addHolder sid (.obs k q tok 0)
    | none => st.addHolder sid (.obs k q tok 0)

/-- `coap_delete_observer_request(resource k, session, token, request)`: by token, else by cache key -/
def St.delObserverReq (st : St) (sid k q tok : Nat) : St :=
  match st.findHolder sid (isObsTok k tok) with
  | some h => st.dropHolder h
  | none =>
    match st.findHolder sid (isObsKey k q) with
    | some h => st.dropHolder h
    | none => st

/-- RST branch of coap_dispatch when `coap_remove_from_queue` finds nothing (a NON notification is never queued):
    ```
    RESOURCES_ITER(r) LL_FOREACH_SAFE(r->subscribers, obs, tmp)
      if (obs->pdu->mid == pdu->mid && obs->session == session) {
        coap_session_reference_lkd(session);                          /* "session may get de-referenced" */
        coap_delete_observer(r, session, &obs->pdu->actual_token);    /* LL_DELETE, coap_session_release_lkd, free */
        coap_handle_nack(session, NULL, COAP_NACK_RST, pdu->mid);
        coap_session_release_lkd(session);
        goto cleanup;
      }
    ```
    `n` is the index of the notification the RST answers; at most one observation carries it. -/
def St.rstNote (st : St) (sid n : Nat) : St :=
  match st.findHolder sid (hasNote n) with
  | some h => ((st.updSess sid Sess.reference).dropHolder h).updSess sid Sess.release
  | none => st                                       -- only coap_handle_nack
/-- any coap_async_t (what coap_delete_all_async frees, the length of ctx->async_state) -/
def isAsync : HKind → Bool
  | .async => true
  | .asyncD _ _ => true
  | _ => false
/-- the entry of GET /a (token [P,2]): coap_find_async(session, token) -/
def isAsyncPlain : HKind → Bool
  | .async => true
  | _ => false
def isApp : HKind → Bool
  | .app => true
  | _ => false
def isHome : HKind → Bool
  | .home => true
  | _ => false

/-- the part of `handle_request` / the handler that touches session references -/
def St.serve (st : St) (sid : Nat) : Req → St
  | .plain => st
  | .obsReg k q tok =>
    if k ∈ st.resAlive then st.addObserver sid k q tok
    else st                                          -- 4.04
  | .obsDereg k q tok => st.delObserverReq sid k q tok
  | .async =>
    match st.findHolder sid isAsyncPlain with
    | some _ => st                                   -- coap_register_async returns NULL (already registered)
    | none => st.addHolder sid .async
  | .slow d dur =>
    -- handle_request: an entry with this token exists and this is not the delayed invocation: "retransmit async
    -- response" (nothing for a NON request), not passed to the handler.  Else the handler runs: coap_find_async finds
    -- nothing, coap_register_async(session, request, d): `delay = d ? now + d : 0`; no response code: nothing is sent
    match st.findHolder sid isDelayed with
    | some _ => st
    | none => st.addHolder sid (.asyncD (if d = 0 then 0 else st.now + d) dur)

/-- `coap_free_endpoint_lkd` (after the fix in W/repo): EVERY session of the endpoint gets its DEL event and is freed.
    A reference still counted at this point can only be the application's (resources, send queue and async entries
    are gone by now); the fixed code voids it (`session->ref = 0`), M voids the application's tokens one by one
    (`dropHolders`, which by `ref_eq_holders` leaves `ref = 0` as well). -/
def St.freeEndpoint (st : St) (ep : Nat × Nat) : St :=
  ((st.epSessions ep.1 ep.2).map (·.sid)).foldl
    (fun acc sid => (acc.dropHolders (acc.holders.filter fun h => h.sid == sid)).reclaim sid) st

def St.freeObjs (st : St) (ids : List Nat) : St := { st with ledger := st.ledger ++ ids.map .free }

/-- outcome of an event for the canonical line: the session that handled a datagram, done, or skipped -/
inductive Outcome where
  | handled (sid : Nat)
  | ok
  | skip
  deriving DecidableEq, Repr

/-- no datagram is injected: the harness does not send an observe request to a deleted resource, and a datagram can
    only arrive on an endpoint of this context -/
def St.rxSkip (st : St) (p : Peer) (r : Req) : Bool :=
  (match r with
    | .obsReg k _ _ => !(k ∈ st.resAlive)
    | .obsDereg k _ _ => !(k ∈ st.resAlive)
    | _ => false) || !((p.lport, p.proto) ∈ st.eps)

/-- the datagram reaches neither a handler nor produces an answer the peer could see (a NON request that repeats the
    token of a pending delayed response): the harness cannot name the session that handled it -/
def St.silent (st : St) (sid : Nat) : Req → Bool
  | .slow _ _ => (st.findHolder sid isDelayed).isSome
  | _ => false

/-- the same for a message on a stream: a repeated GET /a is not answered either (there is no ACK to repeat) -/
def St.silentStream (st : St) (sid : Nat) : Req → Bool
  | .slow _ _ => (st.findHolder sid isDelayed).isSome
  | .async => (st.findHolder sid isAsyncPlain).isSome
  | _ => false

/-- requests the handlers of the harness answer at once (2.05): the peer of a stream session counts the answer -/
def Req.answered : Req → Bool
  | .plain => true
  | .obsReg _ _ _ => true
  | .obsDereg _ _ _ => true
  | _ => false

/-- `coap_session_disconnected_lkd(session, COAP_NACK_NOT_DELIVERABLE)`: delayqueue purged, coap_delete_observers,
    `state = NONE` on a reliable session (UDP: ESTABLISHED), con_active = 0, the partly received PDU is deleted,
    coap_cancel_session_messages; a reliable session's socket is closed.  Async entries STAY. -/
def St.disconnectSess (st : St) (s : Sess) : St :=
  let st1 := st.dropHolders (st.holdersOf s.sid isAnyObs)
  let st2 := st1.updSess s.sid fun t =>
    { t with conActive := 0, delayq := 0, closed := t.closed || s.peer.reliable, pend := 0 }
  let st3 := st2.dropPartial s.sid
  st3.dropHolders (st3.holdersOf s.sid isNode)

def St.step (st : St) (e : Event) : St × Outcome :=
  if st.freed then (st, .skip) else
  match e with
  | .rx p r =>
    if st.rxSkip p r then (st, .skip) else
    if p.reliable then
      -- a whole message on a stream peer's connection (the peer has one, is not in the middle of another message)
      match st.lookup p with
      | none => (st, .skip)
      | some s =>
        if s.closed || s.pend ≠ 0 then (st, .skip) else
        -- coap_io_do_epoll_lkd: reference; coap_read_session: `last_rx_tx = now`, the PDU is collected in partial_pdu,
        -- detached, dispatched, deleted; release; prepare pass.  The 2.05 is written to the stream.
        let st1 := st.updSess s.sid fun t =>
          { t with last := st.now, notes := if r.answered then t.notes + 1 else t.notes }
        ((st1.serve s.sid r).prepareIo, if st1.silentStream s.sid r then .ok else .handled s.sid)
    else
    let (st1, sid) := st.getSession p
    -- coap_read_endpoint (after fix 0081e3a): `coap_session_reference_lkd(session); coap_handle_dgram_for_proto(…);
    -- coap_session_release_lkd(session);` — while the datagram is handled every release inside (coap_delete_observer in
    -- handle_request / coap_add_observer, coap_delete_node_lkd at `cleanup:`) leaves `ref ≥ 1`, so nothing is freed in
    -- the middle of the dispatch; the bracket's own release is the one that frees a client session nothing refers to
    -- any more (`St.clientFree`; the bracket's `++ref … --ref` is modelled by its net effect).
    -- coap_io_do_epoll_lkd ends with coap_io_prepare_epoll_lkd
    (((st1.serve sid r).clientFree sid).prepareIo, if st1.silent sid r then .ok else .handled sid)
  | .rst p =>
    match st.lookup p with
    | none => (st, .skip)
    | some s =>
      match st.findHolder s.sid isNode with
      | none => (st, .skip)
      | some h =>
        let (st1, sid) := st.getSession p
        let st2 := st1.updSess sid fun t => { t with conActive := t.conActive - 1 }
        -- … `coap_session_connected(session)`: a Confirmable that waited in the delay queue is sent and queued …
        ((((st2.flushDelayed sid).dropHolder h).clientFree sid).prepareIo, .handled sid)
  | .ack p bad =>
    -- ACK branch of coap_dispatch (and the invalid-code-class branch at its top): `coap_remove_from_queue(&sendqueue,
    -- session, pdu->mid, &sent)`, `con_active--`, `coap_session_connected(session)`; an empty ACK needs no further
    -- handling, a bad one: `packet_is_bad = 1`; both `goto cleanup`:
    -- `if (packet_is_bad) { if (sent) coap_handle_nack(session, sent->pdu, COAP_NACK_BAD_RESPONSE, sent->id); … }
    --  coap_delete_node_lkd(sent);` — the node, its PDU and its session reference go in BOTH cases
    match st.lookup p with
    | none => (st, .skip)
    | some s =>
      match st.findHolder s.sid isNode with
      | none => (st, .skip)
      | some h =>
        let (st1, sid) := st.getSession p
        let st2 := st1.updSess sid fun t => { t with conActive := t.conActive - 1 }
        ((((st2.flushDelayed sid).dropHolder h).clientFree sid).prepareIo, if bad then .handled sid else .ok)
  | .sendCon p =>
    match st.lookup p with
    | none => (st, .skip)
    | some s =>
      -- coap_send_lkd: `type == COAP_SESSION_TYPE_CLIENT && !coap_netif_available(session)` → "Socket closed", the PDU is
      -- deleted, COAP_INVALID_MID
      if s.peer.reliable || s.client then (st, .skip)
      else if s.conActive ≥ NSTART then
        -- coap_send_pdu: `pdu->type == CON && con_active >= NSTART` → coap_session_delay_pdu(session, pdu, NULL):
        -- coap_new_node, LL_APPEND(session->delayqueue, node); nothing is sent, NO reference is taken
        ((st.updSess s.sid fun t => { t with delayq := t.delayq + 1 }).addPartial s.sid, .ok)
      else
        -- sent (`con_active++`, `last_rx_tx = now`), coap_new_node, coap_wait_ack: reference, into the sendqueue
        let st1 := st.updSess s.sid fun t => { t with conActive := t.conActive + 1, last := st.now }
        (st1.addHolder s.sid (.node 0 (st.now + ACK_TIMEOUT_TICKS)), .ok)
  | .ping p =>
    match st.lookup p with
    | none => (st, .skip)
    | some s =>
      -- … `|| (type == COAP_SESSION_TYPE_CLIENT && !coap_netif_available(session))` → COAP_INVALID_MID
      if s.conActive ≠ 0 || s.client then (st, .skip)
      else
        let st1 := st.updSess s.sid fun t => { t with conActive := t.conActive + 1, last := st.now }
        (st1.addHolder s.sid (.node 0 (st.now + ACK_TIMEOUT_TICKS)), .ok)
  | .asyncFree p =>
    match st.lookup p with
    | none => (st, .skip)
    | some s =>
      match st.findHolder s.sid isAsyncPlain with
      | none => (st, .skip)
      | some h => (st.releaseHolder h, .ok)
  | .appRef p =>
    match st.lookup p with
    | none => (st, .skip)
    | some s => (st.addHolder s.sid .app, .ok)
  | .appRelease p =>
    match st.lookup p with
    | none => (st, .skip)
    | some s =>
      match st.findHolder s.sid isApp with
      | none => (st, .skip)
      | some h => (st.releaseHolder h, .ok)
  | .disconnect p =>
    match st.lookup p with
    | none => (st, .skip)
    | some s =>
      -- SPEC DECISION D17: the application uses the pointer of a CLIENT session only while it holds a reference on it
      if s.client && (st.findHolder s.sid isApp).isNone && (st.findHolder s.sid isHome).isNone then (st, .skip)
      else (st.disconnectSess s, .ok)
  | .callHome p =>
    match st.lookup p with
    | none => (st, .skip)
    | some s =>
      -- coap_session_set_type_client: only a SERVER session (return 0 otherwise); D16: datagram sessions
      if s.client || p.reliable then (st, .skip)
      else ((st.updSess s.sid fun t => { t with client := true }).addHolder s.sid .home, .ok)
  | .endCallHome p =>
    match st.lookup p with
    | none => (st, .skip)
    | some s =>
      match st.findHolder s.sid isHome with
      | none => (st, .skip)
      | some h =>
        -- at ANY time (D16 lifted).  coap_session_release_lkd: `--ref` (the application's token goes), then
        -- `ref == 0 && type == CLIENT` → coap_session_free: unlinked from its endpoint's table, freed, no event;
        -- `ref ≠ 0`: the session lives on as a CLIENT session until its last holder lets go (`St.releaseHolder`)
        ((st.dropHolder h).clientFree s.sid, .ok)
  | .connect p =>
    if !p.reliable || !((p.lport, p.proto) ∈ st.eps) then (st, .skip) else
    match st.lookup p with
    | some _ => (st, .skip)                          -- the session of the peer's previous connection still exists
    | none =>
      -- accept: coap_new_server_session (`last_rx_tx = now`), prepare pass; the peer's CSM: read event
      -- (`last_rx_tx = now` — the clock may have moved on in the pass), prepare pass
      let st1 := (st.newSession p).prepareIo
      ((st1.updSess st.next fun t => { t with last := st1.now }).prepareIo, .ok)
  | .partialRx p c =>
    match st.lookup p with
    | none => (st, .skip)
    | some s =>
      if !p.reliable || s.closed || s.pend ≠ 0 || c = 0 || c ≥ PART_LEN then (st, .skip) else
      -- coap_read_session: `last_rx_tx = now`; the first PART_HDR bytes go to `read_header`, with the last of them
      -- `session->partial_pdu = coap_pdu_init(…)`, the following bytes are copied into it; `partial_read = c`
      let st1 := st.updSess s.sid fun t => { t with last := st.now, pend := c }
      ((if c ≥ PART_HDR then st1.addPartial s.sid else st1).prepareIo, .ok)
  | .restRx p =>
    match st.lookup p with
    | none => (st, .skip)
    | some s =>
      if !p.reliable || s.closed || s.pend = 0 then (st, .skip) else
      -- the message is complete: `partial_pdu = NULL; partial_read = 0`, coap_dispatch (GET /r: 2.05), coap_delete_pdu
      let st1 := st.updSess s.sid fun t => { t with last := st.now, pend := 0, notes := t.notes + 1 }
      ((st1.dropPartial s.sid).prepareIo, .handled s.sid)
  | .peerClose p =>
    match st.lookup p with
    | none => (st, .skip)
    | some s =>
      if !p.reliable || s.closed then (st, .skip) else
      -- coap_read_session: the read fails (EOF), coap_session_disconnected_lkd(NOT_DELIVERABLE); prepare pass
      ((st.disconnectSess s).prepareIo, .ok)
  | .delResource k =>
    if k ∈ st.resAlive then
      -- coap_free_resource: every observer is sent a 4.04 NON notification (fresh message id, last_rx_tx = now), then
      -- removed; the resource's dirty flag goes with it
      let obs := st.holders.filter fun h => isObs k h.kind
      let st1 := obs.foldl (fun acc h =>
        (acc.updSess h.sid fun t => { t with last := st.now, notes := t.notes + 1 }).releaseHolder h) st
      ({ st1 with resAlive := st1.resAlive.filter (· ≠ k), dirty := st1.dirty.filter (· ≠ k) }, .ok)
    else (st, .skip)
  | .changed k =>
    if k ∈ st.resAlive then
      -- coap_resource_notify_observers_lkd: `if (!r->subscribers) return 0; r->dirty = 1; observe_pending = 1`
      if st.holders.any (fun h => isObs k h.kind) then ({ st with dirty := k :: st.dirty.filter (· ≠ k) }, .ok)
      else (st, .ok)
    else (st, .skip)
  | .noteRst p j =>
    match st.lookup p with
    | none => (st, .skip)
    | some s =>
      if j < s.notes then
        let (st1, sid) := st.getSession p
        (((st1.rstNote sid (s.notes - j)).clientFree sid).prepareIo, .handled sid)
      else (st, .skip)
  | .noteAck p j =>
    match st.lookup p with
    | none => (st, .skip)
    | some s =>
      if j < s.notes then
        -- ACK branch: coap_remove_from_queue finds nothing, an empty ACK needs no further handling
        (((st.getSession p).1.clientFree (st.getSession p).2).prepareIo, .ok)
      else (st, .skip)
  | .advance d => ({ st with now := st.now + d }, .ok)
  | .io => (st.prepareIo, .ok)
  | .ioStale d => (st.prepareIoAt (st.now - d), .ok)
  | .setMaxIdle n => ({ st with maxIdle := n }, .ok)
  | .setTimeout n => ({ st with timeout := n }, .ok)
  | .ownClient _ => (st.newOwned, .ok)
  | .freeContext =>
    -- coap_free_context_lkd: resources (observers), send queue, async, endpoints (sessions), context
    -- (each of the three is a coap_session_release_lkd: a client session whose last holder goes here is freed here)
    let st1 := st.releaseHolders (st.holders.filter fun h => isAnyObs h.kind)
    let st2 := st1.releaseHolders (st1.holders.filter fun h => isNode h.kind)
    let st3 := st2.releaseHolders (st2.holders.filter fun h => isAsync h.kind)
    let st4 := st3.eps.foldl St.freeEndpoint st3
    -- … endpoints (sessions), the client sessions of context->sessions (ledger objects among `ctxObjs`), context
    ({ (st4.freeObjs st4.ctxObjs) with ctxObjs := [], resAlive := [], freed := true }, .ok)

/-- a fresh server context: the context object, its endpoints and resources are ledger objects 1..n -/
def St.init (eps : List (Nat × Nat)) (nres : Nat) : St :=
  let n := 1 + eps.length + nres
  let ids := (List.range n).map (· + 1)
  { eps := eps.reverse, resAlive := [0, 1], ctxObjs := ids, ledger := ids.map .alloc, next := n + 1 }

def St.run (st : St) (es : List Event) : St := es.foldl (fun s e => (s.step e).1) st

end Coap.Sessions
