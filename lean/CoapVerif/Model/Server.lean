import CoapVerif.Spec.Server
import CoapVerif.Generated.ServerTables
/-
M — transcription, in code order, of the request path of coap_dispatch() and of handle_request(), no_response(),
coap_new_error_response(), check_token_size(), coap_option_check_critical(), coap_get_uri_path(), coap_get_query()
and of the 5.08 fix-up in coap_send_internal() (src/coap_net.c, src/coap_uri.c), for one datagram arriving at a UDP
endpoint of a fresh context (no OSCORE context, no async state, block mode 0, Q-Block not enabled, no Echo pending);
the last section (`serverDecisionA`, `serverSeq`) covers a datagram that finds deferred responses (coap_async.c) and
`last_con_mid` left by earlier datagrams of the same or of other peers.
Finite tables come from T1 (Generated/ServerTables.lean).  External calls are parameters: the application handler
(`Request.verdict`), coap_split_proxy_uri (`Request.pu`), the text of the local address used by 5.08 (`localAddrText`),
the listing of /.well-known/core (`Body.wellknown`, C20).
-/
namespace Coap.Server.M
open Coap.Generated.Server

/-! ### coap_opt_filter_t: `filterShort` slots for numbers ≤ 255, `filterLong` slots above -/
structure Filter where
  short : List Nat
  long : List Nat
  deriving DecidableEq, Repr

def Filter.empty : Filter := ⟨[], []⟩
def Filter.get (f : Filter) (n : Nat) : Bool := if n > 255 then f.long.contains n else f.short.contains n
/-- FILTER_SET: 1 if already present or stored, 0 if no free slot -/
def Filter.set (f : Filter) (n : Nat) : Filter × Bool :=
  if f.get n then (f, true)
  else if n > 255 then
    if f.long.length < filterLong then ({ f with long := f.long ++ [n] }, true) else (f, false)
  else
    if f.short.length < filterShort then ({ f with short := f.short ++ [n] }, true) else (f, false)
def Filter.unset (f : Filter) (n : Nat) : Filter :=
  if n > 255 then { f with long := f.long.filter (· != n) } else { f with short := f.short.filter (· != n) }

/-- ctx->known_options after coap_register_option() for every number of cfg.known -/
def knownFilter (cfg : Cfg) : Filter := cfg.known.foldl (fun f n => (f.set n).1) Filter.empty

/-! ### handler tables: constructor presets + the application's coap_register_request_handler() calls -/
def mbit (m i : Nat) : Bool := m / 2 ^ i % 2 == 1

/-- r->handler[] (as a bit mask) of a resource whose constructor registered `actual` by itself, after an application
that wants handlers exactly for `mask` and knows the constructor to register `doc` (coap_resource(3)) has made its
calls: it registers what `doc` lacks, unregisters what it does not want and leaves the rest to the constructor -/
def effMask (doc actual mask : Nat) : Nat :=
  (List.range 7).foldl (fun acc i =>
    acc + (if (if mbit mask i then (!mbit doc i || mbit actual i) else (!mbit doc i && mbit actual i)) then 2 ^ i else 0)) 0

/-- the handler tables of the real resources: what the constructors preset (T1) and the application's registrations -/
def implTable (t : Table) : Table :=
  ⟨t.unk.map fun u => { u with mask := effMask S.docPresetUnk presetUnk u.mask },
   t.prx.map fun p => { p with mask := effMask S.docPresetPrx presetPrx p.mask },
   t.res.map fun r => { r with mask := effMask S.docPresetRes presetRes r.mask }⟩

/-! ### coap_option_check_critical -/
structure Crit where
  ok : Bool
  unknown : Filter
  critOpt : Bool       -- pdu->crit_opt
  last : Option Nat    -- last_number
  stop : Bool          -- the `break` out of the while loop
  deriving DecidableEq, Repr

/-- one iteration of the while loop for option number `n`.  `proxyFwd`: request ∧ ctx->proxy_uri_resource ∧ the PDU has
Proxy-Uri or Proxy-Scheme. -/
def critStep (known : Filter) (proxyFwd : Bool) (st : Crit) (n : Nat) : Crit :=
  if st.stop then st else
  -- the switch on odd numbers
  let st1 : Crit :=
    if n % 2 = 1 then
      if n = 19 ∨ n = 31 then
        -- COAP_OPTION_Q_BLOCK1/2 with !(ctx->block_mode & COAP_BLOCK_TRY_Q_BLOCK)
        { st with ok := false, unknown := (st.unknown.set n).1 }
      else if criticalBuiltin.contains n then st
      else
        -- default: (also COAP_OPTION_OSCORE without ctx->p_osc_ctx)
        if known.get n then st
        else if n / 2 % 2 = 0 ∧ proxyFwd then { st with critOpt := true }
        else
          -- the `break` after a failed coap_option_filter_set only leaves the switch
          { st with ok := false, unknown := (st.unknown.set n).1 }
    else st
  if st1.last = some n then
    if nonRepeatable.contains n then
      -- ok = 0; if (coap_option_filter_set(...) == 0) break;
      let s := st1.unknown.set n
      { st1 with ok := false, unknown := s.1, last := some n, stop := !s.2 }
    else { st1 with last := some n }
  else
    -- (Block2 in a request: M bit cleared in place, see `viewOpts`; the scan's result does not depend on it)
    { st1 with last := some n }

def critCheck (known : Filter) (proxyFwd : Bool) (os : Opts) : Crit :=
  (os.map (·.1)).foldl (critStep known proxyFwd) ⟨true, Filter.empty, false, none, false⟩

/-! ### request view -/
/- coap_encode_var_safe = `minimalUint`, coap_get_block_b on UDP = `block`, the Block2 M-bit clearing of
   coap_option_check_critical = `clearBlock2M`, coap_update_option(Hop-Limit) = `setHop`: value formats shared with S
   (Spec/Server.lean, vocabulary). -/

/-- coap_get_uri_path() without Proxy-Uri -/
def uriPathLoop : (first : Bool) → Opts → Bytes
  | _, [] => []
  | first, (n, v) :: r =>
    if n = 11 then (if first then [] else [47]) ++ pctEncode unescPath v ++ uriPathLoop false r
    else uriPathLoop first r
def uriPath (os : Opts) : Bytes := uriPathLoop true os

def queryLoop : (first : Bool) → Opts → Bytes
  | _, [] => []
  | first, (n, v) :: r =>
    if n = 15 then (if first then [] else [38]) ++ pctEncode unescQuery v ++ queryLoop false r
    else queryLoop first r
/-- coap_get_query() (NULL and the empty string print alike) -/
def query (os : Opts) : Bytes := queryLoop true os

/-! ### replies -/
def phraseOf (code : Nat) : Bytes :=
  match phrases.lookup code with
  | some p => p.map UInt8.ofNat
  | none => []

def respType (reqType : Nat) : Nat := if reqType = CON then ACK else NON

/-- the copy loop of coap_new_error_response(): coap_add_option_internal() refuses a second instance of a
non-repeatable number (`number == pdu->max_opt`, max_opt starts at 0) -/
def echoLoop (f : Filter) : (maxOpt : Nat) → Opts → Opts
  | _, [] => []
  | mx, (n, v) :: r =>
    if f.get n then
      if n = mx ∧ nonRepeatable.contains n then echoLoop f mx r
      else (n, v) :: echoLoop f n r
    else echoLoop f mx r

/-- coap_new_error_response() on the request PDU as coap_option_check_critical() left it (`os`) -/
def errReply (m : Msg) (os : Opts) (code : Nat) (flt : Filter) : Reply :=
  let f := ((flt.unset 12).unset 16).unset 9
  { src := .lib, type := respType m.type, code := code, mid := m.mid, token := m.token,
    opts := echoLoop f 0 os,
    body := .bytes (if code = 168 then [] else phraseOf code) }

/-- coap_send_message_type_lkd(): empty message of the given type -/
def emptyMsg (type mid : Nat) : Reply := ⟨.lib, type, 0, mid, [], [], .bytes []⟩

/-- the address the datagram was sent to, as coap_print_addr() prints it without port (a constant of the harness) -/
def localAddrText (mcast : Bool) : Bytes :=
  if mcast then [50, 50, 52, 46, 48, 46, 49, 46, 49, 56, 55]   -- "224.0.1.187"
  else [49, 50, 55, 46, 48, 46, 48, 46, 49]                    -- "127.0.0.1"

/-- coap_send_internal(): a 5.08 without Hop-Limit option and without data gets Hop-Limit 255 and the address -/
def sendFix (mcast : Bool) (r : Reply) : Reply :=
  if r.code = 168 ∧ ¬ hasOpt r.opts 16 ∧ r.body = .bytes [] then
    { r with opts := (r.opts.filter (·.1 < 16)) ++ (16, [255]) :: r.opts.filter (·.1 ≥ 16), body := .bytes (localAddrText mcast) }
  else r

inductive Respond where
  | dflt | drop | send
  deriving DecidableEq, Repr

/-- the tail of no_response(): "Do not send error responses for requests that were received via IP multicast" -/
def mcastTail (cfg : Cfg) (rq : Request) (resFlags : Option Nat) (r : Reply) : Respond :=
  if rq.mcast then
    if rq.msg.type = NON ∧ r.type = RST then .drop
    else if (resFlags.isNone ∨ cfg.mpr = false) ∧ codeClass r.code > 2 then .drop
    else .dflt
  else .dflt

/-- no_response(): the verdict and the (possibly emptied) response -/
def noResponse (cfg : Cfg) (rq : Request) (resFlags : Option Nat) (r : Reply) : Respond × Reply :=
  let cls := codeClass r.code
  if cls > 0 then
    match firstOpt rq.msg.opts 258 with
    | some v =>
      let val := uintOf v % 4294967296
      if (2 ^ (cls - 1)) &&& val > 0 then
        if r.type = ACK then (.send, emptied r)
        else (.drop, r)
      else (.send, r)
    | none =>
      match resFlags with
      | some fl =>
        if cfg.mpr ∧ rq.mcast then
          if flag fl F_SUPPRESS_2_XX ∧ cls = 2 then (.drop, r)
          else if flag fl F_SUPPRESS_2_05 ∧ r.code = 69 then
            if r.body = .bytes [] then (.drop, r) else (mcastTail cfg rq resFlags r, r)
          else if ¬ flag fl F_DIS_SUPPRESS_4_XX ∧ cls = 4 then (.drop, r)
          else if ¬ flag fl F_DIS_SUPPRESS_5_XX ∧ cls = 5 then (.drop, r)
          else (mcastTail cfg rq resFlags r, r)
        else (mcastTail cfg rq resFlags r, r)
      | none => (mcastTail cfg rq resFlags r, r)
  else if r.code = 0 ∧ r.type = NON then (.drop, r)
  else (mcastTail cfg rq resFlags r, r)

/-- "No delays to response": coap_send_internal(); else the leisure-delayed path (coap_wait_ack), which skips the 5.08 fix-up -/
def immediate (cfg : Cfg) (rq : Request) (resFlags : Option Nat) : Bool :=
  !rq.mcast || (cfg.mpr && (match resFlags with | some fl => flag fl F_DIS_MCAST_DELAYS | none => false))

/-- skip_handler: after no_response — Observe removal, empty-ACK token stripping, send -/
def post (cfg : Cfg) (rq : Request) (resFlags : Option Nat) (observe : Bool) (p : Respond × Reply) : List Reply :=
  if p.1 = .drop then [] else
  -- coap_remove_option(response, COAP_OPTION_OBSERVE) unless 2.xx; "Remove token from otherwise-empty acknowledgment PDU"
  let r3 := ackStrip (stripObserve observe p.2)
  [if immediate cfg rq resFlags then sendFix rq.mcast r3 else r3]

def deliver (cfg : Cfg) (rq : Request) (resFlags : Option Nat) (observe : Bool) (r : Reply) : List Reply :=
  post cfg rq resFlags observe (noResponse cfg rq resFlags r)

/-! ### handle_request -/
/- where a block of handle_request() leaves is a `Pre` (Spec/Server.lean, vocabulary): `.fail resp resource` is
   `resp = …; goto fail_response` with the value `resource` has at that point (none = NULL, some flags), `.ignore` is
   `return`, `.go` is falling through with what the block computed -/
abbrev Jump := Pre

/-- `uri_path = coap_get_uri_path(pdu); if (!uri_path) return;` -/
def pathBlock (rq : Request) (isProxy : Bool) (os : Opts) : Jump :=
  if hasOpt os 35 then (match rq.pu with | .ok _ p => .go isProxy os p | _ => .ignore)
  else .go isProxy os (uriPath os)

/-- `if (!skip_hop_limit_check) { … COAP_OPTION_HOP_LIMIT … }` then the path -/
def hopBlock (rq : Request) (isProxy skipHop : Bool) (os : Opts) : Jump :=
  if skipHop then pathBlock rq isProxy os else
  match firstOpt os 16 with
  | none => pathBlock rq isProxy os
  | some v =>
    let hop := uintOf v % 4294967296
    if hop = 1 then .fail 168 none
    else if hop < 1 ∨ hop > 255 then .fail 128 none
    else pathBlock rq isProxy (setHop (hop - 1) os)

/-- lines "Proxy-Scheme requires Uri-Host" … `uri_path = coap_get_uri_path(pdu)`: proxy options, Hop-Limit, path -/
def preStage (tbl : Table) (rq : Request) (critOpt : Bool) (os : Opts) : Jump :=
  let m := rq.msg
  if hasOpt os 39 ∧ ¬ hasOpt os 3 then .fail 130 none else
  if hasOpt os 39 ∨ hasOpt os 35 then
    match tbl.prx with
    | none => .fail 165 none
    | some p =>
      if 1 ≤ m.code ∧ m.code ≤ 7 ∧ ¬ handlerBit p.mask m.code then .fail 165 none else
      -- uri.host: from coap_split_proxy_uri (Proxy-Uri) or the Uri-Host option
      let host : Option Bytes :=
        if hasOpt os 35 then (match rq.pu with | .ok h _ => some h | _ => none)
        else some ((firstOpt os 3).getD [])
      match host with
      | none => .fail 165 none
      | some h =>
        -- proxy_name_count = 1: "this server is hosting the proxy connection endpoint"
        if h.length ≠ 0 ∧ (p.name.length = 0 ∨ h = p.name) then
          if critOpt then .fail 130 (some p.flags) else hopBlock rq false true os
        else hopBlock rq true false os
  else hopBlock rq false false os

/-- "try to find the resource from the request URI" … the selection cascade; inl = `resp` of `goto fail_response` -/
def selectStage (tbl : Table) (code : Nat) (isProxy : Bool) (path : Bytes) : Nat ⊕ Sel :=
  let found : Option Sel := if isProxy then none else (findRes tbl.res path 0).map fun x => Sel.res x.1 x.2
  let unkFor : Option Special :=
    match tbl.unk with
    | some u => if handlerBit u.mask code then some u else none
    | none => none
  match found with
  | some s => .inr s
  | none =>
    if isProxy then (match tbl.prx with | some p => .inr (.prx p) | none => .inl 160)
    else match unkFor with
      | some u => if flag u.flags F_HANDLE_WKC then .inr (.unk u)
                  else if path = wellKnownCore then .inr .wk else .inr (.unk u)
      | none =>
        if path = wellKnownCore then .inr .wk
        else if code = 4 then .inl 66
        else .inl 132

/-- OSCORE-only … per-resource multicast support: `resp` of `goto fail_response`, or none -/
def checkStage (cfg : Cfg) (rq : Request) (os : Opts) (sel : Sel) : Option Nat :=
  if flag sel.flags F_OSCORE_ONLY then some 129 else
  if sel.exists_ ∧ hasOpt os 5 then some 140 else
  if ¬ handlerBit sel.mask rq.msg.code then some 133 else
  if rq.msg.code = 5 ∧ ¬ hasOpt os 12 then some 143 else
  if cfg.mpr ∧ ¬ flag sel.flags F_HAS_MCAST ∧ rq.mcast then some 133 else none

/-- "check for Observe option" … coap_add_observer: none = `response->code = 4.00; goto skip_handler` (Block2 NUM ≠ 0 in
a registration), else the response so far (Observe option added for a registration; resource->observe starts at 2) -/
def obsStage (os : Opts) (observe : Bool) (resp0 : Reply) : Option Reply :=
  if observe then
    let action := uintOf ((firstOpt os 6).getD []) % 4294967296
    if action = 0 then
      match (firstOpt os 23).bind block with
      | some (num, _, _) => if num ≠ 0 then none else some { resp0 with opts := [(6, [2])] }
      | none => some { resp0 with opts := [(6, [2])] }
    else some resp0
  else some resp0

/-- "send_early_empty_ack" … handler call … skip_handler … the end of handle_request() -/
def callStage (cfg : Cfg) (rq : Request) (os : Opts) (path : Bytes) (sel : Sel) (observe : Bool) (resp1 : Reply) : Outcome :=
  let m := rq.msg
  let fl := some sel.flags
  -- proxy: early empty ACK, the response becomes a separate CON
  let early : Bool := sel.isPrx && m.type == CON
  let pre : List Reply := if early then [emptyMsg ACK m.mid] else []
  match sel.who with
  | none =>
    -- hnd_get_wellknown_lkd
    let r : Reply := { resp1 with code := 69, opts := [(12, [40])], body := .wellknown }
    ⟨true, pre ++ deliver cfg rq fl observe r, none⟩
  | some who =>
    let call : Call := ⟨who, m.code, path, query os, os, m.payload⟩
    let r : Reply := { resp1 with code := if rq.verdict.code = 0 then resp1.code else rq.verdict.code,
                                  body := .bytes rq.verdict.payload }
    -- coap_check_code_class(session, response)
    if ¬ inIvs codeOk r.code then ⟨true, pre, some call⟩ else
    let r := if early then { r with type := CON } else r
    if early ∧ r.code = 0 then ⟨true, pre, some call⟩ else
    ⟨true, pre ++ deliver cfg rq fl observe r, some call⟩

/-- `response = coap_pdu_init(...)` … the end of handle_request() -/
def runStage (cfg : Cfg) (rq : Request) (os : Opts) (path : Bytes) (sel : Sel) : Outcome :=
  let m := rq.msg
  let resp0 : Reply := ⟨.app, respType m.type, 0, m.mid, m.token, [], .bytes []⟩
  let observe : Bool := sel.observable && (m.code == 1 || m.code == 5) && hasOpt os 6
  match obsStage os observe resp0 with
  | none => ⟨true, deliver cfg rq (some sel.flags) observe { resp0 with src := .lib, code := 128 }, none⟩
  | some resp1 => callStage cfg rq os path sel observe resp1

/-- fail_response: coap_new_error_response(pdu, resp, &opt_filter /* empty */) then `goto skip_handler` -/
def failResponse (cfg : Cfg) (rq : Request) (os : Opts) (resp : Nat) (resource : Option Nat) : Outcome :=
  ⟨true, deliver cfg rq resource false (errReply rq.msg os resp Filter.empty), none⟩

def handleRequest (cfg : Cfg) (tbl : Table) (rq : Request) (critOpt : Bool) (os : Opts) : Outcome :=
  if rq.mcast ∧ rq.msg.type ≠ NON then Outcome.nothing else
  -- (no async state on a fresh context)
  match preStage tbl rq critOpt os with
  | .fail resp res => failResponse cfg rq os resp res
  | .ignore => Outcome.nothing
  | .go isProxy os' path =>
    match selectStage tbl rq.msg.code isProxy path with
    | .inl resp => failResponse cfg rq os' resp none
    | .inr sel =>
      match checkStage cfg rq os' sel with
      | some resp => failResponse cfg rq os' resp (some sel.flags)
      | none => runStage cfg rq os' path sel

/-! ### coap_dispatch, request path -/
def serverDecision (cfg : Cfg) (tbl : Table) (rq : Request) : Outcome :=
  let m := rq.msg
  -- coap_check_code_class
  if ¬ inIvs codeOk m.code then
    ⟨true, if m.type = CON then [emptyMsg RST m.mid] else [], none⟩
  else if ¬ isRequestCode m.code then Outcome.outOfScope            -- Empty / responses: C07
  else if rq.verdict.code = 168 then Outcome.outOfScope              -- D8
  else
  let proxyFwd := tbl.prx.isSome ∧ (hasOpt m.opts 35 ∨ hasOpt m.opts 39)
  let c := critCheck (knownFilter cfg) proxyFwd m.opts
  if ¬ c.ok then
    if m.type = NON then
      -- RFC 7252 §8.1: no Reset in reply to a multicast NON
      ⟨true, if rq.mcast then [] else [emptyMsg RST m.mid], none⟩
    else if m.type = CON then ⟨true, [errReply m (clearBlock2M m.opts) 130 c.unknown], none⟩
    else Outcome.nothing
  else if hasOpt m.opts 9 then Outcome.outOfScope                    -- registered OSCORE option: coap_oscore.c
  else if m.type = ACK then Outcome.nothing                          -- "Request using ACK - ignore"
  else if m.type = RST then Outcome.nothing
  else
  -- check_token_size (server session)
  if m.token.length > cfg.mts then
    if cfg.mts > 8 then ⟨true, [errReply m (clearBlock2M m.opts) 128 Filter.empty], none⟩
    else ⟨true, if rq.mcast ∧ m.type = NON then [] else [emptyMsg RST m.mid], none⟩
  else handleRequest cfg tbl rq c.critOpt (clearBlock2M m.opts)

/-! ### a request that finds state left by earlier datagrams at the same context
`hit`: `coap_find_async_lkd(session, pdu->actual_token)` finds a registration (a handler deferred the response to an
earlier request of this session with this token by coap_register_async(…, delay 0): `async->delay == 0`);
`dup`: `pdu->mid == session->last_con_mid`.  With `hit = dup = false` these are the functions above
(`serverDecisionA_fresh` in Lemmas/ServerSeq.lean). -/

def runStageA (dup : Bool) (cfg : Cfg) (rq : Request) (os : Opts) (path : Bytes) (sel : Sel) : Outcome :=
  -- `if (send_early_empty_ack) { coap_send_ack_lkd(session, pdu); if (pdu->mid == session->last_con_mid) goto drop_it_no_debug;`
  -- (the Observe block in front of it does nothing for the proxy resource: it is never observable)
  if sel.isPrx ∧ rq.msg.type = CON ∧ dup then ⟨true, [emptyMsg ACK rq.msg.mid], none⟩
  else runStage cfg rq os path sel

def handleRequestA (hit dup : Bool) (cfg : Cfg) (tbl : Table) (rq : Request) (critOpt : Bool) (os : Opts) : Outcome :=
  if rq.mcast ∧ rq.msg.type ≠ NON then Outcome.nothing else
  -- `async = coap_find_async_lkd(session, pdu->actual_token); if (async) { … "Retransmit async response"
  --  coap_send_ack_lkd(session, pdu) /* only if CON */; return; }`
  if hit then ⟨true, if rq.msg.type = CON then [emptyMsg ACK rq.msg.mid] else [], none⟩ else
  match preStage tbl rq critOpt os with
  | .fail resp res => failResponse cfg rq os resp res
  | .ignore => Outcome.nothing
  | .go isProxy os' path =>
    match selectStage tbl rq.msg.code isProxy path with
    | .inl resp => failResponse cfg rq os' resp none
    | .inr sel =>
      match checkStage cfg rq os' sel with
      | some resp => failResponse cfg rq os' resp (some sel.flags)
      | none => runStageA dup cfg rq os' path sel

def serverDecisionA (hit dup : Bool) (cfg : Cfg) (tbl : Table) (rq : Request) : Outcome :=
  let m := rq.msg
  if ¬ inIvs codeOk m.code then
    ⟨true, if m.type = CON then [emptyMsg RST m.mid] else [], none⟩
  else if ¬ isRequestCode m.code then Outcome.outOfScope
  else if rq.verdict.code = 168 then Outcome.outOfScope
  else
  let proxyFwd := tbl.prx.isSome ∧ (hasOpt m.opts 35 ∨ hasOpt m.opts 39)
  let c := critCheck (knownFilter cfg) proxyFwd m.opts
  if ¬ c.ok then
    if m.type = NON then
      ⟨true, if rq.mcast then [] else [emptyMsg RST m.mid], none⟩
    else if m.type = CON then ⟨true, [errReply m (clearBlock2M m.opts) 130 c.unknown], none⟩
    else Outcome.nothing
  else if hasOpt m.opts 9 then Outcome.outOfScope
  else if m.type = ACK then Outcome.nothing
  else if m.type = RST then Outcome.nothing
  else
  if m.token.length > cfg.mts then
    if cfg.mts > 8 then ⟨true, [errReply m (clearBlock2M m.opts) 128 Filter.empty], none⟩
    else ⟨true, if rq.mcast ∧ m.type = NON then [] else [emptyMsg RST m.mid], none⟩
  else handleRequestA hit dup cfg tbl rq c.critOpt (clearBlock2M m.opts)

/-- the server's outcomes for a sequence of datagrams, starting from history `h` (see `Hist`, `Ev`, `seqRun`) -/
def serverSeq (cfg : Cfg) (tbl : Table) : Hist → List Ev → List Outcome :=
  seqRun (fun hit dup rq => serverDecisionA hit dup cfg tbl rq)

end Coap.Server.M
