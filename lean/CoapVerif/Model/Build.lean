import CoapVerif.Model.Parse
import CoapVerif.Spec.Encode
import CoapVerif.Generated.Repeatable
/-
M — faithful model of libcoap's PDU-building and PDU-editing functions (C01, C04):

  coap_pdu_init, coap_pdu_check_resize / coap_pdu_resize      src/coap_pdu.c
  coap_add_token, coap_update_token                           src/coap_pdu.c
  coap_add_option, coap_add_option_internal                   src/coap_pdu.c
  coap_insert_option, coap_update_option, coap_remove_option  src/coap_pdu.c
  coap_add_data / coap_add_data_after                         src/coap_pdu.c
  coap_pdu_encode_header                                      src/coap_pdu.c
  coap_option_check_repeatable                                = Generated.nonRepeatable (T1)
  coap_opt_setheader, coap_opt_encode, coap_opt_encode_size   src/coap_option.c
  coap_option_iterator_init / coap_option_next / coap_check_option (the walks the editors do)

The PDU is the record below: `buf` are the bytes from `pdu->token` on and `buf.length` is
`used_size`; `data` is `pdu->data - pdu->token`.  Capacity: `coap_pdu_check_resize(pdu, size)`
succeeds iff `max_size == 0 || size <= max_size` (`alloc_size ≤ max_size` is an invariant from
coap_pdu_init on); after a successful check the writes that follow have room, so the realloc
mechanics are not modelled (failure of the realloc itself is C18's subject).  `memmove` + the
`coap_opt_encode` that overwrites the gap are written as one splice `take ofs ++ encoded ++ tail`
(`coap_opt_encode` writes exactly `coap_opt_encode_size` bytes: `optEncode_length`).  Single byte
stores `p[i] = x` go through `wr`, which is `R.oob` outside `used_size`.

Results are `R (rc × Pdu)`: `R.ok (rc, pdu')` with the C return value, `R.oob` when the transcribed
algorithm would access memory outside the message (or dereference NULL behind an `assert`).
The model is the code AFTER the `fix:` commits listed in KNOWN_FINDINGS.txt for C01/C04.
-/
namespace Coap.M

structure Pdu where
  type : Nat
  code : Nat
  mid : Nat
  maxSize : Nat          -- pdu->max_size (0 = unlimited)
  buf : Bytes            -- pdu->token[0 .. used_size)
  etl : Nat              -- pdu->e_token_length (uint32_t)
  tokLen : Nat           -- pdu->actual_token.length
  maxOpt : Nat           -- pdu->max_opt (uint16_t)
  data : Option Nat      -- pdu->data - pdu->token
  deriving Repr, DecidableEq

/-- `coap_pdu_init(type, code, mid, size)`; `none` = NULL (size above COAP_DEFAULT_MAX_PDU_RX_SIZE - max_hdr_size) -/
def pduInit (type code mid size : Nat) : Option Pdu :=
  if size > 8388864 - 6 then none
  else some ⟨type, code, mid, size, [], 0, 0, 0, none⟩

/-- `coap_pdu_check_resize(pdu, size)` / `coap_pdu_resize(pdu, size)` as a capacity test -/
def checkResize (pdu : Pdu) (size : Nat) : Bool :=
  pdu.maxSize = 0 || decide (size ≤ pdu.maxSize)

def repeatable (number : Nat) : Bool := !(Generated.nonRepeatable.contains number)

/-- `p[i .. i+bs.length) = bs` inside the used part of the buffer -/
def wr (buf : Bytes) (i : Nat) (bs : Bytes) : R Bytes :=
  if i + bs.length ≤ buf.length then R.ok (buf.take i ++ bs ++ buf.drop (i + bs.length)) else R.oob

/-- `coap_opt_encode_size(delta, length)` (`delta : uint16_t` narrowed by the caller) -/
def optEncodeSize (delta length : Nat) : Nat :=
  1 + (if delta ≥ 13 then (if delta < 269 then 1 else 2) else 0)
    + (if length ≥ 13 then (if length < 269 then 1 else 2) else 0) + length

/-- `coap_opt_setheader(opt, maxlen, delta, length)` with enough room: the bytes written.
`opt[0] |= x` is written `+ x` (the low nibble of `opt[0]` is still 0 there). -/
def optSetHeader (delta length : Nat) : Bytes :=
  let d : Nat × List Nat :=
    if delta < 13 then ((delta * 16) % 256, [])
    else if delta < 269 then (0xd0, [(delta - 13) % 256])
    else (0xe0, [(delta - 269) / 256 % 256, (delta - 269) % 256])
  let l : Nat × List Nat :=
    if length < 13 then (length % 16, [])
    else if length < 269 then (0x0d, [(length - 13) % 256])
    else (0x0e, [(length - 269) / 256 % 256, (length - 269) % 256])
  (UInt8.ofNat (d.1 + l.1) :: (d.2.map UInt8.ofNat)) ++ l.2.map UInt8.ofNat

/-- `coap_opt_encode(opt, maxlen, delta, val, length)` with enough room: header + value -/
def optEncode (delta : Nat) (val : Bytes) : Bytes := optSetHeader delta val.length ++ val

/-- token length → `bias` (number of extension bytes); `none` = "Token size too large" -/
def tokBias (len : Nat) : Option Nat :=
  if len < 13 then some 0 else if len < 269 then some 1 else if len ≤ 65804 then some 2 else none

/-- the bytes `coap_add_token` / `coap_update_token` store at `pdu->token[0 .. bias)` -/
def tokHdr (len bias : Nat) : Bytes :=
  if bias = 0 then []
  else if bias = 1 then [UInt8.ofNat (len - 13)]
  else [UInt8.ofNat ((len - 269) / 256), UInt8.ofNat ((len - 269) % 256)]

/-- `coap_add_token(pdu, len, data)` (after fix: `actual_token.length` is only stored on success) -/
def addToken (pdu : Pdu) (data : Bytes) : R (Nat × Pdu) :=
  let len := data.length
  if pdu.buf.length ≠ 0 then R.ok (0, pdu) else
  match tokBias len with
  | none => R.ok (0, pdu)
  | some bias =>
    if ¬ checkResize pdu (len + bias) then R.ok (0, pdu) else
    R.ok (1, { pdu with tokLen := len, etl := (len + bias) % 4294967296,
                        buf := if len ≠ 0 then tokHdr len bias ++ data else [],
                        maxOpt := 0, data := none })

/-- `coap_update_token(pdu, len, data)` (after fix: `e_token_length = (uint32_t)(len + bias)`);
`pdu->session == NULL`, so the header is not re-encoded here. -/
def updateToken (pdu : Pdu) (data : Bytes) : R (Nat × Pdu) :=
  if pdu.buf.length = 0 then addToken pdu data else
  let len := data.length
  match tokBias len with
  | none => R.ok (0, pdu)
  | some bias =>
    let n := len + bias
    let moved : Option (Bytes × Option Nat) :=
      if n = pdu.etl then some (pdu.buf, pdu.data)
      else if n > pdu.etl then
        if ¬ checkResize pdu (pdu.buf.length + n - pdu.etl) then none
        -- memmove(&token[n - etl], token, used_size): the first n - etl bytes are stale
        else some (List.replicate (n - pdu.etl) 0 ++ pdu.buf, pdu.data.map (· + (n - pdu.etl)))
      else
        -- used_size -= etl - n; memmove(token, &token[etl - n], used_size)
        some (pdu.buf.drop (pdu.etl - n), pdu.data.map (· - (pdu.etl - n)))
    match moved with
    | none => R.ok (0, pdu)
    | some (buf1, data1) => do
      let buf2 ← if len ≠ 0 then wr buf1 0 (tokHdr len bias ++ data) else R.ok buf1
      R.ok (1, { pdu with tokLen := len, etl := n % 4294967296, buf := buf2, data := data1 })

/-- one delivered option of the iterator: offset from `pdu->token`, option number, parse result -/
structure It where
  ofs : Nat
  num : Nat
  p : OptP
  deriving Repr, DecidableEq

/-- `coap_option_iterator_init(pdu, &oi, COAP_OPT_ALL)` + repeated `coap_option_next`:
the options delivered, in order.  `bs` = bytes from `oi->next_option`, `oi->length = bs.length`. -/
def optIter : (fuel : Nat) → (bs : Bytes) → (ofs number : Nat) → List It
  | 0, _, _, _ => []
  | fuel + 1, bs, ofs, number =>
    match bs with
    | [] => []                                   -- oi->length == 0
    | b :: _ =>
      if b = 0xFF then [] else
      match optParse bs bs.length with
      | R.ok p =>
        let number' := (number + p.delta) % 65536
        ⟨ofs, number', p⟩ :: optIter fuel (bs.drop p.size) (ofs + p.size) number'
      | _ => []                                  -- oi->bad = 1

def items (pdu : Pdu) : List It :=
  optIter (pdu.buf.length + 1) (pdu.buf.drop pdu.etl) pdu.etl 0

/-- the search loop of `coap_insert_option`: first option with a larger number, and `prev_number` -/
def findInsert (number : Nat) : (prev : Nat) → List It → Option (It × Nat)
  | _, [] => none
  | prev, it :: rest => if it.num > number then some (it, prev) else findInsert number it.num rest

/-- the search loop of `coap_remove_option` / `coap_check_option`: first option with that number, and what follows it -/
def findEq (number : Nat) : List It → Option (It × Option It)
  | [] => none
  | it :: rest => if it.num = number then some (it, rest.head?) else findEq number rest

/-- `coap_check_option(pdu, number, &oi) != NULL` -/
def hasOption (pdu : Pdu) (number : Nat) : Bool := (findEq number (items pdu)).isSome

/-- `coap_insert_option` below its first test (`number < pdu->max_opt`) -/
def insertBody (pdu : Pdu) (number : Nat) (data : Bytes) : R (Nat × Pdu) :=
  let len := data.length
  match findInsert number 0 (items pdu) with
  | none => R.oob                                 -- assert(option != NULL)
  | some (it, prevNumber) =>
    let delta := (number - prevNumber) % 65536
    let shift := optEncodeSize delta len
    -- coap_opt_parse(option, used_size - (option - token), &decode) repeats the iterator's parse
    let decode := it.p
    let optDelta := it.num - number
    if optDelta = 0 ∧ ¬ repeatable number then R.ok (0, pdu) else
    if ¬ checkResize pdu (pdu.buf.length + shift) then R.ok (0, pdu) else do
    let o := it.ofs
    let b0 ← rd pdu.buf o
    let (buf1, shrink) ←
      (if decode.delta < 13 then do
        let b ← wr pdu.buf o [UInt8.ofNat (b0 % 16 + (optDelta * 16) % 256)]
        R.ok (b, 0)
      else if decode.delta < 269 ∧ optDelta < 13 then do
        let b ← wr pdu.buf (o + 1) [UInt8.ofNat (b0 % 16 + (optDelta * 16) % 256)]
        R.ok (b, 1)
      else if decode.delta < 269 ∧ optDelta < 269 then do
        let b ← wr pdu.buf (o + 1) [UInt8.ofNat (optDelta - 13)]
        R.ok (b, 0)
      else if optDelta < 13 then do
        let b ← wr pdu.buf (o + 2) [UInt8.ofNat (b0 % 16 + (optDelta * 16) % 256)]
        R.ok (b, 2)
      else if optDelta < 269 then do
        let b ← wr pdu.buf (o + 1) [UInt8.ofNat (b0 % 16 + 0xd0), UInt8.ofNat (optDelta - 13)]
        R.ok (b, 1)
      else do
        let b ← wr pdu.buf (o + 1) [UInt8.ofNat ((optDelta - 269) / 256), UInt8.ofNat ((optDelta - 269) % 256)]
        R.ok (b, 0) : R (Bytes × Nat))
    -- memmove(&option[shift], &option[shrink], …); coap_opt_encode(option, …, number - prev_number, data, len)
    let buf2 := buf1.take o ++ optEncode delta data ++ buf1.drop (o + shrink)
    R.ok (shift, { pdu with buf := buf2, data := pdu.data.map (· + shift - shrink) })

/-- `coap_remove_option(pdu, number)` -/
def removeOption (pdu : Pdu) (number : Nat) : R (Nat × Pdu) :=
  match findEq number (items pdu) with
  | none => R.ok (0, pdu)
  | some (it, next) =>
    -- coap_opt_parse(option, …, &decode_this) repeats the iterator's parse
    let this := it.p
    let o := it.ofs
    match next with
    | none =>
      -- next_option = option + coap_opt_encode_size(decode_this.delta, coap_opt_length(option))
      let n := o + optEncodeSize this.delta this.length
      R.ok (1, { pdu with buf := pdu.buf.take o ++ pdu.buf.drop n,
                          maxOpt := (pdu.maxOpt + 65536 - this.delta) % 65536,   -- uint16_t max_opt -= delta
                          data := pdu.data.map (· - (n - o)) })
    | some nx => do
      let dn := nx.p.delta
      let n := nx.ofs
      let optDelta := this.delta + dn
      let b0 ← rd pdu.buf n
      -- (buffer after the stores, new `next_option` offset, did the buffer grow by one); `none` = return 0
      let patched ←
        (if optDelta < 13 then do
          let b ← wr pdu.buf n [UInt8.ofNat (b0 % 16 + (optDelta * 16) % 256)]
          R.ok (some (b, n, 0))
        else if optDelta < 269 ∧ dn < 13 then do
          let b ← wr pdu.buf (n - 1) [UInt8.ofNat (b0 % 16 + 13 * 16), UInt8.ofNat (optDelta - 13)]
          R.ok (some (b, n - 1, 0))
        else if optDelta < 269 then do
          let b ← wr pdu.buf (n + 1) [UInt8.ofNat (optDelta - 13)]
          R.ok (some (b, n, 0))
        else if dn < 13 then
          if n - o < 2 then
            -- shuffle everything up by one (unreachable: a one-byte option has delta < 13)
            if ¬ checkResize pdu (pdu.buf.length + 1) then R.ok none else do
            let up := pdu.buf.take n ++ (UInt8.ofNat b0 :: pdu.buf.drop n)
            let b ← wr up (n + 1 - 2) [UInt8.ofNat (b0 % 16 + 14 * 16), UInt8.ofNat ((optDelta - 269) / 256),
                                       UInt8.ofNat ((optDelta - 269) % 256)]
            R.ok (some (b, n + 1 - 2, 1))
          else do
            let b ← wr pdu.buf (n - 2) [UInt8.ofNat (b0 % 16 + 14 * 16), UInt8.ofNat ((optDelta - 269) / 256),
                                        UInt8.ofNat ((optDelta - 269) % 256)]
            R.ok (some (b, n - 2, 0))
        else if dn < 269 then do
          let b ← wr pdu.buf (n - 1) [UInt8.ofNat (b0 % 16 + 14 * 16), UInt8.ofNat ((optDelta - 269) / 256),
                                      UInt8.ofNat ((optDelta - 269) % 256)]
          R.ok (some (b, n - 1, 0))
        else do
          let b ← wr pdu.buf (n + 1) [UInt8.ofNat ((optDelta - 269) / 256), UInt8.ofNat ((optDelta - 269) % 256)]
          R.ok (some (b, n, 0)) : R (Option (Bytes × Nat × Nat)))
      match patched with
      | none => R.ok (0, pdu)
      | some (buf1, n1, grown) =>
        if n1 < o then R.oob else
        -- memmove(option, next_option, used_size - (next_option - token)); used_size -= next_option - option
        R.ok (1, { pdu with buf := buf1.take o ++ buf1.drop n1,
                            data := pdu.data.map (· + grown - (n1 - o)) })

/-- `coap_add_option_internal` from `optsize = coap_opt_encode_size(…)` on (`number ≥ max_opt`) -/
def appendOption (pdu : Pdu) (number : Nat) (data : Bytes) : R (Nat × Pdu) :=
  let len := data.length
  let delta := (number - pdu.maxOpt) % 65536
  let optsize := optEncodeSize delta len
  if ¬ checkResize pdu (pdu.buf.length + optsize) then R.ok (0, pdu) else
  match pdu.data with
  | some d =>
    -- memmove(&data[optsize-1], &data[-1], …) (marker + payload move up); opt = data - 1; data += optsize
    if d = 0 ∨ d > pdu.buf.length then R.oob else
    R.ok (optsize, { pdu with buf := pdu.buf.take (d - 1) ++ optEncode delta data ++ pdu.buf.drop (d - 1),
                              data := some (d + optsize), maxOpt := number })
  | none =>
    R.ok (optsize, { pdu with buf := pdu.buf ++ optEncode delta data, maxOpt := number })

/-- `coap_add_option_internal`, with `coap_insert_option` passed in (the two C functions call each
other; the nesting is at most add(35|39) → insert(16) → add(16), see `addOptionInternal` below).
After fix: `hop_limit_added` remembers that this call inserted the implicit Hop-Limit, and every
failure return behind that point (`goto fail`) removes it again with `coap_remove_option`. -/
def addInternalK (ins : Pdu → Nat → Bytes → R (Nat × Pdu)) (pdu : Pdu) (number : Nat) (data : Bytes) : R (Nat × Pdu) :=
  if data.length > 65804 then R.ok (0, pdu) else   -- fix: a value the wire format cannot carry is refused
  if number = pdu.maxOpt ∧ ¬ repeatable number then R.ok (0, pdu) else do
  -- (the PDU after the optional implicit Hop-Limit, hop_limit_added)
  let (pdu, hopAdded) ←
    (if (pdu.code ≠ 0 ∧ pdu.code < 32) ∧ (number = 35 ∨ number = 39) ∧ ¬ hasOption pdu 16 then do
      -- size_t hop_limit = COAP_OPTION_HOP_LIMIT; its first byte (little endian) is the value
      let r ← ins pdu 16 [16]
      R.ok (r.2, decide (r.1 ≠ 0))
    else R.ok (pdu, false) : R (Pdu × Bool))
  let r ← (if number < pdu.maxOpt then ins pdu number data else appendOption pdu number data)
  -- fail: a refused option does not leave its implicit Hop-Limit behind (result of the removal ignored)
  if r.1 = 0 ∧ hopAdded = true then do
    let r2 ← removeOption r.2 16
    R.ok (0, r2.2)
  else R.ok r

/-- `coap_insert_option`, with `coap_add_option_internal` passed in -/
def insertK (add : Pdu → Nat → Bytes → R (Nat × Pdu)) (pdu : Pdu) (number : Nat) (data : Bytes) : R (Nat × Pdu) :=
  if data.length > 65804 then R.ok (0, pdu) else   -- fix: a value the wire format cannot carry is refused
  if number ≥ pdu.maxOpt then add pdu number data else insertBody pdu number data

def add0 : Pdu → Nat → Bytes → R (Nat × Pdu) := fun _ _ _ => R.oob   -- recursion depth exceeded: never reached
def ins1 := insertK add0
def add2 := addInternalK ins1
def ins3 := insertK add2
/-- `coap_add_option_internal(pdu, number, len, data)` -/
def addOptionInternal := addInternalK ins3
/-- `coap_insert_option(pdu, number, len, data)` -/
def insertOption := insertK addOptionInternal

/-- `coap_add_option(pdu, number, len, data)` -/
def addOption (pdu : Pdu) (number : Nat) (data : Bytes) : R (Nat × Pdu) :=
  if pdu.data.isSome then R.ok (0, pdu) else addOptionInternal pdu number data

/-- `coap_update_option(pdu, number, len, data)` -/
def updateOption (pdu : Pdu) (number : Nat) (data : Bytes) : R (Nat × Pdu) :=
  let len := data.length
  if len > 65804 then R.ok (0, pdu) else         -- fix: a value the wire format cannot carry is refused
  match findEq number (items pdu) with
  | none => insertOption pdu number data
  | some (it, _) =>
    -- old_length = coap_opt_parse(option, (size_t)-1, &decode): same result as the iterator's bounded parse
    let oldLength := it.p.size
    if oldLength = 0 then R.ok (0, pdu) else
    let newLength := optEncodeSize it.p.delta len
    if newLength > oldLength ∧ ¬ checkResize pdu (pdu.buf.length + newLength - oldLength) then R.ok (0, pdu) else
    -- memmove(&option[new_length], &option[old_length], …); coap_opt_encode(option, new_length, decode.delta, data, len)
    let buf2 := pdu.buf.take it.ofs ++ optEncode it.p.delta data ++ pdu.buf.drop (it.ofs + oldLength)
    R.ok (1, { pdu with buf := buf2, data := pdu.data.map (· + newLength - oldLength) })

/-- `coap_add_data(pdu, len, data)` → `coap_add_data_after` + memcpy -/
def addData (pdu : Pdu) (data : Bytes) : R (Nat × Pdu) :=
  let len := data.length
  if len = 0 then R.ok (1, pdu) else
  if pdu.data.isSome then R.ok (0, pdu) else
  -- coap_pdu_resize(pdu, used_size + len + 1)
  if ¬ checkResize pdu (pdu.buf.length + len + 1) then R.ok (0, pdu) else
  R.ok (1, { pdu with buf := pdu.buf ++ 0xFF :: data, data := some (pdu.buf.length + 1) })

/-- `coap_pdu_encode_header(pdu, proto)`: the header bytes stored in front of `pdu->token`
(`none` = returns 0).  For reliable transports `pdu->type` is forced to CON. -/
def encodeHeader (p : Proto) (pdu : Pdu) : Option Bytes :=
  let tkl : Option Nat :=
    if pdu.tokLen < 13 then some (pdu.tokLen % 256)
    else if pdu.tokLen < 269 then some 13
    else if pdu.tokLen ≤ 65804 then some 14
    else none
  match tkl with
  | none => none
  | some tkl =>
    match p with
    | .udp => some [UInt8.ofNat (1 * 64 + pdu.type * 16 + tkl), UInt8.ofNat pdu.code,
                    UInt8.ofNat (pdu.mid / 256), UInt8.ofNat pdu.mid]
    | _ =>
      if pdu.buf.length < pdu.etl then none else
      let len := if p = .ws then 0 else pdu.buf.length - pdu.etl
      if len ≤ 12 then some [UInt8.ofNat ((len % 256) * 16 + tkl), UInt8.ofNat pdu.code]
      else if len ≤ 268 then some [UInt8.ofNat (13 * 16 + tkl), UInt8.ofNat (len - 13), UInt8.ofNat pdu.code]
      else if len ≤ 65804 then
        some [UInt8.ofNat (14 * 16 + tkl), UInt8.ofNat ((len - 269) / 256), UInt8.ofNat (len - 269), UInt8.ofNat pdu.code]
      else
        some [UInt8.ofNat (15 * 16 + tkl), UInt8.ofNat ((len - 65805) / 16777216), UInt8.ofNat ((len - 65805) / 65536),
              UInt8.ofNat ((len - 65805) / 256), UInt8.ofNat (len - 65805), UInt8.ofNat pdu.code]

/-- the bytes handed to the transport: header + `token[0 .. used_size)` -/
def serialise (p : Proto) (pdu : Pdu) : Option Bytes :=
  match encodeHeader p pdu with
  | none => none
  | some h => some (h ++ pdu.buf)

/-- The API calls of a build / edit script. -/
inductive Call where
  | addToken (t : Bytes)
  | addOption (n : Nat) (v : Bytes)
  | insertOption (n : Nat) (v : Bytes)
  | updateOption (n : Nat) (v : Bytes)
  | removeOption (n : Nat)
  | updateToken (t : Bytes)
  | addData (d : Bytes)
  deriving Repr, DecidableEq

def call (pdu : Pdu) : Call → R (Nat × Pdu)
  | .addToken t => addToken pdu t
  | .addOption n v => addOption pdu n v
  | .insertOption n v => insertOption pdu n v
  | .updateOption n v => updateOption pdu n v
  | .removeOption n => removeOption pdu n
  | .updateToken t => updateToken pdu t
  | .addData d => addData pdu d

/-- run a script; return codes in call order.  An `oob` poisons the run. -/
def run : Pdu → List Call → R (List Nat × Pdu)
  | pdu, [] => R.ok ([], pdu)
  | pdu, c :: cs =>
    match call pdu c with
    | R.ok (rc, pdu') =>
      match run pdu' cs with
      | R.ok (rcs, pdu'') => R.ok (rc :: rcs, pdu'')
      | R.rej => R.rej
      | R.oob => R.oob
    | R.rej => R.rej
    | R.oob => R.oob

/-- The PDU a successful `coap_pdu_parse(proto, wire)` leaves behind (C04: edits of received
messages): `buf` = the bytes behind the fixed header, `max_opt` = the last option number,
`data` = offset behind the payload marker.  Derived from the accepted message `m`. -/
def ofParsed (maxSize : Nat) (m : Msg) (body : Bytes) : Pdu :=
  { type := m.type, code := m.code, mid := m.mid, maxSize := maxSize, buf := body,
    etl := (Spec.extBytes m.token.length).length + m.token.length, tokLen := m.token.length,
    maxOpt := (m.opts.getLast?.map (·.1)).getD 0,
    data := if m.payload = [] then none else some (body.length - m.payload.length) }

/-- the accessor view of a PDU: what the decoder reads in its buffer (token, options, payload) -/
def view (pdu : Pdu) : Option Msg :=
  Spec.body pdu.type pdu.code pdu.mid (Spec.nib pdu.tokLen) pdu.buf

end Coap.M
