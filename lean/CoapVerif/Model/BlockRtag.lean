import CoapVerif.Model.Block
/-
M — "locate the lg_srcv" of `coap_handle_request_put_block` (src/coap_block.c) for Block1 requests to ONE resource on one
session: the session's `lg_srcv` list, each element keyed by its Request-Tag — PRESENCE (`rtag_set`) and VALUE
(`rtag[0 .. rtag_length)`) are separate: an EMPTY Request-Tag option (length 0) is a tag, different from no option.
A request finds the first element (list order = LL_PREPEND order, newest first) whose key equals its own; otherwise a new
element is allocated with `rtag_set = 1` iff the option is present, and prepended.  The element found / created is then
processed by `srcvStep`; it is unlinked and freed when `srcvStep` returns no state (body delivered, 4.08, …).
-/
namespace Coap.Block

structure LgSrcv where
  rtagSet : Bool      -- lg_srcv->rtag_set
  rtag : Bytes        -- lg_srcv->rtag[0 .. lg_srcv->rtag_length)
  s : Srcv
  deriving Repr, DecidableEq

/-- "if (rtag_opt || lg_srcv->rtag_set == 1) { if (!(rtag_opt && lg_srcv->rtag_set == 1)) continue;
     if (lg_srcv->rtag_length != rtag_length || memcmp(lg_srcv->rtag, rtag, rtag_length) != 0) continue; }"
then "if (resource == lg_srcv->resource) break;" (same resource throughout) -/
def rtagMatch (rtagOpt : Option Bytes) (lg : LgSrcv) : Bool :=
  match rtagOpt with
  | some t => if lg.rtagSet then lg.rtag == t else false
  | none => if lg.rtagSet then false else true

/-- index of the lg_srcv the LL_FOREACH stops at -/
def srcvFind : List LgSrcv → Option Bytes → Option Nat
  | [], _ => none
  | lg :: rest, o => if rtagMatch o lg then some 0 else (srcvFind rest o).map (· + 1)

/-- one Block1 request with Request-Tag option `rtagOpt` (none = absent, some [] = EMPTY) -/
def srcvMultiStep (cap : Nat) (junk : UInt8) (maxBlk : Nat) (lgs : List LgSrcv) (rtagOpt : Option Bytes)
    (num m szx : Nat) (payload : Bytes) (size1 : Option Nat) : List LgSrcv × SrcvOut :=
  match srcvFind lgs rtagOpt with
  | some i =>
    match lgs[i]? with
    | some lg =>
      match srcvStep cap junk maxBlk (some lg.s) num m szx payload size1 with
      | (some s', out) => (lgs.set i { lg with s := s' }, out)
      | (none, out) => (lgs.eraseIdx i, out)                        -- LL_DELETE + coap_block_delete_lg_srcv
    | none => (lgs, .fail)                                           -- unreachable: the index comes from srcvFind
  | none =>
    match srcvStep cap junk maxBlk none num m szx payload size1 with
    | (some s', out) =>
      -- "Allocate lg_srcv to use for tracking": "if (rtag_opt) { rtag_length = …; memcpy(…); rtag_set = 1; }", LL_PREPEND
      ({ rtagSet := rtagOpt.isSome, rtag := (match rtagOpt with | some t => t | none => []), s := s' } :: lgs, out)
    | (none, out) => (lgs, out)

end Coap.Block
