import CoapVerif.Model.MsgLayer
import CoapVerif.Model.MsgLayerW
/-
M — the C06 alphabet plus ONE more event: an ICMP error is read from the socket of a client session
(`recv()` fails with ECONNREFUSED: `coap_netif_dgrm_read` returns -2, `coap_read_session` calls
`coap_session_disconnected_lkd(session, COAP_NACK_ICMP_ISSUE)`, `coap_io_do_epoll` then ends with the I/O step like for
every datagram).  Transcribed from the COAP_NACK_ICMP_ISSUE path of

  coap_session_disconnected_lkd                                                     src/coap_session.c
  coap_read_session (bytes_read == -2)                                              src/coap_net.c

The events are `Msg.Ev` (base) and `icmp s`; the state is the base model's `Msg.L` (`stepI`), or the write-failure
model's `MsgW.LW` (`stepWI`: the retransmissions of the I/O step that follows the report go through the write oracle).
`Coap.MsgX.icmp` (Model/MsgLayerX.lean, C08) is the same report with `lg_crcv = NULL`
(`Coap.C06.icmp_report_is_x_icmp`).  Core Lean only.
-/
namespace Coap.MsgI
open Coap.SQ Coap.Msg Coap.MsgW

/-- `coap_session_disconnected_lkd(session, COAP_NACK_ICMP_ISSUE)`.  `lg` = the message id of `session->lg_crcv->pdu`
when the block layer holds a large-receive record for the session (`none`: `session->lg_crcv == NULL`; block-layer
state is not part of this model, so it is a parameter — the harness deletes the record after every delivery).

    q = session->context->sendqueue;
    while (q) { if (q->session == session) { coap_handle_nack(session, q->pdu, reason, q->id); sent_nack = 1; break; } q = q->next; }
    if (reason != COAP_NACK_ICMP_ISSUE) { … the delay queue … }              -- skipped: the delay queue is not looked at
    if (!sent_nack && session->lg_crcv) { coap_handle_nack(session, &session->lg_crcv->pdu, reason, session->lg_crcv->pdu.mid); sent_nack = 1; }
    if (!sent_nack) coap_handle_nack(session, NULL, reason, 0);
    if (reason == COAP_NACK_ICMP_ISSUE) return;                               -- state, con_active, both queues as before -/
def icmpReport (l : L) (s : Nat) (lg : Option Nat) : L :=
  match l.q.nodes.find? (fun n => n.sess = s) with
  | some n => l.emit (.nack l.now s .icmp n.mid true)
  | none =>
    match lg with
    | some mid => l.emit (.nack l.now s .icmp mid true)
    | none => l.emit (.nack l.now s .icmp 0 false)

inductive EvI where
  | base (e : Ev)
  | icmp (s : Nat)
  deriving Repr, DecidableEq

/-- an ICMP error can only be read from an open socket; `coap_io_do_epoll` ends with `coap_io_prepare_epoll_lkd` -/
def stepI (l : L) : EvI → L
  | .base e => step l e
  | .icmp s => if (l.getS s).sockOpen then afterRx (icmpReport l s none) else l

def runI (l : L) (evs : List EvI) : L := evs.foldl stepI l

/-- the same on the write-failure model -/
def stepWI (lw : LW) : EvI → LW
  | .base e => stepW lw e
  | .icmp s => if (lw.l.getS s).sockOpen then afterRxW { lw with l := icmpReport lw.l s none } else lw

def runWI (lw : LW) (evs : List EvI) : LW := evs.foldl stepWI lw

/-- The base events an ICMP event stands for as far as queue, sessions, transmissions and outcomes go: the I/O step
(`prepare`) when the socket is open, nothing when it is closed.  (`prepare` also logs the wait it returns; the I/O step
after an ICMP error returns its wait to nobody.) -/
def projI : L → List EvI → List Ev
  | _, [] => []
  | l, .base e :: evs => e :: projI (step l e) evs
  | l, .icmp s :: evs =>
    if (l.getS s).sockOpen then .prepare :: projI (stepI l (.icmp s)) evs else projI l evs

end Coap.MsgI
