import CoapVerif.Util
/-
M — faithful model of the pure (Layer A) parts of libcoap's block-wise transfer code:

  coap_encode_var_safe / coap_decode_var_bytes            src/coap_encode.c
  coap_flsll                                              src/coap_encode.c
  coap_opt_encode_size                                    src/coap_option.c
  coap_opt_block_num, coap_get_block_b                    src/coap_block.c   (non-BERT: session == NULL / datagram)
  setup_block_b, coap_write_block_b_opt                   src/coap_block.c
  coap_add_data_large_internal  (block size selection)    src/coap_block.c   (request, lg_xmit branch and no-block branch)
  coap_add_block / coap_add_block_b_data (slicing)        src/coap_block.c
  check_if_received_block, check_if_next_block,
  check_all_blocks_in, update_received_blocks             src/coap_block.c   (static)
  coap_block_build_body                                   src/coap_block.c
  coap_handle_request_put_block  (COAP_BLOCK_SINGLE_BODY receive path, Block1, no BERT/Q-Block)   `srcvStep`

Quantities are `Nat`; a C narrowing / wrap is `% 2^k` where it happens.  For a byte `b`:
`b / 16 = (b & 0xF0) >> 4`, `(b / 8) % 2 = (b & 0x08) != 0`, `b % 8 = b & 0x07`, and for m ≤ 1, szx ≤ 7:
`(num << 4) | (m << 3) | szx = (num * 16) % 2^32 + m * 8 + szx` (disjoint bits).
The `coap_rblock_t.range[COAP_RBLOCK_CNT]` array with its `used` counter is the list of its first `used` entries
(memmove up = list insertion, memmove down = list removal); block numbers are < 2^31 at every call site
(coap_get_block_b rejects NUM > 0xFFFFF), so the uint32_t `+ 1`s never wrap and are plain `+ 1`.
`malloc`'d / `realloc`'d bytes that were never written are the parameter `junk`.
-/
namespace Coap.Block

/-! ## variable-length unsigned integers -/

/-- number of bytes `coap_encode_var_safe` produces for `val : unsigned int` (first `for` loop) -/
def varLen (v : Nat) : Nat :=
  if v = 0 then 0 else if v < 256 then 1 else if v < 65536 then 2 else if v < 16777216 then 3 else 4

/-- the `while (i--) { buf[i] = val & 0xff; val >>= 8; }` loop: `n` bytes, big endian -/
def encodeVarAux : Nat → Nat → Bytes
  | 0, _ => []
  | n + 1, v => UInt8.ofNat ((v / 256 ^ n) % 256) :: encodeVarAux n v

def encodeVar (v : Nat) : Bytes := encodeVarAux (varLen v) (v % 2 ^ 32)

/-- `coap_decode_var_bytes`: `n = (n << 8) + buf[i]` on `unsigned int` -/
def decodeVar (bs : Bytes) : Nat := bs.foldl (fun n b => (n * 256 + b.toNat) % 2 ^ 32) 0

/-- `coap_flsll`: number of shifts until zero -/
def flsllLoop : Nat → Nat → Nat → Nat
  | 0, _, n => n
  | fuel + 1, i, n => if i = 0 then n else flsllLoop fuel (i / 2) (n + 1)

def flsll (i : Nat) : Nat := flsllLoop 64 (i % 2 ^ 64) 0

/-- `coap_opt_encode_size(delta, length)` -/
def optEncodeSize (delta length : Nat) : Nat :=
  1 + (if delta ≥ 13 then (if delta < 269 then 1 else 2) else 0)
    + (if length ≥ 13 then (if length < 269 then 1 else 2) else 0) + length

/-! ## Block option codec -/

structure BlockB where
  num : Nat
  m : Nat
  szx : Nat
  aszx : Nat
  chunk : Nat
  deriving Repr, DecidableEq

/-- `COAP_OPT_BLOCK_END_BYTE` -/
def endByte (val : Bytes) : Nat :=
  match val.getLast? with
  | some b => b.toNat
  | none => 0

/-- `coap_opt_block_num` on the option value -/
def optBlockNum (val : Bytes) : Nat :=
  if val.length = 0 then 0
  else
    let num := if val.length > 1 then decodeVar (val.take (val.length - 1)) else 0
    (num * 16) % 2 ^ 32 + endByte val / 16

/-- the 32-bit value written by `coap_encode_var_safe(buf, sizeof(buf), (num << 4) | (m << 3) | szx)` -/
def blockValue (num m szx : Nat) : Nat := (num * 16) % 2 ^ 32 + m * 8 + szx

def encodeBlock (num m szx : Nat) : Bytes := encodeVar (blockValue num m szx)

/-- `coap_get_block_b(session, pdu, number, &block)` when the option is present with value `val`, on a session
without BERT (NULL / datagram / no CSM BERT): `none` = return 0. -/
def getBlockB (val : Bytes) : Option BlockB :=
  let m := if val.length = 0 then 0 else (endByte val / 8) % 2
  let szx := if val.length = 0 then 0 else endByte val % 8
  if szx = 7 then none            -- No BERT support
  else
    let num := optBlockNum val
    if num > 0xFFFFF then none
    else some { num := num, m := m, szx := szx, aszx := szx, chunk := 2 ^ (szx + 4) }

/-! ## setup_block_b / coap_write_block_b_opt (no BERT) -/

/-- `setup_block_b(NULL, pdu, block, num, blk_size, total)` with `pdu->max_size = maxSize` and
`token_options = tokOpts`.  `none` = return 0. -/
def setupBlockB (maxSize tokOpts num blkSize total : Nat) : Option BlockB :=
  let avail := (maxSize + 2 ^ 64 - tokOpts % 2 ^ 64) % 2 ^ 64          -- size_t subtraction
  let start := (num * 2 ^ (blkSize + 4)) % 2 ^ 32                       -- unsigned int shift
  let chunk := 2 ^ (blkSize + 4)
  let rest := (total + 2 ^ 64 - start) % 2 ^ 64                         -- total - start
  if avail < chunk ∧ rest ≥ avail then
    if avail < 16 then none
    else
      let nsz := flsll avail - 5
      let nchunk := 2 ^ (nsz + 4)
      some { num := (num * 2 ^ (blkSize - nsz)) % 2 ^ 32, szx := nsz, aszx := nsz, chunk := nchunk,
             m := if nchunk < rest then 1 else 0 }
  else
    some { num := num, szx := blkSize, aszx := blkSize, chunk := chunk, m := if chunk < rest then 1 else 0 }

/-- `coap_write_block_b_opt(NULL, block, number, pdu, data_length)`: return value (1, -2, -3 as `ok/ill/nospace`)
and the option value written. -/
inductive WriteRes where
  | ok (b : BlockB) (val : Bytes)
  | illegal      -- -2
  | nospace      -- -3
  deriving Repr, DecidableEq

def writeBlockBOpt (maxSize tokOpts num szx dataLen : Nat) : WriteRes :=
  let start := num * 2 ^ (szx + 4)       -- size_t start = block->num << (szx+4): unsigned int shift, see setupBlockB
  if num ≠ 0 ∧ dataLen ≤ start % 2 ^ 32 then .illegal
  else
    match setupBlockB maxSize tokOpts num szx dataLen with
    | none => .nospace
    | some b => .ok b (encodeBlock b.num b.m b.aszx)

/-! ## slicing: coap_add_block / coap_add_block_b_data -/

/-- byte offset addressed by `(num, szx)` -/
def blockOffset (num szx : Nat) : Nat := num * 2 ^ (szx + 4)

/-- payload of block `num` at size `szx`: `min(len - start, 1 << (szx+4))` bytes from `data + start`;
`none` = return 0 (`len <= start`). -/
def addBlock (body : Bytes) (num szx : Nat) : Option Bytes :=
  let start := blockOffset num szx
  if body.length ≤ start then none
  else some ((body.drop start).take (2 ^ (szx + 4)))

/-- the M bit the sender computes for that block (`(offset + chunk) < length`, `chunk_size < total - start`) -/
def moreBit (total num szx : Nat) : Nat :=
  if blockOffset num szx + 2 ^ (szx + 4) < total then 1 else 0

/-! ## block size selection of coap_add_data_large_internal (request with Block1, UDP, no OSCORE, no Q-Block) -/

/-- Result of `coap_add_data_large_request` as far as sizes go. -/
structure AdlRes where
  lgXmit : Bool          -- an lg_xmit was created (multi-block transfer)
  blkSize : Nat          -- block size chosen (lg_xmit->blk_size / szx in the option)
  blockVal : Option Nat  -- value of the Block1 option in the PDU (none = absent)
  payload : Nat          -- payload bytes added to the first PDU
  used : Nat             -- pdu->used_size afterwards (token + options + marker + payload)
  hdr : Nat              -- token + options part of `used`
  deriving Repr, DecidableEq

def echoReserve : Nat := optEncodeSize 252 40     -- coap_opt_encode_size(COAP_OPTION_ECHO, 40)

/-- ssize_t arithmetic on `avail` is modelled with an explicit sign: `avail = pos - neg`. -/
def adlAvail (maxSize tokOpts tokLen : Nat) : Int :=
  (maxSize : Int) - tokOpts - echoReserve - (if tokLen < 8 then 8 - tokLen else 0)

/-- `blk_size = coap_flsll((long long)avail) - 4 - 1` stored in a uint8_t, then clamped to 6 -/
def adlBlkSize (avail : Int) : Nat :=
  let f : Int := if avail < 0 then 64 else (flsll avail.toNat : Nat)
  let b := ((f - 5) % 256).toNat      -- uint8_t
  if b > 6 then 6 else b

/-- `coap_add_data(pdu, rem, …)` on a PDU whose token + options take `tokOpts` bytes, and the result record -/
def adlFinish (maxSize tokOpts rem : Nat) (lg : Bool) (b : Nat) (bv : Option Nat) : Option AdlRes :=
  if rem ≠ 0 ∧ tokOpts + 1 + rem > maxSize then none      -- coap_add_data fails (coap_pdu_resize beyond max_size)
  else some { lgXmit := lg, blkSize := b, blockVal := bv, payload := rem,
              used := tokOpts + (if rem = 0 then 0 else 1 + rem), hdr := tokOpts }

/-- lg_xmit branch after `setup_block_b` returned `sb`: `base` = token + application options (without Block1),
`d` = option delta of Block1, `extra` = Size1 + Request-Tag bytes, `b2` = block size chosen by the first stage. -/
def adlLgTail (maxSize tokLen base d b2 length extra : Nat) (sb : BlockB) : Option AdlRes :=
  let chunk : Nat := 2 ^ (b2 + 4)
  let bv := blockValue sb.num sb.m sb.aszx
  let tokOpts1 := base + optEncodeSize d (varLen bv) + extra
  -- "Check we still have space after adding in some options"
  let avail2 := adlAvail maxSize tokOpts1 tokLen
  if avail2 < chunk then
    if avail2 < 16 then none
    else
      let b3 := adlBlkSize avail2
      let bv3 := blockValue ((sb.num * 2 ^ (b2 - b3)) % 2 ^ 32) sb.m b3
      let tokOpts2 := base + optEncodeSize d (varLen bv3) + extra
      adlFinish maxSize tokOpts2 (min (2 ^ (b3 + 4)) length) true b3 (some bv3)
  else
    adlFinish maxSize tokOpts1 (min sb.chunk length) true b2 (some bv)

/-- "No need to use blocks" branch -/
def adlNoBlock (maxSize base d b2 length : Nat) (blk : Option Nat) : Option AdlRes :=
  let bvOpt := match blk with | some _ => some (blockValue 0 0 b2) | none => none
  let tokOpts1 := base + (match bvOpt with | some v => optEncodeSize d (varLen v) | none => 0)
  adlFinish maxSize tokOpts1 length false b2 bvOpt

/-- the three-way decision of `coap_add_data_large_internal` once the block size `b2` is known:
`tokOpts0` = token + options as handed in, `extra` = Size1 + Request-Tag bytes -/
def adlBody (maxSize tokLen base d tokOpts0 b2 length extra : Nat) (blk : Option Nat) : Option AdlRes :=
  let avail := adlAvail maxSize tokOpts0 tokLen
  if avail < 16 ∧ ((length : Int) > avail ∨ blk.isSome) then none   -- "even the smallest block does not fit (2)"
  else if (blk.isSome ∧ length > 2 ^ (b2 + 4)) ∨ (length : Int) > avail then
    -- lg_xmit branch: Size1 + Request-Tag added, then setup_block_b, then Block1 updated/inserted
    match setupBlockB maxSize (tokOpts0 + extra) 0 b2 length with
    | none => none
    | some sb => adlLgTail maxSize tokLen base d b2 length extra sb
  else adlNoBlock maxSize base d b2 length blk

/-- The PDU handed in: `tokLen`-byte token, options of total encoded size `optBytes` whose highest number is
`lastOpt` (< 27), optionally a Block1 option (number 27) with value `(0, 0, szx)` (`blk = some szx`).
Options added by libcoap: Size1 (60), Request-Tag (292, value `rtagLen` bytes), Block1 if absent.
`maxBlk` = COAP_BLOCK_MAX_SIZE_GET(block_mode).  `none` = return 0 (fail). -/
def addDataLarge (maxSize tokLen optBytes lastOpt : Nat) (blk : Option Nat) (maxBlk length rtagLen : Nat) :
    Option AdlRes :=
  let d := 27 - lastOpt
  let tokOpts0 := tokLen + optBytes + (match blk with | some s => optEncodeSize d (varLen (blockValue 0 0 s)) | none => 0)
  let b0 := adlBlkSize (adlAvail maxSize tokOpts0 tokLen)
  let b1 := if maxBlk ≠ 0 ∧ b0 > maxBlk then maxBlk else b0
  let b2 := match blk with | some s => if s < b1 then s else b1 | none => b1
  adlBody maxSize tokLen (tokLen + optBytes) d tokOpts0 b2 length
    (optEncodeSize (60 - 27) (varLen length) + optEncodeSize (292 - 60) rtagLen) blk

/-! ## received-ranges structure -/

/-- `coap_rblock_t`: `range[0 .. used-1]` as a list of `(begin, end)` -/
abbrev Ranges := List (Nat × Nat)

/-- `check_if_received_block` -/
def checkIfReceived : Ranges → Nat → Bool
  | [], _ => false
  | (b, e) :: rest, n =>
    if n < b then false
    else if n ≤ e then true
    else checkIfReceived rest n

/-- `check_if_next_block` -/
def checkIfNext (rs : Ranges) (n : Nat) : Bool :=
  match rs.getLast? with
  | none => n == 0
  | some (_, e) => e + 1 == n

/-- loop of `check_all_blocks_in` with the running `block` -/
def allInLoop : Ranges → Nat → Option Nat
  | [], block => some block
  | (b, e) :: rest, block =>
    if block < b then none
    else allInLoop rest (if block < e then e else block)

/-- `check_all_blocks_in(rec_blocks, total_blocks)` -/
def checkAllBlocksIn (rs : Ranges) (totalBlocks : Nat) : Bool :=
  match allInLoop rs 0 with
  | none => false
  | some block => !(block + 1 < totalBlocks)

/-- The `for` loop of `update_received_blocks` from index `i` on; `used` is the current `rec_blocks->used`
(constant during the loop until the single modification), `cap = COAP_RBLOCK_CNT`.
Returns `none` for `return 0`, otherwise the new tail. -/
def updateLoop (cap used : Nat) : Ranges → Nat → Option Ranges
  | [], n =>
    -- i == used
    if used = cap - 1 then none else some [(n, n)]
  | (b, e) :: rest, n =>
    if n ≥ b ∧ n ≤ e then some ((b, e) :: rest)
    else if n < b then
      if n + 1 = b then some ((n, e) :: rest)
      else if used = cap - 1 then none
      else some ((n, n) :: (b, e) :: rest)
    else if n = e + 1 then
      match rest with
      | (b2, e2) :: rest2 => if b2 = n + 1 then some ((b, e2) :: rest2) else some ((b, n) :: rest)
      | [] => some [(b, n)]
    else
      match updateLoop cap used rest n with
      | none => none
      | some r => some ((b, e) :: r)

/-- `update_received_blocks(rec_blocks, block_num)`: return value and the ranges afterwards (`return 0` happens
before anything is written to `range[]`/`used`) -/
def updateReceived (cap : Nat) (rs : Ranges) (n : Nat) : Bool × Ranges :=
  match updateLoop cap rs.length rs n with
  | none => (false, rs)
  | some r => (true, r)

/-! ## coap_block_build_body -/

/-- `memcpy(&s[offset], data, length)` inside a buffer that is long enough -/
def memcpyAt (buf : Bytes) (offset : Nat) (data : Bytes) : Bytes :=
  buf.take offset ++ data ++ buf.drop (offset + data.length)

/-- `coap_resize_binary(b, n)` (realloc): keeps the first `min(len, n)` bytes, the rest is unspecified -/
def resizeBin (junk : UInt8) (buf : Bytes) (n : Nat) : Bytes :=
  buf.take n ++ List.replicate (n - buf.length) junk

/-- `coap_block_build_body(body_data, length, data, offset, total)` (allocation never fails; `data != NULL`).
`none` = NULL returned. -/
def buildBody (junk : UInt8) (body : Option Bytes) (data : Bytes) (offset total : Nat) : Option Bytes :=
  let body := match body with
    | none => if total ≠ 0 then some (List.replicate total junk) else none
    | some b => some b
  match body with
  | none => none
  | some b =>
    if offset + data.length ≤ total ∧ b.length ≥ total then some (memcpyAt b offset data)
    else
      -- "Payloads already stored beyond this one must be kept": new_length = max(offset + length, body_data->length)
      let newLen := if offset + data.length < b.length then b.length else offset + data.length
      some (memcpyAt (resizeBin junk b newLen) offset data)

/-! ## receiver side of a Block1 transfer in COAP_BLOCK_SINGLE_BODY mode (coap_handle_request_put_block) -/

structure Srcv where
  recv : Ranges
  totalLen : Nat
  body : Option Bytes
  szx : Nat                    -- lg_srcv->szx: the block size the body is tracked in
  noMoreSeen : Bool := false   -- lg_srcv->no_more_seen (a block without M arrived while others were missing)
  deriving Repr, DecidableEq

inductive SrcvOut where
  | cont           -- 2.31 Continue / empty ACK: handler not called
  | deliver (body : Bytes) (len : Nat)   -- handler called with body_data / body_length
  | fail           -- 4.08 / 5.00: lg_srcv freed or request refused
  | undersized     -- 4.00
  deriving Repr, DecidableEq

/-- `while (offset < saved_offset + length) { if (!check_if_received_block(num)) { if (!update_received_blocks(num))
fail; update_data = 1; } num++; offset = num << (szx+4); }` — `cnt` iterations starting at block `n`.
`none` = "Too many missing blocks". -/
def recvLoop (cap : Nat) : Nat → Ranges → Nat → Bool → Option (Ranges × Bool)
  | 0, rs, _, upd => some (rs, upd)
  | cnt + 1, rs, n, upd =>
    if checkIfReceived rs n then recvLoop cap cnt rs (n + 1) upd
    else
      match updateReceived cap rs n with
      | (false, _) => none
      | (true, r) => recvLoop cap cnt r (n + 1) true

/-- "give_app_data": `if (lg_srcv->body_data) { body_data = body_data->s; body_length = total_len } else { NULL; 0 }` -/
def srcvGive (lg1 : Srcv) : SrcvOut :=
  match lg1.body with
  | some b => .deliver b lg1.totalLen
  | none => .deliver [] 0

/-- fix 8abfc44: "total_blocks = total_len / chunk + (total_len % chunk ? 1 : 0)" (size_t; before the fix
`(uint32_t)(total_len + chunk - 1) / chunk`, which wraps to 0 for a Size1 close to 2^32) -/
def totalBlocks (totalLen chunk : Nat) : Nat :=
  totalLen / chunk + (if totalLen % chunk ≠ 0 then 1 else 0)

/-- the completion decision after the block has been recorded ("if (block.m || !check_all_blocks_in(…))" … "give_app_data") -/
def srcvDecide (lg1 : Srcv) (m chunk : Nat) : Option Srcv × SrcvOut :=
  let allIn := checkAllBlocksIn lg1.recv (totalBlocks lg1.totalLen chunk)
  if m = 1 then
    -- the body can only be complete once the block without More has been seen (fix 57e6aff)
    if ¬ lg1.noMoreSeen ∨ ¬ allIn then (some lg1, .cont)            -- 2.31, ask for the next block
    else (none, srcvGive lg1)                                       -- give_app_data, lg_srcv freed by the caller
  else if ¬ allIn then (some { lg1 with noMoreSeen := true }, .cont)   -- "Last chunk - but not all in": empty ACK
  else (none, srcvGive lg1)

/-- record blocks `n … n+cnt-1` (units `2^(szxU+4)`), store `data` at `offset`, decide -/
def srcvCore (cap : Nat) (junk : UInt8) (lg : Srcv) (n szxU m : Nat) (data : Bytes) (offset : Nat) :
    Option Srcv × SrcvOut :=
  let chunk := 2 ^ (szxU + 4)
  -- fix cb35487: "Only the end of the body can be shorter than the block size, and nothing can follow the block
  -- without More": 4.08 "Inconsistent last block", lg_srcv freed
  if (data.length % chunk ≠ 0 ∧ offset + data.length < lg.totalLen) ∨
      (lg.noMoreSeen = true ∧ offset + data.length > lg.totalLen) then (none, .fail)
  else
  match recvLoop cap ((data.length + chunk - 1) / chunk) lg.recv n false with
  | none => (none, .fail)                       -- "Too many missing blocks", lg_srcv freed
  | some (rec', updated) =>
    if updated then
      let tl := if lg.totalLen < offset + data.length then offset + data.length else lg.totalLen
      match buildBody junk lg.body data offset tl with
      | none => (some { lg with recv := rec', totalLen := tl, body := none }, .fail)     -- "Memory issue"
      | some b => srcvDecide { lg with recv := rec', totalLen := tl, body := some b } m chunk
    else srcvDecide { lg with recv := rec' } m chunk

/-- "locate the lg_srcv" / "Allocate lg_srcv to use for tracking" -/
def srcvLocate (maxBlk : Nat) (st : Option Srcv) (num szx : Nat) (size1 : Option Nat) : Srcv :=
  match st with
  | some s => s
  | none => { recv := [], totalLen := (match size1 with | some t => t | none => 0), body := none,
              szx := if num = 0 ∧ maxBlk ≠ 0 ∧ maxBlk < szx then maxBlk else szx }

/-- fix 11109ea: "range[i].begin <<= shift; range[i].end = ((range[i].end + 1) << shift) - 1" (all uint32_t) -/
def rescaleRanges (rs : Ranges) (sh : Nat) : Ranges :=
  rs.map fun r => ((r.1 * 2 ^ sh) % 2 ^ 32, ((((r.2 + 1) % 2 ^ 32) * 2 ^ sh) % 2 ^ 32 + (2 ^ 32 - 1)) % 2 ^ 32)

/-- fix 0d17941: a block that still uses a larger size covers several blocks of the tracked size;
fix 11109ea: a block in a smaller size makes that size the tracked one, the ranges received so far are rescaled -/
def srcvConv (cap : Nat) (junk : UInt8) (lg : Srcv) (num m szx : Nat) (data : Bytes) : Option Srcv × SrcvOut :=
  if szx > lg.szx then srcvCore cap junk lg ((num * 2 ^ (szx - lg.szx)) % 2 ^ 32) lg.szx m data (num * 2 ^ (szx + 4))
  else if szx < lg.szx then
    srcvCore cap junk { lg with recv := rescaleRanges lg.recv (lg.szx - szx), szx := szx } num szx m data (num * 2 ^ (szx + 4))
  else srcvCore cap junk lg num szx m data (num * 2 ^ (szx + 4))

/-- One Block1 request datagram `(num, m, szx, payload, size1)` arriving at the server for an existing or new
`lg_srcv` (`st = none`: not yet allocated) in COAP_BLOCK_SINGLE_BODY mode, Block1 without BERT/Q-Block;
`maxBlk` = COAP_BLOCK_MAX_SIZE_GET(block_mode).  Transcribes "if (length > block.chunk_size)" … "give_app_data" of
`coap_handle_request_put_block` including the unit conversions of fixes 0d17941 / 11109ea and the last-block test of
fix cb35487. -/
def srcvStep (cap : Nat) (junk : UInt8) (maxBlk : Nat) (st : Option Srcv) (num m szx : Nat) (payload : Bytes)
    (size1 : Option Nat) : Option Srcv × SrcvOut :=
  let chunk0 := 2 ^ (szx + 4)
  let data := if payload.length > chunk0 then payload.take chunk0 else payload
  if num = 0 ∧ m = 0 then (st, .deliver payload payload.length)    -- "Not blocked, or a single block": call_app_handler
  else if ¬ (payload.length > chunk0) ∧ m = 1 ∧ payload.length ≠ chunk0 then (st, .undersized)
  else
    srcvConv cap junk (srcvLocate maxBlk st num szx size1) num m szx data

end Coap.Block
