import CoapVerif.Generated.ObsConst
/-
M for C11 — the server side of RFC 7641 as libcoap implements it.  Transcribed IN CODE ORDER from
  src/coap_resource.c  coap_find_observer, coap_find_observer_cache_key, coap_add_observer, coap_touch_observer,
                       coap_delete_observer(_internal/_request), coap_delete_observers, coap_notify_observers,
                       coap_resource_notify_observers_lkd, coap_check_notify_lkd, coap_remove_failed_observers,
                       coap_handle_failed_notify, coap_free_resource
  src/coap_net.c       handle_request (Observe handling, error response removes the observer), coap_dispatch (ACK and RST
                       branches, coap_cancel, coap_cancel_all_messages), coap_retransmit (give up -> failed notify),
                       coap_send_pdu / coap_wait_ack / coap_insert_node (con_active, send queue)
  src/coap_session.c   coap_session_disconnected_lkd (session loss), coap_endpoint_get_session, coap_new_message_id_lkd
  src/coap_io.c        coap_io_prepare_io_lkd (order: notify, retransmit, idle session reclaim)
Core Lean only.

Modelling conventions
 * a session is named by the index of its peer (client); `sess c = none` = the server holds no session object for c.
 * a token is a Nat (the driver maps the token bytes); a cache key is a Nat standing for the canonical list of the
   request options libcoap feeds into the SHA-256 digest (all options except Observe, ETag, OSCORE and the NoCacheKey
   class, + the FETCH body).  ASSUMPTION: the digest is injective on those lists (DESIGN.md §3.5).
 * `Res.ver` and `Sub.lastVer` are GHOST fields (never read by any control flow): the unmasked number of effective
   changes of the resource, and the `ver` the last notification sent to that entry carried.  `Out.res/ver` likewise.
 * inside the notify loop an error response (class > 2) removes "the first entry with that session and token"
   (coap_delete_observer); M removes the entry being visited — the same entry by `reregistration_replaces`.
 * the server never has to delay a Confirmable notification: the loop defers it (back-pressure) instead; M therefore has
   no delay queue (theorem `con_only_below_nstart` shows the branch is unreachable in M).
-/
namespace Coap.Observe
open Coap.Generated

/-- `r->observe = (r->observe + 1) & 0xFFFFFF` (coap_resource_notify_observers_lkd). -/
def nextObserve (o : Nat) : Nat := (o + 1) % 16777216
/-- `resource->observe = start_observe_no & 0xffffff` (coap_persist_set_observe_num). -/
def setObserve (o : Nat) : Nat := o % 16777216

structure Sub where
  sess : Nat
  token : Nat
  key : Nat
  nonCnt : Nat
  failCnt : Nat
  dirty : Bool
  mid : Nat
  lastVer : Option Nat      -- ghost
  deriving DecidableEq, Repr

structure Res where
  id : Nat
  alive : Bool
  fCon : Bool               -- COAP_RESOURCE_FLAGS_NOTIFY_CON
  fNonAlways : Bool         -- COAP_RESOURCE_FLAGS_NOTIFY_NON_ALWAYS
  observe : Nat
  dirty : Bool
  pdirty : Bool
  subs : List Sub
  err : Bool                -- scripted verdict of the application's GET handler: answer 4.04
  ver : Nat                 -- ghost
  deriving DecidableEq, Repr

structure Sess where
  ref : Nat
  conActive : Nat
  txMid : Nat
  lastRxTx : Nat
  deriving DecidableEq, Repr

structure QNode where
  sess : Nat
  mid : Nat
  token : Nat
  code : Nat
  due : Nat
  cnt : Nat
  n : Nat                   -- index of the datagram among the server-initiated datagrams to that client
  deriving DecidableEq, Repr

/-- record of a server-initiated datagram (for the ack / rst events) -/
structure Note where
  mid : Nat
  con : Bool
  deriving DecidableEq, Repr

inductive Kind where
  | con | non | ack
  deriving DecidableEq, Repr

inductive OutTag where
  | resp | note | rtx
  deriving DecidableEq, Repr

/-- a datagram written by the server -/
structure Out where
  tag : OutTag
  c : Nat
  n : Nat
  token : Nat
  code : Nat
  obs : Option Nat
  kind : Kind
  mid : Nat
  res : Nat                 -- ghost: resource the notification is about
  ver : Nat                 -- ghost
  deriving DecidableEq, Repr

structure State where
  now : Nat
  pending : Bool            -- context->observe_pending
  res : List Res            -- in RESOURCES_ITER order (= order of coap_add_resource)
  sess : Nat → Option Sess
  sendq : List QNode        -- absolute deadlines, in queue order
  notes : Nat → List Note
  stTicks : Nat             -- session idle timeout in ticks

inductive Event where
  | reg (c r tok key : Nat) (con : Bool) (mid : Nat)
  | can (c r tok key : Nat) (con : Bool) (mid : Nat)
  | get (c r tok key : Nat) (con : Bool) (mid : Nat)
  | chg (r : Nat)
  | adv (ms : Nat)          -- `io` = `adv 0`
  | ack (c n : Nat)
  | rst (c n : Nat)
  | err (r : Nat) (b : Bool)
  | lost (c : Nat)
  | del (r : Nat)
  deriving DecidableEq, Repr

/-! ### sessions -/

def newSess (now : Nat) : Sess := { ref := 0, conActive := 0, txMid := 0, lastRxTx := now }

def getSess (st : State) (c : Nat) : Sess := (st.sess c).getD (newSess st.now)

def setSess (st : State) (c : Nat) (s : Sess) : State :=
  { st with sess := fun x => if x = c then some s else st.sess x }

def modSess (st : State) (c : Nat) (f : Sess → Sess) : State := setSess st c (f (getSess st c))

/-- coap_endpoint_get_session: find or create, `last_rx_tx = now` -/
def rxSession (st : State) (c : Nat) : State := modSess st c fun s => { s with lastRxTx := st.now }

def refInc (st : State) (c : Nat) : State := modSess st c fun s => { s with ref := s.ref + 1 }
def refDec (st : State) (c : Nat) : State := modSess st c fun s => { s with ref := s.ref - 1 }
def refDecN (st : State) (c k : Nat) : State := modSess st c fun s => { s with ref := s.ref - k }
/-- `if (session->con_active) session->con_active--` -/
def conDec (st : State) (c : Nat) : State := modSess st c fun s => { s with conActive := s.conActive - 1 }
def txStamp (st : State) (c : Nat) : State := modSess st c fun s => { s with lastRxTx := st.now }

/-- coap_new_message_id_lkd: `++session->tx_mid` (uint16_t) -/
def newMid (st : State) (c : Nat) : Nat × State :=
  let m := ((getSess st c).txMid + 1) % 65536
  (m, modSess st c fun s => { s with txMid := m })

/-! ### subscriber lists -/

def matchST (c tok : Nat) (s : Sub) : Bool := s.sess == c && s.token == tok
def matchSK (c key : Nat) (s : Sub) : Bool := s.sess == c && s.key == key

/-- apply `f` to the first element satisfying `p` (coap_find_observer returns the first match) -/
def modFirst (p : Sub → Bool) (f : Sub → Sub) : List Sub → List Sub
  | [] => []
  | s :: r => if p s then f s :: r else s :: modFirst p f r

def mapRes (st : State) (f : Res → Res) : State := { st with res := st.res.map f }
def modRes (st : State) (r : Nat) (f : Res → Res) : State := mapRes st fun x => if x.id = r then f x else x
def findRes (st : State) (r : Nat) : Option Res := st.res.find? fun x => x.id == r && x.alive

/-- coap_delete_observer(resource, session, token) for the resource with id r: first match removed, session released -/
def deleteObserver (st : State) (r c tok : Nat) : State :=
  match findRes st r with
  | none => st
  | some x =>
    if x.subs.any (matchST c tok) then
      refDec (modRes st r fun y => { y with subs := y.subs.eraseP (matchST c tok) }) c
    else st

/-- coap_touch_observer: in every resource the first entry of (session, token) gets fail_cnt = 0 -/
def touchObserver (st : State) (c tok : Nat) : State :=
  mapRes st fun x => if x.alive then { x with subs := modFirst (matchST c tok) (fun s => { s with failCnt := 0 }) x.subs } else x

/-- coap_add_observer, the part that acts on the resource's own list: found by token -> unchanged; else an entry with the
    same cache key is deleted ("Delete old entry with old token": coap_delete_observer by ITS token, i.e. the first entry
    of that session with that token) and the new entry is prepended -/
def addToRes (y : Res) (c tok key m : Nat) : Res :=
  if y.subs.any (matchST c tok) then y
  else
    let subs1 := match y.subs.find? (matchSK c key) with
                 | some old => y.subs.eraseP (matchST c old.token)
                 | none => y.subs
    { y with subs := { sess := c, token := tok, key := key, nonCnt := 0, failCnt := 0, dirty := false, mid := m, lastVer := none } :: subs1 }

/-- coap_add_observer (the entry exists afterwards because allocation failures are not modelled).  Session side: the deleted
    old entry releases the session, coap_pdu_duplicate_lkd draws a message id, coap_session_reference for the new entry. -/
def addObserver (st : State) (r c tok key : Nat) : State :=
  match findRes st r with
  | none => st
  | some x =>
    if x.subs.any (matchST c tok) then st            -- found by token: "We are done if subscription was found"
    else
      let st1 := match x.subs.find? (matchSK c key) with
                 | some _ => refDec st c
                 | none => st
      let (m, st2) := newMid st1 c
      refInc (mapRes st2 fun y => if y.id = r ∧ y.alive then addToRes y c tok key m else y) c

/-- coap_delete_observer_request (Observe = 1): by token, else by cache key -/
def deleteObserverRequest (st : State) (r c tok key : Nat) : State :=
  match findRes st r with
  | none => st
  | some x =>
    if x.subs.any (matchST c tok) then deleteObserver st r c tok
    else match x.subs.find? (matchSK c key) with
         | some old => deleteObserver st r c old.token
         | none => st

/-! ### send queue -/

/-- coap_insert_node: before the first node with a later deadline -/
def insertNode (n : QNode) : List QNode → List QNode
  | [] => [n]
  | q :: qs => if n.due < q.due then n :: q :: qs else q :: insertNode n qs

def matchQ (c mid : Nat) (q : QNode) : Bool := q.sess == c && q.mid == mid
def matchQT (c tok : Nat) (q : QNode) : Bool := q.sess == c && q.token == tok

/-- coap_cancel_all_messages(context, session, token): every node of (session, token) leaves the queue; each is a CON,
    so `con_active--` if non-zero; the node's session reference is released -/
def cancelAllMessages (st : State) (c tok : Nat) : State :=
  let k := (st.sendq.filter (matchQT c tok)).length
  let st1 := { st with sendq := st.sendq.filter fun q => !matchQT c tok q }
  modSess st1 c fun s => { s with conActive := s.conActive - k, ref := s.ref - k }

def addNote (st : State) (c : Nat) (nt : Note) : State :=
  { st with notes := fun x => if x = c then st.notes x ++ [nt] else st.notes x }

/-- coap_send_internal for a server-initiated datagram: written at once (NON, or CON below NSTART — see header), a CON
    is queued for retransmission (coap_wait_ack: session referenced, deadline now + timeout) -/
def sendNote (st : State) (c tok code : Nat) (obs : Option Nat) (isCon : Bool) (mid rid ver : Nat) : State × Out :=
  let n := (st.notes c).length
  let st1 := addNote (txStamp st c) c { mid := mid, con := isCon }
  let o : Out := { tag := .note, c := c, n := n, token := tok, code := code, obs := obs,
                   kind := if isCon then .con else .non, mid := mid, res := rid, ver := ver }
  if isCon then
    let st2 := modSess st1 c fun s => { s with conActive := s.conActive + 1, ref := s.ref + 1 }
    ({ st2 with sendq := insertNode { sess := c, mid := mid, token := tok, code := code,
                                      due := st.now + obsAckTimeoutTicks, cnt := 0, n := n } st2.sendq }, o)
  else (st1, o)

/-! ### the notify loop (coap_notify_observers) -/

structure OneRes where
  sub : Option Sub          -- none: the entry was deleted (error response)
  pd : Bool                 -- r->partiallydirty = 1 was executed
  st : State
  outs : List Out

/-- back-pressure test: `con_active >= COAP_NSTART && (NOTIFY_CON || non_cnt >= COAP_OBS_MAX_NON)` -/
def backPressured (st : State) (r : Res) (o : Sub) : Bool :=
  decide ((getSess st o.sess).conActive ≥ obsNstart) && (r.fCon || decide (o.nonCnt ≥ obsMaxNon))

/-- the message type chosen for a notification -/
def wantCon (r : Res) (o : Sub) : Bool :=
  !(!r.fCon && (r.fNonAlways || decide (o.nonCnt < obsMaxNon)))

/-- one iteration of LL_FOREACH_SAFE(r->subscribers, obs, otmp); `r` is the resource as it was when the loop started
    (its flags, counter, dirty flag and handler verdict do not change inside the loop) -/
def notifyOne (deleting : Bool) (r : Res) (o : Sub) (st : State) : OneRes :=
  if !r.dirty && !o.dirty then
    -- "running this resource due to partiallydirty, but this observation's notification was already enqueued"
    { sub := some o, pd := false, st := { st with pending := true }, outs := [] }
  else if backPressured st r o then
    { sub := some { o with dirty := true }, pd := true, st := { st with pending := true }, outs := [] }
  else
    let (m, st1) := newMid st o.sess
    let isCon := wantCon r o
    if deleting then
      -- COAP_DELETING_RESOURCE: NON 4.04 without Observe; the entry is freed by the caller
      let (st2, out) := sendNote st1 o.sess o.token 132 none false m r.id r.ver
      { sub := some { o with dirty := false, mid := m }, pd := false, st := st2, outs := [out] }
    else if r.err then
      -- handler answered with class > 2: Observe removed, coap_delete_observer, the response is still sent
      let st2 := refDec st1 o.sess
      let (st3, out) := sendNote st2 o.sess o.token 132 none isCon m r.id r.ver
      { sub := none, pd := false, st := st3, outs := [out] }
    else
      let nc := if isCon || r.fNonAlways then 0 else (o.nonCnt + 1) % 256
      let (st2, out) := sendNote st1 o.sess o.token 69 (some r.observe) isCon m r.id r.ver
      { sub := some { o with dirty := false, mid := m, nonCnt := nc, lastVer := some r.ver }, pd := false, st := st2, outs := [out] }

structure LoopRes where
  subs : List Sub
  pd : Bool
  st : State
  outs : List Out

def notifyLoop (deleting : Bool) (r : Res) : List Sub → State → LoopRes
  | [], st => { subs := [], pd := false, st := st, outs := [] }
  | o :: rest, st =>
    let a := notifyOne deleting r o st
    let b := notifyLoop deleting r rest a.st
    { subs := a.sub.toList ++ b.subs, pd := a.pd || b.pd, st := b.st, outs := a.outs ++ b.outs }

/-- coap_notify_observers(context, r, deleting) for one resource; the resource list of `st` is not touched by the loop,
    the new resource record is returned separately -/
def notifyRes (deleting : Bool) (r : Res) (st : State) : Res × State × List Out :=
  if r.alive && (r.dirty || r.pdirty) then
    let l := notifyLoop deleting r r.subs st
    ({ r with subs := l.subs, pdirty := l.pd, dirty := false }, l.st, l.outs)
  else ({ r with dirty := false }, st, [])

/-- RESOURCES_ITER(context->resources, r) coap_notify_observers(context, r, COAP_NOT_DELETING_RESOURCE) -/
def notifyAll : List Res → State → List Res × State × List Out
  | [], st => ([], st, [])
  | r :: rest, st =>
    let (r', st1, o1) := notifyRes false r st
    let (rs, st2, o2) := notifyAll rest st1
    (r' :: rs, st2, o1 ++ o2)

/-- coap_check_notify_lkd -/
def checkNotify (st : State) : State × List Out :=
  if st.pending then
    let (rs, st1, outs) := notifyAll st.res { st with pending := false }
    ({ st1 with res := rs }, outs)
  else (st, [])

/-! ### failed notifications, retransmission -/

/-- coap_remove_failed_observers for one resource -/
def removeFailedOne (st : State) (x : Res) (c tok : Nat) : State :=
  match x.subs.find? (matchST c tok) with
  | none => st
  | some o =>
    if (o.failCnt + 1) % 256 ≥ obsMaxFail then
      let st1 := cancelAllMessages st c tok
      deleteObserver st1 x.id c tok
    else
      modRes st x.id fun y => { y with subs := modFirst (matchST c tok) (fun s => { s with failCnt := (s.failCnt + 1) % 256 }) y.subs }

/-- coap_handle_failed_notify: RESOURCES_ITER; each resource is looked at as it is when its turn comes -/
def handleFailedNotify (st : State) (c tok : Nat) : State :=
  (st.res.map (·.id)).foldl (fun s rid => match findRes s rid with
                                          | some x => removeFailedOne s x c tok
                                          | none => s) st

/-- coap_retransmit(context, node) for a node popped from the queue -/
def retransmit (st : State) (q : QNode) : State × List Out :=
  if q.cnt < obsMaxRetransmit then
    let q' := { q with cnt := q.cnt + 1, due := st.now + obsAckTimeoutTicks * 2 ^ (q.cnt + 1) }
    let st1 := { st with sendq := insertNode q' st.sendq }
    -- if (con_active) con_active--; coap_send_pdu: written, con_active++
    let st2 := modSess (conDec st1 q.sess) q.sess fun s => { s with conActive := s.conActive + 1 }
    (txStamp st2 q.sess,
     [{ tag := .rtx, c := q.sess, n := q.n, token := q.token, code := q.code, obs := none, kind := .con, mid := q.mid, res := 0, ver := 0 }])
  else
    -- give up: response class >= 2 always holds for what a server queues
    let st1 := handleFailedNotify st q.sess q.token
    let st2 := conDec st1 q.sess
    (refDec st2 q.sess, [])

/-- `while (nextpdu && nextpdu->t <= now - basetime) coap_retransmit(ctx, coap_pop_next(ctx))` -/
def retransmitDue : Nat → State → State × List Out
  | 0, st => (st, [])
  | fuel + 1, st =>
    match st.sendq with
    | [] => (st, [])
    | q :: qs =>
      if q.due ≤ st.now then
        let (st1, o1) := retransmit { st with sendq := qs } q
        let (st2, o2) := retransmitDue fuel st1
        (st2, o1 ++ o2)
      else (st, [])

/-- idle server sessions are released: `ref == 0 && last_rx_tx + session_timeout <= now` -/
def reclaim (st : State) : State :=
  { st with sess := fun c => match st.sess c with
                             | some s => if s.ref = 0 ∧ s.lastRxTx + st.stTicks ≤ st.now then none else some s
                             | none => none }

/-- coap_io_prepare_io_lkd -/
def io (st : State) : State × List Out :=
  let (st1, o1) := checkNotify st
  let (st2, o2) := retransmitDue (st1.sendq.length + 1) st1
  (reclaim st2, o1 ++ o2)

/-! ### requests -/

def respKind (con : Bool) : Kind := if con then .ack else .non

/-- handle_request for GET on resource r with Observe = `obs` (some 0 establish, some 1 cancel, none absent) -/
def request (st : State) (obsOpt : Option Nat) (c r tok key : Nat) (con : Bool) (mid : Nat) : State × List Out :=
  let st0 := rxSession st c
  match findRes st0 r with
  | none =>
    -- 4.04 from coap_new_error_response (request mid, ACK / NON)
    let st1 := txStamp st0 c
    (st1, [{ tag := .resp, c := c, n := 0, token := tok, code := 132, obs := none, kind := respKind con, mid := mid, res := r, ver := 0 }])
  | some x =>
    let st1 := match obsOpt with
               | some 0 => touchObserver (addObserver st0 r c tok key) c tok
               | some 1 => deleteObserverRequest st0 r c tok key
               | _ => st0
    let obsVal := if obsOpt = some 0 then some x.observe else none
    if x.err then
      -- class > 2: Observe removed; `if (observe) coap_delete_observer(resource, session, &pdu->actual_token)`
      let st2 := if obsOpt.isSome then deleteObserver st1 r c tok else st1
      (txStamp st2 c, [{ tag := .resp, c := c, n := 0, token := tok, code := 132, obs := none, kind := respKind con, mid := mid, res := r, ver := x.ver }])
    else
      (txStamp st1 c, [{ tag := .resp, c := c, n := 0, token := tok, code := 69, obs := obsVal, kind := respKind con, mid := mid, res := r, ver := x.ver }])

/-! ### ACK / RST -/

def handleAck (st : State) (c mid : Nat) : State :=
  let st0 := rxSession st c
  match st0.sendq.find? (matchQ c mid) with
  | none => st0
  | some q =>
    let st1 := { st0 with sendq := st0.sendq.eraseP (matchQ c mid) }
    let st2 := conDec st1 c
    let st3 := if q.code / 32 = 2 then touchObserver st2 c q.token else st2
    refDec st3 c

/-- coap_cancel(context, sent): RESOURCES_ITER { coap_cancel_all_messages; coap_delete_observer } -/
def cancelSent (st : State) (c tok : Nat) : State :=
  (st.res.map (·.id)).foldl (fun s rid => match findRes s rid with
                                          | some _ => deleteObserver (cancelAllMessages s c tok) rid c tok
                                          | none => s) st

/-- the first (resource order, list order) entry of session c whose `pdu->mid` is `mid` -/
def findByMid (rs : List Res) (c mid : Nat) : Option (Nat × Nat) :=
  match rs with
  | [] => none
  | x :: rest =>
    if x.alive then
      match x.subs.find? (fun s => s.mid == mid && s.sess == c) with
      | some s => some (x.id, s.token)
      | none => findByMid rest c mid
    else findByMid rest c mid

def handleRst (st : State) (c mid : Nat) : State :=
  let st0 := rxSession st c
  -- since fix 040adf3: the message is looked up first; `con_active--` only when it was found (as in the ACK branch)
  match st0.sendq.find? (matchQ c mid) with
  | some q =>
    let st1 := conDec { st0 with sendq := st0.sendq.eraseP (matchQ c mid) } c
    refDec (cancelSent st1 c q.token) c
  | none =>
    match findByMid st0.res c mid with
    | some (rid, tok) => deleteObserver st0 rid c tok
    | none => st0

/-! ### session loss, resource deletion, change -/

/-- coap_session_disconnected_lkd(session, COAP_NACK_NOT_DELIVERABLE) on a UDP server session -/
def sessionLost (st : State) (c : Nat) : State :=
  match st.sess c with
  | none => st
  | some _ =>
    let k := (st.res.map fun x => (x.subs.filter fun s => s.sess == c).length).sum
    let st1 := mapRes st fun x => { x with subs := x.subs.filter fun s => !(s.sess == c) }
    let kq := (st1.sendq.filter fun q => q.sess == c).length
    let st2 := { st1 with sendq := st1.sendq.filter fun q => !(q.sess == c) }
    modSess st2 c fun s => { s with ref := s.ref - k - kq, conActive := 0 }

/-- coap_resource_notify_observers_lkd -/
def change (st : State) (r : Nat) : State :=
  match findRes st r with
  | none => st
  | some x =>
    if x.subs.isEmpty then st
    else { modRes st r fun y => { y with dirty := true, observe := nextObserve y.observe, ver := y.ver + 1 } with pending := true }

def releaseAll (st : State) : List Sub → State
  | [] => st
  | s :: rest => releaseAll (refDec st s.sess) rest

/-- coap_delete_resource -> coap_free_resource -/
def deleteResource (st : State) (r : Nat) : State × List Out :=
  match findRes st r with
  | none => (st, [])
  | some _ =>
    let st1 := change st r
    match findRes st1 r with
    | none => (st1, [])
    | some x1 =>
      let (x2, st2, outs) := notifyRes true x1 st1
      let st3 := releaseAll st2 x2.subs
      (modRes st3 r fun y => { y with alive := false, subs := [], dirty := false, pdirty := x2.pdirty }, outs)

/-! ### one event -/

/-- which server-initiated datagram an `ack c n` / `rst c n` event means: n < 1000 absolute index, n = 1000 + k the k-th most
    recent one (so that generated histories hit existing datagrams without knowing how many there are) -/
def noteIdx (len n : Nat) : Option Nat :=
  if n ≥ 1000 then (if n - 1000 < len then some (len - 1 - (n - 1000)) else none)
  else if n < len then some n else none

def lookupNote (st : State) (c n : Nat) : Option Note :=
  match noteIdx (st.notes c).length n with
  | some i => (st.notes c)[i]?
  | none => none

def rxThenIo (p : State × List Out) : State × List Out :=
  let (st1, o1) := p
  let (st2, o2) := io st1
  (st2, o1 ++ o2)

def step (st : State) (e : Event) : State × List Out :=
  match e with
  | .reg c r tok key con mid => rxThenIo (request st (some 0) c r tok key con mid)
  | .can c r tok key con mid => rxThenIo (request st (some 1) c r tok key con mid)
  | .get c r tok key con mid => rxThenIo (request st none c r tok key con mid)
  | .chg r => (change st r, [])
  | .adv ms => io { st with now := st.now + ms }
  | .ack c n =>
    match lookupNote st c n with
    | some nt => if nt.con then rxThenIo (handleAck st c nt.mid, []) else (st, [])
    | none => (st, [])
  | .rst c n =>
    match lookupNote st c n with
    | some nt => rxThenIo (handleRst st c nt.mid, [])
    | none => (st, [])
  | .err r b => (modRes st r fun y => { y with err := b }, [])
  | .lost c => (sessionLost st c, [])
  | .del r => deleteResource st r

def run : State → List Event → State × List Out
  | st, [] => (st, [])
  | st, e :: es =>
    let (st1, o1) := step st e
    let (st2, o2) := run st1 es
    (st2, o1 ++ o2)

def mkRes (id : Nat) (fCon fNonAlways : Bool) (start : Nat) : Res :=
  { id := id, alive := true, fCon := fCon, fNonAlways := fNonAlways, observe := setObserve start, dirty := false,
    pdirty := false, subs := [], err := false, ver := 0 }

def init (res : List Res) (stTicks : Nat) : State :=
  { now := 1000, pending := false, res := res, sess := fun _ => none, sendq := [], notes := fun _ => [], stTicks := stTicks }

end Coap.Observe
