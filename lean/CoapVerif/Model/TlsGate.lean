/-
C19 — (D)TLS sessions exchange application data only after an authenticated handshake (DESIGN.md §4 C19).  Core Lean only.

M: transcription of libcoap's part of a DTLS session, with GnuTLS as an ORACLE whose answers are an input:
     src/coap_net.c      coap_send_pdu (the gate), coap_session_send_pdu, coap_send_internal (tail), coap_wait_ack,
                         coap_retransmit, coap_handle_dgram_for_proto, coap_read_endpoint, coap_handle_dgram,
                         coap_dispatch / handle_response / handle_request (the branches a GET exchange uses),
                         coap_cancel_session_messages
     src/coap_session.c  coap_session_delay_pdu, coap_session_connected, coap_session_disconnected_lkd,
                         coap_session_release_lkd / coap_session_free / coap_session_mfree, the ClientHello pre-filter of
                         coap_endpoint_get_session, coap_session_new_dtls_session, coap_session_establish
     src/coap_layers.c   the per-protocol layer table (which function writes a PDU of a session)
     src/coap_dtls.c     coap_dtls_establish, coap_dtls_close
     src/coap_gnutls.c   do_gnutls_handshake (the switch over GnuTLS' return codes), coap_dtls_new_client_session,
                         coap_dtls_hello, coap_dtls_send, coap_dtls_receive, coap_dtls_handle_timeout,
                         coap_dtls_free_session / coap_dtls_free_gnutls_env
   A run is a list of `Ev` (application calls, datagram arrivals, timer expiries); each event carries the answers GnuTLS
   gave inside it (`Orc`, consumed in order).  `Out` is everything observable: PDUs written (tagged with the layer
   they were written through), handler calls, NACKs, events, calls into the TLS library.

ORACLE ASSUMPTION (trusted, DESIGN.md §3.5): `gnutls_handshake` returns success (`HsRes.ok`) only when both sides
   accepted the credentials.  Whether it does for a configuration is OBSERVED per case by the harness.

SPEC DECISION D19a: "exactly one NACK" is about requests held in the delay queue (queued before the session was
   established).  A Confirmable already in flight when an established session is torn down is C06/C07's business
   (libcoap reports the first one twice: DESIGN.md §5 row 22).
SPEC DECISION D19b: a queued Non-confirmable request is dropped silently on failure (the property names Confirmable).
SPEC DECISION D19c: TLS over TCP (`Proto.tls`) is modelled for ONE CoAP message per TLS record (what libcoap itself
   writes: one coap_tls_write = one gnutls_record_send); stream reassembly of a message split over records is C05's and
   prints `!unmodelled`.  Modelled for TLS: coap_session_check_connect / coap_connect_session, coap_new_server_session,
   coap_tls_establish, coap_tls_new_client_session / coap_tls_new_server_session, coap_tls_write, coap_tls_read,
   coap_read_session (reliable branch), coap_session_establish / coap_session_send_csm, handle_signaling (CSM),
   the reliable branches of coap_session_connected / coap_session_disconnected_lkd / coap_send_lkd (type forced to CON,
   coap_client_delay_first) / coap_send_internal, coap_tls_close.  The differential run (harness/tls.c) uses real
   loopback TCP sockets.
BLOCK MODE (COAP_BLOCK_USE_LIBCOAP on the client context, `Sess.blockMode`): the session's lg_crcv list (`Sess.lgCrcv`, head =
   most recent) — made by coap_send_lkd for a request that coap_check_send_need_lg_crcv wants tracked (Non-confirmable, any
   request on a reliable transport, Observe option: `sendLkdTail`), expired by the response (coap_handle_response_get_block,
   `lgResponse`) or by coap_block_check_lg_crcv_timeouts (`lgExpire`, observed), reported by coap_session_disconnected_lkd
   ONLY IF nothing else was (`discLg`: `if (!sent_nack && session->lg_crcv)`), deleted there and in coap_session_mfree.
   SPEC DECISION D19g: such a NACK for a queued Non-confirmable is allowed (the property bounds Confirmables).
-/
namespace Coap.TlsGate

/-! ## vocabulary -/

inductive Proto where | udp | dtls | tls
  deriving DecidableEq, Repr

/-- `coap_session_state_t` -/
inductive SState where | none | connecting | handshake | csm | established
  deriving DecidableEq, Repr

def SState.toNat : SState → Nat
  | .none => 0 | .connecting => 1 | .handshake => 2 | .csm => 3 | .established => 4

/-- `coap_session_type_t` -/
inductive STyp where | client | server | hello
  deriving DecidableEq, Repr

/-- classes of `gnutls_handshake` return codes, exactly the cases of the switch in do_gnutls_handshake -/
inductive HsRes where
  | ok | again | insuff | fatalrx | unexp | warn | nocert | decrypt | certerr | cipher | eof | other
  deriving DecidableEq, Repr

/-- a decoded CoAP message: kind 0 CON, 1 NON, 2 ACK, 3 RST -/
structure View where
  kind : Nat
  code : Nat
  mid : Nat
  tok : String
  payload : String := ""
  deriving DecidableEq, Repr

inductive RecRes where
  | data (v : View) | junk | zero | fatalrx | warn | err
  | again | pull             -- TLS only: GNUTLS_E_AGAIN, GNUTLS_E_PULL_ERROR (coap_tls_read tells them apart)
  deriving DecidableEq, Repr

inductive SndRes where | ok | again | fatalrx | err
  | push | part              -- TLS only: GNUTLS_E_PUSH_ERROR / PULL_ERROR / PREMATURE_TERMINATION; fewer bytes than asked
  deriving DecidableEq, Repr

/-- one answer of the TLS library -/
inductive Orc where
  | env (ok : Bool)          -- gnutls_init
  | hs (r : HsRes)           -- gnutls_handshake
  | recv (r : RecRes)        -- gnutls_record_recv
  | snd (r : SndRes)         -- gnutls_record_send
  | ck (ok : Bool)           -- gnutls_dtls_cookie_verify
  deriving DecidableEq, Repr

inductive Nack where | retries | undeliv | rst | tls | icmp | bad | tlslayer
  deriving DecidableEq, Repr

inductive DEv where | closed | connected | error
  deriving DecidableEq, Repr

/-- COAP_EVENT_TCP_* / COAP_EVENT_SESSION_* (reliable transports) -/
inductive TcpEv where | connected | closed | failed | sessConnected | sessClosed | sessFailed
  deriving DecidableEq, Repr

/-- a message submitted for transmission (a `coap_queue_t` node / its PDU); `sn` is a ghost serial number -/
structure QMsg where
  sn : Nat
  con : Bool
  code : Nat
  mid : Nat
  tok : String
  cnt : Nat := 0             -- retransmit_cnt
  deriving DecidableEq, Repr

def QMsg.view (m : QMsg) (ack : Bool := false) : View :=
  ⟨if ack then 2 else if m.con then 0 else 1, m.code, m.mid, m.tok, ""⟩

/-- the ghost serial a written PDU is tagged with: none for an acknowledgement / piggy-backed response -/
def QMsg.snOf (m : QMsg) (ack : Bool) : Option Nat := if ack then none else some m.sn

inductive Out where
  | tx (tls : Bool) (v : View) (sn : Option Nat) (cnt : Nat)   -- a PDU written; tls = through coap_dtls_send (else plain netif
                                                     -- write); cnt = the node's retransmit_cnt: 0 = a FIRST transmission
  | req (tok payload : String)                       -- request handler called
  | rsp (tok : String) (code : Nat)                  -- response handler called
  | nack (r : Nack) (tok : Option String) (sn : Option Nat)
  | ev (e : DEv)
  | evTcp (e : TcpEv)
  | evNew | evDel | evRtx
  | bye | alert | cookie                             -- gnutls_bye / gnutls_alert_send / gnutls_dtls_cookie_send
  | sendfail
  | hsOkMark                                         -- ghost: the oracle reported a completed handshake
  | orcMissing                                       -- the event did not carry the oracle answer M asked for
  | unmodelled (what : String)
  deriving DecidableEq, Repr

def Out.isHandler : Out → Bool
  | .req .. => true
  | .rsp .. => true
  | _ => false

structure Sess where
  proto : Proto := .dtls
  typ : STyp := .client
  state : SState := .none
  tls : Bool := false                 -- session->tls != NULL
  est : Bool := false                 -- g_env->established
  sentAlert : Bool := false           -- g_env->sent_alert
  dtlsEvent : Option DEv := none      -- session->dtls_event
  delayq : List QMsg := []
  inflight : List QMsg := []          -- this session's nodes in context->sendqueue
  conActive : Nat := 0
  tmoCount : Nat := 0
  appRef : Bool := true               -- the application's reference (client sessions)
  lastAckMid : Option Nat := none
  lastConMid : Option Nat := none
  freed : Bool := false
  next : Nat := 0                     -- ghost: next serial number
  doingFirst : Bool := false          -- session->doing_first (reliable client sessions)
  sockOpen : Bool := true             -- coap_netif_available(session) (looked at on reliable sessions only)
  blockMode : Bool := false           -- session->block_mode & COAP_BLOCK_USE_LIBCOAP (copied from the context at creation)
  lgCrcv : List QMsg := []            -- session->lg_crcv: the request each entry was made for (head = most recent: LL_PREPEND)
  deriving DecidableEq, Repr

/-- the running context of one event: session, remaining oracle answers, outputs so far, last return value -/
structure Ctx where
  s : Sess
  orc : List Orc := []
  out : List Out := []
  ret : Int := 0
  -- the last answer popped from the oracle / the node found by removeInflight
  hsR : HsRes := .other
  recR : RecRes := .err
  sndR : SndRes := .err
  flag : Bool := false
  found : Option QMsg := none
  deriving Repr

def NSTART : Nat := 1
def MAX_RETRANSMIT : Nat := 4
def DELAYED : Int := -3      -- COAP_PDU_DELAYED

namespace Ctx

def emit (o : Out) (c : Ctx) : Ctx := { c with out := c.out ++ [o] }
def setRet (r : Int) (c : Ctx) : Ctx := { c with ret := r }
def upd (f : Sess → Sess) (c : Ctx) : Ctx := { c with s := f c.s }

/-! ## the oracle -/

def popHs (c : Ctx) : Ctx :=
  match c.orc with
  | .hs r :: t => { c with orc := t, hsR := r }
  | _ => { c.emit .orcMissing with hsR := .other }
def popRec (c : Ctx) : Ctx :=
  match c.orc with
  | .recv r :: t => { c with orc := t, recR := r }
  | _ => { c.emit .orcMissing with recR := .err }
def popSnd (c : Ctx) : Ctx :=
  match c.orc with
  | .snd r :: t => { c with orc := t, sndR := r }
  | _ => { c.emit .orcMissing with sndR := .err }
def popEnv (c : Ctx) : Ctx :=
  match c.orc with
  | .env b :: t => { c with orc := t, flag := b }
  | _ => { c.emit .orcMissing with flag := false }
def popCk (c : Ctx) : Ctx :=
  match c.orc with
  | .ck b :: t => { c with orc := t, flag := b }
  | _ => { c.emit .orcMissing with flag := false }

/-! ## coap_gnutls.c -/

/-- do_gnutls_handshake: ret 1 established / 0 not completed / -1 failure -/
def doHandshake (c : Ctx) : Ctx :=
  let c := c.popHs
  let closed (c : Ctx) : Ctx := (c.upd fun s => { s with dtlsEvent := some .closed }).setRet (-1)
  match c.hsR with
  | .ok => ((c.upd fun s => { s with est := true }).emit .hsOkMark).setRet 1
  | .again => c.setRet 0
  | .insuff => c.setRet (-1)
  | .fatalrx => closed (c.upd fun s => { s with sentAlert := true })
  | .unexp => closed c
  | .warn => (c.upd fun s => { s with dtlsEvent := some .error }).setRet 0
  | .nocert => closed ((c.emit .alert).upd fun s => { s with sentAlert := true })
  | .decrypt => closed ((c.emit .alert).upd fun s => { s with sentAlert := true })
  | .certerr =>
    if c.s.sentAlert then closed c
    else closed ((c.emit .alert).upd fun s => { s with sentAlert := true })
  | .cipher =>
    if c.s.sentAlert then closed c
    else closed ((c.emit .alert).upd fun s => { s with sentAlert := true })
  | .eof => closed c
  | .other => c.setRet (-1)

/-- coap_dtls_free_gnutls_env -/
def freeEnv (sayBye : Bool) (c : Ctx) : Ctx :=
  let c := if sayBye && !c.s.sentAlert then c.emit .bye else c
  c.upd fun s => { s with est := false, sentAlert := false }

/-- coap_dtls_free_session (+ the event it raises) -/
def dtlsFreeSession (c : Ctx) : Ctx :=
  if c.s.tls then ((c.freeEnv true).upd fun s => { s with tls := false }).emit (.ev .closed) else c

/-- `lfunc[COAP_LAYER_SESSION].l_close`: coap_dtls_close for DTLS, coap_tls_close for TLS (both: free the TLS object,
then coap_netif_close), coap_netif_close for UDP (coap_layers.c) -/
def sessionClose (c : Ctx) : Ctx :=
  match c.s.proto with
  | .udp => c
  | .dtls => c.dtlsFreeSession
  | .tls => c.dtlsFreeSession.upd fun s => { s with sockOpen := false }

/-! ## coap_session.c: disconnect -/

def nackOf (r : Nack) (m : QMsg) : Out := .nack r (some m.tok) (some m.sn)

/-- coap_session_disconnected_lkd, first loop: the first node of the send queue that belongs to the session -/
def discFirst (reason : Nack) (c : Ctx) : List Out :=
  match c.s.inflight with | q :: _ => [nackOf reason q] | [] => []

/-- second loop (not for an ICMP error): every Confirmable in the delay queue -/
def discDq (reason : Nack) (c : Ctx) : List Out :=
  if reason = .icmp then [] else (c.s.delayq.filter fun q : QMsg => q.con).map (nackOf reason)

/-- `if (!sent_nack && session->lg_crcv)`: ONLY IF NOTHING WAS REPORTED SO FAR the request of the first lg_crcv entry
(block mode: large-receive / observe tracking) -/
def discLg (reason : Nack) (c : Ctx) : List Out :=
  if (c.discFirst reason ++ c.discDq reason).isEmpty then (match c.s.lgCrcv with | g :: _ => [nackOf reason g] | [] => []) else []

/-- the NACKs coap_session_disconnected_lkd raises before it touches the session: `discFirst`, `discDq`, `discLg`, or one
NACK without a PDU if there was nothing at all (`if (!sent_nack)`) -/
def discOuts (reason : Nack) (c : Ctx) : List Out :=
  let named := c.discFirst reason ++ c.discDq reason ++ c.discLg reason
  named ++ (if named.isEmpty then [.nack reason none none] else [])

/-- coap_session_disconnected_lkd, `#if !COAP_DISABLE_TCP if (COAP_PROTO_RELIABLE(session->proto))`: the TCP / session
events (`st0` = the session state on entry) and doing_first -/
def relTail (st0 : SState) (c : Ctx) : Ctx :=
  if c.s.proto = .tls then
    let c := if c.s.sockOpen then c.emit (.evTcp (if st0 = .connecting then .failed else .closed)) else c
    let c := if st0 ≠ .none then c.emit (.evTcp (if st0 = .established then .sessClosed else .sessFailed)) else c
    c.upd fun s => { s with doingFirst := false }
  else c

/-- coap_session_disconnected_lkd -/
def disconnected (reason : Nack) (c : Ctx) : Ctx :=
  let st0 := c.s.state
  let c := { c with out := c.out ++ c.discOuts reason }
  if reason = .icmp then c else
  let c := c.upd fun s => { s with delayq := [], state := if s.proto = .udp then .established else .none, conActive := 0 }
  -- coap_cancel_session_messages
  let c := { c with out := c.out ++ (c.s.inflight.filter fun q : QMsg => q.con).map (nackOf reason) }
  -- (the lg_crcv entries are deleted before the close: LL_FOREACH_SAFE … coap_block_delete_lg_crcv)
  let c := c.upd fun s => { s with inflight := [], lgCrcv := [] }
  (c.relTail st0).sessionClose

/-! ## coap_net.c: the gate -/

/-- coap_session_delay_pdu; `fromNode` = the PDU is a send-queue node being retransmitted -/
def delayPdu (m : QMsg) (fromNode : Bool) (c : Ctx) : Ctx :=
  if fromNode then
    (c.upd fun s => { s with inflight := s.inflight.filter (·.sn ≠ m.sn), delayq := s.delayq ++ [m] }).setRet DELAYED
  else if c.s.proto ≠ .tls && c.s.delayq.any (·.mid = m.mid) then c.setRet (-1)
  else (c.upd fun s => { s with delayq := s.delayq ++ [m] }).setRet DELAYED

/-- gnutls_record_send and the switch over its result in coap_dtls_send -/
def sndResult (c : Ctx) : Ctx :=
  let c := c.popSnd
  match c.sndR with
  | .ok => c.setRet 1
  | .again => c.setRet 0
  | .fatalrx => (c.upd fun s => { s with sentAlert := true, dtlsEvent := some .closed }).setRet (-1)
  | .err => c.setRet (-1)
  | .push => c.setRet (-1)
  | .part => c.setRet (-1)

/-- coap_dtls_send up to the event handling (the harness logs the PDU at entry) -/
def dtlsSendCore (m : QMsg) (ack : Bool) (c : Ctx) : Ctx :=
  let c := c.emit (.tx true (m.view ack) (m.snOf ack) m.cnt)
  let c := c.upd fun s => { s with dtlsEvent := none }
  if c.s.est then c.sndResult
  else
    let c := c.doHandshake
    -- "just connected, so send the data": the recursive call
    if c.ret = 1 then (c.upd fun s => { s with dtlsEvent := none }).sndResult else c.setRet (-1)

/-- tail of coap_dtls_send: act on session->dtls_event -/
def sendTail (c : Ctx) : Ctx :=
  match c.s.dtlsEvent with
  | some e =>
    let c := c.emit (.ev e)
    if e = .error || e = .closed then (c.disconnected .tls).setRet (-1) else c
  | none => c

/-- coap_dtls_send -/
def dtlsSend (m : QMsg) (ack : Bool) (c : Ctx) : Ctx := (c.dtlsSendCore m ack).sendTail

/-! ### TLS over TCP: coap_tls_write, coap_session_send_csm -/

/-- a CoAP-over-TCP message has no type and no message id on the wire (libcoap keeps every PDU of a reliable session
as CON): kind C, mid 0 -/
def _root_.Coap.TlsGate.QMsg.strmView (m : QMsg) : View := ⟨0, m.code, 0, m.tok, ""⟩

/-- tail of coap_tls_write / coap_tls_read: act on session->dtls_event (CLOSED is reported by
coap_session_disconnected_lkd itself) -/
def tlsTail (c : Ctx) : Ctx :=
  match c.s.dtlsEvent with
  | some e =>
    let c := if e ≠ .closed then c.emit (.ev e) else c
    if e = .error || e = .closed then (c.disconnected .tls).setRet (-1) else c
  | none => c

/-- coap_tls_write on a session whose GnuTLS handshake is complete: gnutls_record_send and the switch over its result;
ret 1 = everything written, 0 = nothing (EAGAIN), -1 = error -/
def tlsRecordSend (m : QMsg) (ack : Bool) (c : Ctx) : Ctx :=
  let c := c.emit (.tx true m.strmView (m.snOf ack) m.cnt)
  let c := c.upd fun s => { s with dtlsEvent := none }
  let c := c.popSnd
  let c :=
    match c.sndR with
    | .ok => c.setRet 1
    | .again => c.setRet 0
    | .push => (c.upd fun s => { s with dtlsEvent := some .closed }).setRet (-1)
    | .fatalrx => (c.upd fun s => { s with sentAlert := true, dtlsEvent := some .closed }).setRet (-1)
    | .err => c.setRet (-1)
    | .part => (c.emit (.unmodelled "partial-write")).setRet 1
  c.tlsTail

/-- coap_session_establish on a reliable session = coap_session_send_csm: state CSM, the CSM goes out through
coap_session_send_pdu; anything but a complete write disconnects.  It is only ever called right after
do_gnutls_handshake reported success (g_env->established is set), so the write is the established branch of
coap_tls_write; M says `!unmodelled` otherwise (this also cuts the recursion coap_tls_write -> l_establish ->
coap_session_send_csm -> coap_tls_write). -/
def sendCsm (c : Ctx) : Ctx :=
  let c := c.upd fun s => { s with state := .csm }
  let m : QMsg := { sn := c.s.next, con := true, code := 225, mid := 0, tok := "-" }
  let c := c.upd fun s => { s with next := s.next + 1 }
  let c := if c.s.est then c.tlsRecordSend m false else (c.emit (.unmodelled "csm-before-established")).setRet (-1)
  if c.ret ≠ 1 then c.disconnected .undeliv else c

/-- coap_tls_write (the harness logs the PDU at entry) -/
def tlsWrite (m : QMsg) (ack : Bool) (c : Ctx) : Ctx :=
  if c.s.est then c.tlsRecordSend m ack
  else
    let c := c.emit (.tx true m.strmView (m.snOf ack) m.cnt)
    let c := c.upd fun s => { s with dtlsEvent := none }
    let c := c.doHandshake
    let c := if c.ret = 1 then ((c.emit (.ev .connected)).sendCsm).setRet 0 else c.setRet (-1)
    c.tlsTail

/-- coap_session_send_pdu: `lfunc[COAP_LAYER_SESSION].l_write` = coap_netif_dgrm_write (UDP) / coap_dtls_send (DTLS) /
coap_tls_write (TLS) — coap_layers.c -/
def sessionSendPdu (m : QMsg) (ack : Bool) (c : Ctx) : Ctx :=
  match c.s.proto with
  | .udp => (c.emit (.tx false (m.view ack) (m.snOf ack) m.cnt)).setRet 1
  | .dtls => dtlsSend m ack c
  | .tls => tlsWrite m ack c

/-- coap_send_pdu -/
def sendPdu (m : QMsg) (ack fromNode : Bool) (c : Ctx) : Ctx :=
  if c.s.state = .none && c.s.typ ≠ .client then c.setRet (-1)
  else if c.s.state ≠ .established || (m.con && !ack && c.s.conActive ≥ NSTART) then c.delayPdu m fromNode
  else
    let c := c.sessionSendPdu m ack
    if c.ret ≥ 0 && m.con && !ack && c.s.proto ≠ .tls then c.upd fun s => { s with conActive := s.conActive + 1 } else c

/-- one round of the loop in coap_session_connected: the head `q` of the delay queue is taken off and written;
a Confirmable counts as active and goes to the send queue (coap_wait_ack always succeeds), anything else is deleted -/
def flushOne (q : QMsg) (rest : List QMsg) (c : Ctx) : Ctx :=
  let c := c.upd fun s => { s with conActive := if q.con && s.proto ≠ .tls then s.conActive + 1 else s.conActive,
                                   delayq := rest }
  let c := c.sessionSendPdu q false
  c.upd fun s => { s with inflight := if q.con && s.proto ≠ .tls then s.inflight ++ [q] else s.inflight }

/-- coap_session_connected: the flush of the delay queue, in order -/
def flushLoop : Nat → Ctx → Ctx
  | 0, c => c
  | fuel + 1, c =>
    match c.s.delayq with
    | [] => c
    | q :: rest =>
      if c.s.state ≠ .established then c else
      if q.con && c.s.proto ≠ .tls && c.s.conActive ≥ NSTART then c else
      let c := c.flushOne q rest
      if c.s.proto = .tls then
        -- reliable: anything but a complete write puts the node back at the head of the queue and stops
        if c.ret ≤ 0 then c.upd fun s => { s with delayq := q :: s.delayq } else flushLoop fuel c
      else if c.ret < 0 then c else flushLoop fuel c

def sessionConnected (c : Ctx) : Ctx :=
  -- leaving CSM state: COAP_EVENT_SESSION_CONNECTED, doing_first cleared
  let c := if c.s.state = .csm then (c.emit (.evTcp .sessConnected)).upd fun s => { s with doingFirst := false } else c
  let c := c.upd fun s => { s with state := .established }
  flushLoop (c.s.delayq.length + 1) c

/-- coap_session_free -> coap_session_mfree (the lg_crcv entries are deleted silently — none has `observe_set`: the
harness' resource is not observable —, close, then the delay queue is NACKed) -/
def sessionFree (c : Ctx) : Ctx :=
  let c := c.upd fun s => { s with lgCrcv := [] }
  let c := c.sessionClose
  let r : Nack := if c.s.proto = .dtls then .tls else .undeliv
  let c := { c with out := c.out ++ (c.s.delayq.filter fun q : QMsg => q.con).map (nackOf r) }
  c.upd fun s => { s with delayq := [], freed := true }

/-- a node was deleted / the application released: the last reference frees a client session -/
def maybeFree (c : Ctx) : Ctx :=
  if !c.s.freed && c.s.typ = .client && !c.s.appRef && c.s.inflight.isEmpty then c.sessionFree else c

/-- tail of coap_send_internal -/
def sendInternal (m : QMsg) (ack : Bool) (c : Ctx) : Ctx :=
  let c := c.sendPdu m ack false
  if c.ret = DELAYED then c
  else if c.ret < 0 then c.emit .sendfail
  else if !m.con || ack || c.s.proto = .tls then c
  else c.upd fun s => { s with inflight := s.inflight ++ [m] }

/-- the application (or the library, for a response) submits a message: coap_send on a session WITHOUT block mode
(`if (!(session->block_mode & COAP_BLOCK_USE_LIBCOAP)) return coap_send_internal(session, pdu)`) -/
def appSend (con : Bool) (code mid : Nat) (tok : String) (c : Ctx) : Ctx :=
  let m : QMsg := { sn := c.s.next, con := con, code := code, mid := mid, tok := tok }
  (c.upd fun s => { s with next := s.next + 1 }).sendInternal m false

/-! ### block mode (COAP_BLOCK_USE_LIBCOAP): the lg_crcv list -/

/-- LL_FOREACH … first entry whose application token is `tok` … LL_DELETE -/
def eraseTok (tok : String) : List QMsg → List QMsg
  | [] => []
  | g :: t => if g.tok = tok then t else g :: eraseTok tok t

/-- coap_check_send_need_lg_crcv for the requests the harness makes (GET; no OSCORE, no (Q-)Block1): a Non-confirmable
or any request on a reliable transport, or one with an Observe option -/
def needLgCrcv (con obs : Bool) (c : Ctx) : Bool := !con || c.s.proto = .tls || obs

/-- coap_send_lkd from `if (!(session->block_mode & COAP_BLOCK_USE_LIBCOAP)) return coap_send_internal(…)` on, for a request:
an lg_crcv entry is made when needed (an older one for the same token is dropped first), the PDU goes to
coap_send_internal, the entry is LL_PREPENDed unless that returned COAP_INVALID_MID (delayed counts as sent) -/
def sendLkdTail (m : QMsg) (obs : Bool) (c : Ctx) : Ctx :=
  if !c.s.blockMode then c.sendInternal m false else
  if needLgCrcv m.con obs c then
    let c := c.upd fun s => { s with lgCrcv := eraseTok m.tok s.lgCrcv }
    let c := c.sendInternal m false
    if c.ret = DELAYED || c.ret ≥ 0 then c.upd fun s => { s with lgCrcv := m :: s.lgCrcv } else c
  else c.sendInternal m false

/-- coap_send on a DTLS client session, block mode or not; `obs` = the request carries an Observe option -/
def appSendL (con obs : Bool) (code mid : Nat) (tok : String) (c : Ctx) : Ctx :=
  let m : QMsg := { sn := c.s.next, con := con, code := code, mid := mid, tok := tok }
  (c.upd fun s => { s with next := s.next + 1 }).sendLkdTail m obs

/-- handle_response in block mode -> coap_handle_response_get_block for a response without Block2 / Observe option (what
the harness' resource answers): the lg_crcv entry of that token is expired (`goto expire_lg_crcv`); 4.01 (Echo) is
outside the modelled subset -/
def lgResponse (v : View) (c : Ctx) : Ctx :=
  if !c.s.blockMode then c
  else if v.code = 129 then c.emit (.unmodelled "4.01-in-block-mode")
  else c.upd fun s => { s with lgCrcv := eraseTok v.tok s.lgCrcv }

/-- coap_block_check_lg_crcv_timeouts (run by the I/O loop): entries not used for MAX_TRANSMIT_WAIT are deleted silently;
`keep` = the tokens of the entries that survived (observed) -/
def lgExpire (keep : List String) (c : Ctx) : Ctx :=
  c.upd fun s => { s with lgCrcv := s.lgCrcv.filter fun g => keep.contains g.tok }

/-! ## receiving -/

def setFound (q : Option QMsg) (c : Ctx) : Ctx := { c with found := q }
def setFlag (f : Bool) (c : Ctx) : Ctx := { c with flag := f }

/-- coap_remove_from_queue for this session -/
def removeInflight (mid : Nat) (c : Ctx) : Ctx :=
  match c.s.inflight.find? (·.mid = mid) with
  | some q => (c.upd fun s => { s with inflight := s.inflight.filter (·.sn ≠ q.sn) }).setFound (some q)
  | none => c.setFound none

/-- handle_response (ACK / NON responses; a CON response is outside the modelled subset) -/
def handleResponse (v : View) (c : Ctx) : Ctx :=
  -- coap_cancel_all_messages for anything but an ACK: same token, no NACK
  let c := c.upd fun s =>
    if v.kind ≠ 2 then
      { s with inflight := s.inflight.filter (fun q => q.tok ≠ v.tok),
               conActive := s.conActive - (s.inflight.filter fun q => q.tok = v.tok ∧ q.con).length }
    else s
  if v.kind = 0 then c.emit (.unmodelled "con-response")
  else if v.kind = 2 && c.s.lastAckMid = some v.mid then c
  else ((c.upd fun s => if v.kind = 2 then { s with lastAckMid := some v.mid } else s).lgResponse v).emit (.rsp v.tok v.code)

/-- handle_request for the harness' resource: the handler answers 2.05, piggy-backed for CON -/
def handleRequest (v : View) (c : Ctx) : Ctx :=
  let c := c.emit (.req v.tok v.payload)
  let m : QMsg := { sn := c.s.next, con := false, code := 69, mid := v.mid, tok := v.tok }
  (c.upd fun s => { s with next := s.next + 1 }).sendInternal m (v.kind = 0)

/-- `con_active--` followed by the flush of the delay queue if the session is established: after an ACK, a RST, a
give-up (coap_dispatch, coap_retransmit) -/
def ackFlush (c : Ctx) : Ctx :=
  if c.s.conActive > 0 then
    let c := c.upd fun s => { s with conActive := s.conActive - 1 }
    if c.s.state = .established then c.sessionConnected else c
  else c

/-- coap_handle_dgram -> coap_dispatch -/
def dispatch (v : View) (c : Ctx) : Ctx :=
  if v.kind = 2 then
    let c := c.removeInflight v.mid
    let c := if c.found.isSome then c.ackFlush else c
    if v.code = 0 then c
    else if v.code < 32 then c
    else c.handleResponse v
  else if v.kind = 3 then
    let c := c.ackFlush
    let c := c.removeInflight v.mid
    match c.found with
    | some q => if q.con then c.emit (nackOf .rst q) else c
    | none => c.emit (.nack .rst none none)
  else
    let c := if v.kind = 1 then c.removeInflight v.mid else c
    if v.code = 0 then c.emit (.unmodelled "empty")
    else if v.code < 32 then c.handleRequest v
    else if v.code ≥ 64 then c.handleResponse v
    else c.emit (.unmodelled "code")

/-- tail of coap_dtls_receive: act on session->dtls_event -/
def receiveTail (c : Ctx) : Ctx :=
  match c.s.dtlsEvent with
  | some e =>
    let c := if e ≠ .closed then c.emit (.ev e) else c
    if e = .error || e = .closed then c.disconnected .tls else c
  | none => c

/-- do_gnutls_handshake, and coap_session_connected if it reported success -/
def hsThenConnect (c : Ctx) : Ctx :=
  let c := c.doHandshake
  if c.ret = 1 then c.sessionConnected.setFlag true else c.setFlag false

/-- coap_dtls_receive, `established` branch -/
def recvEst (c : Ctx) : Ctx :=
  let c := if c.s.state = .handshake then (c.emit (.ev .connected)).sessionConnected else c
  let c := c.popRec
  match c.recR with
  | .data v => c.dispatch v            -- returns directly
  | .junk => c
  | .zero => (c.upd fun s => { s with dtlsEvent := some .closed }).receiveTail
  | .fatalrx => (c.upd fun s => { s with sentAlert := true, dtlsEvent := some .closed }).receiveTail
  | .warn => (c.upd fun s => { s with dtlsEvent := some .error }).receiveTail
  | .err => c.receiveTail
  | .again => c.receiveTail
  | .pull => c.receiveTail

/-- coap_dtls_receive, handshake branch.  "Do the handshake again in case of internal timeout" happens only if GnuTLS
left the datagram unread, which is the oracle's state — visible here as a second handshake answer inside the event -/
def recvHs (c : Ctx) : Ctx :=
  let c := c.hsThenConnect
  let c :=
    if c.flag then c
    else
      match c.orc with
      | .hs _ :: _ => if !c.s.sentAlert then c.hsThenConnect else c
      | _ => c
  c.receiveTail

/-- coap_dtls_receive -/
def dtlsReceive (c : Ctx) : Ctx :=
  let c := c.upd fun s => { s with dtlsEvent := none }
  if c.s.est then c.recvEst else c.recvHs

/-! ### TLS over TCP: establish, read, dispatch -/

/-- coap_tls_establish (+ coap_tls_new_client_session / coap_tls_new_server_session: the result of the first
do_gnutls_handshake is acted on only when it is success) -/
def tlsEstablish (c : Ctx) : Ctx :=
  let c := c.upd fun s => { s with state := .handshake }
  let c := c.popEnv
  if !c.flag then c.disconnected .tlslayer else
  let c := c.upd fun s => { s with tls := true }
  let c := c.doHandshake
  if c.ret = 1 then (c.emit (.ev .connected)).sendCsm else c

/-- coap_dispatch on a reliable session (every PDU is CON, nothing is acknowledged): handle_signaling for a CSM,
handle_request with the harness' resource (2.05), handle_response -/
def dispatchStrm (v : View) (c : Ctx) : Ctx :=
  if v.code = 225 then (if c.s.state = .csm then c.sessionConnected else c)
  else if v.code ≥ 224 then c.emit (.unmodelled "signal")
  else if v.code = 0 then c.emit (.unmodelled "empty")
  else if v.code < 32 then
    let c := c.emit (.req v.tok v.payload)
    let m : QMsg := { sn := c.s.next, con := true, code := 69, mid := 0, tok := v.tok }
    -- coap_send_internal on a reliable session = coap_send_pdu (nothing is kept for retransmission); handle_request
    -- ignores its result (`sendfail` is what the APPLICATION's coap_send returns)
    (c.upd fun s => { s with next := s.next + 1 }).sendPdu m false false
  else if v.code ≥ 64 then (c.lgResponse v).emit (.rsp v.tok v.code)
  else c.emit (.unmodelled "code")

/-- first half of coap_tls_read: the handshake step while GnuTLS is not established -/
def tlsReadHs (c : Ctx) : Ctx :=
  if !c.s.est && !c.s.sentAlert then
    let c := c.doHandshake
    if c.ret = 1 then ((c.emit (.ev .connected)).sendCsm).setRet 0 else c
  else c.setRet (-1)

/-- coap_read_session after coap_tls_read returned: a negative count disconnects (NOT_DELIVERABLE) -/
def readEnd (c : Ctx) : Ctx :=
  let c := c.tlsTail
  if c.ret < 0 then c.disconnected .undeliv else c

/-- coap_read_session on a TLS session: coap_tls_read, then the message the record carried is dispatched -/
def strmRead (c : Ctx) : Ctx :=
  if !c.s.tls then c.disconnected .undeliv else        -- no TLS object: ENXIO, -1
  let c := c.upd fun s => { s with dtlsEvent := none }
  let c := c.tlsReadHs
  if c.s.state ≠ .none && c.s.est then
    let c := c.popRec
    match c.recR with
    | .data v =>
      let c := (c.setRet 1).tlsTail
      if c.ret > 0 then c.dispatchStrm v else if c.ret < 0 then c.disconnected .undeliv else c
    | .junk => c.emit (.unmodelled "stream-fragment")
    | .zero => ((c.upd fun s => { s with dtlsEvent := some .closed }).setRet 0).readEnd
    | .again => (c.setRet 0).readEnd
    | .pull => ((c.upd fun s => { s with dtlsEvent := some .error }).setRet (-1)).readEnd
    | .fatalrx => ((c.upd fun s => { s with sentAlert := true, dtlsEvent := some .closed }).setRet (-1)).readEnd
    | .warn => ((c.upd fun s => { s with dtlsEvent := some .error }).setRet (-1)).readEnd
    | .err => (c.setRet (-1)).readEnd
  else c.readEnd

/-- coap_connect_session: the non-blocking connect() finished -/
def tcpConnect (ok : Bool) (c : Ctx) : Ctx :=
  if ok then (c.emit (.evTcp .connected)).tlsEstablish
  else (c.emit (.evTcp .failed)).disconnected .undeliv

/-- coap_write_session: only a partially written message waits for it -/
def strmWrite (c : Ctx) : Ctx :=
  if c.s.delayq.isEmpty then c else c.emit (.unmodelled "write-session")

/-- coap_send_lkd on a reliable client session: refused when the socket is closed; coap_client_delay_first (`waited` =
the call had to wait; doing_first still set afterwards = its 5 s passed); the type is forced to CON -/
def appSendStrm (waited : Bool) (code mid : Nat) (tok : String) (c : Ctx) : Ctx :=
  if !waited && c.s.typ = .client && !c.s.sockOpen then c.emit .sendfail else
  if !waited && c.s.doingFirst then c.emit (.unmodelled "doing-first") else
  let c :=
    if c.s.doingFirst then
      let c := c.upd fun s => { s with doingFirst := false }
      if c.s.state = .csm then c.emit (.unmodelled "csm-timeout") else c
    else c
  let m : QMsg := { sn := c.s.next, con := true, code := code, mid := mid, tok := tok }
  (c.upd fun s => { s with next := s.next + 1 }).sendLkdTail m false

/-- coap_dtls_handle_timeout (called by the I/O loop for a DTLS session in HANDSHAKE state that has a TLS object) -/
def tlsTimeout (c : Ctx) : Ctx :=
  if c.s.state ≠ .handshake || !c.s.tls then c else
  let c := c.upd fun s => { s with tmoCount := s.tmoCount + 1 }
  if c.s.tmoCount > MAX_RETRANSMIT then c.disconnected .tls
  else
    let c := c.doHandshake
    if c.ret < 0 then c.disconnected .tls else c

/-- coap_retransmit for the node with message id `mid` -/
def retransmit (mid : Nat) (c : Ctx) : Ctx :=
  match c.s.inflight.find? (·.mid = mid) with
  | none => c
  | some q =>
    if q.cnt < MAX_RETRANSMIT then
      let q' := { q with cnt := q.cnt + 1 }
      let c := c.emit .evRtx
      let c := c.upd fun s => { s with inflight := s.inflight.map fun x => if x.sn = q.sn then q' else x,
                                       conActive := s.conActive - 1 }
      c.sendPdu q' false true
    else
      -- the node was popped off the send queue before coap_retransmit was called (coap_pop_next in coap_io_prepare_io_lkd)
      -- and is re-inserted only in the branch above: it is NOT in the send queue while coap_session_connected runs
      let c := c.upd fun s => { s with inflight := s.inflight.filter (·.sn ≠ q.sn) }
      let c := c.ackFlush
      if q.con then c.emit (nackOf .retries q) else c

/-- coap_dtls_establish -/
def dtlsEstablishClient (c : Ctx) : Ctx :=
  let c := c.upd fun s => { s with state := .handshake }
  -- coap_dtls_new_client_session
  let c := c.popEnv
  let c :=
    if c.flag then
      let c := c.doHandshake
      if c.ret = -1 then c.freeEnv true else c.upd fun s => { s with tls := true }
    else c
  if !c.s.tls then c.disconnected .tlslayer else c

/-- coap_dtls_hello; ret -1 failure / 0 not completed / 1 client hello seen -/
def dtlsHello (c : Ctx) : Ctx :=
  let c :=
    if !c.s.tls then
      let c := c.popEnv
      if c.flag then c.upd fun s => { s with tls := true } else c
    else c
  if !c.s.tls then c.setRet (-1) else
  let c := c.popCk
  if !c.flag then (c.emit .cookie).setRet 0 else
  let c := c.doHandshake
  if c.ret < 0 then ((c.freeEnv false).upd fun s => { s with tls := false }).setRet (-1) else c.setRet 1

/-- coap_handle_dgram_for_proto (+ coap_session_new_dtls_session for an endpoint datagram) -/
def handleDgramForProto (c : Ctx) : Ctx :=
  match c.s.proto with
  | .udp => c.emit (.unmodelled "udp-session")
  | .tls => c
  | .dtls =>
    if c.s.typ = .hello then
      let c := c.dtlsHello
      if c.ret = 1 then
        -- coap_session_new_dtls_session -> coap_dtls_establish (server: the TLS object is kept)
        let c := c.upd fun s => { s with typ := .server, state := .handshake }
        if !c.s.tls then c.disconnected .tlslayer else c
      else c
    else if c.s.tls then c.dtlsReceive
    else c

end Ctx

/-! ## events -/

/-- what a datagram arriving at a DTLS endpoint from an unknown peer looks like to the ClientHello pre-filter of
coap_endpoint_get_session -/
inductive DgKind where | hello | short | cid | other
  deriving DecidableEq, Repr

inductive Ev where
  | appSend (con : Bool) (code mid : Nat) (tok : String)
  | dgram                                  -- a datagram arrives for this session
  | tlsTimeout                             -- the DTLS retransmission timer fired
  | retransmit (mid : Nat)                 -- the CoAP retransmission timer of message `mid` fired
  | appDisconnect (r : Nack)               -- coap_session_disconnected()
  | release                                -- the application releases its reference
  | del                                    -- server session reclaimed / context freed
  | tcpConnect (ok : Bool)                 -- TLS: the non-blocking connect() finished
  | strmRead                               -- TLS: the socket is readable
  | strmWrite                              -- TLS: the socket is writable again
  | appSendStrm (waited : Bool) (code mid : Nat) (tok : String)   -- TLS: coap_send
  | appSendL (con obs : Bool) (code mid : Nat) (tok : String)     -- coap_send, block mode or not; obs = Observe option
  | lgExpire (keep : List String)          -- block mode: lg_crcv entries timed out, these tokens are left
  deriving DecidableEq, Repr

open Ctx in
/-- one event on a live session with the oracle answers it carried -/
def Sess.stepCtx (s : Sess) (e : Ev) (orc : List Orc) : Ctx :=
  let c : Ctx := { s := s, orc := orc }
  if s.freed then c else
  match e with
  | .appSend con code mid tok => c.appSend con code mid tok
  | .dgram => c.handleDgramForProto.maybeFree
  | .tlsTimeout => c.tlsTimeout
  | .retransmit mid => (c.retransmit mid).maybeFree
  | .appDisconnect r => c.disconnected r
  | .release => (c.upd fun s => { s with appRef := false }).maybeFree
  | .del => (c.emit .evDel).sessionFree
  | .tcpConnect ok => (c.tcpConnect ok).maybeFree
  | .strmRead => c.strmRead.maybeFree
  | .strmWrite => c.strmWrite.maybeFree
  | .appSendStrm w code mid tok => c.appSendStrm w code mid tok
  | .appSendL con obs code mid tok => c.appSendL con obs code mid tok
  | .lgExpire keep => c.lgExpire keep

/-- … returns the session and the outputs -/
def Sess.step (s : Sess) (e : Ev) (orc : List Orc) : Sess × List Out :=
  let c := s.stepCtx e orc
  (c.s, c.out)

/-- a whole history of one session -/
def Sess.run (s : Sess) : List (Ev × List Orc) → Sess × List Out
  | [] => (s, [])
  | (e, o) :: t =>
    let (s1, o1) := s.step e o
    let (s2, o2) := s1.run t
    (s2, o1 ++ o2)

/-- coap_new_client_session_psk2 for DTLS: session created in HANDSHAKE state, ClientHello sent by the oracle -/
def newClientCtx (orc : List Orc) (bm : Bool := false) : Ctx :=
  let c : Ctx := { s := { proto := .dtls, typ := .client, blockMode := bm }, orc := orc }
  c.dtlsEstablishClient

def newClient (orc : List Orc) (bm : Bool := false) : Sess × List Out :=
  let c := newClientCtx orc bm
  (c.s, c.out)

/-- coap_new_client_session_psk2 for TLS (coap_session_check_connect): `now` = connect() completed at once, the session
goes straight to coap_tls_establish; else CONNECTING with doing_first set -/
def newClientTlsCtx (now : Bool) (orc : List Orc) (bm : Bool := false) : Ctx :=
  let c : Ctx := { s := { proto := .tls, typ := .client, blockMode := bm }, orc := orc }
  if now then c.tlsEstablish else c.upd fun s => { s with state := .connecting, doingFirst := true }

/-- coap_new_server_session for an accepted TCP connection at a TLS endpoint -/
def acceptCtx (orc : List Orc) : Ctx :=
  let c : Ctx := { s := { proto := .tls, typ := .server, appRef := false, state := .connecting }, orc := orc }
  ((c.emit (.evTcp .connected)).emit .evNew).tlsEstablish

/-- the ClientHello pre-filter of coap_endpoint_get_session for a DTLS endpoint: only a ClientHello creates a session -/
def prefilterCreates : DgKind → Bool
  | .hello => true
  | _ => false

/-- the same pre-filter on the bytes of the datagram (DTLS record header: content type at 0, handshake type at 13);
the connection-id branch finds no session because GnuTLS sessions never carry a client CID -/
def classify (b : List Nat) : DgKind :=
  if b.length < 14 then .short
  else if (b.getD 0 0) / 16 % 4 = 3 ∨ b.getD 0 0 = 25 then .cid
  else if b.getD 0 0 ≠ 22 ∨ b.getD 13 0 ≠ 1 then .other
  else .hello

/-- coap_read_endpoint for a datagram from a peer WITHOUT a session -/
def endpointRxUnknownCtx (orc : List Orc) : Ctx :=
  let c : Ctx := { s := { proto := .dtls, typ := .hello, appRef := false }, orc := orc }
  (c.emit .evNew).handleDgramForProto

def endpointRxUnknown (k : DgKind) (orc : List Orc) : Option Sess × List Out :=
  if prefilterCreates k then
    let c := endpointRxUnknownCtx orc
    (some c.s, c.out)
  else (none, [])

end Coap.TlsGate
