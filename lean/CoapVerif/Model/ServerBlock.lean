import CoapVerif.Model.Server
import CoapVerif.Model.Block
import CoapVerif.Generated.BlockConst
/-
M (C10, round S10) — handle_request() at a context whose block mode is not 0: the stage

    if (session->block_mode & COAP_BLOCK_USE_LIBCOAP) {
      uint32_t block_mode = session->block_mode;
      if (pdu->code == COAP_REQUEST_CODE_FETCH || resource->flags & COAP_RESOURCE_FLAGS_FORCE_SINGLE_BODY)
        session->block_mode |= COAP_BLOCK_SINGLE_BODY;
      if (coap_handle_request_put_block(...)) { session->block_mode = block_mode; goto skip_handler; }
      session->block_mode = block_mode;
      if (coap_handle_request_send_block(...)) goto skip_handler;      -- no lg_xmit here: returns 0
    }

between `query = coap_get_query(pdu)` and the handler call, the tail "free_lg_srcv … added_block … 2.31" after the
handler and "coap_remove_option(response, COAP_OPTION_BLOCK1)" at skip_handler.  State kept ACROSS requests on a
session: `session->block_mode` (saved / forced / restored — `BSess.mode`) and `session->lg_srcv` (`BSess.srcv`).

coap_handle_request_put_block itself is NOT transcribed a second time: its COAP_BLOCK_SINGLE_BODY re-assembly
("locate the lg_srcv" … give_app_data) is C09's `Coap.Block.srcvStep` (Model/Block.lean); what is added here is what
C09 leaves out — the per-block exit ("Not re-assembling or checking for receipt order"), the Content-Format test and the
look-up of the lg_srcv by resource.

Everything of handle_request() before the stage does not depend on the block mode: `M.serverDecisionA` (block mode 0)
reaches the handler call with request view `c` exactly when the stage is reached with an application resource.
Out of the stage's scope (`inScope = false`): proxy resource, Observe on an observable resource, Request-Tag, a
multi-block Block1 for the unknown-resource handler (lg_srcv matched by Uri-Path), completion by an out-of-order block
(separate 2.31 + token substitution), block-mode bits other than USE_LIBCOAP / SINGLE_BODY.
-/
namespace Coap.Server.MB
open Coap Coap.Server Coap.Server.M Coap.Block Coap.Generated.Server

/-- COAP_BLOCK_USE_LIBCOAP = 0x01, COAP_BLOCK_SINGLE_BODY = 0x02, COAP_RESOURCE_FLAGS_FORCE_SINGLE_BODY = 0x200 -/
def useLibcoap (mode : Nat) : Bool := mode % 2 == 1
def singleBody (mode : Nat) : Bool := mode / 2 % 2 == 1
/-- `mode |= COAP_BLOCK_SINGLE_BODY` -/
def setSingle (mode : Nat) : Nat := if singleBody mode then mode else mode + 2
def F_FORCE_SINGLE_BODY : Nat := 512

/-- per-session state a later request finds: `session->block_mode`; `session->lg_srcv` as
(resource index ↦ (Content-Format of the first block, C09's receiver state)) — at most one entry per resource (no
Request-Tag in scope) -/
structure BSess where
  mode : Nat
  srcv : List (Nat × (Nat × Srcv))
  deriving DecidableEq, Repr

/-- how coap_handle_request_put_block() returns -/
inductive Put where
  /-- return 0: call the handler; what coap_get_data_large() gives it (data, offset, total), the request's options as
  the handler sees them, the options put_block inserted into the response, `*added_block` -/
  | call (data : Bytes) (offset total : Nat) (opts rspOpts : Opts) (added : Bool)
  /-- return 1: response code set, options inserted, diagnostic payload added? -/
  | skip (code : Nat) (rspOpts : Opts) (diag : Bool)
  | oos
  deriving DecidableEq, Repr

def eraseKey (k : Nat) (l : List (Nat × (Nat × Srcv))) : List (Nat × (Nat × Srcv)) := l.filter fun e => e.1 != k

/-- coap_encode_var_safe of `(num << 4) | (m << 3) | aszx` -/
def blockVal (num : Nat) (m : Bool) (szx : Nat) : Bytes := minimalUint 4 (num * 16 + (if m then 8 else 0) + szx)

/-- the COAP_BLOCK_SINGLE_BODY path from "Allocate lg_srcv" / srcvConv on: C09's `srcvStep`, then the exits -/
def putRun (os : Opts) (lgs : List (Nat × (Nat × Srcv))) (ri fmt : Nat) (st : Option Srcv) (num : Nat) (m : Bool) (szx : Nat)
    (payload : Bytes) (size1 : Option Nat) : List (Nat × (Nat × Srcv)) × Put :=
  let r := srcvStep Coap.Generated.rblockCnt 0 0 st num (if m then 1 else 0) szx payload size1
  let lgs' := match r.1 with
    | some s' => (ri, (fmt, s')) :: eraseKey ri lgs
    | none => eraseKey ri lgs
  match r.2 with
  | .cont =>
    -- "Ask for the next block" 2.31 / "Last chunk - but not all in": just the (empty) ACK
    if m then (lgs', .skip 95 [(27, blockVal num m szx)] false) else (lgs', .skip 0 [] false)
  | .deliver b l =>
    -- give_app_data: coap_remove_option(pdu, block_option); body_data / body_length / body_total; *pfree_lg_srcv —
    -- the lg_srcv is deleted after the handler returned
    if m ∨ l = 0 then (lgs', .oos)            -- completed by an out-of-order block (separate 2.31, token of the last block)
    else (lgs', .call b 0 l (os.filter fun o => o.1 != 27) [] false)
  | .fail => (lgs', .skip 136 [] true)
  | .undersized => (lgs', .skip 128 [] false)


/-- coap_handle_request_put_block(context, session, pdu, response, resource, …) for resource `ri` (`none`: the
unknown-resource handler) under `session->block_mode = mode` (COAP_BLOCK_MAX_SIZE bits 0), request view `os`, payload -/
def putBlock (mode : Nat) (lgs : List (Nat × (Nat × Srcv))) (ri : Option Nat) (os : Opts) (payload : Bytes) :
    List (Nat × (Nat × Srcv)) × Put :=
  -- coap_get_data_large(pdu, &length, &data, …); pdu->body_offset = 0; pdu->body_total = length;
  let plain : Put := .call payload 0 payload.length os [] false
  if hasOpt os 292 then (lgs, .oos) else
  match (firstOpt os 27).bind block with
  | none => (lgs, plain)                                     -- `!block_option`
  | some (num, m, szx) =>
    if num = 0 ∧ m = false then (lgs, plain) else             -- "Not blocked, or a single block"
    if ((firstOpt os 27).getD []).length > 3 then (lgs, .oos) else
    let chunk := 2 ^ (szx + 4)
    let fmt := match firstOpt os 12 with | some v => uintOf v % 65536 | none => 0
    let size1 : Option Nat := (firstOpt os 60).map fun v => uintOf v % 4294967296
    -- "Oversized packet - reduced"
    let data := if payload.length > chunk then payload.take chunk else payload
    if ¬ (payload.length > chunk) ∧ m = true ∧ payload.length ≠ chunk then (lgs, .skip 128 [] false) else   -- "Undersized packet chunk"
    let offset := num * chunk
    if ¬ singleBody mode then
      -- `!(session->block_mode & (COAP_BLOCK_SINGLE_BODY|COAP_BLOCK_NOT_RANDOM_BLOCK1))`: "Ask for the next block",
      -- "Not re-assembling or checking for receipt order"
      let t0 := size1.getD 0
      let need := data.length + offset + (if m then 1 else 0)
      let total := if t0 < need then need else t0
      -- (a NULL body_data makes coap_get_data_large() fall back to the PDU's own — absent — data: length 0, total 0)
      (lgs, .call data offset (if data.isEmpty then 0 else total) os [(27, blockVal num m szx)] m)
    else
    match ri with
    | none => (lgs, .oos)
    | some ri =>
      -- "locate the lg_srcv" (by resource), "Content-Format mismatch" ⇒ 4.08, lg_srcv freed
      let st := lgs.lookup ri
      match st with
      | some (f, _) => if fmt ≠ f then (eraseKey ri lgs, .skip 136 [] true) else
          putRun os lgs ri fmt (st.map (·.2)) num m szx payload size1
      | none => putRun os lgs ri fmt none num m szx payload size1
/-- outcome of one datagram in block mode: what `Outcome` has + where the data the handler got sits in the body -/
structure BOut where
  o : Outcome
  offset : Nat
  total : Nat
  deriving DecidableEq, Repr

def BOut.oos : BOut := ⟨Outcome.outOfScope, 0, 0⟩

/-- resource of a handler call: (index for the lg_srcv look-up, flags, observable) -/
def resOf (tbl : Table) : Who → Option (Option Nat × Nat × Bool)
  | .res i => (tbl.res[i]?).map fun r => (some i, r.flags, r.observable)
  | .unk => tbl.unk.map fun u => (none, u.flags, false)
  | .prx => none

/-- the stage for a request that reached the handler call of resource `c.who` with request view `c` (see the header):
save / force / put_block / restore, handler, "added_block ⇒ 2.31", Block1 removal, no_response, send -/
def blockStage (s : BSess) (cfg : Cfg) (tbl : Table) (rq : Request) (c : Call) : BOut × BSess :=
  let m := rq.msg
  match resOf tbl c.who with
  | none => (BOut.oos, s)
  | some (ri, fl, obs) =>
    if obs ∧ (m.code = 1 ∨ m.code = 5) ∧ hasOpt c.opts 6 then (BOut.oos, s) else
    -- uint32_t block_mode = session->block_mode;
    let saved := s.mode
    -- if (pdu->code == COAP_REQUEST_CODE_FETCH || resource->flags & COAP_RESOURCE_FLAGS_FORCE_SINGLE_BODY)
    --   session->block_mode |= COAP_BLOCK_SINGLE_BODY;
    let forced := if m.code = 5 ∨ flag fl F_FORCE_SINGLE_BODY then setSingle saved else saved
    let p := putBlock forced s.srcv ri c.opts m.payload
    -- session->block_mode = block_mode;   (on both exits)
    let s' : BSess := ⟨saved, p.1⟩
    let resp0 : Reply := ⟨.app, respType m.type, 0, m.mid, m.token, [], .bytes []⟩
    match p.2 with
    | .oos => (BOut.oos, s')
    | .skip code ro diag =>
      let r : Reply := { resp0 with src := if diag then .lib else .app, code := code, opts := ro }
      (⟨⟨true, deliver cfg rq (some fl) false r, none⟩, 0, 0⟩, s')
    | .call data off tot os ro added =>
      let call : Call := { c with opts := os, payload := data }
      let r : Reply := { resp0 with opts := ro, code := rq.verdict.code,   -- (the handler sets it unless 0: the response starts with code 0)
                                    body := .bytes rq.verdict.payload }
      -- coap_check_code_class(session, response)
      if ¬ inIvs codeOk r.code then (⟨⟨true, [], some call⟩, off, tot⟩, s') else
      -- "if (added_block && COAP_RESPONSE_CLASS(response->code) == 2) response->code = 2.31"
      let r := if added ∧ codeClass r.code = 2 then { r with code := 95 } else r
      -- skip_handler: "if (COAP_RESPONSE_CLASS(response->code) > 2 && code != 4.13) coap_remove_option(response, BLOCK1)"
      let r := if codeClass r.code > 2 ∧ r.code ≠ 141 then { r with opts := r.opts.filter fun o => o.1 != 27 } else r
      (⟨⟨true, deliver cfg rq (some fl) false r, some call⟩, off, tot⟩, s')

/-- one unicast datagram at a session with state `s` -/
def serverDecisionB (s : BSess) (cfg : Cfg) (tbl : Table) (rq : Request) : BOut × BSess :=
  let o := serverDecisionA false false cfg tbl rq
  let pl := rq.msg.payload.length
  -- `if (session->block_mode & COAP_BLOCK_USE_LIBCOAP)`
  if ¬ useLibcoap s.mode then (⟨o, 0, pl⟩, s) else
  if s.mode ≥ 4 ∨ rq.mcast then (BOut.oos, s) else
  match o.call with
  | some c => blockStage s cfg tbl rq c
  | none =>
    -- the stage is not reached — or it is reached with the `.well-known/core` pseudo resource (Block1 there: out of scope)
    if hasOpt rq.msg.opts 27 ∧ o.replies.any (fun r => r.body == .wellknown) then (BOut.oos, s) else (⟨o, 0, 0⟩, s)

/-! ### sequences -/
structure BHist where
  /-- context->block_mode: what a new session starts with -/
  cfgMode : Nat
  sess : List (Nat × BSess)
  deriving DecidableEq, Repr

def BHist.fresh (mode : Nat) : BHist := ⟨mode, []⟩
def BHist.get (h : BHist) (peer : Nat) : BSess := (h.sess.lookup peer).getD ⟨h.cfgMode, []⟩
def BHist.set (h : BHist) (peer : Nat) (s : BSess) : BHist := { h with sess := (peer, s) :: h.sess.filter fun e => e.1 != peer }

structure BEv where
  peer : Nat
  rq : Request
  deriving DecidableEq, Repr

def stepB (cfg : Cfg) (tbl : Table) (h : BHist) (ev : BEv) : BOut × BHist :=
  let r := serverDecisionB (h.get ev.peer) cfg tbl ev.rq
  (r.1, h.set ev.peer r.2)

/-- outcomes (with the session's block mode afterwards) of a sequence of datagrams -/
def runB (cfg : Cfg) (tbl : Table) : BHist → List BEv → List (BOut × Nat)
  | _, [] => []
  | h, ev :: r => let x := stepB cfg tbl h ev; (x.1, (x.2.get ev.peer).mode) :: runB cfg tbl x.2 r

def finalB (cfg : Cfg) (tbl : Table) : BHist → List BEv → BHist
  | h, [] => h
  | h, ev :: r => finalB cfg tbl (stepB cfg tbl h ev).2 r

end Coap.Server.MB
