import CoapVerif.Util
import CoapVerif.Generated.UriTab
/-
M — faithful model of libcoap's URI code (src/coap_uri.c, after the fix: commits listed in KNOWN_FINDINGS.txt):

  coap_get_uri_path, coap_get_query           options → string (length pass + write pass, escaping tables from T1)
  dots, check_segment, decode_segment, make_decoded_option, write_option, backup_segment,
  coap_split_path_impl / coap_split_path, coap_split_query            (buffer writers)
  coap_replace_percents, backup_optlist, coap_path_into_optlist, coap_query_into_optlist   (optlist builders)
  escapes_ok, coap_split_uri_sub (coap_split_uri / coap_split_proxy_uri), coap_uri_into_optlist (dst = fixed IPv4)

A C pointer into the input is the list of bytes from that position to the END OF THE INPUT BUFFER (the input is
length-delimited, not NUL-terminated); `s[i]` on a list that short is `R.oob`.  A segment is (pointer, length).
Quantities are `Nat`; a C narrowing is `% 2^k` where it happens.  Tables come from Generated.Uri (T1).
-/
namespace Coap.MU
open Coap

def rdb (s : Bytes) (i : Nat) : R UInt8 :=
  match s[i]? with
  | some b => R.ok b
  | none => R.oob

def unescPath (c : UInt8) : Bool := Generated.Uri.unescPathTab.getD c.toNat false
def unescQuery (c : UInt8) : Bool := Generated.Uri.unescQueryTab.getD c.toNat false
/-- the macro hexchar_to_dec -/
def hexDec (c : UInt8) : Nat := Generated.Uri.hexDecTab.getD c.toNat 0
def isXdigit (c : UInt8) : Bool := Generated.Uri.xdigitTab.getD c.toNat false

/-- `static const uint8_t hex[] = "0123456789ABCDEF"` -/
def hexUp (n : Nat) : UInt8 := if n < 10 then UInt8.ofNat (48 + n) else UInt8.ofNat (55 + n)

/-! ### options → string -/

/-- `uint16_t seg_len = coap_opt_length(q)`: the value as the loops see it -/
def optVal (seg : Bytes) : Bytes := seg.take (seg.length % 65536)

/-- first pass, inner loop: bytes the escaped form of one value needs -/
def escLen (unesc : UInt8 → Bool) : Bytes → Nat
  | [] => 0
  | c :: r => (if unesc c then 1 else 3) + escLen unesc r

/-- first pass, outer loop: `length += …; length += 1` per option -/
def lenSum (unesc : UInt8 → Bool) : List Bytes → Nat
  | [] => 0
  | seg :: r => escLen unesc seg + 1 + lenSum unesc r

/-- `if (length > 0) length -= 1;` -/
def lenPass (unesc : UInt8 → Bool) (segs : List Bytes) : Nat :=
  if lenSum unesc segs > 0 then lenSum unesc segs - 1 else lenSum unesc segs

/-- second pass, inner loop -/
def escSeg (unesc : UInt8 → Bool) : Bytes → Bytes
  | [] => []
  | c :: r =>
    if unesc c then c :: escSeg unesc r
    else 0x25 :: hexUp (c.toNat / 16) :: hexUp (c.toNat % 16) :: escSeg unesc r

/-- second pass, outer loop: `if (n++) *s++ = sep;` then the escaped value -/
def writePass (unesc : UInt8 → Bool) (sep : UInt8) : Nat → List Bytes → Bytes
  | _, [] => []
  | n, seg :: r => (if n ≠ 0 then [sep] else []) ++ escSeg unesc seg ++ writePass unesc sep (n + 1) r

/-- the string object: `length` bytes were allocated, the second pass wrote `w`.  Writing more is a heap
overflow, writing less leaves uninitialised bytes in the result: both are `oob`. -/
def filled (length : Nat) (w : Bytes) : R Bytes := if w.length = length then R.ok w else R.oob

/-- coap_get_uri_path for a request without Proxy-Uri whose Uri-Path values are `segs` -/
def getUriPath (segs : List Bytes) : R Bytes :=
  let vs := segs.map optVal
  filled (lenPass unescPath vs) (writePass unescPath 0x2f 0 vs)

/-- coap_get_query: `none` = NULL (no query) -/
def getQuery (segs : List Bytes) : R (Option Bytes) :=
  let vs := segs.map optVal
  if lenPass unescQuery vs > 0 then
    match filled (lenPass unescQuery vs) (writePass unescQuery 0x26 0 vs) with
    | .ok w => R.ok (some w)
    | .rej => R.rej
    | .oob => R.oob
  else R.ok none

/-! ### string → options -/

/-- the test dots() makes twice ("Check 'first' char" / "Check 'second' char"): is the byte at `s` (with `len > 0`
bytes left in the segment) a '.', written literally or as "%2E"/"%2e" (looked at only if `len >= 3`)?
`some k` = yes, and it occupies k bytes; `none` = `p != '.'`. -/
def dotChar (s : Bytes) (len : Nat) : R (Option Nat) := do
  let p ← rdb s 0
  if p = 0x25 ∧ len ≥ 3 then do
    let a ← rdb s 1
    if a = 0x32 then do
      let b ← rdb s 2
      if b = 0x45 ∨ b = 0x65 then pure (some 3) else pure none
    else pure none
  else if p = 0x2e then pure (some 1) else pure none

/-- dots(): 1 for ".", 2 for "..", else 0 -/
def dots (s : Bytes) (len : Nat) : R Nat :=
  if len = 0 then R.ok 0 else
  match dotChar s len with
  | .oob => R.oob
  | .rej => R.rej
  | .ok none => R.ok 0                                   -- `if (p != '.') return 0;`
  | .ok (some k) =>
    if len - k = 0 then R.ok 1 else                      -- `if (len == 1) return 1;`  (len counts the dot itself)
    match dotChar (s.drop k) (len - k) with              -- `s++; len--;`
    | .oob => R.oob
    | .rej => R.rej
    | .ok none => R.ok 0
    | .ok (some k2) => if len - k - k2 = 0 then R.ok 2 else R.ok 0

/-- check_segment(): number of bytes after decoding, `rej` (-1) on a malformed escape -/
def checkSegment : Nat → Bytes → Nat → Nat → R Nat
  | 0, _, _, _ => R.oob                              -- fuel exhausted (never: fuel = length + 1)
  | fuel + 1, s, length, n =>
    if length = 0 then R.ok n else do
    let c ← rdb s 0
    if c = 0x25 then
      if length < 3 then R.rej else do
      let a ← rdb s 1
      if !isXdigit a then R.rej else do
      let b ← rdb s 2
      if !isXdigit b then R.rej else
      checkSegment fuel (s.drop 3) (length - 3) (n + 1)
    else checkSegment fuel (s.drop 1) (length - 1) (n + 1)

/-- decode_segment(): called only after check_segment() succeeded.  `length -= 2` on a `size_t` below 2 would
wrap; the model reports that as `oob` (the loop would run off the buffer). -/
def decodeSegment : Nat → Bytes → Nat → R Bytes
  | 0, _, _ => R.oob
  | fuel + 1, s, length =>
    if length = 0 then R.ok [] else do
    let c ← rdb s 0
    if c = 0x25 then do
      let a ← rdb s 1
      let b ← rdb s 2
      if length < 3 then R.oob else do
      let t ← decodeSegment fuel (s.drop 3) (length - 3)
      pure (UInt8.ofNat ((hexDec a * 16 + hexDec b) % 256) :: t)
    else do
      let t ← decodeSegment fuel (s.drop 1) (length - 1)
      pure (c :: t)

/-- size of the pseudo option header coap_opt_setheader(buf, maxlen, 0, length) writes; 0 = does not fit -/
def optHdr (maxlen length : Nat) : Nat :=
  if maxlen = 0 then 0
  else if length < 13 then 1
  else if length < 269 then (if maxlen < 2 then 0 else 2)
  else (if maxlen < 3 then 0 else 3)

/-- bytes one written segment occupies -/
def optSize (seg : Bytes) : Nat := (if seg.length < 13 then 1 else if seg.length < 269 then 2 else 3) + seg.length

def usedBy (segs : List Bytes) : Nat := (segs.map optSize).sum

/-- `struct cnt_str`: the segments written so far (state->n = segs.length); `buf.length` = buflen − usedBy segs -/
structure Cnt where
  buflen : Nat
  segs : List Bytes
  deriving Repr, DecidableEq

/-- write_option() → make_decoded_option() -/
def writeOption (s : Bytes) (len : Nat) (st : Cnt) : R Cnt :=
  let room := st.buflen - usedBy st.segs
  if room = 0 then R.ok st else
  match checkSegment (len + 1) s len 0 with
  | .oob => R.oob
  | .rej => R.ok st
  | .ok segmentlen =>
    let written := optHdr room segmentlen
    if written = 0 then R.ok st else
    if room - written < segmentlen then R.ok st else
    match decodeSegment (len + 1) s len with
    | .ok d => R.ok { st with segs := st.segs ++ [d] }
    | .rej => R.rej
    | .oob => R.oob

/-- backup_segment(): n-- and re-walk (nothing if n = 0) -/
def backupSegment (st : Cnt) : Cnt := { st with segs := st.segs.dropLast }

/-- the segment loop shared (as four textual copies) by coap_split_path_impl, coap_split_query,
coap_path_into_optlist and coap_query_into_optlist:
`while (length > 0 && !stop(*q)) { if (*q == sep) { h(p, q - p); p = q + 1; } q++; length--; }  h(p, q - p);`
`q` is the list (its length is `length`), `p` the segment start, `n = q - p`. -/
def segLoop {σ : Type} (h : Bytes → Nat → σ → R σ) (stop sep : UInt8 → Bool) : Bytes → Bytes → Nat → σ → R σ
  | [], p, n, st => h p n st
  | c :: q', p, n, st =>
    if stop c then h p n st
    else if sep c then
      match h p n st with
      | .ok st' => segLoop h stop sep q' q' 0 st'
      | .rej => R.rej
      | .oob => R.oob
    else segLoop h stop sep q' p (n + 1) st

def pStop (c : UInt8) : Bool := c == 0x3f || c == 0x23     -- strnchr("?#", 2, *q)
def pSep (c : UInt8) : Bool := c == 0x2f
def qStop (c : UInt8) : Bool := c == 0x23
def qSep (c : UInt8) : Bool := c == 0x26

/-- the `switch (dots(p, q - p))` of coap_split_path_impl with h = write_option -/
def pathHandlerBuf (p : Bytes) (n : Nat) (st : Cnt) : R Cnt :=
  match dots p n with
  | .oob => R.oob
  | .rej => R.rej
  | .ok d => if d = 1 then R.ok st else if d = 2 then R.ok (backupSegment st) else writeOption p n st

/-- coap_split_path(s, length, buf, &buflen): the segments written (return value = their number, *buflen = usedBy) -/
def splitPath (input : Bytes) (buflen : Nat) : R (List Bytes) :=
  match segLoop pathHandlerBuf pStop pSep input input 0 ⟨buflen, []⟩ with
  | .ok st => R.ok st.segs
  | .rej => R.rej
  | .oob => R.oob

def splitQuery (input : Bytes) (buflen : Nat) : R (List Bytes) :=
  match segLoop writeOption qStop qSep input input 0 ⟨buflen, []⟩ with
  | .ok st => R.ok st.segs
  | .rej => R.rej
  | .oob => R.oob

/-- coap_replace_percents() on the option's own copy of the segment (reads guarded by `length - i >= 3`) -/
def replacePercents : Bytes → Bytes
  | [] => []
  | c :: a :: b :: r' =>
    if c = 0x25 then UInt8.ofNat ((hexDec a * 16 + hexDec b) % 256) :: replacePercents r'
    else c :: replacePercents (a :: b :: r')
  | c :: r => c :: replacePercents r

/-- coap_new_optlist(optnum, n, p): memcpy of n bytes from p -/
def copySeg (p : Bytes) (n : Nat) : R Bytes := if n ≤ p.length then R.ok (p.take n) else R.oob

/-- add one decoded segment to the chain (allocation failure is not modelled: C18) -/
def addOpt (p : Bytes) (n : Nat) (acc : List Bytes) : R (List Bytes) :=
  match copySeg p n with
  | .ok seg => R.ok (acc ++ [replacePercents seg])
  | .rej => R.rej
  | .oob => R.oob

/-- the `switch (dots(p, s - p))` of coap_path_into_optlist; `acc` = the options this call has added
(backup_optlist never touches what was in the chain before — fix) -/
def pathHandlerOpt (p : Bytes) (n : Nat) (acc : List Bytes) : R (List Bytes) :=
  match dots p n with
  | .oob => R.oob
  | .rej => R.rej
  | .ok d => if d = 1 then R.ok acc else if d = 2 then R.ok acc.dropLast else addOpt p n acc

def pathOpts (input : Bytes) : R (List Bytes) := segLoop pathHandlerOpt pStop pSep input input 0 []
def queryOpts (input : Bytes) : R (List Bytes) := segLoop addOpt qStop qSep input input 0 []

/-! ### coap_split_uri_sub (after the fix: commits) and coap_uri_into_optlist

`len` of the C code is always the number of bytes from the moving pointer to the end of the input, i.e. the length
of the list that models the pointer; every read is guarded by `len` exactly as in the C code. -/

structure Uri where
  scheme : Nat
  host : Bytes
  port : Nat
  path : Bytes
  query : Bytes
  deriving Repr, DecidableEq

/-- `while (len >= 3 && !(p[0]==':' && p[1]=='/' && p[2]=='/')) { ++p; --len; }` : (bytes skipped, p) -/
def findScheme : Bytes → Bytes × Bytes
  | [] => ([], [])
  | c :: r =>
    if (c :: r).length ≥ 3 && !(c == 0x3a && r.take 2 == [0x2f, 0x2f]) then
      let ab := findScheme r
      (c :: ab.1, ab.2)
    else ([], c :: r)

/-- `while (len && cond(*q)) { ++q; --len; }` : (bytes passed, q) -/
def spanWhile (cond : UInt8 → Bool) : Bytes → Bytes × Bytes
  | [] => ([], [])
  | c :: r => if cond c then let ab := spanWhile cond r; (c :: ab.1, ab.2) else ([], c :: r)

/-- escapes_ok() -/
def escapesOk : Bytes → Bool
  | [] => true
  | c :: a :: b :: r' =>
    if c = 0x25 then (if isXdigit a && isXdigit b then escapesOk r' else false)
    else escapesOk (a :: b :: r')
  | c :: r => if c = 0x25 then false else escapesOk r

/-- `while ((p < q) && (uri_port <= UINT16_MAX)) uri_port = uri_port * 10 + (*p++ - '0');` -/
def portLoop : Bytes → Nat → Nat
  | [], v => v
  | c :: r, v => if v ≤ 65535 then portLoop r (v * 10 + (c.toNat - 48)) else v

def isDigitC (c : UInt8) : Bool := 48 ≤ c.toNat && c.toNat ≤ 57

def supportedAt (i : Nat) : Bool := Generated.Uri.supported.getD i false

/-- from the label `path:` on; `q` is the pointer (with `len` = its length) -/
def pathAndQuery (u : Uri) (q : Bytes) : R Uri :=
  match q with
  | [] => (if escapesOk u.path && escapesOk u.query then R.ok u else R.rej)     -- `if (!len) goto end;`
  | c :: r =>
    let pq : Bytes × Bytes := if c = 0x2f then spanWhile (· != 0x3f) r else ([], q)
    let u1 : Uri := { u with path := pq.1 }
    -- p = q;  /* Uri_Query */  if (len && *p == '?')
    match pq.2 with
    | [] => (if escapesOk u1.path && escapesOk u1.query then R.ok u1 else R.rej)
    | d :: qr =>
      if d = 0x3f then
        let u2 : Uri := { u1 with query := qr }
        (if escapesOk u2.path && escapesOk u2.query then R.ok u2 else R.rej)
      else R.rej                                                                 -- `return len ? -1 : 0`

def splitUriSub (proxy : Bool) (s : Bytes) : R Uri :=
  match s with
  | [] => R.rej                                                                  -- len == 0
  | c0 :: _ =>
    let u0 : Uri := ⟨0, [], Generated.Uri.defaultPort, [], []⟩
    if c0 = 0x2f then
      if proxy then R.rej else pathAndQuery u0 s
    else
      let sp := findScheme s
      if sp.2.length < 3 then R.rej else
      match Generated.Uri.schemes.find? (fun e => e.1 == sp.1) with
      | none => R.rej
      | some (_, dport, proxyOnly, id) =>
        if !proxy && proxyOnly then R.rej else
        -- the `switch (uri->scheme)` with the build's *_is_supported()
        if (id = 1 && !supportedAt 0) || (id = 2 && !supportedAt 1) || (id = 3 && !supportedAt 2) ||
           (id = 6 && !supportedAt 3) || (id = 7 && !supportedAt 4) || id > 7 then R.rej else
        let p := sp.2.drop 3
        let u1 : Uri := { u0 with scheme := id, port := dport }
        -- Uri-Host
        let hostRes : R (Uri × Bytes × Bool) :=
          match p with
          | c :: r =>
            if c = 0x5b then
              let hq := spanWhile (· != 0x5d) r
              match hq.2 with
              | [] => R.rej                                                      -- `!len`
              | _ :: q' => if hq.1.isEmpty then R.rej else R.ok ({ u1 with host := hq.1 }, q', false)
            else
              let unix := p.length ≥ 3 && c == 0x25 && (p.drop 1).head? == some 0x32 &&
                          ((p.drop 2).head? == some 0x46 || (p.drop 2).head? == some 0x66)
              let hq := spanWhile (fun c => c != 0x3a && c != 0x2f && c != 0x3f) p
              if hq.1.isEmpty then R.rej
              else R.ok ({ u1 with host := hq.1, port := if unix then 0 else u1.port }, hq.2, unix)
          | [] => R.rej                                                          -- p == q
        match hostRes with
        | .rej => R.rej
        | .oob => R.oob
        | .ok (u2, q, unix) =>
          -- Uri-Port
          let portRes : R (Uri × Bytes) :=
            match q with
            | c :: r =>
              if c = 0x3a then
                if unix then R.rej else
                let dq := spanWhile isDigitC r
                if dq.1.isEmpty then R.ok (u2, dq.2)
                else
                  let v := portLoop dq.1 0
                  if v > 65535 then R.rej else R.ok ({ u2 with port := v % 65536 }, dq.2)
              else R.ok (u2, q)
            | [] => R.ok (u2, q)
          match portRes with
          | .rej => R.rej
          | .oob => R.oob
          | .ok (u3, q2) => pathAndQuery u3 q2

/-- coap_encode_var_safe(): minimal big-endian bytes of val (< 2^32) -/
def encodeVar (v : Nat) : Bytes :=
  if v = 0 then [] else
  if v < 256 then [UInt8.ofNat v] else
  if v < 65536 then [UInt8.ofNat (v / 256), UInt8.ofNat (v % 256)] else
  if v < 16777216 then [UInt8.ofNat (v / 65536), UInt8.ofNat (v / 256 % 256), UInt8.ofNat (v % 256)] else
  [UInt8.ofNat (v / 16777216 % 256), UInt8.ofNat (v / 65536 % 256), UInt8.ofNat (v / 256 % 256), UInt8.ofNat (v % 256)]

/-- coap_host_is_unix_domain() -/
def hostIsUnix (h : Bytes) : Bool :=
  (h.length ≥ 3 && h.head? == some 0x25 && (h.drop 1).head? == some 0x32 &&
     ((h.drop 2).head? == some 0x46 || (h.drop 2).head? == some 0x66)) ||
  (h.length ≥ 1 && h.head? == some 0x2f)

def lowerC (c : UInt8) : UInt8 := if 65 ≤ c.toNat ∧ c.toNat ≤ 90 then UInt8.ofNat (c.toNat + 32) else c

/-- coap_uri_into_optlist(uri, dst, &chain, 1) with `dstText` = coap_print_ip_addr(dst): (number, value) in chain order -/
def uriIntoOptlist (dstText : Bytes) (u : Uri) : R (List (Nat × Bytes)) :=
  let hp : List (Nat × Bytes) :=
    if !hostIsUnix u.host then
      let hostOpt : List (Nat × Bytes) :=
        if u.host.length ≠ 0 then
          let cmp := (spanWhile (· != 0x25) u.host).1                       -- strip "%iface" for the comparison
          if dstText.length ≠ cmp.length || dstText != cmp then
            [(3, (replacePercents u.host).map lowerC)]
          else []
        else []
      let dflt : Nat :=
        if u.scheme = 4 || u.scheme = 6 then 80
        else if u.scheme = 5 || u.scheme = 7 then 443
        else if u.scheme % 2 = 1 then 5684 else 5683
      hostOpt ++ (if u.port ≠ dflt then [(7, encodeVar (u.port % 65536))] else [])
    else []
  let pathRes : R (List Bytes) := if u.path.length ≠ 0 then pathOpts u.path else R.ok []
  match pathRes with
  | .rej => R.rej
  | .oob => R.oob
  | .ok ps =>
    let queryRes : R (List Bytes) := if u.query.length ≠ 0 then queryOpts u.query else R.ok []
    match queryRes with
    | .rej => R.rej
    | .oob => R.oob
    | .ok qs => R.ok (hp ++ ps.map (fun v => (11, v)) ++ qs.map (fun v => (15, v)))

end Coap.MU
