import CoapVerif.Model.WkBlock
/-
M — a live server: `/.well-known/core` requests while the application keeps changing the resource table.

  coap_add_resource / coap_delete_resource / coap_add_attr (LL_PREPEND on resource->link_attr) /
  coap_resource_set_get_observable              change `context->resources` in place            → `applyOp` (shared with S)
  hnd_get_wellknown_lkd (src/coap_net.c)        keeps NOTHING between two requests: every request runs the size probe
                                                `coap_print_wellknown_lkd(ctx, buf, &wkc_len, UINT_MAX, filter)` and the full
                                                print on the table as it is                      → `getBody st.table`
  the Block2 response cache (`session->lg_xmit`) is the only state that survives a request     → `serve`, `LState.cache`

`fetch` is one client fetching a whole body: block 0, 1, … on one session until a response without M bit (or an
error), exactly the loop of the harness (`x_request` until `done`).  Scope as in Model/WkBlock.lean; a table change
happens between two complete fetches (a transfer that is under way when the table changes is not modelled).
-/
namespace Coap.M.LF
open Coap Coap.LF

/-- server state between two events: the table, and every session's Block2 response cache -/
structure LState where
  table : Table
  cache : Nat → Cache

def fetch (t : Table) (opts : List Bytes) (szx : Nat) : Nat → Cache → XState → Cache × XState
  | 0, c, x => (c, x)
  | f + 1, c, x =>
    if x.done then (c, x)
    else
      match serve t c ⟨opts, x.next, szx⟩ with
      | R.ok (c', Resp.blk p more) => fetch t opts szx f c' ⟨x.buf ++ p, x.next + 1, !more, false⟩
      | R.ok (c', Resp.err _) => (c', ⟨x.buf, x.next + 1, true, true⟩)
      | _ => (c, ⟨x.buf, x.next + 1, true, true⟩)

/-- the events of a live server in order; one result per request (`fuel`: the client gives up after that many blocks) -/
def liveRun (fuel : Nat) : LState → List LiveEv → List LiveRes
  | _, [] => []
  | st, .op o :: r => liveRun fuel ⟨applyOp st.table o, st.cache⟩ r
  | st, .get sid szx opts :: r =>
    let cx := fetch st.table opts szx fuel (st.cache sid) ⟨[], 0, false, false⟩
    ⟨cx.2.buf, cx.2.next, cx.2.failed⟩ :: liveRun fuel ⟨st.table, upd st.cache sid cx.1⟩ r
  | st, .print qf :: r =>
    (match hndBody st.table qf with
     | R.ok b => ⟨b, 0, false⟩
     | _ => ⟨[], 0, true⟩) :: liveRun fuel st r

def LState.init : LState := ⟨[], fun _ => []⟩

/-! ### block-level events: ETag, Request-Tag, lg_xmit timeout, table changes WHILE transfers are under way

  coap_add_data_large_internal   `lg_xmit->b.b2.etag = etag` (0 for the well-known handler), then for a NEW lg_xmit
                                 `if (++context->etag == 0) ++context->etag;` goes into the ETag option of the response
                                 and so into the skeleton PDU `lg_xmit->pdu`; a body of one block and the "single block"
                                 path (num ≠ 0, no lg_xmit) carry NO ETag                         → `serveFreshB`, `nextEtag`
  coap_find_lg_xmit_response     (resource, method, query) as before, and Request-Tag: both absent, or both present
                                 with equal length and bytes                                        → `matchB`
  coap_handle_request_send_block blocks ≥ 1: options of the skeleton PDU (ETag of the body) are copied, payload is the
                                 block of the CACHED body; a Block2 SZX other than the transfer's: 4.00 "Changing
                                 blocksize during request invalid"                                  → `serveB`
  coap_block_check_lg_xmit_timeouts  deletes the entries whose timer ran out (which ones: any subset, `keepMask`)

Scope: GET + Block2 (SZX ≤ 6) on the pseudo resource, optional Request-Tag (≤ 8 bytes), no ETag / Observe / Q-Block2
option in the request, UDP session in COAP_BLOCK_USE_LIBCOAP mode, no other resource consuming `context->etag`. -/

/-- a Block2 response `coap_lg_xmit_t`: key (query, Request-Tag), body, block size, and the ETag option of `lg_xmit->pdu` -/
structure LgB where
  key : Option Bytes
  rtag : Option Bytes
  data : Bytes
  szx : Nat
  etag : Nat
  deriving DecidableEq, Repr

abbrev CacheB := List LgB

/-- `coap_find_lg_xmit_response`'s test of one entry -/
def matchB (key rtag : Option Bytes) (e : LgB) : Bool := keyEq e.key key && (rtag == e.rtag)

/-- `if (++session->context->etag == 0) ++session->context->etag;` on a `uint64_t` -/
def nextEtag (e : Nat) : Nat := if (e + 1) % 2 ^ 64 = 0 then 1 else (e + 1) % 2 ^ 64

structure ReqB where
  sid : Nat
  num : Nat
  szx : Nat
  /-- values of the Uri-Query options -/
  opts : List Bytes
  /-- value of the Request-Tag option, if any -/
  rtag : Option Bytes
  deriving DecidableEq, Repr

inductive RespB where
  /-- 2.05 with this payload, this M bit and this ETag option (if any) -/
  | blk (payload : Bytes) (more : Bool) (etag : Option Nat)
  | err (code : Nat)
  deriving DecidableEq, Repr

/-- server state: the table, every session's `lg_xmit` list, `context->etag` -/
structure BState where
  table : Table
  cache : Nat → CacheB
  etag : Nat

/-- the handler path with the ETag: hnd_get_wellknown_lkd → coap_add_data_large_response_lkd → coap_add_data_large_internal -/
def serveFreshB (t : Table) (c : CacheB) (ce : Nat) (key : Option Bytes) (r : ReqB) : R (CacheB × Nat × RespB) :=
  match getBody t r.opts with
  | R.oob => R.oob
  | R.rej => R.ok (c, ce, RespB.err 503)
  | R.ok body =>
    let chunk := 2 ^ (r.szx + 4)
    if body.length = 0 then R.ok (c, ce, RespB.blk [] false none)
    else if r.num ≠ 0 ∧ body.length ≤ r.num * chunk then R.ok (c, ce, RespB.err 400)
    else
      let c1 := c.eraseP (matchB key r.rtag)
      if r.num ≠ 0 then
        R.ok (c1, ce, RespB.blk (block body chunk r.num) (decide ((r.num + 1) * chunk < body.length)) none)
      else if body.length > chunk then
        R.ok (⟨key, r.rtag, body, r.szx, nextEtag ce⟩ :: c1, nextEtag ce,
              RespB.blk (body.take chunk) true (some (nextEtag ce)))
      else R.ok (c1, ce, RespB.blk body false none)

/-- one block request -/
def serveB (t : Table) (c : CacheB) (ce : Nat) (r : ReqB) : R (CacheB × Nat × RespB) :=
  match MU.getQuery r.opts with
  | R.oob => R.oob
  | R.rej => R.rej
  | R.ok key =>
    if r.num = 0 then serveFreshB t c ce key r
    else
      match c.find? (matchB key r.rtag) with
      | none => serveFreshB t c ce key r
      | some e =>
        let chunk := 2 ^ (e.szx + 4)
        if r.szx ≠ e.szx then R.ok (c, ce, RespB.err 400)             -- "Changing blocksize during request invalid"
        else if e.data.length ≤ r.num * chunk then R.ok (c, ce, RespB.err 500)
        else R.ok (c, ce, RespB.blk (block e.data chunk r.num) (decide (r.num * chunk + chunk < e.data.length))
                           (some e.etag))

/-- the entries the timeout check leaves (`true` = timer still running); entries beyond the mask are deleted -/
def keepMask : CacheB → List Bool → CacheB
  | e :: c, true :: m => e :: keepMask c m
  | _ :: c, false :: m => keepMask c m
  | _, _ => []

inductive BEv where
  /-- the application changes the table -/
  | op (o : TableOp)
  /-- a client asks for one block -/
  | get (r : ReqB)
  /-- `coap_block_check_lg_xmit_timeouts` on a session -/
  | expire (sid : Nat) (keep : List Bool)
  deriving DecidableEq, Repr

/-- what an observer of the wire sees of one block request, with the table as it was at that moment -/
structure Obs where
  req : ReqB
  table : Table
  resp : RespB

def stepB (st : BState) : BEv → BState × Option Obs
  | .op o => (⟨applyOp st.table o, st.cache, st.etag⟩, none)
  | .expire sid keep => (⟨st.table, upd st.cache sid (keepMask (st.cache sid) keep), st.etag⟩, none)
  | .get r =>
    match serveB st.table (st.cache r.sid) st.etag r with
    | R.ok (c', ce', resp) => (⟨st.table, upd st.cache r.sid c', ce'⟩, some ⟨r, st.table, resp⟩)
    | _ => (st, some ⟨r, st.table, RespB.err 0⟩)

def runB : BState → List BEv → List Obs
  | _, [] => []
  | st, ev :: r =>
    match (stepB st ev).2 with
    | some o => o :: runB (stepB st ev).1 r
    | none => runB (stepB st ev).1 r

def BState.init (t : Table) (e : Nat) : BState := ⟨t, fun _ => [], e⟩

end Coap.M.LF
