import CoapVerif.Model.WkBlock
/-
M — a live server: `/.well-known/core` requests while the application keeps changing the resource table.

  coap_add_resource / coap_delete_resource / coap_add_attr (LL_PREPEND on resource->link_attr) /
  coap_resource_set_get_observable              change `context->resources` in place            → `applyOp` (shared with S)
  hnd_get_wellknown_lkd (src/coap_net.c)        keeps NOTHING between two requests: every request runs the size probe
                                                `coap_print_wellknown_lkd(ctx, buf, &wkc_len, UINT_MAX, filter)` and the full
                                                print on the table as it is                      → `getBody st.table`
  the Block2 response cache (`session->lg_xmit`) is the only state that survives a request     → `serve`, `LState.cache`

`fetch` is one client fetching a whole body: block 0, 1, … on one session until a response without M bit (or an
error), exactly the loop of the harness (`x_request` until `done`).  Scope as in Model/WkBlock.lean; a table change
happens between two complete fetches (a transfer that is under way when the table changes is not modelled).
-/
namespace Coap.M.LF
open Coap Coap.LF

/-- server state between two events: the table, and every session's Block2 response cache -/
structure LState where
  table : Table
  cache : Nat → Cache

def fetch (t : Table) (opts : List Bytes) (szx : Nat) : Nat → Cache → XState → Cache × XState
  | 0, c, x => (c, x)
  | f + 1, c, x =>
    if x.done then (c, x)
    else
      match serve t c ⟨opts, x.next, szx⟩ with
      | R.ok (c', Resp.blk p more) => fetch t opts szx f c' ⟨x.buf ++ p, x.next + 1, !more, false⟩
      | R.ok (c', Resp.err _) => (c', ⟨x.buf, x.next + 1, true, true⟩)
      | _ => (c, ⟨x.buf, x.next + 1, true, true⟩)

/-- the events of a live server in order; one result per request (`fuel`: the client gives up after that many blocks) -/
def liveRun (fuel : Nat) : LState → List LiveEv → List LiveRes
  | _, [] => []
  | st, .op o :: r => liveRun fuel ⟨applyOp st.table o, st.cache⟩ r
  | st, .get sid szx opts :: r =>
    let cx := fetch st.table opts szx fuel (st.cache sid) ⟨[], 0, false, false⟩
    ⟨cx.2.buf, cx.2.next, cx.2.failed⟩ :: liveRun fuel ⟨st.table, upd st.cache sid cx.1⟩ r
  | st, .print qf :: r =>
    (match hndBody st.table qf with
     | R.ok b => ⟨b, 0, false⟩
     | _ => ⟨[], 0, true⟩) :: liveRun fuel st r

def LState.init : LState := ⟨[], fun _ => []⟩

end Coap.M.LF
