import CoapVerif.Model.AllocOracle
import CoapVerif.Model.Block
/-
C18 — two containers of the Block layer (src/coap_block.c) re-stated with the ALLOCATION ORACLE and the LEDGER of
Model/AllocOracle.lean.  Core Lean only.

M: transcription of
     client   coap_block_new_lg_crcv (lg_xmit == NULL), track_fetch_observe, coap_block_delete_lg_crcv:
              the lg_crcv with its copy of the request buffer, the application token and the LIST OF OBSERVE TOKENS of a
              large FETCH (`obs_token`, `obs_token_cnt`), grown by realloc, one coap_bin_const_t per block
     server   coap_handle_request_put_block (Block1, no BERT / Q-Block, COAP_BLOCK_SINGLE_BODY, blocks in any order, one
              resource -- of its own or the UNKNOWN resource --, no Request-Tag, one block size per transfer),
              coap_block_build_body, coap_block_delete_lg_srcv:
              the lg_srcv with the body under reassembly (`body_data`, coap_new_binary / coap_resize_binary), the token
              of a final block that arrived early (`last_token`) and the copy of the URI path kept for a transfer to the
              unknown resource (`uri_path`)

A read or write outside the token list is `none` (the C would touch memory it does not own); the decisions about which
blocks have arrived are C09's model (Coap.Block.recvLoop / checkAllBlocksIn / totalBlocks) — here they are only consulted,
what is modelled is WHO OWNS WHAT when any request to the allocator may fail.
-/
namespace Coap.AllocBlock
open Coap Coap.AllocOracle

/-- `coap_free_type(p)` / `coap_delete_bin_const(p)` of a pointer that may be NULL -/
def freeOpt (o : Option Nat) (h : Heap) : Heap :=
  match o with
  | some i => h.free i
  | none => h

/-- `coap_realloc_type(p, n)` of a pointer that may be NULL (then it is a malloc) -/
def reallocOpt (o : Option Nat) (h : Heap) : Option Nat × Heap :=
  match o with
  | some t => h.realloc t
  | none => h.alloc

/-- an entry of a pointer table / an owned pointer with the length of what it points to: serial of the object -/
def ser (e : Option (Nat × Nat)) : Option Nat := e.map (·.1)

/-! ## client: lg_crcv and the Observe tokens of a large FETCH -/

structure Crcv where
  id : Nat                                    -- the coap_lg_crcv_t
  bufId : Option Nat := none                  -- lg_crcv->pdu.token - max_hdr_size
  appTok : Option Nat := none                 -- lg_crcv->app_token
  tabId : Option Nat := none                  -- lg_crcv->obs_token (the list itself), NULL = none
  tab : List (Option (Nat × Nat)) := []       -- its entries as far as the list is allocated: (serial, token length) or NULL
  cnt : Nat := 0                              -- lg_crcv->obs_token_cnt
  deriving Repr, DecidableEq

/-- `for (i = 0; i < obs_token_cnt; i++) coap_delete_bin_const(obs_token[i]);` — `none` = a read outside the list -/
def freeEntries : Nat → List (Option (Nat × Nat)) → Heap → Option Heap
  | 0, _, h => some h
  | _ + 1, [], _ => none
  | n + 1, e :: r, h => freeEntries n r (freeOpt (ser e) h)

/-- `coap_block_delete_lg_crcv(session, lg_crcv)` (no lg_xmit refers to it, no body under reassembly) -/
def deleteCrcv (c : Crcv) (h : Heap) : Option Heap :=
  match freeEntries c.cnt c.tab (freeOpt c.appTok (freeOpt c.bufId h)) with
  | none => none
  | some h1 => some ((freeOpt c.tabId h1).free c.id)

/-- `coap_delete_bin_const(obs_token[block_num]); obs_token_cnt = block_num + 1;
obs_token[block_num] = coap_new_bin_const(token->s, token->length);` -/
def storeToken (c : Crcv) (bn tokLen : Nat) (h : Heap) : Option (Crcv × Heap) :=
  match c.tab[bn]? with
  | none => none                                        -- obs_token[block_num] lies outside the list
  | some old =>
    match (freeOpt (ser old) h).alloc with
    | (none, h2) => some ({ c with cnt := bn + 1, tab := c.tab.set bn none }, h2)
    | (some t, h2) => some ({ c with cnt := bn + 1, tab := c.tab.set bn (some (t, tokLen)) }, h2)

/-- `track_fetch_observe`, Observe = 0 (COAP_OBSERVE_ESTABLISH): "Save the token in lg_crcv" -/
def trackEstablish (c : Crcv) (bn tokLen : Nat) (h : Heap) : Option (Crcv × Heap) :=
  if c.cnt ≤ bn then
    match reallocOpt c.tabId h with
    | (none, h1) => some (c, h1)                        -- return NULL: list and count as they were
    | (some t, h1) =>
      -- realloc keeps the entries there were; `for (i = obs_token_cnt; i < block_num + 1; i++) obs_token[i] = NULL;`
      storeToken { c with tabId := some t, tab := c.tab.take c.cnt ++ List.replicate (bn + 1 - c.cnt) none } bn tokLen h1
  else storeToken c bn tokLen h

/-- `track_fetch_observe(pdu, lg_crcv, block_num, token)`; `act` = value of the request's Observe option (`none`: no
option).  Result: the token returned (NULL = `none`), the lg_crcv, the heap; `none` = access outside the list. -/
def track (act : Option Nat) (c : Crcv) (bn tokLen : Nat) (h : Heap) : Option (Option (Nat × Nat) × Crcv × Heap) :=
  match act with
  | none => some (none, c, h)
  | some a =>
    if a = 0 then (trackEstablish c bn tokLen h).map fun r => (none, r.1, r.2)
    else if a = 1 then
      -- COAP_OBSERVE_CANCEL: "Use the token in lg_crcv"
      if bn < c.cnt then
        match c.tab[bn]? with
        | none => none
        | some e => some (e, c, h)
      else some (none, c, h)
    else some (none, c, h)

/-- `coap_block_new_lg_crcv(session, pdu, NULL)`: three requests (lg_crcv, copy of token + options + data, application
token), then `track_fetch_observe(pdu, lg_crcv, 0, &pdu->actual_token)` for a FETCH -/
def newCrcv (fetch : Bool) (act : Option Nat) (tokLen : Nat) (h : Heap) : Option (Option Crcv × Heap) :=
  match h.alloc with
  | (none, h1) => some (none, h1)
  | (some id, h1) =>
    match h1.alloc with
    | (none, h2) => (deleteCrcv { id := id } h2).map fun h => (none, h)
    | (some b, h2) =>
      match h2.alloc with
      | (none, h3) => (deleteCrcv { id := id, bufId := some b } h3).map fun h => (none, h)
      | (some a, h3) =>
        let c : Crcv := { id := id, bufId := some b, appTok := some a }
        if fetch then (track act c 0 tokLen h3).map fun r => (some r.2.1, r.2.2)
        else some (some c, h3)

/-- the `atrack` line protocol of harness/allocfail.c -/
inductive CEv where
  | new (fetch : Bool) (act : Option Nat) (tokLen : Nat)     -- n<f|g>:<o>:<tl>:<dl>
  | track (act : Option Nat) (bn tokLen : Nat)               -- t<o>:<bn>:<tl>
  | del                                                      -- d
  deriving Repr, DecidableEq

inductive COut where
  | num (n : Nat)
  | skip
  | null
  | tok (len : Nat)
  | invalid                  -- M itself would access memory outside the list (never, see Props/C18.lean)
  deriving Repr, DecidableEq

def crcvStep (st : Option Crcv) (h : Heap) : CEv → COut × Option Crcv × Heap
  | .new fetch act tl =>
    match st with
    | some c => (.skip, some c, h)
    | none =>
      match newCrcv fetch act tl h with
      | none => (.invalid, none, h)
      | some (r, h1) => (.num (if r.isSome then 1 else 0), r, h1)
  | .track act bn tl =>
    match st with
    | none => (.skip, none, h)
    | some c =>
      match track act c bn tl h with
      | none => (.invalid, some c, h)
      | some (r, c1, h1) => ((match r with | some (_, l) => .tok l | none => .null), some c1, h1)
  | .del =>
    match st with
    | none => (.skip, none, h)
    | some c =>
      match deleteCrcv c h with
      | none => (.invalid, some c, h)
      | some h1 => (.num 1, none, h1)

def crcvRun : Option Crcv → Heap → List CEv → List COut × Option Crcv × Heap
  | st, h, [] => ([], st, h)
  | st, h, e :: r => let (o, st1, h1) := crcvStep st h e; let (os, st2, h2) := crcvRun st1 h1 r; (o :: os, st2, h2)

/-- the discipline of the callers of `track_fetch_observe`: within one lg_crcv the block numbers registered only go up
(coap_block_new_lg_crcv: block 0 of a new lg_crcv; coap_handle_response_send_block: `block.num + 1` with
`block.num > lg_xmit->last_block`), block 0 comes again (check_freshness: the request repeated with an Echo option) only
while no later block has been registered.  `hi` = an upper bound of obs_token_cnt. -/
def evOk (hi : Nat) : CEv → Bool
  | .track act bn _ => if act = some 0 then decide (hi ≤ bn + 1) else true
  | _ => true

def nextHi (hi : Nat) : CEv → Nat
  | .track act bn _ => if act = some 0 then bn + 1 else hi
  | .new _ _ _ => max hi 1
  | .del => 0

def feasible : Nat → List CEv → Bool
  | _, [] => true
  | hi, e :: r => evOk hi e && feasible (nextHi hi e) r

/-- the session is released: what is left of the lg_crcv goes (`none` = access outside the list) -/
def crcvCleanup (st : Option Crcv) (h : Heap) : Option Heap :=
  match st with
  | none => some h
  | some c => deleteCrcv c h

/-! ## server: lg_srcv, the body under reassembly and the token of an early final block -/

structure ASrcv where
  id : Nat                                    -- the coap_lg_srcv_t
  recv : Block.Ranges := []                   -- rec_blocks
  totalLen : Nat := 0                         -- total_len
  body : Option (Nat × Nat) := none           -- body_data: (serial, length)
  szx : Nat := 0
  noMoreSeen : Bool := false                  -- a block without More arrived while others were missing
  lastTok : Option (Nat × Nat) := none        -- last_token: (serial, length)
  uriPath : Option Nat := none                -- uri_path: the copy kept for a transfer to the unknown / proxy-URI resource
  deriving Repr, DecidableEq

/-- `coap_block_delete_lg_srcv(session, lg_srcv)`: uri_path (NULL for a resource of its own), last_token, body_data, the
lg_srcv -/
def freeSrcv (lg : ASrcv) (h : Heap) : Heap :=
  (freeOpt (ser lg.body) (freeOpt (ser lg.lastTok) (freeOpt lg.uriPath h))).free lg.id

/-- `coap_block_build_body(body_data, length, data, offset, total)` with `data != NULL`: the body_data returned (NULL =
`none`: whatever there was has been released) -/
def buildBody (body : Option (Nat × Nat)) (len offset total : Nat) (h : Heap) : Option (Nat × Nat) × Heap :=
  let r : Option (Nat × Nat) × Heap :=
    match body with
    | some b => (some b, h)
    | none =>
      if total ≠ 0 then
        match h.alloc with                                 -- coap_new_binary(total)
        | (none, h1) => (none, h1)
        | (some i, h1) => (some (i, total), h1)
      else (none, h)
  match r.1 with
  | none => (none, r.2)
  | some (i, blen) =>
    if offset + len ≤ total ∧ blen ≥ total then (some (i, blen), r.2)
    else
      -- "Payloads already stored beyond this one must be kept"
      let newLen := if offset + len < blen then blen else offset + len
      match r.2.realloc i with                             -- coap_resize_binary
      | (some j, h2) => (some (j, newLen), h2)
      | (none, h2) => (none, h2.free i)                    -- coap_delete_binary(body_data); return NULL

/-- "Need to separately respond to this request": coap_pdu_duplicate_lkd(response, …) — a response with a token of at most
8 bytes and no options: the two requests of coap_pdu_init, nothing grows — then coap_send_internal of the 2.31 (an ACK:
written and released).  Nothing is sent when the copy cannot be made. -/
def sepResponse (h : Heap) : Heap :=
  match h.alloc with
  | (none, h1) => h1
  | (some p, h1) =>
    match h1.alloc with
    | (none, h2) => h2.free p
    | (some b, h2) => (h2.free b).free p

inductive SOut where
  | app (len : Nat)           -- not block-wise (num 0, no More): the handler gets the request as it is
  | deliver (len : Nat)       -- give_app_data: the handler gets the reassembled body; the caller releases the lg_srcv
  | code (c : Nat)            -- the handler is not called, response code c (0 = empty ACK, 95 = 2.31, 128 = 4.00, 136 = 4.08, 160 = 5.00)
  | unmodelled
  deriving Repr, DecidableEq

def bodyLen (lg : ASrcv) : Nat :=
  match lg.body with
  | some _ => lg.totalLen
  | none => 0

/-- "if (block.m || !check_all_blocks_in(...))" … "give_app_data" -/
def srcvDecide (lg : ASrcv) (m chunk tokLen : Nat) (h : Heap) : SOut × Option ASrcv × Heap :=
  let allIn := Block.checkAllBlocksIn lg.recv (Block.totalBlocks lg.totalLen chunk)
  if m = 1 then
    if ¬ lg.noMoreSeen ∨ ¬ allIn then (.code 95, some lg, h)          -- "Ask for the next block"
    else (.deliver (bodyLen lg), none, freeSrcv lg (sepResponse h))
  else if ¬ allIn then
    -- "Last chunk - but not all in": no_more_seen = 1; coap_delete_bin_const(last_token); last_token = coap_new_bin_const(…)
    match (freeOpt (ser lg.lastTok) h).alloc with
    | (none, h2) => (.code 160, none, freeSrcv { lg with noMoreSeen := true, lastTok := none } h2)      -- goto free_lg_srcv
    | (some t, h2) => (.code 0, some { lg with noMoreSeen := true, lastTok := some (t, tokLen) }, h2)
  else (.deliver (bodyLen lg), none, freeSrcv lg h)

/-- "locate the lg_srcv" / "Allocate lg_srcv to use for tracking" (one request; `unk` = the resource is the unknown /
proxy-URI resource: a second request, `lg_srcv->uri_path = coap_new_str_const(uri_path->s, uri_path->length)` — when it
fails the lg_srcv, which is not yet in session->lg_srcv, is released with coap_free_type and the answer is 5.00) -/
def srcvLocate (st : Option ASrcv) (szx : Nat) (size1 : Option Nat) (unk : Bool) (h : Heap) : Option ASrcv × Heap :=
  match st with
  | some lg => (some lg, h)
  | none =>
    match h.alloc with
    | (none, h1) => (none, h1)
    | (some i, h1) =>
      if unk then
        match h1.alloc with
        | (none, h2) => (none, h2.free i)
        | (some p, h2) => (some { id := i, totalLen := size1.getD 0, szx := szx, uriPath := some p }, h2)
      else (some { id := i, totalLen := size1.getD 0, szx := szx }, h1)

/-- "if (update_data)": total_len is raised, the block is stored with coap_block_build_body, then the decision -/
def srcvUpdate (lg : ASrcv) (rec' : Block.Ranges) (len offset m chunk tokLen : Nat) (h : Heap) : SOut × Option ASrcv × Heap :=
  let tl := if lg.totalLen < offset + len then offset + len else lg.totalLen
  match buildBody lg.body len offset tl h with
  | (none, h2) => (.code 160, none, freeSrcv { lg with recv := rec', totalLen := tl, body := none } h2)   -- "Memory issue"
  | (some b, h2) => srcvDecide { lg with recv := rec', totalLen := tl, body := some b } m chunk tokLen h2

/-- from "Inconsistent last block" on, for the lg_srcv of the transfer -/
def srcvStore (cap : Nat) (lg : ASrcv) (num m len chunk tokLen : Nat) (h : Heap) : SOut × Option ASrcv × Heap :=
  let offset := num * chunk
  if (len % chunk ≠ 0 ∧ offset + len < lg.totalLen) ∨ (lg.noMoreSeen = true ∧ offset + len > lg.totalLen) then
    (.code 136, none, freeSrcv lg h)                                  -- "Inconsistent last block"
  else
  match Block.recvLoop cap ((len + chunk - 1) / chunk) lg.recv num false with
  | none => (.code 136, none, freeSrcv lg h)                          -- "Too many missing blocks"
  | some (rec', updated) =>
    if updated then srcvUpdate lg rec' len offset m chunk tokLen h
    else srcvDecide { lg with recv := rec' } m chunk tokLen h

/-- one Block1 request `(num, m, szx, payload length, Size1)` with a `tokLen`-byte token at the server; `st` = the
lg_srcv of the resource, if there is one.  `cap` = COAP_RBLOCK_CNT. -/
def srcvStep (cap : Nat) (st : Option ASrcv) (num m szx plen tokLen : Nat) (size1 : Option Nat) (unk : Bool) (h : Heap) :
    SOut × Option ASrcv × Heap :=
  let chunk := 2 ^ (szx + 4)
  if num = 0 ∧ m = 0 then (.app plen, st, h) else
  if ¬ plen > chunk ∧ m = 1 ∧ plen ≠ chunk then (.code 128, st, h) else
  match srcvLocate st szx size1 unk h with
  | (none, h1) => (.code 160, none, h1)
  | (some lg, h1) =>
    if szx ≠ lg.szx then (.unmodelled, some lg, h1)
    else srcvStore cap lg num m (if plen > chunk then chunk else plen) chunk tokLen h1

/-- the `asrcv` line protocol: a block arrives / the transfer state is dropped (session tear-down, expiry) -/
inductive SEv where
  | block (num m plen : Nat)
  | drop
  deriving Repr, DecidableEq

structure SCfg where
  cap : Nat
  szx : Nat
  tokLen : Nat
  size1 : Option Nat
  unk : Bool := false                         -- the transfer goes to the unknown resource (`asrcvu`): uri_path is copied
  deriving Repr, DecidableEq

def srcvEv (cfg : SCfg) (st : Option ASrcv) (h : Heap) : SEv → SOut × Option ASrcv × Heap
  | .block num m plen => srcvStep cfg.cap st num m cfg.szx plen cfg.tokLen cfg.size1 cfg.unk h
  | .drop =>
    match st with
    | some lg => (.code 1, none, freeSrcv lg h)
    | none => (.code 1, none, h)

def srcvRun (cfg : SCfg) : Option ASrcv → Heap → List SEv → List SOut × Option ASrcv × Heap
  | st, h, [] => ([], st, h)
  | st, h, e :: r => let (o, st1, h1) := srcvEv cfg st h e; let (os, st2, h2) := srcvRun cfg st1 h1 r; (o :: os, st2, h2)

def srcvCleanup (st : Option ASrcv) (h : Heap) : Heap :=
  match st with
  | some lg => freeSrcv lg h
  | none => h

end Coap.AllocBlock
