import CoapVerif.Model.Parse
/-!
# M: `coap_opt_filter_t`, the filtered option iterator and `coap_check_option` (src/coap_option.c)

Transcription of `coap_option_filter_op` (FILTER_SET / FILTER_CLEAR / FILTER_GET), `coap_option_filter_clear`,
`coap_option_iterator_init` with a filter, `coap_option_next` (the skip loop) and `coap_check_option`.

Representation.  `mask` is a bit vector over COAP_OPT_FILTER_LONG (2) + COAP_OPT_FILTER_SHORT (6) slots; bit `i` says
whether `long_opts[i]` (i < 2) / `short_opts[i-2]` is in use.  A slot is the pair (used, stored value): a cleared slot keeps
its stale value as in C (FILTER_CLEAR only clears the mask bit).  `(of->mask & nr) > 0` is `slot.1`; `of->mask &= ~nr` clears
it; `coap_fls(~of->mask & mask)` — the 1-based index of the HIGHEST free bit of the class — is `lastFree`.
-/
namespace Coap.M.OptFilter

abbrev Slots := List (Bool × Nat)

structure Flt where
  long : Slots      -- long_opts[COAP_OPT_FILTER_LONG], mask bits 0..1
  short : Slots     -- short_opts[COAP_OPT_FILTER_SHORT], mask bits 2..7
  deriving Repr, DecidableEq

/-- `coap_option_filter_clear`: memset 0 -/
def Flt.clear : Flt := ⟨List.replicate 2 (false, 0), List.replicate 6 (false, 0)⟩

inductive Op | set | clr | get
  deriving Repr, DecidableEq

/-- the search loop: first slot in use holding `v` -/
def findIdx : Slots → Nat → Option Nat
  | [], _ => none
  | (u, x) :: r, v => if u ∧ x = v then some 0 else (findIdx r v).map (· + 1)

/-- `coap_fls(~mask & classmask) - 1` relative to the class: the highest free slot -/
def lastFree : Slots → Option Nat
  | [] => none
  | (u, _) :: r =>
    match lastFree r with
    | some i => some (i + 1)
    | none => if u then none else some 0

/-- `coap_option_filter_op` on the slots of one class; `v` is what is compared / stored there -/
def opOn (sl : Slots) (v : Nat) (op : Op) : Slots × Nat :=
  match findIdx sl v with
  | some i => (if op = Op.clr then sl.set i (false, v) else sl, 1)
  | none =>
    match op with
    | Op.set =>
      match lastFree sl with
      | some i => (sl.set i (true, v), 1)
      | none => (sl, 0)
    | _ => (sl, 0)

/-- `coap_option_filter_op(filter, number, op)`, `number : coap_option_num_t` (uint16_t) -/
def Flt.op (f : Flt) (number : Nat) (op : Op) : Flt × Nat :=
  if number > 255 then
    let r := opOn f.long number op
    ({ f with long := r.1 }, r.2)
  else
    let r := opOn f.short (number % 256) op      -- `number & 0xff` / `(uint8_t)number`
    ({ f with short := r.1 }, r.2)

def Flt.get (f : Flt) (n : Nat) : Bool := (f.op n Op.get).2 > 0

/-- `of->mask` -/
def maskOf (sl : Slots) (bit : Nat) : Nat :=
  match sl with
  | [] => 0
  | (u, _) :: r => (if u then 2 ^ bit else 0) + maskOf r (bit + 1)
def Flt.mask (f : Flt) : Nat := maskOf f.long 0 + maskOf f.short 2

/-- `opt_finished()`: `oi->length == 0 || *oi->next_option == COAP_PAYLOAD_START` -/
def finished : Bytes → Bool
  | [] => true
  | b :: _ => b == 0xFF

/-- `coap_option_iterator_init(pdu, oi, filter)` followed by `coap_option_next(oi)` until NULL, reading every
option returned with `coap_opt_length` / `coap_opt_value`.  `bs` = bytes from `token + e_token_length`.
`fresh` = at the top of a `coap_option_next` call, where `opt_finished()` is evaluated (length 0, payload
marker); inside the skip loop (`fresh = false`) the code goes straight to `coap_opt_parse`. -/
def iterF (flt : Nat → Bool) : (fuel : Nat) → (bs : Bytes) → (number : Nat) → (fresh : Bool) → R (List (Nat × Bytes))
  | 0, _, _, _ => R.ok []
  | fuel + 1, bs, number, fresh =>
    if fresh && finished bs then R.ok [] else
    match optParse bs bs.length with
    | R.oob => R.oob
    | R.rej => R.ok []                    -- oi->bad = 1
    | R.ok p =>
      let number' := (number + p.delta) % 65536
      if flt number' then
        match iterF flt fuel (bs.drop p.size) number' true with
        | R.ok os => R.ok ((number', (bs.drop p.valOfs).take p.length) :: os)
        | e => e
      else iterF flt fuel (bs.drop p.size) number' false

/-- ONE call of `coap_option_next` on a fresh iterator: the first option that passes the filter, or none (NULL) -/
def firstF (flt : Nat → Bool) : (fuel : Nat) → (bs : Bytes) → (number : Nat) → (fresh : Bool) → R (Option (Nat × Bytes))
  | 0, _, _, _ => R.ok none
  | fuel + 1, bs, number, fresh =>
    if fresh && finished bs then R.ok none else
    match optParse bs bs.length with
    | R.oob => R.oob
    | R.rej => R.ok none
    | R.ok p =>
      let number' := (number + p.delta) % 65536
      if flt number' then R.ok (some (number', (bs.drop p.valOfs).take p.length))
      else firstF flt fuel (bs.drop p.size) number' false

/-- `coap_check_option(pdu, number, &oi)`: filter cleared, `number` set, iterator initialised, one `coap_option_next` -/
def checkOption (fuel : Nat) (bs : Bytes) (number : Nat) : R (Option (Nat × Bytes)) :=
  firstF (Flt.clear.op number Op.set).1.get fuel bs 0 true

end Coap.M.OptFilter
