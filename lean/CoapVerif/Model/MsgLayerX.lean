import CoapVerif.Model.MsgLayer
/-
M, extended — the message layer of `Model/MsgLayer.lean` plus the code paths that touch `con_active` / the delay
queue and that the base model leaves out (added for C08):

  * a request submitted with an EXPLICIT token (several outstanding messages may share one token, e.g. an Observe
    registration and its cancellation), and `coap_cancel_all_messages` as the pointer walk it is: a message that
    `coap_session_connected` puts into the send queue DURING the walk is looked at only if it lands behind the
    walk's position                                                                   src/coap_net.c
  * `coap_session_disconnected_lkd(session, COAP_NACK_ICMP_ISSUE)` (an ICMP error read from the socket): one NACK,
    nothing else changes                                                               src/coap_session.c
  * keepalive (`coap_context_set_keepalive`): the ping loop at the end of `coap_io_prepare_io_lkd`,
    `coap_session_send_ping_lkd`, `last_rx_tx` / `last_ping` / `last_pong` / `last_ping_mid` / `tx_mid`, the clamp of
    the retransmission delay in `coap_retransmit`, the `is_ping_rst` case of the RST branch of `coap_dispatch`
                                                                                       src/coap_io.c, src/coap_net.c

  * (round 4) a PIGGY-BACKED RESPONSE (an ACK with a response code and the request's token, event `rxAckP`): the
    ACK branch of `coap_dispatch` (found by message id only), then `handle_response` - which does NOT cancel by
    token for an ACK (`if (rcvd->type != COAP_MESSAGE_ACK) coap_cancel_all_messages(...)`), drops a duplicate
    (`rcvd->mid == session->last_ack_mid`) and otherwise calls the response handler            src/coap_net.c
  * (round 4) DTLS sessions (`LX.dtls`): every `con_active` update and every gate of the message layer is guarded
    by `COAP_PROTO_NOT_RELIABLE(session->proto)` (`(p)==COAP_PROTO_UDP || (p)==COAP_PROTO_DTLS`, `Proto.notReliable`),
    so what M says about a session holds for both datagram transports; the ONE place where the modelled code
    tells them apart is `coap_session_disconnected_lkd`: `if (session->proto == COAP_PROTO_UDP) state =
    ESTABLISHED else state = NONE` (`disconnectP`)                                              src/coap_session.c

Everything else is the base model's functions, re-used as they are (`gate`, `waitAck`, `drain`, `connected`,
`release`, `rxAck`, `rxBad`, `disconnect`).  `stepX_base` (Lemmas/MsgLayerX.lean) proves that with keepalive off
the two models agree on every base event except that `rxNon` uses the pointer walk.  Not modelled: the RFC 8974
extended-token probe (`max_token_size > 8`), the pong handler call.  Core Lean only.
-/
namespace Coap.MsgX
open Coap.SQ Coap.Msg

/-- the (empty) token of a library-generated ping: no 2-byte application token (0..65535) equals it -/
def noTok : Nat := 65536

/-- `coap_send_internal(session, pdu)` for a CON/NON PDU on a datagram session: the gate of `coap_send_pdu`, then
either `coap_session_delay_pdu` or the transmission followed by `coap_wait_ack`.  Result: the returned mid
(`none` = COAP_INVALID_MID). -/
def sendCore (l : L) (s : Nat) (con : Bool) (mid r tok : Nat) : L × Option Nat :=
  let se := l.getS s
  let tmo := if con then calcTimeout se.atI se.atF se.arfI se.arfF r else 0
  let n : Node := { sess := s, mid := mid, t := 0, timeout := tmo, cnt := 0, tok := tok, con := con }
  if gate se con then
    if se.delayq.any (fun x => x.mid = mid) then (l, none)
    else (l.setS s { se with delayq := se.delayq ++ [n] }, some mid)
  else
    let l := l.emit (.tx l.now s mid 0 con)
    if con then
      let l := l.setS s { se with conActive := (se.conActive + 1) % 256 }
      (waitAck l n, some mid)
    else (l, some mid)

/-- `coap_send()` of a CON/NON message with message id `mid` and token `tok` -/
def submitT (l : L) (s : Nat) (con : Bool) (mid r tok : Nat) : L :=
  if !(l.getS s).sockOpen then l.emit (.sub none)
  else
    let (l', res) := sendCore l s con mid r tok
    l'.emit (.sub res)

/-- `coap_retransmit`: with keepalive on, `next_delay` never exceeds the ping timeout
(`ping_timeout * COAP_TICKS_PER_SECOND - 255 + byte`, `byte` from the PRNG) -/
def clampDelay (pt prng delay : Nat) : Nat :=
  if pt ≠ 0 ∧ pt * 1000 < delay then pt * 1000 - 255 + prng else delay

/-- `coap_retransmit(context, node)` with `context->ping_timeout = pt` -/
def retransmitX (pt prng : Nat) (l : L) (n : Node) : L :=
  let s := n.sess
  let se := l.getS s
  if n.cnt < se.maxRtx then
    let n := { n with cnt := (n.cnt + 1) % 256 }
    let delay := clampDelay pt prng ((n.timeout * 2 ^ n.cnt) % 18446744073709551616)
    let l := { l with q := enqueue l.q l.now delay n }
    let se := { se with conActive := se.conActive - 1 }
    if gate se n.con then
      let (_, rest) := removeNode l.q.nodes s n.mid
      let l := { l with q := { l.q with nodes := rest } }
      l.setS s { se with delayq := se.delayq ++ [{ n with t := 0 }] }
    else
      let l := l.emit (.tx l.now s n.mid n.cnt n.con)
      l.setS s { se with conActive := if n.con then (se.conActive + 1) % 256 else se.conActive }
  else
    let l := release l s
    if n.con then l.emit (.nack l.now s .retries n.mid true) else l

/-- the due-node loop of `coap_io_prepare_io_lkd` -/
def dueLoopX (pt prng : Nat) : Nat → L → L
  | 0, l => l
  | fuel + 1, l =>
    match l.q.nodes with
    | [] => l
    | h :: _ =>
      if l.now ≥ l.q.base ∧ h.t ≤ l.now - l.q.base then
        match popNext l.q.nodes with
        | none => l
        | some (n, rest) => dueLoopX pt prng fuel (retransmitX pt prng { l with q := { l.q with nodes := rest } } n)
      else l

/-! ### coap_cancel_all_messages as a pointer walk -/

/-- unlink the node at index `i`: its successor inherits its relative time -/
def removeAt : List Node → Nat → List Node
  | [], _ => []
  | n :: r, 0 =>
    match r with
    | [] => []
    | q :: r' => { q with t := q.t + n.t } :: r'
  | n :: r, i + 1 => n :: removeAt r i

/-- number of nodes whose deadline (relative to the base time: `acc` + the relative times up to and including the
node) is below `d` -/
def cntBelow : List Node → Nat → Nat → Nat
  | [], _, _ => 0
  | n :: r, acc, d => (if acc + n.t < d then 1 else 0) + cntBelow r (acc + n.t) d

/-- deadline (relative to the base time) of the node BEFORE index `i` -/
def dlBefore (ns : List Node) (i : Nat) : Nat := ((ns.take i).map (·.t)).foldl (· + ·) 0

/-- The `while (q)` walk of `coap_cancel_all_messages`; `i` = number of nodes in front of the link `p` points to.
A matching node is unlinked; if it is a CON the slot is released (`coap_session_connected` may insert held
messages into the send queue: `coap_insert_node` puts a node behind every node whose deadline is not later, so the
new node is in front of `p` exactly if its deadline is earlier than that of the node `p` belongs to — the nodes in
front of `p` are then one more; with `p = &context->sendqueue` nothing can get in front). -/
def cancelWalk : Nat → L → Nat → Nat → Nat → L
  | 0, l, _, _, _ => l
  | fuel + 1, l, s, tok, i =>
    match l.q.nodes.drop i with
    | [] => l
    | q :: _ =>
      if q.sess = s ∧ q.tok = tok then
        let nodes1 := removeAt l.q.nodes i
        let l1 : L := { l with q := { l.q with nodes := nodes1 } }
        let l2 := if q.con then release l1 s else l1
        let d := dlBefore nodes1 i
        let i' := if i = 0 then 0 else i + (cntBelow l2.q.nodes 0 d - cntBelow nodes1 0 d)
        cancelWalk fuel l2 s tok i'
      else cancelWalk fuel l s tok (i + 1)

def walkFuel (l : L) (s : Nat) : Nat := 2 * (l.q.nodes.length + (l.getS s).delayq.length) + 2

/-- a NON 2.05 response with token `tok` arrives: `handle_response` cancels by token, then the response handler -/
def rxNonX (l : L) (s mid tok : Nat) : L :=
  let l := cancelWalk (walkFuel l s) l s tok 0
  l.emit (.rsp l.now s mid)

/-! ### ICMP error -/

/-- `coap_session_disconnected_lkd(session, COAP_NACK_ICMP_ISSUE)`: the first queued message of the session (or
nothing in particular) is reported, then the function returns: state, `con_active`, both queues are as before. -/
def icmp (l : L) (s : Nat) : L :=
  match l.q.nodes.find? (fun n => n.sess = s) with
  | some n => l.emit (.nack l.now s .icmp n.mid true)
  | none => l.emit (.nack l.now s .icmp 0 false)

/-! ### keepalive -/

/-- the keepalive fields of `coap_session_t` -/
structure KA where
  lastRxTx : Nat := 0
  lastPing : Nat := 0
  lastPong : Nat := 0
  lastPingMid : Option Nat := none      -- none = COAP_INVALID_MID
  txMid : Nat := 0
  lastAckMid : Option Nat := none       -- session->last_ack_mid (none = COAP_INVALID_MID): duplicate check of handle_response
  deriving Repr, DecidableEq

/-- `coap_proto_t` of a datagram session -/
inductive Proto where
  | udp | dtls
  deriving Repr, DecidableEq

/-- `COAP_PROTO_NOT_RELIABLE(p)` = `((p)==COAP_PROTO_UDP || (p)==COAP_PROTO_DTLS)`: the guard of `con_active++` in
`coap_send_pdu`, of the NSTART test / `con_active++` / `coap_wait_ack` in the loop of `coap_session_connected`, of
the re-count in `coap_retransmit` and of the duplicate-id test of `coap_session_delay_pdu` -/
def Proto.notReliable : Proto → Bool
  | .udp => true
  | .dtls => true

/-- the message layer, `context->ping_timeout` (seconds), the byte the PRNG hands out next, the keepalive fields,
and per session whether `session->proto == COAP_PROTO_DTLS` (default: UDP) -/
structure LX where
  l : L
  pingTimeout : Nat := 0
  prng : Nat := 0
  ka : List KA := []
  dtls : List Bool := []
  deriving Repr, DecidableEq

def LX.getK (lx : LX) (s : Nat) : KA := lx.ka.getD s {}
def LX.setK (lx : LX) (s : Nat) (k : KA) : LX := { lx with ka := lx.ka.set s k }
def LX.proto (lx : LX) (s : Nat) : Proto := if lx.dtls.getD s false then .dtls else .udp

/-- `coap_netif_dgrm_write` stamps `session->last_rx_tx`: every session that transmitted since the output list had
`old` entries (all transmissions of one step happen at the same `now`) -/
def touch (lx : LX) (old : Nat) : LX :=
  (lx.l.out.take (lx.l.out.length - old)).foldl (fun lx o =>
    match o with
    | .tx t s _ _ _ => lx.setK s { (lx.getK s) with lastRxTx := t }
    | _ => lx) lx

/-- the base layer moved from `lx.l` to `l'` -/
def LX.lift (lx : LX) (l' : L) : LX := touch { lx with l := l' } lx.l.out.length

/-- `coap_session_send_ping_lkd(session)` -/
def sendPing (lx : LX) (s : Nat) : LX × Option Nat :=
  let se := lx.l.getS s
  if !se.est || se.conActive != 0 then (lx, none)
  else if !se.sockOpen then (lx, none)      -- client session: `!coap_netif_available(session)` (after `fix: …send_ping…`)
  else
    let k := lx.getK s
    let mid := (k.txMid + 1) % 65536            -- coap_new_message_id_lkd: ++session->tx_mid (uint16_t)
    let lx := lx.setK s { k with txMid := mid }
    let (l', res) := sendCore lx.l s true mid lx.prng noTok
    ({ lx with l := l' }, res)

/-- body of the client-session loop at the end of `coap_io_prepare_io_lkd` for session `s`; `timeout` is the
wait computed so far (0 = none) -/
def pingOne (lx : LX) (s : Nat) (timeout : Nat) : LX × Nat :=
  let se := lx.l.getS s
  if se.est && decide (lx.pingTimeout > 0) then
    let now := lx.l.now
    let pt := lx.pingTimeout * 1000
    if (lx.getK s).lastRxTx + pt ≤ now then
      let (lx, res) := sendPing lx s
      match res with
      | none => (lx.setK s { (lx.getK s) with lastPingMid := none }, timeout)        -- `continue`
      | some mid =>
        let lx := lx.setK s { (lx.getK s) with lastPingMid := some mid, lastRxTx := now, lastPing := now }
        (lx, if timeout = 0 ∨ pt < timeout then pt else timeout)
    else
      let st := (lx.getK s).lastRxTx + pt - now
      (lx, if timeout = 0 ∨ st < timeout then st else timeout)
  else (lx, timeout)

/-- sessions `s, s+1, …` (`k` of them), in creation order -/
def pingLoop : Nat → Nat → LX → Nat → LX × Nat
  | 0, _, lx, timeout => (lx, timeout)
  | k + 1, s, lx, timeout =>
    let (lx, timeout) := pingOne lx s timeout
    pingLoop k (s + 1) lx timeout

/-- ticks until the earliest deadline in the send queue (0: the queue is empty), as `coap_io_prepare_io_lkd`
computes it after the due-node loop -/
def queueWait (l : L) : Nat :=
  match l.q.nodes with
  | [] => 0
  | h :: _ => if l.now ≥ l.q.base then h.t - (l.now - l.q.base) else h.t + (l.q.base - l.now)

/-- `coap_io_prepare_io_lkd(ctx, …, now)`: retransmissions, the wait until the earliest queued deadline, then the
keepalive loop (a ping sent there is NOT looked at for the wait, its session's `ping_timeout` is) -/
def prepareCoreX (lx : LX) : LX × Nat :=
  let l := dueLoopX lx.pingTimeout lx.prng (dueFuel lx.l) lx.l
  let r := pingLoop l.sess.length 0 (lx.lift l) (queueWait l)
  (r.1, ((r.2 * 1000 + 999) / 1000) % 4294967296)

def prepareX (lx : LX) : LX :=
  let r := prepareCoreX lx
  { r.1 with l := r.1.l.emit (.wait r.1.l.now r.2) }

def afterRxX (lx : LX) : LX := (prepareCoreX lx).1

/-- a datagram was read from the socket of session `s` (`coap_netif_dgrm_read`: `last_rx_tx = now`) -/
def LX.read (lx : LX) (s : Nat) : LX := lx.setK s { (lx.getK s) with lastRxTx := lx.l.now }

/-- RST branch of `coap_dispatch`: a RST for the outstanding keepalive ping (`is_ping_rst`) takes the ping off
the send queue and frees its slot like any RST, but is the "pong", not a NACK -/
def rxRstX (lx : LX) (s mid : Nat) : LX :=
  let k := lx.getK s
  let isPing := k.lastPingMid = some mid ∧ lx.pingTimeout ≠ 0 ∧ k.lastPing > 0
  if isPing then
    let (sent, rest) := removeNode lx.l.q.nodes s mid
    let l : L := { lx.l with q := { lx.l.q with nodes := rest } }
    match sent with
    | some _ =>
      let lx := lx.lift (release l s)
      lx.setK s { (lx.getK s) with lastPong := (lx.getK s).lastRxTx, lastPingMid := none }
    | none => lx.lift (l.emit (.nack l.now s .rst mid false))
  else lx.lift (rxRst lx.l s mid)

/-! ### a piggy-backed response; the DTLS branch of a session failure -/

/-- an ACK carrying a response (code 2.05, message id `mid`, some token) arrives: the ACK branch of `coap_dispatch`
looks the message id up in the send queue and frees the slot of THAT message (`rxAck`); `handle_response` does not
look at the token of an ACK (no `coap_cancel_all_messages`), returns at once for a duplicate (`dup`:
`rcvd->mid == session->last_ack_mid`), otherwise calls the response handler -/
def rxAckP (l : L) (s mid : Nat) (dup : Bool) : L :=
  let l := rxAck l s mid
  if dup then l else l.emit (.rsp l.now s mid)

/-- `coap_session_disconnected_lkd(session, COAP_NACK_NOT_DELIVERABLE)`: `if (session->proto == COAP_PROTO_UDP)
session->state = COAP_SESSION_STATE_ESTABLISHED; else session->state = COAP_SESSION_STATE_NONE;` - nothing between
that assignment and the end of the function reads the state -/
def disconnectP (p : Proto) (l : L) (s : Nat) : L :=
  let l := disconnect l s
  match p with
  | .udp => l
  | .dtls => l.setS s { (l.getS s) with est := false }

inductive EvX where
  | base (e : Ev)
  | submitT (s : Nat) (con : Bool) (mid r tok : Nat)
  | icmp (s : Nat)
  | keepalive (secs : Nat)
  | rxAckP (s mid tok : Nat)
  deriving Repr, DecidableEq

def stepX (lx : LX) : EvX → LX
  | .base (.setNow t) => { lx with l := { lx.l with now := t } }
  | .base (.submit s con mid r) => { lx with prng := r }.lift (submit lx.l s con mid r)
  | .submitT s con mid r tok => { lx with prng := r }.lift (submitT lx.l s con mid r tok)
  | .base .prepare => prepareX lx
  | .base (.rxAck s mid) =>
    if (lx.l.getS s).sockOpen then afterRxX ((lx.read s).lift (rxAck lx.l s mid)) else lx
  | .base (.rxRst s mid) =>
    if (lx.l.getS s).sockOpen then afterRxX (rxRstX (lx.read s) s mid) else lx
  | .base (.rxNon s mid tok) =>
    if (lx.l.getS s).sockOpen then afterRxX ((lx.read s).lift (rxNonX lx.l s mid tok)) else lx
  | .base (.rxBad s mid) =>
    if (lx.l.getS s).sockOpen then afterRxX ((lx.read s).lift (rxBad lx.l s mid)) else lx
  | .base (.hold s) => lx.lift (step lx.l (.hold s))
  | .base (.connect s) => lx.lift (connected lx.l s)
  | .base (.disconnect s) => if (lx.l.getS s).sockOpen then lx.lift (disconnectP (lx.proto s) lx.l s) else lx
  | .icmp s => if (lx.l.getS s).sockOpen then afterRxX (lx.lift (icmp lx.l s)) else lx
  | .keepalive secs => { lx with pingTimeout := secs }
  | .rxAckP s mid _ =>
    if (lx.l.getS s).sockOpen then
      let lx1 := (lx.read s).lift (rxAckP lx.l s mid (decide ((lx.getK s).lastAckMid = some mid)))
      afterRxX (lx1.setK s { (lx1.getK s) with lastAckMid := some mid })
    else lx

def runX (lx : LX) (evs : List EvX) : LX := evs.foldl stepX lx

/-- all sessions are created at `now` (`coap_session_check_connect`: `last_rx_tx = now`) -/
def initX (now : Nat) (sess : List Sess) : LX :=
  { l := init now sess, ka := sess.map fun _ => { lastRxTx := now } }

/-- the same with the transport of every session given (`true` = DTLS) -/
def initXP (now : Nat) (sess : List Sess) (dtls : List Bool) : LX :=
  { initX now sess with dtls := dtls }

end Coap.MsgX
