import CoapVerif.Model.Replay
import CoapVerif.Spec.Replay
/- The abstraction from M's events and verdicts to the vocabulary of the specification monitor S
   (used by the driver and by the conformance theorem).  Core Lean only. -/
namespace Coap.Replay
open Coap.ReplaySpec (St Req Out)

def reqOf (e : Ev) : Req :=
  ⟨e.authentic, e.piv, match e.echo with | .none => .none | .good => .good | .bad => .bad⟩

def outOf : Verdict → Out
  | .acc => .accept
  | .chal => .challenge
  | _ => .reject

/-- M's history as a trace the specification monitor can read. -/
def strace (cfg : Cfg) : Recip → List Ev → List (Req × Out)
  | _, [] => []
  | r, ev :: evs => (reqOf ev, outOf (recv cfg r ev).2) :: strace cfg (recv cfg r ev).1 evs

end Coap.Replay
