import CoapVerif.Model.Replay
import CoapVerif.Spec.Replay
/- The abstraction from M's events and verdicts to the vocabulary of the specification monitor S
   (used by the driver and by the conformance theorem).  Core Lean only. -/
namespace Coap.Replay
open Coap.ReplaySpec (St Req Out)

def reqOf (e : Ev) : Req :=
  ⟨e.authentic, e.piv, match e.echo with | .none => .none | .good => .good | .bad => .bad⟩

def outOf : Verdict → Out
  | .acc => .accept
  | .chal => .challenge
  | _ => .reject

def rspOf (x : Rsp) : ReplaySpec.Rsp := ⟨x.authentic, x.piv⟩

def msgOf : Msg → ReplaySpec.Msg
  | .req e => .req (reqOf e)
  | .rsp x => .rsp (rspOf x)

/-- M's history (requests and responses on one recipient context) as a trace the specification monitor can read. -/
def strace (cfg : Cfg) : Recip → List Msg → List (ReplaySpec.Msg × Out)
  | _, [] => []
  | r, m :: ms => (msgOf m, outOf (step cfg r m).2) :: strace cfg (step cfg r m).1 ms

end Coap.Replay
