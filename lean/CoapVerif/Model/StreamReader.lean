import CoapVerif.Model.Parse
import CoapVerif.Spec.Stream
/-
M — faithful model of the CoAP-over-TCP/TLS stream reader, the `else` branch of

  coap_read_session()            src/coap_net.c      (after `fix: keep TCP header bytes of a short read`)

with its callees coap_pdu_parse_header_size / coap_pdu_parse_size (Model/Parse.lean), coap_pdu_init /
coap_pdu_resize (size limits only), coap_session_max_pdu_size_internal (src/coap_session.c).

State kept in the session between calls:
  read_header[8]   `rh`          — the bytes written since partial_read was last 0; a write whose end
                                    index exceeds 8 is `oob`, a read of a byte not written is `oob`
                                    (contents are dead once partial_read = 0 / once they were copied
                                    into partial_pdu: the model forgets them, so that a read of stale
                                    bytes would be flagged, never silently accepted)
  partial_read     `partialRead`
  partial_pdu      `pdu`         — hdr_size, used_size and the bytes stored from `token - hdr_size` on
`memcpy(dst + partial_read, p, n)` is `dst.take partialRead ++ p.take n`.
One `coap_read_session` call = `call`: l_read into the 1472-byte stack buffer, the `while (bytes_read > 0)`
loop = `loop`, and the `do … while (bytes_read == 0 && retry)` loop when a read filled the buffer.
-/
namespace Coap.M.Stream
open Coap Coap.M

/-- sizeof(session->read_header) -/
def rhCap : Nat := 8
/-- COAP_DEFAULT_MAX_PDU_RX_SIZE -/
def maxRx : Nat := 8388864
/-- COAP_RXBUFFER_SIZE: sizeof(payload) in coap_read_session -/
def rxBuf : Nat := 1472
/-- COAP_PDU_MAX_TCP_HEADER_SIZE (pdu->max_hdr_size) -/
def maxHdr : Nat := 6

/-- `coap_session_max_pdu_size_internal(session, max_with_header)` for a reliable session;
`coap_session_max_pdu_rcv_size(session)` is this function of `csm_rcv_mtu` -/
def maxPduSizeInternal (maxWithHeader : Nat) : Nat :=
  if maxWithHeader ≤ 2 then 0
  else if maxWithHeader ≤ 12 + 2 then maxWithHeader - 2
  else if maxWithHeader ≤ 268 + 3 then maxWithHeader - 3
  else if maxWithHeader ≤ 65804 + 4 then maxWithHeader - 4
  else maxWithHeader - 6

/-- `coap_pdu_init(0, 0, 0, maxRcv)` followed by `alloc_size < size && !coap_pdu_resize(pdu, size)`:
does the reader obtain a PDU that can hold `size` bytes?  (malloc itself is assumed to succeed) -/
def pduAlloc (maxRcv size : Nat) : Bool :=
  if maxRcv > maxRx - maxHdr then false                    -- coap_pdu_init refuses
  else if min maxRcv 256 < size then                        -- alloc_size = min(size, 256) < size: resize
    if maxRcv ≠ 0 ∧ size > maxRcv then false else true      -- pdu->max_size && new_size > pdu->max_size
  else true

structure Pdu where
  hdrSize : Nat
  usedSize : Nat
  buf : Bytes
  deriving DecidableEq, Repr

structure St where
  rh : Bytes
  partialRead : Nat
  pdu : Option Pdu
  deriving DecidableEq, Repr

def St.init : St := ⟨[], 0, none⟩

/-- how a call ends: session still up in state `st`, session disconnected, or an access outside
`read_header` / outside the bytes written -/
inductive Out where
  | cont (st : St)
  | closed
  | oob
  deriving DecidableEq, Repr

/-- `coap_pdu_parse_header(partial_pdu, proto) && coap_pdu_parse_opt(partial_pdu)` on the assembled
PDU memory `buf` (from `token - hdr_size` on; `used_size = buf.length - hdr_size`).  For
`used_size = 0` the C code calls only `coap_pdu_parse_header`; `parseBody` on an empty body checks
exactly the TKL. -/
def parsePdu (hdrSize : Nat) (buf : Bytes) : R Msg := do
  let b0 ← rd buf 0
  let c ← rd buf (hdrSize - 1)
  parseBody 0 c 0 (b0 % 16) (buf.drop hdrSize)

/-- `coap_dispatch` is reached iff parsing succeeded -/
def deliverR (r : R Msg) (rest : List Msg) : List Msg := Spec.Stream.deliver r.toOption rest

/-- the `while (bytes_read > 0)` loop over the bytes `bs` one `l_read` returned -/
def loop (maxRcv : Nat) : (fuel : Nat) → St → Bytes → List Msg × Out
  | 0, st, _ => ([], .cont st)
  | fuel + 1, st, bs =>
    if bs.length = 0 then ([], .cont st) else
    match st.pdu with
    | some pdu =>
      let len := pdu.usedSize + pdu.hdrSize - st.partialRead
      let n := min len bs.length
      let buf := pdu.buf.take st.partialRead ++ bs.take n
      if n = len then
        let r := loop maxRcv fuel ⟨[], 0, none⟩ (bs.drop n)
        (deliverR (parsePdu pdu.hdrSize buf) r.1, r.2)
      else
        loop maxRcv fuel ⟨st.rh, st.partialRead + n, some { pdu with buf := buf }⟩ (bs.drop n)
    | none =>
      if st.partialRead > 0 then
        match rd st.rh 0 with
        | R.ok b0 =>
          let hdrSize := headerSize .tcp b0
          let tkl := b0 % 16
          let tokExt := if tkl = 13 then 1 else if tkl = 14 then 2 else 0
          let len := hdrSize + tokExt - st.partialRead
          let n := min len bs.length
          if st.partialRead + n > rhCap then ([], .oob) else
          let rh := st.rh.take st.partialRead ++ bs.take n
          if n = len then
            match parseSizeTcp rh with
            | R.ok size =>
              if size > maxRx then ([], .closed)
              else if pduAlloc maxRcv size = false then ([], .closed)
              else
                let buf := rh.take (hdrSize + tokExt)
                if size = 0 then
                  let r := loop maxRcv fuel ⟨[], 0, none⟩ (bs.drop n)
                  (deliverR (parsePdu hdrSize buf) r.1, r.2)
                else
                  loop maxRcv fuel ⟨[], hdrSize + tokExt, some ⟨hdrSize, size, buf⟩⟩ (bs.drop n)
            | _ => ([], .oob)
          else
            loop maxRcv fuel ⟨rh, st.partialRead + n, none⟩ (bs.drop n)
        | _ => ([], .oob)
      else
        match bs with
        | b :: r =>
          if headerSize .tcp b.toNat = 0 then ([], .closed)
          else loop maxRcv fuel ⟨[b], 1, none⟩ r
        | [] => ([], .cont st)

/-- one call of `coap_read_session` with `avail` bytes waiting in the transport -/
def call (maxRcv : Nat) : (fuel : Nat) → St → Bytes → List Msg × Out
  | 0, st, _ => ([], .cont st)
  | fuel + 1, st, avail =>
    let got := avail.take rxBuf
    let r := loop maxRcv (got.length + 1) st got
    match r.2 with
    | .cont st' =>
      if got.length = rxBuf then                      -- retry = bytes_read == packet->length
        let r2 := call maxRcv fuel st' (avail.drop rxBuf)
        (r.1 ++ r2.1, r2.2)
      else r
    | _ => r

/-- the calls made for a sequence of chunks; a disconnected session is not read again -/
def feed (maxRcv : Nat) : St → List Bytes → List Msg × Out
  | st, [] => ([], .cont st)
  | st, c :: cs =>
    let r := call maxRcv (c.length + 1) st c
    match r.2 with
    | .cont st' =>
      let r2 := feed maxRcv st' cs
      (r.1 ++ r2.1, r2.2)
    | _ => r

end Coap.M.Stream
