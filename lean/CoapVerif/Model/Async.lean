import CoapVerif.Model.Server
/-
M — deferred responses (RFC 7252 §5.2.2 "separate response") at one server context: a transcription of
src/coap_async.c (coap_register_async_lkd, coap_async_trigger_lkd, coap_async_set_delay_lkd, coap_find_async_lkd,
coap_free_async_sub) and of what coap_net.c / coap_io.c do with `context->async_state`:

  * handle_request(): `async = coap_find_async_lkd(session, pdu->actual_token)`; found and not the delayed invocation
    (`pdu != async->pdu || async->delay == 0 || async->delay > now`) ⇒ Empty ACK if Confirmable, nothing else;
  * coap_check_async(context, now), called by coap_io_prepare_io_lkd() first thing: LL_FOREACH_SAFE over the list;
    `delay != 0 && delay <= now` ⇒ handle_request(context, async->session, async->pdu), coap_free_async_lkd();
    else `if (next_due == 0 || next_due > async->delay - now) next_due = async->delay - now` (coap_tick_t = uint64_t);
  * the session reference of an entry (coap_session_reference_lkd in register, coap_session_release_lkd in
    coap_free_async_sub) and the idle-session reaper of coap_io_prepare_io_lkd (`s->ref == 0 && s->last_rx_tx +
    session_timeout <= now` ⇒ coap_session_free), which runs after coap_check_async in the same call.

The state machine is generic in the two decision procedures of handle_request (`Dec`): what a request datagram does
(`first hit rq`) and what the delayed invocation on the stored copy does (`again m v`).  `serverDec` instantiates them
with the C10 model of handle_request (Model/Server.lean) — `handleRequestD` is handle_request() entered from
coap_check_async.  The application is an input: per event the handler's action (defer with a delay / verdict).
-/
namespace Coap.Async
open Coap Coap.Server

/-- one `coap_async_t`.  `id` is the application data the application attached (the harness numbers its successful
registrations): the identity of the entry. -/
structure Entry where
  id : Nat
  /-- async->session (a peer = one libcoap server session while it is alive) -/
  sess : Nat
  /-- async->pdu: the copy made by coap_pdu_duplicate_lkd + coap_add_data: type, code, a NEW message id, token, the
  options and the payload of the request as the handler was given it -/
  req : Msg
  /-- async->delay: 0 = indefinitely, else the tick at which the request is handed to the application again -/
  delay : Nat
  deriving DecidableEq, Repr

/-- a server session of the endpoint -/
structure Sess where
  peer : Nat
  /-- session->ref -/
  ref : Nat
  /-- session->tx_mid -/
  txMid : Nat
  /-- session->last_rx_tx -/
  last : Nat
  deriving DecidableEq, Repr

structure St where
  /-- the clock (coap_ticks) -/
  now : Nat
  /-- context->async_state, head first -/
  async : List Entry
  /-- the endpoint's sessions -/
  sess : List Sess
  /-- number of successful registrations so far -/
  nextId : Nat
  deriving DecidableEq, Repr

/-- coap_tick_t is uint64_t -/
def W : Nat := 18446744073709551616

structure Cfg where
  /-- ticks of the clock at the start -/
  t0 : Nat
  /-- context->session_timeout in ticks -/
  tmo : Nat
  /-- session->tx_mid of a new session (coap_prng) -/
  mid0 : Nat
  deriving DecidableEq, Repr

def St.init (c : Cfg) : St := ⟨c.t0, [], [], 0⟩

structure Dec where
  /-- handle_request for a received request: `hit` = coap_find_async_lkd found an entry of this session with this token -/
  first : Bool → Request → Outcome
  /-- handle_request(context, async->session, async->pdu) called by coap_check_async; the handler applies the verdict -/
  again : Msg → Verdict → Outcome

inductive Ev where
  /-- a request datagram from `peer`; `defer = some d`: the handler, if called and coap_find_async finds nothing, calls
  coap_register_async(session, request, d) and sets nothing; `rq.verdict` is what a handler sets otherwise (also in the
  delayed invocations run by the I/O step that ends the processing of a datagram) -/
  | rx (peer : Nat) (defer : Option Nat) (rq : Request)
  /-- `dt` ticks pass, then coap_io_prepare_io at the new time (coap_check_async, idle sessions) -/
  | io (dt : Nat) (v : Verdict)
  /-- coap_async_trigger on the k-th entry of the list -/
  | trigger (k : Nat)
  /-- coap_async_set_delay on the k-th entry -/
  | setDelay (k : Nat) (d : Nat)
  /-- coap_free_async on the k-th entry -/
  | free (k : Nat)
  deriving DecidableEq, Repr

/-- one delayed invocation -/
structure Fired where
  entry : Entry
  out : Outcome
  deriving DecidableEq, Repr

/-- what an event did -/
structure Out where
  /-- the datagram's own outcome (rx) -/
  first : Option Outcome
  registered : Option Entry
  fired : List Fired
  /-- coap_check_async's return value (rx, io) -/
  wait : Option Nat
  /-- sessions freed by the idle reaper -/
  reaped : List Nat
  freed : Option Entry
  deriving DecidableEq, Repr

/-- SEARCH_PAIR: same session, same token length, same token bytes -/
def hits (s : Nat) (tok : Bytes) (e : Entry) : Bool := e.sess == s && e.req.token == tok
def find (l : List Entry) (s : Nat) (tok : Bytes) : Option Entry := l.find? (hits s tok)

/-- coap_async_set_delay_lkd -/
def delayOf (now d : Nat) : Nat := if d ≠ 0 then (now + d) % W else 0

def sessOf (ss : List Sess) (p : Nat) : Option Sess := ss.find? (·.peer == p)
def updSess (ss : List Sess) (p : Nat) (f : Sess → Sess) : List Sess := ss.map fun s => if s.peer == p then f s else s
/-- coap_endpoint_get_session: the session of the source address, created if there is none; last_rx_tx = now -/
def touch (c : Cfg) (ss : List Sess) (p now : Nat) : List Sess :=
  if (sessOf ss p).isSome then updSess ss p (fun s => { s with last := now }) else ⟨p, 0, c.mid0, now⟩ :: ss
/-- coap_session_release_lkd on a server session -/
def release (ss : List Sess) (p : Nat) : List Sess := updSess ss p (fun s => { s with ref := s.ref - 1 })

/-- coap_register_async_lkd(session, request, d) called by the handler that was given `call` for a request of type
`type` with token `tok` -/
def register (st : St) (p : Nat) (call : Call) (type : Nat) (tok : Bytes) (d : Nat) : St × Option Entry :=
  if ¬ isRequestCode call.code then (st, none) else               -- COAP_PDU_IS_REQUEST
  match find st.async p tok with
  | some _ => (st, none)                                           -- "already registered"
  | none =>
    match sessOf st.sess p with
    | none => (st, none)
    | some s =>
      let mid := (s.txMid + 1) % 65536                             -- coap_new_message_id_lkd
      let e : Entry := ⟨st.nextId, p, ⟨type, call.code, mid, tok, call.opts, call.payload⟩, delayOf st.now d⟩
      ({ st with async := e :: st.async,
                 sess := updSess st.sess p (fun s => { s with txMid := mid, ref := s.ref + 1 }),
                 nextId := st.nextId + 1 }, some e)

/-- coap_check_async(context, now): (delayed invocations in order, the list afterwards, the sessions, next_due) -/
def checkAsync (dec : Dec) (v : Verdict) (now : Nat) : List Entry → List Sess → Nat → List Fired × List Entry × List Sess × Nat
  | [], ss, nd => ([], [], ss, nd)
  | a :: r, ss, nd =>
    if a.delay ≠ 0 ∧ a.delay ≤ now then
      -- handle_request(context, async->session, async->pdu); coap_free_async_lkd(async->session, async)
      let o := dec.again a.req v
      let ss1 := if o.replies.isEmpty then ss else updSess ss a.sess (fun s => { s with last := now })
      let x := checkAsync dec v now r (release ss1 a.sess) nd
      (⟨a, o⟩ :: x.1, x.2.1, x.2.2.1, x.2.2.2)
    else
      let d := (a.delay + W - now) % W
      let x := checkAsync dec v now r ss (if nd = 0 ∨ nd > d then d else nd)
      (x.1, a :: x.2.1, x.2.2.1, x.2.2.2)

/-- the idle reaper: "Check whether any idle server sessions should be released" -/
def idle (c : Cfg) (now : Nat) (s : Sess) : Bool := s.ref == 0 && decide (s.last + c.tmo ≤ now)
def reap (c : Cfg) (now : Nat) (ss : List Sess) : List Sess × List Nat :=
  (ss.filter (fun s => !idle c now s), (ss.filter (idle c now)).map (·.peer))

/-- coap_io_prepare_io_lkd at the current time: coap_check_async, then the sessions -/
def prepare (c : Cfg) (dec : Dec) (v : Verdict) (st : St) : St × Out :=
  let x := checkAsync dec v st.now st.async st.sess 0
  let y := reap c st.now x.2.2.1
  ({ st with async := x.2.1, sess := y.1 }, ⟨none, none, x.1, some x.2.2.2, y.2, none⟩)

def setNth (l : List Entry) (k : Nat) (f : Entry → Entry) : List Entry :=
  match l, k with
  | [], _ => []
  | a :: r, 0 => f a :: r
  | a :: r, k + 1 => a :: setNth r k f

/-- the datagram's own processing (coap_dispatch … handle_request … the handler): the state, the entry the handler
registered, the outcome -/
def rxOwn (c : Cfg) (dec : Dec) (st : St) (p : Nat) (defer : Option Nat) (rq : Request) : (St × Option Entry) × Outcome :=
  let st1 : St := { st with sess := touch c st.sess p st.now }
  let hit := (find st1.async p rq.msg.token).isSome
  let o := dec.first hit (if defer.isSome then { rq with verdict := ⟨0, []⟩ } else rq)
  (match defer, o.call with
   | some d, some call => register st1 p call rq.msg.type rq.msg.token d
   | _, _ => (st1, none), o)

def step (c : Cfg) (dec : Dec) (st : St) : Ev → St × Out
  | .rx p defer rq =>
    let x := rxOwn c dec st p defer rq
    -- coap_io_do_epoll ends with coap_io_prepare_epoll_lkd(ctx, now)
    let y := prepare c dec rq.verdict x.1.1
    (y.1, { y.2 with first := some x.2, registered := x.1.2 })
  | .io dt v => prepare c dec v { st with now := (st.now + dt) % W }
  | .trigger k =>
    -- coap_ticks(&async->delay)
    ({ st with async := setNth st.async k (fun e => { e with delay := st.now }) }, ⟨none, none, [], none, [], none⟩)
  | .setDelay k d =>
    ({ st with async := setNth st.async k (fun e => { e with delay := delayOf st.now d }) }, ⟨none, none, [], none, [], none⟩)
  | .free k =>
    match st.async[k]? with
    | some e => ({ st with async := st.async.eraseIdx k, sess := release st.sess e.sess }, ⟨none, none, [], none, [], some e⟩)
    | none => (st, ⟨none, none, [], none, [], none⟩)

/-- the observations of a sequence of events -/
def run (c : Cfg) (dec : Dec) : St → List Ev → List Out
  | _, [] => []
  | st, ev :: r => let x := step c dec st ev; x.2 :: run c dec x.1 r

def final (c : Cfg) (dec : Dec) : St → List Ev → St
  | st, [] => st
  | st, ev :: r => final c dec (step c dec st ev).1 r

/-! ### the delayed invocation in the C10 model of handle_request
handle_request(context, async->session, async->pdu) from coap_check_async on a unicast UDP session: the entry is found,
`pdu == async->pdu`, `delay != 0`, `delay <= now`, so the request goes on like a received one; the one difference is
`if (async && pdu->type == COAP_MESSAGE_CON) response->type = COAP_MESSAGE_CON`.  `pdu->crit_opt` of the copy is 0.
Out of the modelled scope: a stored request selected for the proxy-URI resource (coap_proxy.c defers differently). -/
def runStageD (cfg : Server.Cfg) (rq : Request) (os : Opts) (path : Bytes) (sel : Sel) : Outcome :=
  let m := rq.msg
  if sel.isPrx then Outcome.outOfScope else
  let resp0 : Reply := ⟨.app, if m.type = CON then CON else M.respType m.type, 0, m.mid, m.token, [], .bytes []⟩
  let observe : Bool := sel.observable && (m.code == 1 || m.code == 5) && hasOpt os 6
  match M.obsStage os observe resp0 with
  | none => ⟨true, M.deliver cfg rq (some sel.flags) observe { resp0 with src := .lib, code := 128 }, none⟩
  | some resp1 => M.callStage cfg rq os path sel observe resp1

/-- M.preStage entered with `skip_hop_limit_check = 1` (set where the delayed invocation is recognised: the Hop-Limit of
the stored request was checked and decremented when the request was received) -/
def preStageD (tbl : Table) (rq : Request) (critOpt : Bool) (os : Opts) : M.Jump :=
  let m := rq.msg
  if hasOpt os 39 ∧ ¬ hasOpt os 3 then .fail 130 none else
  if hasOpt os 39 ∨ hasOpt os 35 then
    match tbl.prx with
    | none => .fail 165 none
    | some p =>
      if 1 ≤ m.code ∧ m.code ≤ 7 ∧ ¬ handlerBit p.mask m.code then .fail 165 none else
      let host : Option Bytes :=
        if hasOpt os 35 then (match rq.pu with | .ok h _ => some h | _ => none)
        else some ((firstOpt os 3).getD [])
      match host with
      | none => .fail 165 none
      | some h =>
        if h.length ≠ 0 ∧ (p.name.length = 0 ∨ h = p.name) then
          if critOpt then .fail 130 (some p.flags) else M.hopBlock rq false true os
        else M.hopBlock rq true true os
  else M.hopBlock rq false true os

/-- fail_response entered from the delayed invocation: coap_new_error_response builds an ACK for a Confirmable request;
`if (response && async && response->type == COAP_MESSAGE_ACK) response->type = COAP_MESSAGE_CON` (a separate response
is never an ACK: its message id is the copy's, not one the client used), then `goto skip_handler` -/
def failResponseD (cfg : Server.Cfg) (rq : Request) (os : Opts) (resp : Nat) (resource : Option Nat) : Outcome :=
  let r := M.errReply rq.msg os resp M.Filter.empty
  ⟨true, M.deliver cfg rq resource false (if r.type = ACK then { r with type := CON } else r), none⟩

def handleRequestD (cfg : Server.Cfg) (tbl : Table) (m : Msg) (v : Verdict) : Outcome :=
  let rq : Request := ⟨false, m, v, .absent⟩
  if v.code = 168 then Outcome.outOfScope else                     -- D8
  -- D13: a handler that sets no response code in the delayed invocation is out of scope (for a Confirmable request
  -- libcoap then transmits a Confirmable 0.00 message that still carries the token)
  if v.code = 0 then Outcome.outOfScope else
  match preStageD tbl rq false m.opts with
  | .fail resp res => failResponseD cfg rq m.opts resp res
  | .ignore => Outcome.nothing
  | .go isProxy os' path =>
    match M.selectStage tbl m.code isProxy path with
    | .inl resp => failResponseD cfg rq os' resp none
    | .inr sel =>
      match M.checkStage cfg rq os' sel with
      | some resp => failResponseD cfg rq os' resp (some sel.flags)
      | none => runStageD cfg rq os' path sel

/-- the machine's decision procedures for a server with configuration `cfg` and resource table `tbl` (unicast, no
proxied Confirmable duplicates: `dup = false`) -/
def serverDec (cfg : Server.Cfg) (tbl : Table) : Dec :=
  -- a request with an Observe option is out of the machine's scope: an observer registration holds a session reference
  -- and a message id of its own (C11's state)
  ⟨fun hit rq => if hasOpt rq.msg.opts 6 then Outcome.outOfScope else M.serverDecisionA hit false cfg tbl rq,
   handleRequestD cfg tbl⟩

/-! ### the application changes the resource table between the two passes
libcoap keeps no resource pointer in a coap_async_t; coap_delete_resource() does not look at `context->async_state`.
The machine with a table that changes: every `Ev` runs with the decision procedures of the table as it is then. -/
/-- coap_delete_resource on the k-th ordinary resource of the table -/
def delRes (tbl : Table) (k : Nat) : Table := { tbl with res := tbl.res.eraseIdx k }

inductive EvT where
  | ev (e : Ev)
  | delRes (k : Nat)
  deriving DecidableEq, Repr

structure StT where
  st : St
  tbl : Table
  deriving DecidableEq, Repr

def stepT (c : Cfg) (cfg : Server.Cfg) (x : StT) : EvT → StT × Out
  | .ev e => let y := step c (serverDec cfg x.tbl) x.st e; (⟨y.1, x.tbl⟩, y.2)
  | .delRes k => (⟨x.st, delRes x.tbl k⟩, ⟨none, none, [], none, [], none⟩)

def finalT (c : Cfg) (cfg : Server.Cfg) : StT → List EvT → StT
  | x, [] => x
  | x, ev :: r => finalT c cfg (stepT c cfg x ev).1 r

end Coap.Async
