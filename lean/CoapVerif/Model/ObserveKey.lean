/-
M for C11 — the IDENTITY of an observation: the cache key coap_add_observer / coap_delete_observer_request derive from the
request.  Transcribed in code order from
  src/coap_cache.c     is_cache_key, coap_cache_derive_key_w_ignore (since fix f201070: number, LENGTH, value of every
                       cache-key option go into the digest)
  src/coap_resource.c  `static const uint16_t cache_ignore_options[] = { COAP_OPTION_ETAG, COAP_OPTION_OSCORE }` and the
                       three calls coap_cache_derive_key_w_ignore(session, request, COAP_CACHE_IS_SESSION_BASED,
                       cache_ignore_options, 2)
Core Lean only.

Modelling conventions
 * a request is the list of its options in wire order, an option = (number, value bytes); the requests of C11 are GETs and
   FETCHes (`reqDigest`: method code, FETCH payload with its length, then the options).
 * COAP_CACHE_IS_SESSION_BASED: the first 8 bytes fed to the digest are the session POINTER.  M keeps the session apart (the
   `sess` field of an entry, compared by matchSK), `digestInput` is what follows.
 * `opt_iter.number` is a uint16_t, the length a uint32_t, both fed in host byte order (little endian on the build host).
 * ASSUMPTION (the only one left about the key): SHA-256 is injective on the byte strings fed to it.  M stands for the digest
   by `encBytes`, an injective encoding of the byte string as a Nat (`encBytes_injective`), so that M's `key : Nat` of
   Model/Observe.lean is equal for two requests exactly when the digest inputs are.
-/
namespace Coap.Observe

structure ReqOpt where
  num : Nat
  val : List Nat            -- bytes
  deriving DecidableEq, Repr

/-- is_cache_key(option_type, cache_ignore_count, cache_ignore_options) -/
def isCacheKey (ignore : List Nat) (n : Nat) : Bool :=
  if (n &&& 0x1e) == 0x1c then false           -- RFC 7252 5.4.6 NoCacheKey
  else if n == 6 then false                    -- RFC 7641 2: Observe is not part of the cache key
  else if ignore.contains n then false         -- "option user has defined as not part of cache-key"
  else true

/-- `cache_ignore_options[]` of coap_resource.c: ETag (4), OSCORE (9) -/
def obsIgnore : List Nat := [4, 9]

def le16 (n : Nat) : List Nat := [n % 256, n / 256 % 256]
def le32 (n : Nat) : List Nat := [n % 256, n / 256 % 256, n / 65536 % 256, n / 16777216 % 256]

/-- what one cache-key option contributes: coap_digest_update(number), coap_digest_update(length), coap_digest_update(value) -/
def digestOpt (o : ReqOpt) : List Nat := le16 o.num ++ (le32 o.val.length ++ o.val)

/-- `while ((option = coap_option_next(&opt_iter))) if (is_cache_key(...)) { … }`: the bytes fed to the digest after the
    session pointer -/
def digestInput (ignore : List Nat) : List ReqOpt → List Nat
  | [] => []
  | o :: rest => if isCacheKey ignore o.num then digestOpt o ++ digestInput ignore rest else digestInput ignore rest

/-- the options of a request that take part in the key -/
def cacheOpts (ignore : List Nat) (opts : List ReqOpt) : List ReqOpt := opts.filter fun o => isCacheKey ignore o.num

/-- a byte string as a Nat: bijective base 257 with the digits 1..256, injective on byte strings (stands for the digest) -/
def encBytes : List Nat → Nat
  | [] => 0
  | b :: r => encBytes r * 257 + (b + 1)

/-- the bytes fed to the digest after the session pointer for a request with method code `code` (1 = GET, 5 = FETCH), these
    options and this payload (round R11c, fix "cache key: method, delimited FETCH payload"): the method code (one byte), then
    `if (pdu->code == COAP_REQUEST_CODE_FETCH)` the LENGTH of the payload (uint32 LE) and the payload (`coap_get_data` failing
    = no payload = length 0), then the cache-key options.  The payload of any other method is not part of the key. -/
def reqDigest (code : Nat) (opts : List ReqOpt) (payload : List Nat) : List Nat :=
  code :: ((if code == 5 then le32 payload.length ++ payload else []) ++ digestInput obsIgnore opts)

/-- the `key` of Model/Observe.lean for an observe request (GET or FETCH) -/
def reqKey (code : Nat) (opts : List ReqOpt) (payload : List Nat) : Nat := encBytes (reqDigest code opts payload)

/-- the `key` of Model/Observe.lean for a GET observe request with these options -/
def obsKey (opts : List ReqOpt) : Nat := reqKey 1 opts []

/-- a payload a datagram can carry: bytes, shorter than 2^32 -/
def WfPayload (p : List Nat) : Prop := p.length < 4294967296 ∧ ∀ b ∈ p, b < 256

/-- what a real request can carry: 16-bit option numbers, values shorter than 2^32, bytes -/
def WfOpts (opts : List ReqOpt) : Prop := ∀ o ∈ opts, o.num < 65536 ∧ o.val.length < 4294967296 ∧ ∀ b ∈ o.val, b < 256

end Coap.Observe
