import CoapVerif.Util
/-
M — transcription of libcoap's own OSCORE helpers (src/oscore/oscore_cbor.c, src/oscore/oscore.c,
src/oscore/oscore_context.c compose_info, and the option split / merge of
coap_oscore_new_pdu_encrypted_lkd / coap_oscore_decrypt_pdu in src/coap_oscore.c).
Same case splits, same order of checks; quantities are `Nat`, C narrowings are `% 2^k` where they
happen; a write or read outside the buffer the function was given is `R.oob` (the `assert`s of
oscore_cbor.c are compiled out in the shipped configuration, -DNDEBUG).  The crypto primitives are
oracles (GnuTLS) and are not modelled here.  Core Lean only.

Not modelled: Appendix B.2 (`appendix_b_2` = 0, `session->b_2_step` = NONE), group mode
(`ctx->mode` = OSCORE_MODE_SINGLE).
-/
namespace Coap.M.Oscore

/-- `put_b_f`: `cnt` bytes of `vv`, least significant last (written back to front) -/
def putBF : (cnt : Nat) → (vv : Nat) → Bytes
  | 0, _ => []
  | cnt + 1, vv => putBF cnt (vv / 256) ++ [UInt8.ofNat (vv % 256)]

/-- `oscore_cbor_put_unsigned` (value : uint64_t) -/
def putUnsigned (value : Nat) : Bytes :=
  if value < 0x18 then [UInt8.ofNat value]
  else if value < 0x100 then 0x18 :: putBF 1 value
  else if value < 0x10000 then 0x19 :: putBF 2 value
  else if value < 0x100000000 then 0x1a :: putBF 4 value
  else 0x1b :: putBF 8 value

/-- `*pt = (*pt | flag)` on the first byte just written -/
def orFirst (flag : UInt8) (bs : Bytes) : Bytes :=
  match bs with
  | b :: r => (b ||| flag) :: r
  | [] => []

def putArray (n : Nat) : Bytes := orFirst 0x80 (putUnsigned n)
def putBytes (b : Bytes) : Bytes := orFirst 0x40 (putUnsigned b.length) ++ b
def putText (s : Bytes) : Bytes := orFirst 0x60 (putUnsigned s.length) ++ s
def putNil : Bytes := [0xF6]
/-- `oscore_cbor_put_number` (int64_t): negative values go through `oscore_cbor_put_negative` -/
def putNumber (v : Int) : Bytes :=
  if v < 0 then orFirst 0x20 (putUnsigned ((-v).toNat - 1)) else putUnsigned v.toNat

/-- `oscore_prepare_e_aad` for OSCORE_MODE_SINGLE -/
def prepareEAad (alg : Int) (kid piv : Bytes) : Bytes :=
  putArray 5 ++ putUnsigned 1 ++ putArray 1 ++ putNumber alg ++ putBytes kid ++ putBytes piv ++ putBytes []

/-- `oscore_prepare_aad` -/
def prepareAad (eaad : Bytes) : Bytes :=
  putArray 3 ++ putText [0x45, 0x6e, 0x63, 0x72, 0x79, 0x70, 0x74, 0x30] ++ putBytes [] ++ putBytes eaad

/-- `compose_info` (alg : uint8_t); `idctx = none` is a NULL pointer -/
def composeInfo (alg : Nat) (id : Bytes) (idctx : Option Bytes) (type : Bytes) (outLen : Nat) : Bytes :=
  putArray 5 ++ putBytes id ++
  (match idctx with
   | some c => if c.length > 0 then putBytes c else putNil
   | none => putNil) ++
  putUnsigned (alg % 256) ++ putText type ++ putUnsigned outLen

/-- `memcpy(&buf[off], data, n)` inside a buffer -/
def writeAt : Bytes → Nat → Bytes → Bytes
  | b :: bs, off + 1, ds => b :: writeAt bs off ds
  | _ :: bs, 0, d :: ds => d :: writeAt bs 0 ds
  | bs, _, _ => bs

def xorLoop : Bytes → Bytes → Bytes
  | b :: bs, c :: cs => (b ^^^ c) :: xorLoop bs cs
  | _, _ => []

/-- `oscore_generate_nonce` with size = 13 -/
def generateNonce (commonIV kid piv : Bytes) : R Bytes :=
  -- memset(buffer, 0, size); buffer[0] = (uint8_t)key_id.length
  let b0 := UInt8.ofNat (kid.length % 256) :: List.replicate 12 0
  -- &buffer[(size - 5) - key_id.length]: size_t arithmetic, wraps for key_id.length > 8
  if kid.length > 8 then R.oob else
  let b1 := writeAt b0 (8 - kid.length) kid
  if piv.length > 13 then R.oob else
  let b2 := writeAt b1 (13 - piv.length) piv
  if commonIV.length < 13 then R.oob else
  R.ok (xorLoop b2 commonIV)

/-- `oscore_encode_option_value` (appendix_b_2 = 0) into a buffer of `bufLen` bytes.  `piv = []` is
`partial_iv.s == NULL` (cose_encrypt0_set_partial_iv maps an empty value to NULL); `kidctx`/`kid` =
`none` are NULL pointers.  `R.rej` = the function returns 0 because the Partial IV is too long. -/
def encodeOptionValue (bufLen : Nat) (piv : Bytes) (kidctx kid : Option Bytes) : R Bytes :=
  if piv.length > 5 then R.rej else
  if bufLen < 1 then R.oob else
  let f0 : Nat := 0
  -- partial IV
  let (f1, buf1) := if piv.length > 0 then (f0 ||| (7 &&& piv.length), piv) else (f0, [])
  if 1 + buf1.length > bufLen then R.oob else
  -- kid context: length byte is (uint8_t)length, memcpy copies (uint8_t)length bytes, offset advances by length
  let kc := match kidctx with | some c => if c.length > 0 then some c else none | none => none
  let step2 : R (Nat × Bytes) :=
    match kc with
    | some c =>
      -- fix d0cffe1: `if (length > 255 || offset + 1 + length > option_buf_len) return 0;`
      if c.length > 255 ∨ 1 + buf1.length + 1 + c.length > bufLen then R.rej
      else R.ok (f1 ||| 0x10, buf1 ++ (UInt8.ofNat (c.length % 256) :: c))
    | none => R.ok (f1, buf1)
  match step2 with
  | R.oob => R.oob
  | R.rej => R.rej
  | R.ok (f2, buf2) =>
    let step3 : R (Nat × Bytes) :=
      match kid with
      | some k => if 1 + buf2.length + k.length > bufLen then R.rej else R.ok (f2 ||| 0x08, buf2 ++ k)
      | none => R.ok (f2, buf2)
    match step3 with
    | R.oob => R.oob
    | R.rej => R.rej
    | R.ok (f3, buf3) =>
      if buf3.length = 0 ∧ f3 = 0 then R.ok [] else R.ok (UInt8.ofNat f3 :: buf3)

structure Cose where
  piv : Bytes                -- partial_iv (length 0 = NULL)
  kidctx : Option Bytes      -- kid_context.s != NULL
  kid : Option Bytes         -- key_id.s != NULL
  deriving Repr, DecidableEq

/-- `oscore_decode_option_value`.  The C code reads `opt_value[0]` before it looks at `option_len`;
for an empty option that byte is the one following the option inside the PDU (the caller has checked
that a payload marker follows), and its value is not used. -/
def decodeOptionValue (v : Bytes) : R Cose :=
  match v with
  | [] => R.ok ⟨[], none, none⟩
  | b0 :: _ =>
    let n := b0.toNat &&& 0x07
    if v.length > 255 ∨ n = 6 ∨ n = 7 ∨ (b0.toNat &&& 0xC0) ≠ 0 then R.rej else
    if (b0.toNat &&& 0x20) ≠ 0 then R.rej else
    let offset := 1
    if n ≠ 0 ∧ offset + n > v.length then R.rej else
    let piv := if n ≠ 0 then (v.drop offset).take n else []
    let offset := if n ≠ 0 then offset + n else offset
    if (b0.toNat &&& 0x10) ≠ 0 then
      if offset ≥ v.length then R.rej else
      let kcl := (v.getD offset 0).toNat
      let offset := offset + 1
      if offset + kcl > v.length then R.rej else
      let kc := (v.drop offset).take kcl
      let offset := offset + kcl
      R.ok ⟨piv, some kc, if (b0.toNat &&& 0x08) ≠ 0 then some (v.drop offset) else none⟩
    else
      R.ok ⟨piv, none, if (b0.toNat &&& 0x08) ≠ 0 then some (v.drop offset) else none⟩

/-! ### option split (coap_oscore_new_pdu_encrypted_lkd) and merge (coap_oscore_decrypt_pdu) -/

/-- the `switch (opt_iter.number)` of the protect loop: 0 = outer only, 1 = Observe, 2 = Proxy-Uri
(`assert(0); break;` — dropped when asserts are compiled out), 3 = inner -/
def protectClass (n : Nat) : Nat :=
  if n = 3 ∨ n = 7 ∨ n = 39 ∨ n = 16 then 0 else if n = 6 then 1 else if n = 35 then 2 else 3

/-- `coap_insert_option` on the option list: after every option whose number is ≤ the new one -/
def insertOpt : List (Nat × Bytes) → (Nat × Bytes) → List (Nat × Bytes)
  | [], o => [o]
  | x :: r, o => if x.1 > o.1 then o :: x :: r else x :: insertOpt r o

/-- the protect loop: (outer options of osc_pdu, options of plain_pdu) -/
def protectSplit (req : Bool) (os : List (Nat × Bytes)) : List (Nat × Bytes) × List (Nat × Bytes) :=
  os.foldl (fun (acc : List (Nat × Bytes) × List (Nat × Bytes)) o =>
    match protectClass o.1 with
    | 0 => (insertOpt acc.1 o, acc.2)
    | 1 => (insertOpt acc.1 o, insertOpt acc.2 (if req then o else (o.1, [])))
    | 2 => acc
    | _ => (acc.1, insertOpt acc.2 o)) ([], [])

/-- the first `switch` of coap_oscore_decrypt_pdu: outer options that are *not* copied -/
def decryptSkips (n : Nat) : Bool :=
  n = 1 || n = 4 || n = 5 || n = 6 || n = 8 || n = 11 || n = 12 || n = 14 || n = 15 || n = 17 || n = 20 ||
  n = 23 || n = 27 || n = 28 || n = 60 || n = 258 || n = 252 || n = 292 || n = 9 || n = 31 || n = 19

/-- outer options are appended in order, then each inner option is inserted (OSCORE is skipped;
Observe of a response gets the last ≤ 3 bytes of `cose->partial_iv`) -/
def decryptMerge (req : Bool) (pivObs : Bytes) (outer inner : List (Nat × Bytes)) : List (Nat × Bytes) :=
  inner.foldl (fun acc o =>
    if o.1 = 9 then acc
    else if o.1 = 6 ∧ ¬ req then insertOpt acc (6, pivObs.drop (pivObs.length - 3))
    else insertOpt acc o) (outer.filter fun o => !decryptSkips o.1)

end Coap.M.Oscore
