/-
M for C14: what `coap_dispatch()` and the `COAP_RESOURCE_FLAGS_OSCORE_ONLY` test of `handle_request()` (src/coap_net.c) do
with a REQUEST on a server session, as far as OSCORE is concerned (after fix a9dbe3e).

  coap_dispatch:   OSCORE option present → `coap_oscore_decrypt_pdu()`; NULL → return (nothing runs, nothing is sent);
                   else `session->oscore_encryption = 1; oscore_protected = 1; pdu = dec_pdu`
                   no OSCORE option → `oscore_protected` stays 0, `session->oscore_encryption` is NOT touched
  handle_request:  `(resource->flags & COAP_RESOURCE_FLAGS_OSCORE_ONLY) && !oscore_protected` → 4.01, no handler
  coap_send_internal (response): `session->oscore_encryption` → `coap_oscore_new_pdu_encrypted_lkd()`, which fails for a
                   token without association (a plain request has made none): nothing is written
Core Lean only (the driver links this file).
-/
namespace Coap.M.Oscore

/-- the one bit of the session that matters here: `session->oscore_encryption` -/
structure DSess where
  enc : Bool
  deriving Repr, DecidableEq

/-- a request arriving on the session: `only` = its resource is `COAP_RESOURCE_FLAGS_OSCORE_ONLY` -/
inductive DReq where
  | plain (only : Bool)                       -- no OSCORE option
  | osc (verified : Bool) (only : Bool)       -- OSCORE option; `verified` = `coap_oscore_decrypt_pdu()` returned a PDU
  deriving Repr, DecidableEq

/-- what is written for the response: nothing, a protected datagram, a datagram in clear with this code -/
inductive DOut where
  | nothing | protectedResp | clear (code : Nat)
  deriving Repr, DecidableEq

structure DRes where
  sess : DSess
  handler : Bool        -- the application's request handler was invoked
  out : DOut
  deriving Repr, DecidableEq

/-- `handlerCode` = the code the application's handler sets (2.04 in the harness) -/
def dispatch (handlerCode : Nat) (s : DSess) : DReq → DRes
  | .osc false _ => ⟨s, false, .nothing⟩
  | .osc true _ => ⟨⟨true⟩, true, .protectedResp⟩
  | .plain only =>
    let oscoreProtected := false
    if only ∧ ¬ oscoreProtected then ⟨s, false, if s.enc then .nothing else .clear 129⟩
    else ⟨s, true, if s.enc then .nothing else .clear handlerCode⟩

/-- the code BEFORE fix a9dbe3e: the resource test read `session->oscore_encryption` (kept as the witness of the defect) -/
def dispatchOld (handlerCode : Nat) (s : DSess) : DReq → DRes
  | .osc false _ => ⟨s, false, .nothing⟩
  | .osc true _ => ⟨⟨true⟩, true, .protectedResp⟩
  | .plain only =>
    if only ∧ ¬ s.enc then ⟨s, false, if s.enc then .nothing else .clear 129⟩
    else ⟨s, true, if s.enc then .nothing else .clear handlerCode⟩

/-- the session after a list of requests -/
def dispatchRun (handlerCode : Nat) (s : DSess) (rs : List DReq) : DSess :=
  rs.foldl (fun s r => (dispatch handlerCode s r).sess) s

end Coap.M.Oscore
