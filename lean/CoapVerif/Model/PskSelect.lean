/-
C19 — M, server side of the PSK credential selection: which key does libcoap hand the TLS library for a ClientHello?
Transcription of (src/coap_gnutls.c, GnuTLS backend; the same two callbacks serve DTLS and TLS)
     post_client_hello_gnutls_psk   the server-name (SNI) step: cache g_context->psk_sni_entry_list, the application's
                                    validate_sni_call_back for a name not yet cached, coap_session_refresh_psk_hint / _key
     psk_server_callback            the identity step: validate_id_call_back, else coap_get_session_server_psk_key
   and of coap_get_session_server_psk_key (src/coap_net.c), coap_session_refresh_psk_key (src/coap_session.c).
Core Lean only.  Byte strings are lower-case hex strings.  What the TLS library does with the key (the handshake itself) is
the ORACLE's; these callbacks are libcoap's and run INSIDE gnutls_handshake.

The state that survives a handshake is the SNI cache of the server CONTEXT: it is filled by the first ClientHello that
names a server and consulted by every later one — so what a client is checked against may depend on the clients that came
BEFORE it.  `Props/C19.lean` (`server_key_history_independent`) proves that it does not.

Assumptions: the application's callbacks are functions of their argument (tables `idTab`, `sniTab`); server names are
compared as given (the C code uses strcasecmp: names are lower case here); identities contain no NUL byte (the TLS
library passes them as C strings).
-/
namespace Coap.PskSelect

/-- the server's coap_dtls_spsk_t -/
structure SrvCfg where
  defKey : String := ""                                        -- psk_info.key ("" = length 0)
  defHint : Option String := none                              -- psk_info.hint
  idTab : Option (List (String × String)) := none              -- validate_id_call_back: identity ↦ key (none: no callback)
  sniTab : Option (List (String × String × String)) := none    -- validate_sni_call_back: name ↦ (hint, key)
  deriving Repr

/-- psk_sni_entry: what the application answered for a server name the first time it was asked for -/
structure SniEntry where
  name : String
  hint : String
  key : String
  deriving DecidableEq, Repr

/-- g_context->psk_sni_entry_list (psk_sni_count = length) -/
abbrev Cache := List SniEntry

/-- session->psk_key / session->psk_hint of the server session (NULL when created) -/
structure SessPsk where
  key : Option String := none
  hint : Option String := none
  deriving DecidableEq, Repr

def lookup2 (k : String) : List (String × String) → Option String
  | [] => none
  | (a, b) :: t => if a = k then some b else lookup2 k t

def lookup3 (k : String) : List (String × String × String) → Option (String × String)
  | [] => none
  | (a, b, c) :: t => if a = k then some (b, c) else lookup3 k t

/-- `for (i = 0; i < psk_sni_count; i++) if (strcasecmp(name, entry[i].sni) == 0) break;` — the index the loop ends
with: the first entry for that name, `psk_sni_count` if there is none -/
def sniIndex (name : String) : Cache → Nat
  | [] => 0
  | e :: t => if e.name = name then 0 else sniIndex name t + 1

/-- post_client_hello_gnutls_psk: new cache, the session's key / hint, success?  (`name` = "" when the ClientHello has
no server-name extension: "make it a dummy entry") -/
def postClientHello (cfg : SrvCfg) (cache : Cache) (sp : SessPsk) (name : String) : Cache × SessPsk × Bool :=
  match cfg.sniTab with
  | none => (cache, sp, true)                       -- no validate_sni_call_back: nothing happens
  | some tab =>
    let i := sniIndex name cache
    -- `if (i == g_context->psk_sni_count)`: New SNI request — ask the application, append the entry at index i
    let r : Option Cache :=
      if i = cache.length then
        match lookup3 name tab with
        | none => none                               -- unrecognized_name alert, GNUTLS_E_NO_CERTIFICATE_FOUND
        | some (h, k) => some (cache ++ [⟨name, h, k⟩])
      else some cache
    match r with
    | none => (cache, sp, false)
    | some cache' =>
      -- AFTER the block, for a new AND for a cached name: gnutls_credentials_set(entry[i].psk_credentials),
      -- coap_session_refresh_psk_hint / coap_session_refresh_psk_key(c_session, &entry[i].psk_info.…)
      match cache'[i]? with
      | some e => (cache', { key := some e.key, hint := some e.hint }, true)
      | none => (cache', sp, false)                  -- (index past the list: cannot happen, see `postClientHello_index`)

/-- coap_get_session_server_psk_key: the session's key, else the context's default key if it has a length -/
def sessionServerKey (cfg : SrvCfg) (sp : SessPsk) : Option String :=
  match sp.key with
  | some k => some k
  | none => if cfg.defKey ≠ "" then some cfg.defKey else none

/-- psk_server_callback: the session afterwards and the key handed to the TLS library (none = -1: refused) -/
def pskServerCallback (cfg : SrvCfg) (sp : SessPsk) (identity : String) : SessPsk × Option String :=
  match cfg.idTab with
  | some tab =>
    -- validate_id_call_back; coap_session_refresh_psk_key(c_session, psk_key) (NULL clears the session's key)
    let k := lookup2 identity tab
    ({ sp with key := k }, k)
  | none => (sp, sessionServerKey cfg sp)

/-- one server-side handshake on a FRESH server session: the SNI step, then (if it succeeded) the identity step -/
def handshakeKey (cfg : SrvCfg) (cache : Cache) (name identity : String) : Cache × Option String :=
  let (cache', sp, ok) := postClientHello cfg cache {} name
  if ok then (cache', (pskServerCallback cfg sp identity).2) else (cache', none)

/-- the handshakes a server context has seen before: server name, identity (none: it ended before the key exchange) -/
def runHist (cfg : SrvCfg) : Cache → List (String × Option String) → Cache
  | cache, [] => cache
  | cache, (name, id) :: t =>
    match id with
    | some i => runHist cfg (handshakeKey cfg cache name i).1 t
    | none => runHist cfg (postClientHello cfg cache {} name).1 t

end Coap.PskSelect
