import CoapVerif.Lemmas.ServerBlock
/-
C10, block mode kept across the requests of a session (round S10; Model/ServerBlock.lean, op `srvb`).

"For each request datagram … exactly the handler … runs once with the request's … payload" at a context whose block
mode is COAP_BLOCK_USE_LIBCOAP (with or without COAP_BLOCK_SINGLE_BODY): handle_request() saves session->block_mode,
forces COAP_BLOCK_SINGLE_BODY around coap_handle_request_put_block() for a FETCH / a force-single-body resource and
restores it.  The theorems are about EVERY sequence of request datagrams from any peers (induction over the sequence).
-/
namespace Coap.C10
open Coap Coap.Server Coap.Server.MB Coap.Block

/-- After ANY sequence of request datagrams at a context configured with block mode `mode` — FETCH requests, requests
for force-single-body resources, Block1 uploads complete or abandoned, errors, any peers — the block mode of EVERY
session is the configured one: the COAP_BLOCK_SINGLE_BODY that handle_request() forces for one request never outlives
it, and a configured COAP_BLOCK_SINGLE_BODY is never lost. -/
theorem block_mode_restored (cfg : Cfg) (tbl : Table) (mode : Nat) (evs : List BEv) (peer : Nat) :
    ((finalB cfg tbl (BHist.fresh mode) evs).get peer).mode = mode := by
  obtain ⟨a, b⟩ := finalB_inv cfg tbl evs (BHist.fresh mode) (fresh_inv mode)
  rw [a peer, b]
  rfl

/-- … and that is what is observable after every single datagram of the sequence (the `bm=` field of op `srvb`) -/
theorem block_mode_reported_is_configured (cfg : Cfg) (tbl : Table) (mode : Nat) (evs : List BEv) :
    ∀ x, x ∈ runB cfg tbl (BHist.fresh mode) evs → x.2 = mode :=
  fun x hx => runB_modes cfg tbl evs (BHist.fresh mode) (fresh_inv mode) x hx

/-- one request never changes the block mode of its session, whatever state the session is in -/
theorem block_mode_unchanged_by_request (s : BSess) (cfg : Cfg) (tbl : Table) (rq : Request) :
    (serverDecisionB s cfg tbl rq).2.mode = s.mode := decisionB_mode s cfg tbl rq

/-- without COAP_BLOCK_USE_LIBCOAP the stage does not exist: the datagram is decided by the block-mode-0 model
(`decision_eq_spec`, `sequence_eq_spec`) and the session state is untouched -/
theorem block_mode_zero_is_plain (s : BSess) (cfg : Cfg) (tbl : Table) (rq : Request) (h : useLibcoap s.mode = false) :
    serverDecisionB s cfg tbl rq = (⟨M.serverDecisionA false false cfg tbl rq, 0, rq.msg.payload.length⟩, s) := by
  unfold serverDecisionB
  simp [h]

/-- SINGLE BODY, after ANY history: at a context configured COAP_BLOCK_USE_LIBCOAP (± COAP_BLOCK_SINGLE_BODY), after
ANY sequence `evs` of earlier request datagrams, a request that reaches the handler stage (`serverDecisionA … .call =
some c`) carrying a Block1 option with the More bit, handled in single-body mode (configured, or the request is a FETCH,
or its resource is a force-single-body resource), is NEVER handed to the application handler — a fragment of a body
does not reach the handler block by block, whatever FETCH / force-single-body requests the session has seen before. -/
theorem single_body_fragment_never_reaches_handler (cfg : Cfg) (tbl : Table) (mode : Nat) (evs : List BEv) (peer : Nat)
    (rq : Request) (c : Call) (num szx : Nat) (hu : useLibcoap mode = true)
    (hcall : (M.serverDecisionA false false cfg tbl rq).call = some c)
    (hb : (firstOpt c.opts 27).bind block = some (num, true, szx)) (hsingle : SingleFor mode tbl rq c) :
    (serverDecisionB ((finalB cfg tbl (BHist.fresh mode) evs).get peer) cfg tbl rq).1.o.call = none := by
  have hm := block_mode_restored cfg tbl mode evs peer
  exact decisionB_more_no_call _ cfg tbl rq c num szx (by rw [hm]; exact hu) hcall hb (by rw [hm]; exact hsingle)

/-- the same for a session in ANY state whose block mode is the configured one (any lg_srcv list) -/
theorem single_body_fragment_never_reaches_handler_any_state (s : BSess) (cfg : Cfg) (tbl : Table)
    (rq : Request) (c : Call) (num szx : Nat) (hu : useLibcoap s.mode = true)
    (hcall : (M.serverDecisionA false false cfg tbl rq).call = some c)
    (hb : (firstOpt c.opts 27).bind block = some (num, true, szx)) (hsingle : SingleFor s.mode tbl rq c) :
    (serverDecisionB s cfg tbl rq).1.o.call = none :=
  decisionB_more_no_call s cfg tbl rq c num szx hu hcall hb hsingle

/-! ### concrete instances (`decide`): the hypotheses are satisfiable, the re-assembly delivers once -/
def bxB0 : Bytes := List.replicate 16 7
def bxB1 : Bytes := List.replicate 16 9
def bxTail : Bytes := [1, 2, 3]
def bxOs (v : Bytes) : Opts := [(11, [97]), (27, v)]

set_option maxRecDepth 20000 in
/-- a 3-block upload in single-body mode on a session without a pending transfer: 2.31, 2.31, then ONE call with the
concatenation (offset 0, total 35), the Block1 option removed from the handler's view, the lg_srcv gone -/
example :
    let r0 := putBlock 3 [] (some 0) (bxOs [0x08]) bxB0
    let r1 := putBlock 3 r0.1 (some 0) (bxOs [0x18]) bxB1
    let r2 := putBlock 3 r1.1 (some 0) (bxOs [0x20]) bxTail
    r0.2 = .skip 95 [(27, [0x08])] false ∧ r1.2 = .skip 95 [(27, [0x18])] false ∧
    r2 = ([], .call (bxB0 ++ bxB1 ++ bxTail) 0 35 [(11, [97])] [] false) := by decide

set_option maxRecDepth 20000 in
/-- the same blocks in per-block mode: each one is handed over with its place in the body -/
example :
    (putBlock 1 [] (some 0) (bxOs [0x08]) bxB0).2 = .call bxB0 0 17 (bxOs [0x08]) [(27, [0x08])] true ∧
    (putBlock 1 [] (some 0) (bxOs [0x20]) bxTail).2 = .call bxTail 32 35 (bxOs [0x20]) [(27, [0x20])] false := by decide

def bxCfg : Cfg := ⟨false, 8, []⟩
def bxTbl : Table := ⟨none, none, [⟨[97], 127, 0, false⟩]⟩
/-- CON PUT /a, Block1 NUM 0 More SZX 0, 16 bytes -/
def bxRq : Request := ⟨false, ⟨0, 3, 0x2000, [0x20], bxOs [0x08], bxB0⟩, ⟨68, []⟩, .absent⟩
/-- CON FETCH /a with Content-Format -/
def bxFetch : Request := ⟨false, ⟨0, 5, 0x1000, [0x0f], [(11, [97]), (12, [0x32])], [113]⟩, ⟨69, [104, 105]⟩, .absent⟩

set_option maxRecDepth 40000 in
/-- the hypotheses of `single_body_fragment_never_reaches_handler` hold for the first block of a PUT after a FETCH on the
same session at a context configured USE_LIBCOAP|SINGLE_BODY — and the outcome is the 2.31 with the Block1 echo, no
handler, block mode 3 -/
example :
    (M.serverDecisionA false false bxCfg bxTbl bxRq).call = some ⟨.res 0, 3, [97], [], bxOs [0x08], bxB0⟩ ∧
    (firstOpt (bxOs [0x08]) 27).bind block = some (0, true, 0) ∧
    (runB bxCfg bxTbl (BHist.fresh 3) [⟨1, bxFetch⟩, ⟨1, bxRq⟩]).map (fun x => (x.1.o.replies.map (·.code), x.1.o.call.isSome, x.2)) =
      [([69], true, 3), ([95], false, 3)] := by decide

end Coap.C10
