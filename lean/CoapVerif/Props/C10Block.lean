import CoapVerif.Lemmas.ServerBlock
/-
C10, block mode kept across the requests of a session (round S10; Model/ServerBlock.lean, op `srvb`).

"For each request datagram … exactly the handler … runs once with the request's … payload" at a context whose block
mode is COAP_BLOCK_USE_LIBCOAP (with or without COAP_BLOCK_SINGLE_BODY): handle_request() saves session->block_mode,
forces COAP_BLOCK_SINGLE_BODY around coap_handle_request_put_block() for a FETCH / a force-single-body resource and
restores it.  The theorems are about EVERY sequence of request datagrams from any peers (induction over the sequence).
-/
namespace Coap.C10
open Coap Coap.Server Coap.Server.MB Coap.Block

/-- After ANY sequence of request datagrams at a context configured with block mode `mode` — FETCH requests, requests
for force-single-body resources, Block1 uploads complete or abandoned, errors, any peers — the block mode of EVERY
session is the configured one: the COAP_BLOCK_SINGLE_BODY that handle_request() forces for one request never outlives
it, and a configured COAP_BLOCK_SINGLE_BODY is never lost. -/
theorem block_mode_restored (cfg : Cfg) (tbl : Table) (mode : Nat) (evs : List BEv) (peer : Nat) :
    ((finalB cfg tbl (BHist.fresh mode) evs).get peer).mode = mode := by
  obtain ⟨a, b⟩ := finalB_inv cfg tbl evs (BHist.fresh mode) (fresh_inv mode)
  rw [a peer, b]
  rfl

/-- … and that is what is observable after every single datagram of the sequence (the `bm=` field of op `srvb`) -/
theorem block_mode_reported_is_configured (cfg : Cfg) (tbl : Table) (mode : Nat) (evs : List BEv) :
    ∀ x, x ∈ runB cfg tbl (BHist.fresh mode) evs → x.2 = mode :=
  fun x hx => runB_modes cfg tbl evs (BHist.fresh mode) (fresh_inv mode) x hx

/-- one request never changes the block mode of its session, whatever state the session is in -/
theorem block_mode_unchanged_by_request (s : BSess) (cfg : Cfg) (tbl : Table) (rq : Request) :
    (serverDecisionB s cfg tbl rq).2.mode = s.mode := decisionB_mode s cfg tbl rq

/-- without COAP_BLOCK_USE_LIBCOAP the stage does not exist: the datagram is decided by the block-mode-0 model
(`decision_eq_spec`, `sequence_eq_spec`) and the session state is untouched -/
theorem block_mode_zero_is_plain (s : BSess) (cfg : Cfg) (tbl : Table) (rq : Request) (h : useLibcoap s.mode = false) :
    serverDecisionB s cfg tbl rq = (⟨M.serverDecisionA false false cfg tbl rq, 0, rq.msg.payload.length⟩, s) := by
  unfold serverDecisionB
  simp [h]

/-- SINGLE BODY, after ANY history: at a context configured COAP_BLOCK_USE_LIBCOAP (± COAP_BLOCK_SINGLE_BODY), after
ANY sequence `evs` of earlier request datagrams, a request that reaches the handler stage (`serverDecisionA … .call =
some c`) carrying a Block1 option with the More bit, handled in single-body mode (configured, or the request is a FETCH,
or its resource is a force-single-body resource), is NEVER handed to the application handler — a fragment of a body
does not reach the handler block by block, whatever FETCH / force-single-body requests the session has seen before. -/
theorem single_body_fragment_never_reaches_handler (cfg : Cfg) (tbl : Table) (mode : Nat) (evs : List BEv) (peer : Nat)
    (rq : Request) (c : Call) (num szx : Nat) (hu : useLibcoap mode = true)
    (hcall : (M.serverDecisionA false false cfg tbl rq).call = some c)
    (hb : (firstOpt c.opts 27).bind block = some (num, true, szx)) (hsingle : SingleFor mode tbl rq c) :
    (serverDecisionB ((finalB cfg tbl (BHist.fresh mode) evs).get peer) cfg tbl rq).1.o.call = none := by
  have hm := block_mode_restored cfg tbl mode evs peer
  exact decisionB_more_no_call _ cfg tbl rq c num szx (by rw [hm]; exact hu) hcall hb (by rw [hm]; exact hsingle)

/-- the same for a session in ANY state whose block mode is the configured one (any lg_srcv list) -/
theorem single_body_fragment_never_reaches_handler_any_state (s : BSess) (cfg : Cfg) (tbl : Table)
    (rq : Request) (c : Call) (num szx : Nat) (hu : useLibcoap s.mode = true)
    (hcall : (M.serverDecisionA false false cfg tbl rq).call = some c)
    (hb : (firstOpt c.opts 27).bind block = some (num, true, szx)) (hsingle : SingleFor s.mode tbl rq c) :
    (serverDecisionB s cfg tbl rq).1.o.call = none :=
  decisionB_more_no_call s cfg tbl rq c num szx hu hcall hb hsingle

end Coap.C10
