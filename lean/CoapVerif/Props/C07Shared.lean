import CoapVerif.Lemmas.SendQueue
import CoapVerif.Lemmas.MsgLayer
import CoapVerif.Lemmas.MsgLayerX
import CoapVerif.Props.C06
/-
C07, several sessions of ONE context — "... with one exchange outstanding PER SESSION".

The sessions of a context keep their Confirmables in one retransmission queue (`context->sendqueue`) and choose their message ids
independently, so requests with EQUAL message ids on different sessions wait in that queue together.  `Model/Exchange.lean` (the model
of `Props/C07.lean`) is ONE session's view of the queue; the queue with several sessions is `Coap.SQ` / `Coap.Msg` (+ `Coap.MsgX` for
piggybacked responses), the model that the op `msg` ties to the compiled code (harness/msg.c, Driver/Msg.lean) and that C07 now runs
with colliding message ids (props/C07.py `shared_queue`, `oracle_msg`).  Proved here, for EVERY queue / every state / every run:

  * `coap_remove_from_queue` is keyed by session AND message id: every entry that is not (session, id) - in particular every entry of
    another session, whatever its id - keeps its place and its absolute deadline; what leaves is the first node of that session with
    that id, and one leaves whenever there is one (`shared_queue_remove_keeps_everybody_else`, `…_other_sessions_untouched`,
    `shared_queue_remove_takes_own`);
  * a reply (Empty ACK, RST, invalid ACK, piggybacked response) processed on session `s` leaves every other session as it was:
    `con_active`, delay queue, parameters and the number of its Confirmables in the send queue, and takes no Confirmable with another
    (session, id) key out of the queue (`reply_concludes_own_session_only`, `piggybacked_reply_concludes_own_session_only`);
  * whole runs over the message-layer alphabet with any number of sessions, any interleaving, any collisions of message ids: a request
    accepted once and no longer pending has had exactly ONE conclusion - its NACK or a removal by a reply - and a removal is counted
    only for replies that arrived on ITS session (`shared_queue_exactly_once_per_session`, `reply_on_other_session_concludes_nothing`);
    if every reply of the run arrived on other sessions it has had exactly one NACK (`replies_on_other_sessions_never_conclude`).
-/
namespace Coap.C07
open Coap Coap.SQ Coap.Msg Coap.MsgX
open Coap.Spec.SQ (Entry)

/-! ## the queue: removal by (session, message id) -/

/-- S: removing (s, id) from a list of absolute deadlines leaves every entry on which `p` does not hold for (s, id) -/
theorem spec_remove_filter (p : Entry → Bool) (s id : Nat) (hp : ∀ e : Entry, e.sess = s → e.mid = id → p e = false) :
    ∀ l : List Entry, (Spec.SQ.remove l s id).2.filter p = l.filter p
  | [] => rfl
  | x :: r => by
    unfold Spec.SQ.remove
    split
    · rename_i h
      simp [hp x h.1 h.2]
    · simp only [List.filter_cons, spec_remove_filter p s id hp r]

/-- **coap_remove_from_queue leaves everybody else alone** - for every queue (any base time, any nodes, any number of sessions, any
collisions of message ids): after `coap_remove_from_queue(&sendqueue, s, id, …)` the entries that are not (s, id), read as absolute
deadlines, are exactly what they were - same entries, same order, same deadlines. -/
theorem shared_queue_remove_keeps_everybody_else (q : Queue) (s id : Nat) :
    (abs { q with nodes := (removeNode q.nodes s id).2 }).filter (fun e => !decide (e.sess = s ∧ e.mid = id)) =
      (abs q).filter (fun e => !decide (e.sess = s ∧ e.mid = id)) := by
  have h := removeNode_rest q.base q.nodes s id
  simp only [abs]
  rw [h]
  exact spec_remove_filter _ s id (fun e h1 h2 => by simp [h1, h2]) _

/-- … in particular the nodes of EVERY OTHER SESSION, those carrying the same message id included: an ACK / RST on session `s` does not
move, delay or remove what another session is waiting for. -/
theorem shared_queue_remove_other_sessions_untouched (q : Queue) (s id : Nat) :
    (abs { q with nodes := (removeNode q.nodes s id).2 }).filter (fun e => !decide (e.sess = s)) =
      (abs q).filter (fun e => !decide (e.sess = s)) := by
  have h := removeNode_rest q.base q.nodes s id
  simp only [abs]
  rw [h]
  exact spec_remove_filter _ s id (fun e h1 _ => by simp [h1]) _

/-- what leaves is a node of THAT session with THAT id, and one leaves whenever the queue holds one -/
theorem shared_queue_remove_takes_own (l : List Node) (s id : Nat) :
    (∀ n, (removeNode l s id).1 = some n → n ∈ l ∧ n.sess = s ∧ n.mid = id) ∧
    ((removeNode l s id).1 = none →
      (removeNode l s id).2 = l ∧ l.countP (fun n => decide (n.sess = s ∧ n.mid = id)) = 0) := by
  rcases hr : removeNode l s id with ⟨res, rest⟩
  constructor
  · intro n hn
    simp only at hn
    subst hn
    have := removeNode_some (fun _ => true) (fun _ _ => rfl) _ _ _ _ _ hr
    exact ⟨this.1, this.2.1, this.2.2.1⟩
  · intro hn
    simp only at hn
    subst hn
    exact removeNode_none _ _ _ _ hr

/-- the seeded witness shape: queue [other, B (mid X), A (mid X)], the reply for A arrives: A's node leaves, B's stays where it was
with its deadline (2500), and so does the other one -/
example :
    let q : Queue := { base := 1000, nodes := [⟨0, 1001, 2000, 2000, 0, 1001, true⟩, ⟨1, 1000, 500, 2500, 0, 1000, true⟩,
                                                ⟨2, 1000, 500, 3000, 0, 1000, true⟩] }
    (removeNode q.nodes 2 1000).1.map (·.sess) = some 2 ∧
    abs { q with nodes := (removeNode q.nodes 2 1000).2 } = [⟨3000, 0, 1001, 1001⟩, ⟨3500, 1, 1000, 1000⟩] ∧
    abs { q with nodes := (removeNode q.nodes 1 1000).2 } = [⟨3000, 0, 1001, 1001⟩, ⟨4000, 2, 1000, 1000⟩] := by decide

/-! ## the message layer: a reply on one session -/

theorem rxAck_frame (l : L) (s mid : Nat) : Frame s l (rxAck l s mid) := by
  unfold rxAck
  rcases hr : removeNode l.q.nodes s mid with ⟨res, rest⟩
  simp only []
  cases res with
  | none => have := (removeNode_none _ _ _ _ hr).1; subst this; exact Frame.refl _ _
  | some n =>
    have hm := removeNode_some (fun _ => true) (fun _ _ => rfl) _ _ _ _ _ hr
    have hns := hm.2.1
    subst hns
    exact (removed_one l n rest hm.1 (fun p hp => (removeNode_some p hp _ _ _ _ _ hr).2.2.2)).1.trans (release_ok _ _).1

theorem rxRst_frame (l : L) (s mid : Nat) : Frame s l (rxRst l s mid) := by
  unfold rxRst
  rcases hr : removeNode l.q.nodes s mid with ⟨res, rest⟩
  simp only []
  cases res with
  | none => have := (removeNode_none _ _ _ _ hr).1; subst this; exact Frame.emit _ _ _
  | some n =>
    have hm := removeNode_some (fun _ => true) (fun _ _ => rfl) _ _ _ _ _ hr
    have hns := hm.2.1
    subst hns
    have hf := (removed_one l n rest hm.1 (fun p hp => (removeNode_some p hp _ _ _ _ _ hr).2.2.2)).1.trans (release_ok _ _).1
    simp only []
    split
    · exact hf.trans (Frame.emit _ _ _)
    · exact hf

theorem rxBad_frame (l : L) (s mid : Nat) : Frame s l (rxBad l s mid) := by
  unfold rxBad
  rcases hr : removeNode l.q.nodes s mid with ⟨res, rest⟩
  simp only []
  cases res with
  | none => have := (removeNode_none _ _ _ _ hr).1; subst this; exact Frame.refl _ _
  | some n =>
    have hm := removeNode_some (fun _ => true) (fun _ _ => rfl) _ _ _ _ _ hr
    have hns := hm.2.1
    subst hns
    exact ((removed_one l n rest hm.1 (fun p hp => (removeNode_some p hp _ _ _ _ _ hr).2.2.2)).1.trans
      (release_ok _ _).1).trans (Frame.emit _ _ _)

theorem rxAckP_frame (l : L) (s mid : Nat) (dup : Bool) : Frame s l (rxAckP l s mid dup) := by
  unfold rxAckP
  simp only []
  split
  · exact rxAck_frame l s mid
  · exact (rxAck_frame l s mid).trans (Frame.emit _ _ _)

/-- **a reply concludes on its own session only**: an Empty ACK, a RST or an invalid ACK with ANY message id processed on session `s`
(the ACK / RST branches of `coap_dispatch`: `coap_remove_from_queue`, `con_active--`, `coap_session_connected`) leaves every other
session `s'` exactly as it was - `con_active`, its delay queue, its state and parameters - and the same number of its Confirmables in
the shared send queue, also when `s'` has a Confirmable with that very message id in flight.  Every state `l`. -/
theorem reply_concludes_own_session_only (l : L) (s mid s' : Nat) (h : s' ≠ s) :
    ((rxAck l s mid).getS s' = l.getS s' ∧ inflight (rxAck l s mid) s' = inflight l s') ∧
    ((rxRst l s mid).getS s' = l.getS s' ∧ inflight (rxRst l s mid) s' = inflight l s') ∧
    ((rxBad l s mid).getS s' = l.getS s' ∧ inflight (rxBad l s mid) s' = inflight l s') :=
  ⟨(rxAck_frame l s mid).other s' h, (rxRst_frame l s mid).other s' h, (rxBad_frame l s mid).other s' h⟩

/-- the same for a PIGGYBACKED RESPONSE (duplicate or not), and: no Confirmable with another (session, id) key leaves the queue -
the Confirmable of session `s'` with the SAME id `mid` is still there. -/
theorem piggybacked_reply_concludes_own_session_only (l : L) (s mid : Nat) (dup : Bool) (s' : Nat) (h : s' ≠ s) :
    (rxAckP l s mid dup).getS s' = l.getS s' ∧ inflight (rxAckP l s mid dup) s' = inflight l s' ∧
    ∀ m', l.q.nodes.countP (fun n => decide (n.sess = s' ∧ n.mid = m')) ≤
      (rxAckP l s mid dup).q.nodes.countP (fun n => decide (n.sess = s' ∧ n.mid = m')) := by
  refine ⟨((rxAckP_frame l s mid dup).other s' h).1, ((rxAckP_frame l s mid dup).other s' h).2, fun m' => ?_⟩
  apply rxAckP_countP_le _ (tstable_key s' m')
  intro n hs _
  simp only [decide_eq_false_iff_not]
  intro hk
  exact h (hk.1.symm.trans hs)

/-- three sessions with the SAME message id in flight (deadlines 3000 / 3094 / 4000), the piggybacked response for the LAST node of
the queue arrives: that node leaves, its session's slot is free, the two others are untouched (the seeded change C07-14 took the
node of session 1 instead) -/
example :
    let l : L := { now := 1050, q := { base := 1000, nodes := [⟨2, 1000, 2000, 2000, 0, 1000, true⟩, ⟨1, 1000, 94, 2094, 0, 1000, true⟩,
                                                               ⟨0, 1000, 906, 3000, 0, 1000, true⟩] },
                   sess := [{ conActive := 1 }, { conActive := 1 }, { conActive := 1 }], out := [] }
    let l' := rxAckP l 0 1000 false
    abs l'.q = [⟨3000, 2, 1000, 1000⟩, ⟨3094, 1, 1000, 1000⟩] ∧ l'.sess.map (·.conActive) = [0, 1, 1] ∧
    l'.out = [.rsp 1050 0 1000] := by decide

/-! ## whole runs, any number of sessions -/

open Coap.Sim Coap.Sched

/-- the session a received datagram belongs to -/
def rxSess : Msg.Ev → Option Nat
  | .rxAck s _ => some s
  | .rxRst s _ => some s
  | .rxNon s _ _ => some s
  | .rxBad s _ => some s
  | _ => none

theorem cancelCount_other (s mid : Nat) : ∀ (fuel : Nat) (l : L) (s' tok : Nat), s' ≠ s → cancelCount s mid fuel l s' tok = 0
  | 0, _, _, _, _ => rfl
  | fuel + 1, l, s', tok, h => by
    unfold cancelCount
    split
    · rfl
    · rename_i n rest hr
      have hn := (removeTok_some (fun _ => true) (fun _ _ => rfl) _ _ _ _ _ hr).2.1
      have : ¬ (n.sess = s ∧ n.mid = mid) := fun hk => h (hn.symm.trans hk.1)
      simp only [this, if_false, Nat.zero_add]
      exact cancelCount_other s mid fuel _ s' tok h

/-- **a reply that arrives on another session concludes nothing**: the removals the conservation law of the shared queue counts for
the request (s, mid) (`remC` of `Coap.C06.m_single_outcome`: an ACK / invalid ACK finding it, a response cancelling it by token) are
0 for every event that is not a datagram received ON SESSION `s` - whatever message id or token it carries.  Every state. -/
theorem reply_on_other_session_concludes_nothing (s mid : Nat) (l : L) (ev : Msg.Ev) (h : rxSess ev ≠ some s) :
    remW s mid l ev = 0 := by
  cases ev with
  | rxAck s' m' =>
    have : ¬ s' = s := fun e => h (by simp [rxSess, e])
    simp [remW, this]
  | rxBad s' m' =>
    have : ¬ s' = s := fun e => h (by simp [rxSess, e])
    simp [remW, this]
  | rxNon s' m' tok =>
    have : s' ≠ s := fun e => h (by simp [rxSess, e])
    simp only [remW]
    split
    · exact cancelCount_other s mid _ l s' tok this
    · rfl
  | _ => rfl

theorem remC_other_sessions (s mid : Nat) : ∀ (evs : List Msg.Ev) (l : L), (∀ ev ∈ evs, rxSess ev ≠ some s) → remC s mid l evs = 0
  | [], _, _ => rfl
  | ev :: evs, l, h => by
    simp only [remC]
    rw [reply_on_other_session_concludes_nothing s mid l ev (h ev (List.mem_cons_self ..)),
      remC_other_sessions s mid evs _ (fun e he => h e (List.mem_cons_of_mem _ he))]

/-- **exactly once per session, for every interleaving** - any number of sessions sharing the send queue, any order of `coap_send`
calls, timer runs, clock steps and arrivals (Empty ACK, RST, invalid ACK, separate response; any session, any message id, any token),
message ids colliding between sessions at will: a Confirmable request (s, mid) that `coap_send` accepted once and that is no longer
pending (neither in the send queue nor held in its session's delay queue) has been concluded EXACTLY ONCE - by its NACK
(TOO_MANY_RETRIES / RST) or by a reply that took it off the queue - never both, never twice, never neither; and by
`reply_on_other_session_concludes_nothing` only replies received on session `s` are counted on the right. -/
theorem shared_queue_exactly_once_per_session (now0 : Nat) (sess : List Msg.Sess) (evs : List Msg.Ev)
    (hs : ∀ se ∈ sess, SessOk se) (hin : RunG (Msg.init now0 sess) evs) (s mid : Nat)
    (hacc : accC s mid (Msg.init now0 sess) evs = 1)
    (hq : pendC s mid (Msg.run (Msg.init now0 sess) evs).q.nodes = 0)
    (hd : midC mid ((Msg.run (Msg.init now0 sess) evs).getS s).delayq = 0) :
    nackC s mid (Msg.run (Msg.init now0 sess) evs).out + remC s mid (Msg.init now0 sess) evs = 1 := by
  have h := Coap.C06.m_single_outcome now0 sess evs hs hin s mid
  simp only at h
  omega

/-- … and while it IS pending it has not been concluded at all (no NACK, no removal counted): at most once at every moment. -/
theorem shared_queue_at_most_once_per_session (now0 : Nat) (sess : List Msg.Sess) (evs : List Msg.Ev)
    (hs : ∀ se ∈ sess, SessOk se) (hin : RunG (Msg.init now0 sess) evs) (s mid : Nat)
    (hacc : accC s mid (Msg.init now0 sess) evs = 1) :
    nackC s mid (Msg.run (Msg.init now0 sess) evs).out + remC s mid (Msg.init now0 sess) evs ≤ 1 := by
  have h := Coap.C06.m_single_outcome now0 sess evs hs hin s mid
  simp only at h
  omega

/-- **replies on other sessions never conclude a request**: in a run in which every datagram was received on a session other than
`s` - Empty ACKs, RSTs, responses carrying the very message id / token of (s, mid) included - the request (s, mid), once no longer
pending, has had exactly one NACK: nothing but its own give-up (or a RST on its own session - excluded here) ends it. -/
theorem replies_on_other_sessions_never_conclude (now0 : Nat) (sess : List Msg.Sess) (evs : List Msg.Ev)
    (hs : ∀ se ∈ sess, SessOk se) (hin : RunG (Msg.init now0 sess) evs) (s mid : Nat)
    (hacc : accC s mid (Msg.init now0 sess) evs = 1)
    (hother : ∀ ev ∈ evs, rxSess ev ≠ some s)
    (hq : pendC s mid (Msg.run (Msg.init now0 sess) evs).q.nodes = 0)
    (hd : midC mid ((Msg.run (Msg.init now0 sess) evs).getS s).delayq = 0) :
    nackC s mid (Msg.run (Msg.init now0 sess) evs).out = 1 := by
  have h := shared_queue_exactly_once_per_session now0 sess evs hs hin s mid hacc hq hd
  rw [remC_other_sessions s mid evs _ hother] at h
  omega

/-- non-vacuity: two sessions, both send message id 7 (MAX_RETRANSMIT 1); the ACK for id 7 arrives on session 1 only.  Session 1's
request is concluded by that removal (no NACK), session 0's - same id, same queue - by its own TOO_MANY_RETRIES NACK, once each. -/
def sharedEvs : List Msg.Ev :=
  [.submit 0 true 7 0, .submit 1 true 7 255, .setNow 1050, .rxAck 1 7, .setNow 3000, .prepare, .setNow 7000, .prepare]

example :
    let l0 := Msg.init 1000 [{ maxRtx := 1 }, { maxRtx := 1 }]
    (∀ se ∈ [({ maxRtx := 1 } : Msg.Sess), { maxRtx := 1 }], SessOk se) ∧ RunG l0 sharedEvs ∧
    accC 0 7 l0 sharedEvs = 1 ∧ accC 1 7 l0 sharedEvs = 1 ∧
    (∀ ev ∈ sharedEvs, rxSess ev ≠ some 0) ∧
    pendC 0 7 (Msg.run l0 sharedEvs).q.nodes = 0 ∧ pendC 1 7 (Msg.run l0 sharedEvs).q.nodes = 0 ∧
    nackC 0 7 (Msg.run l0 sharedEvs).out = 1 ∧ remC 0 7 l0 sharedEvs = 0 ∧
    nackC 1 7 (Msg.run l0 sharedEvs).out = 0 ∧ remC 1 7 l0 sharedEvs = 1 := by decide

end Coap.C07
