import CoapVerif.Model.Oscore
import CoapVerif.Spec.Oscore
import CoapVerif.Generated.Consts2
/-
C14 / T1 (workstream T1Y) — the option classification of the OSCORE model (Model/Oscore.lean `protectClass`,
`decryptSkips`) is the set of case labels of the two `switch (opt_iter.number)` statements of src/coap_oscore.c (source
scan of the labels, macro names evaluated by the compiler through extract/consts2.c), for EVERY option number; the nonce
layout numerals are the literals of oscore_generate_nonce and of its callers; AES-CCM-16-64-128 parameters are
`cose_key_len` / `cose_nonce_len` / `cose_tag_len` evaluated.
-/
namespace Coap.C14
open Coap Coap.M.Oscore Coap.Generated

/-- the protect switch of coap_oscore_new_pdu_encrypted_lkd: class 0 = the first label group (outer only), 1 = the second
(Observe), 2 = the third (Proxy-Uri), 3 = `default:` (inner), for every option number -/
theorem protectClass_matches_code (n : Nat) :
    protectClass n =
      if C2.oscoreProtectOuter.contains n then 0 else if C2.oscoreProtectObserve.contains n then 1
      else if C2.oscoreProtectProxyUri.contains n then 2 else 3 := by
  simp only [protectClass, C2.oscoreProtectOuter, C2.oscoreProtectObserve, C2.oscoreProtectProxyUri, List.contains_cons,
    List.contains_nil, Bool.or_false, Bool.or_eq_true, beq_iff_eq]

/-- the label groups are the Class U options RFC 8613 4.1 lists that libcoap keeps outer, by name -/
theorem protectGroups_match_code :
    C2.oscoreProtectOuter = [C2.COAP_OPTION_URI_HOST, C2.COAP_OPTION_URI_PORT, C2.COAP_OPTION_PROXY_SCHEME, C2.COAP_OPTION_HOP_LIMIT] ∧
    C2.oscoreProtectObserve = [C2.COAP_OPTION_OBSERVE] ∧ C2.oscoreProtectProxyUri = [C2.COAP_OPTION_PROXY_URI] := by decide

/-- the first switch of coap_oscore_decrypt_pdu: an outer option is dropped iff its number is one of the case labels, for
every option number -/
theorem decryptSkips_matches_code (n : Nat) : decryptSkips n = C2.oscoreDecryptSkips.contains n := by
  simp only [decryptSkips, C2.oscoreDecryptSkips, List.contains_cons, List.contains_nil, Bool.or_false]
  rw [Bool.eq_iff_iff]
  simp only [Bool.or_eq_true, decide_eq_true_eq, beq_iff_eq]
  omega

/-- `decryptMerge`: the OSCORE option (COAP_OPTION_OSCORE) is skipped, Observe (COAP_OPTION_OBSERVE) of a response is
rewritten, for all arguments -/
theorem decryptMerge_matches_code (req : Bool) (pivObs : Bytes) (outer inner : List (Nat × Bytes)) :
    decryptMerge req pivObs outer inner =
      inner.foldl (fun acc o =>
        if o.1 = C2.COAP_OPTION_OSCORE then acc
        else if o.1 = C2.COAP_OPTION_OBSERVE ∧ ¬ req then insertOpt acc (C2.COAP_OPTION_OBSERVE, pivObs.drop (pivObs.length - 3))
        else insertOpt acc o) (outer.filter fun o => !decryptSkips o.1) := rfl

/-- `oscore_generate_nonce(cose, ctx, nonce_buffer, 13)`: buffer size from the call sites, `size - 5` from the function,
for all inputs -/
theorem generateNonce_matches_code (commonIV kid piv : Bytes) :
    generateNonce commonIV kid piv =
      (let b0 := UInt8.ofNat (kid.length % 256) :: List.replicate (C2.oscoreNonceSize - 1) 0
       if kid.length > C2.oscoreNonceSize - C2.oscoreNoncePivLen then R.oob else
       let b1 := writeAt b0 (C2.oscoreNonceSize - C2.oscoreNoncePivLen - kid.length) kid
       if piv.length > C2.oscoreNonceSize then R.oob else
       let b2 := writeAt b1 (C2.oscoreNonceSize - piv.length) piv
       if commonIV.length < C2.oscoreNonceSize then R.oob else
       R.ok (xorLoop b2 commonIV)) := rfl

/-- AES-CCM-16-64-128: the algorithm id of S (`Spec.Oscore.algAesCcm`, RFC 9053) is the enum value of the code, the key /
nonce / tag lengths used by S's key derivation (16, 13) and by the nonce buffer are `cose_key_len`, `cose_nonce_len`,
`cose_tag_len` evaluated and the `_KEY_LEN` / `_NONCE_LEN` / `_TAG_LEN` macros -/
theorem aesCcm_parameters_match_code :
    Spec.Oscore.algAesCcm = Int.ofNat C2.COSE_ALGORITHM_AES_CCM_16_64_128 ∧
    (16 : Nat) = C2.aesCcmKeyLen ∧ C2.aesCcmKeyLen = C2.COSE_ALGORITHM_AES_CCM_16_64_128_KEY_LEN ∧
    (13 : Nat) = C2.aesCcmNonceLen ∧ C2.aesCcmNonceLen = C2.COSE_ALGORITHM_AES_CCM_16_64_128_NONCE_LEN ∧
    C2.oscoreNonceSize = C2.aesCcmNonceLen ∧
    (8 : Nat) = C2.aesCcmTagLen ∧ C2.aesCcmTagLen = C2.COSE_ALGORITHM_AES_CCM_16_64_128_TAG_LEN := by decide

/-- option numbers of S's vocabulary that M's dispatch uses (`Spec.Oscore.optUriHost` / `optObserve` / `optOscore`) -/
theorem oscoreOptionNumbers_match_code :
    Spec.Oscore.optUriHost = C2.COAP_OPTION_URI_HOST ∧ Spec.Oscore.optObserve = C2.COAP_OPTION_OBSERVE ∧
    Spec.Oscore.optOscore = C2.COAP_OPTION_OSCORE ∧ Spec.Oscore.maxSeq + 1 = C2.OSCORE_SEQ_MAX := by decide

end Coap.C14
