import CoapVerif.Model.Build
import CoapVerif.Model.WsWriter
import CoapVerif.Generated.Consts2
/-
C01 / T1 (workstream T1Y) — the numerals of the PDU-building model (Model/Build.lean) and of the WebSocket write side
(Model/WsWriter.lean) are the macros of include/coap3/coap_pdu_internal.h, coap_pdu.h, coap_ws_internal.h as the compiler
sees them, `coap_opt_encode_size` EVALUATED over 0..65535 (thresholds of the 13/269 scheme), and the literals of
coap_ws_write / coap_ws_close (source scan).  Every theorem re-states a model FUNCTION with the generated constants in
place of the literals, for all arguments, unless said otherwise.  Spec/Encode.lean is written from the RFCs and is not tied.
-/
namespace Coap.C01
open Coap Coap.M Coap.Generated

/-- `if (size > ((size_t)COAP_DEFAULT_MAX_PDU_RX_SIZE - pdu->max_hdr_size)) return NULL;` with
`max_hdr_size = COAP_PDU_MAX_TCP_HEADER_SIZE` -/
theorem pduInit_bound_matches_code (type code mid size : Nat) :
    pduInit type code mid size =
      if size > C2.COAP_DEFAULT_MAX_PDU_RX_SIZE - C2.COAP_PDU_MAX_TCP_HEADER_SIZE then none
      else some ⟨type, code, mid, size, [], 0, 0, 0, none⟩ := rfl

/-- the earlier extractor (extract/repeatable.c, Generated/Repeatable.lean) and this one agree -/
theorem repeatableConsts_match_code :
    Generated.tokenExtMax = C2.COAP_TOKEN_EXT_MAX ∧ Generated.maxPduRx = C2.COAP_DEFAULT_MAX_PDU_RX_SIZE ∧
    Generated.maxHdrSize = C2.COAP_PDU_MAX_TCP_HEADER_SIZE ∧ Generated.tcpOfs8 = C2.COAP_MESSAGE_SIZE_OFFSET_TCP8 ∧
    Generated.tcpOfs16 = C2.COAP_MESSAGE_SIZE_OFFSET_TCP16 ∧ Generated.tcpOfs32 = C2.COAP_MESSAGE_SIZE_OFFSET_TCP32 ∧
    Generated.tokBias1 = C2.COAP_TOKEN_EXT_1B_BIAS ∧ Generated.tokBias2 = C2.COAP_TOKEN_EXT_2B_BIAS ∧
    Generated.optHopLimit = C2.COAP_OPTION_HOP_LIMIT ∧ Generated.optProxyUri = C2.COAP_OPTION_PROXY_URI ∧
    Generated.optProxyScheme = C2.COAP_OPTION_PROXY_SCHEME := by decide

/-- `coap_opt_encode_size`: the compiled function is two threshold tests per argument (`optEncodeThresholds = 1`, checked
by the extractor for all 65536 values of each argument) and the thresholds are the model's -/
theorem optEncodeSize_matches_code (delta length : Nat) :
    C2.optEncodeThresholds = 1 ∧
    optEncodeSize delta length =
      1 + (if delta ≥ C2.optDeltaExt1 then (if delta < C2.optDeltaExt2 then 1 else 2) else 0)
        + (if length ≥ C2.optLenExt1 then (if length < C2.optLenExt2 then 1 else 2) else 0) + length := ⟨rfl, rfl⟩

/-- `coap_opt_setheader`: the nibbles 13 / 14 and the biases 13 / 269 are those thresholds; the option-number and the
byte moduli are the widths of `coap_option_num_t` and `uint8_t` -/
theorem optSetHeader_matches_code (delta length : Nat) :
    optSetHeader delta length =
      (let d : Nat × List Nat :=
        if delta < C2.optDeltaExt1 then ((delta * 16) % 256, [])
        else if delta < C2.optDeltaExt2 then (C2.optDeltaExt1 * 16, [(delta - C2.optDeltaExt1) % 256])
        else ((C2.optDeltaExt1 + 1) * 16, [(delta - C2.optDeltaExt2) / 256 % 256, (delta - C2.optDeltaExt2) % 256])
      let l : Nat × List Nat :=
        if length < C2.optLenExt1 then (length % 16, [])
        else if length < C2.optLenExt2 then (C2.optLenExt1, [(length - C2.optLenExt1) % 256])
        else (C2.optLenExt1 + 1, [(length - C2.optLenExt2) / 256 % 256, (length - C2.optLenExt2) % 256])
      (UInt8.ofNat (d.1 + l.1) :: (d.2.map UInt8.ofNat)) ++ l.2.map UInt8.ofNat) := rfl

/-- `coap_add_token` / `coap_update_token`: COAP_TOKEN_EXT_1B_BIAS, _2B_BIAS, COAP_TOKEN_EXT_MAX -/
theorem tokBias_matches_code (len : Nat) :
    tokBias len =
      if len < C2.COAP_TOKEN_EXT_1B_BIAS then some 0 else if len < C2.COAP_TOKEN_EXT_2B_BIAS then some 1
      else if len ≤ C2.COAP_TOKEN_EXT_MAX then some 2 else none := rfl

theorem tokHdr_matches_code (len bias : Nat) :
    tokHdr len bias =
      if bias = 0 then []
      else if bias = 1 then [UInt8.ofNat (len - C2.COAP_TOKEN_EXT_1B_BIAS)]
      else [UInt8.ofNat ((len - C2.COAP_TOKEN_EXT_2B_BIAS) / 256), UInt8.ofNat ((len - C2.COAP_TOKEN_EXT_2B_BIAS) % 256)] := rfl

/-- `coap_pdu_encode_header`, UDP: `COAP_DEFAULT_VERSION << 6 | type << 4 | tkl` with the TKL nibble
COAP_TOKEN_EXT_1B_TKL / _2B_TKL, for every PDU -/
theorem encodeHeader_udp_matches_code (pdu : Pdu) :
    encodeHeader .udp pdu =
      (if pdu.tokLen < C2.COAP_TOKEN_EXT_1B_BIAS then some (pdu.tokLen % 256)
       else if pdu.tokLen < C2.COAP_TOKEN_EXT_2B_BIAS then some C2.COAP_TOKEN_EXT_1B_TKL
       else if pdu.tokLen ≤ C2.COAP_TOKEN_EXT_MAX then some C2.COAP_TOKEN_EXT_2B_TKL
       else none).map fun tkl =>
        [UInt8.ofNat (C2.COAP_DEFAULT_VERSION * 64 + pdu.type * 16 + tkl), UInt8.ofNat pdu.code,
         UInt8.ofNat (pdu.mid / 256), UInt8.ofNat pdu.mid] := by
  unfold encodeHeader
  by_cases h1 : pdu.tokLen < 13
  · simp [h1, show C2.COAP_TOKEN_EXT_1B_BIAS = 13 from rfl, show C2.COAP_DEFAULT_VERSION = 1 from rfl]
  · by_cases h2 : pdu.tokLen < 269
    · simp [h1, h2, show C2.COAP_TOKEN_EXT_1B_BIAS = 13 from rfl, show C2.COAP_TOKEN_EXT_2B_BIAS = 269 from rfl,
        show C2.COAP_TOKEN_EXT_1B_TKL = 13 from rfl, show C2.COAP_DEFAULT_VERSION = 1 from rfl]
    · by_cases h3 : pdu.tokLen ≤ 65804
      · simp [h1, h2, h3, show C2.COAP_TOKEN_EXT_1B_BIAS = 13 from rfl, show C2.COAP_TOKEN_EXT_2B_BIAS = 269 from rfl,
          show C2.COAP_TOKEN_EXT_MAX = 65804 from rfl, show C2.COAP_TOKEN_EXT_2B_TKL = 14 from rfl,
          show C2.COAP_DEFAULT_VERSION = 1 from rfl]
      · simp [h1, h2, h3, show C2.COAP_TOKEN_EXT_1B_BIAS = 13 from rfl, show C2.COAP_TOKEN_EXT_2B_BIAS = 269 from rfl,
          show C2.COAP_TOKEN_EXT_MAX = 65804 from rfl]

/-- the length forms of the reliable header (`len ≤ 12 / ≤ 268 / ≤ 65804`, biases 13 / 269 / 65805, nibbles 13 / 14 /
15) inside `encodeHeader` are COAP_MAX_MESSAGE_SIZE_TCP0/8/16 and COAP_MESSAGE_SIZE_OFFSET_TCP8/16/32; the Len nibbles
are 13, 14, 15 by RFC 8323 (literals `0xd0`, `0xe0`, `0xf0` in the C code) -/
theorem encodeHeader_tcp_numerals_match_code :
    (12 : Nat) = C2.COAP_MAX_MESSAGE_SIZE_TCP0 ∧ (268 : Nat) = C2.COAP_MAX_MESSAGE_SIZE_TCP8 ∧
    (65804 : Nat) = C2.COAP_MAX_MESSAGE_SIZE_TCP16 ∧ (13 : Nat) = C2.COAP_MESSAGE_SIZE_OFFSET_TCP8 ∧
    (269 : Nat) = C2.COAP_MESSAGE_SIZE_OFFSET_TCP16 ∧ (65805 : Nat) = C2.COAP_MESSAGE_SIZE_OFFSET_TCP32 := by decide

/-- `% 65536` on option numbers / deltas / `max_opt` (parse loop, `insertOption`, `addOptionInternal`), the `0xFF`
payload marker (`addData`, the parse loop), the implicit Hop-Limit (number 16 with value [16] when Proxy-Uri 35 or
Proxy-Scheme 39 is added to a request), and the `data.length > 65804` refusals of addOption / insertOption / updateOption -/
theorem build_numerals_match_code :
    (65536 : Nat) = C2.optNumModulus ∧ (65536 : Nat) = C2.maxOptModulus ∧ (65535 : Nat) = C2.COAP_MAX_OPT ∧
    (0xFF : Nat) = C2.COAP_PAYLOAD_START ∧
    (16 : Nat) = C2.COAP_OPTION_HOP_LIMIT ∧ (16 : Nat) = C2.COAP_DEFAULT_HOP_LIMIT ∧
    (35 : Nat) = C2.COAP_OPTION_PROXY_URI ∧ (39 : Nat) = C2.COAP_OPTION_PROXY_SCHEME ∧
    (65804 : Nat) = C2.COAP_TOKEN_EXT_MAX := by decide

/-! ### WebSocket write side (Model/WsWriter.lean) -/
open Coap.M.WsW

/-- the three length forms of `coap_ws_write`, for every length -/
theorem wsLenField_matches_code (datalen : Nat) :
    lenField datalen =
      if datalen ≤ C2.wsLen7Max then (u8 (datalen % (C2.WS_B1_LEN_MASK + 1)), [])
      else if datalen ≤ C2.wsLen16Max then (UInt8.ofNat C2.wsLen16Code, [u8 (datalen / 2 ^ 8), u8 datalen])
      else (UInt8.ofNat C2.wsLen64Code,
            [u8 (datalen / 2 ^ 56), u8 (datalen / 2 ^ 48), u8 (datalen / 2 ^ 40), u8 (datalen / 2 ^ 32),
             u8 (datalen / 2 ^ 24), u8 (datalen / 2 ^ 16), u8 (datalen / 2 ^ 8), u8 datalen]) := rfl

/-- `WS_B0_FIN_BIT | WS_OP_BINARY`, `WS_B1_MASK_BIT` of the data frame header, for every role / key / length -/
theorem wsHeader_matches_code (role : Role) (key : Bytes) (datalen : Nat) :
    header role key datalen =
      match role with
      | .client => (UInt8.ofNat C2.WS_B0_FIN_BIT ||| UInt8.ofNat C2.WS_OP_BINARY) ::
                   ((lenField datalen).1 ||| UInt8.ofNat C2.WS_B1_MASK_BIT) :: ((lenField datalen).2 ++ key)
      | .server => (UInt8.ofNat C2.WS_B0_FIN_BIT ||| UInt8.ofNat C2.WS_OP_BINARY) :: (lenField datalen).1 :: (lenField datalen).2 := by
  cases role <;> rfl

/-- `WS_B0_FIN_BIT | WS_OP_CLOSE`, `ws_header[1] = 2`, `WS_B1_MASK_BIT` of the Close frame -/
theorem wsCloseFrame_matches_code (role : Role) (key : Bytes) (reason : Nat) :
    closeFrame role key reason =
      match role with
      | .client => (UInt8.ofNat C2.WS_B0_FIN_BIT ||| UInt8.ofNat C2.WS_OP_CLOSE) ::
                   (UInt8.ofNat C2.wsCloseLen ||| UInt8.ofNat C2.WS_B1_MASK_BIT) ::
                   (key ++ maskData key 0 [u8 (reason / 2 ^ 8), u8 reason])
      | .server => (UInt8.ofNat C2.WS_B0_FIN_BIT ||| UInt8.ofNat C2.WS_OP_CLOSE) :: UInt8.ofNat C2.wsCloseLen ::
                   [u8 (reason / 2 ^ 8), u8 reason] := by
  cases role <;> rfl

/-- `session->ws->close_reason = 1000` when it is 0 (`wsClose`) -/
theorem wsCloseDefaultReason_matches_code : (1000 : Nat) = C2.wsCloseDefaultReason := by decide

end Coap.C01
