import CoapVerif.Lemmas.Exchange
import CoapVerif.Lemmas.ExchangeTimed
import CoapVerif.Lemmas.ExchangeRun
import CoapVerif.Lemmas.ExchangeServer
/-
C07 — each request concludes exactly once despite loss, duplication and delay.

All theorems are about M = `Coap.Exch.Client` (Model/Exchange.lean), the transcription of the client side of
coap_dispatch / handle_response and of the message layer underneath, which is tied to the compiled code by exact
trace equality on every schedule run (props/C07.py).

SPEC DECISIONS (see design/C07.md)
  D1  "one exchange outstanding per session": the application sends its next request when the previous exchange is
      over on the wire; in M: the delay queue is empty and at most the request itself is on the send queue.
  D2  exactly-once is claimed for a server that produces ONE response message per request (piggybacked ACK with the
      request's mid, or one separate CON/NON message with its own mid, retransmitted / duplicated at will).
  D3  a NON response is delivered once per copy that the network delivers (the property's last clause).
  D4  a FAIL verdict on a piggybacked (ACK) response cannot be answered by a Reset; FAIL ⇒ RST for CON and NON.
  D5  "never neither once the network is quiet": a request whose empty ACK arrived and whose separate response was
      lost on every transmission stays open (RFC 7252 leaves this to an application timeout).
-/
namespace Coap.C07
open Coap.Exch

/-! ### one received response: ACK / RST rules, duplicate filter, NON delivery (any client state with D1) -/

private theorem hr_con (c : Client) (now : Nat) (d : Dgram) (ok : Bool)
    (h : c.L.delayq = []) (hd : d.type = .con) :
    (c.handleResponse now d ok).2 =
      (if c.lastCon = some d.mid then (if c.lastResOk then ackFor d else rstFor d)
       else Out.callResponse d ok :: (if ok then ackFor d else rstFor d)) ∧
    (c.handleResponse now d ok).1.L.delayq = [] ∧
    (∀ n ∈ (c.handleResponse now d ok).1.L.sendq, n ∈ c.L.sendq ∧ n.d.token ≠ d.token) := by
  have hc := Layer.cancelAll_nil now d.token c.L h
  unfold Client.handleResponse
  generalize Layer.cancelAll now d.token c.L = r at hc ⊢
  obtain ⟨L1, o1⟩ := r
  obtain ⟨h1, h2, h3⟩ := hc
  simp only at h1 h2 h3
  subst h1
  by_cases hdup : c.lastCon = some d.mid
  · simp [hd, hdup, h2]
    exact h3
  · cases ok <;> simp [hd, hdup, h2] <;> exact h3

private theorem hr_non (c : Client) (now : Nat) (d : Dgram) (ok : Bool)
    (h : c.L.delayq = []) (hd : d.type = .non) :
    (c.handleResponse now d ok).2 = Out.callResponse d ok :: (if ok then [] else rstFor d) ∧
    (c.handleResponse now d ok).1.L.delayq = [] ∧
    (∀ n ∈ (c.handleResponse now d ok).1.L.sendq, n ∈ c.L.sendq ∧ n.d.token ≠ d.token) := by
  have hc := Layer.cancelAll_nil now d.token c.L h
  unfold Client.handleResponse
  generalize Layer.cancelAll now d.token c.L = r at hc ⊢
  obtain ⟨L1, o1⟩ := r
  obtain ⟨h1, h2, h3⟩ := hc
  simp only at h1 h2 h3
  subst h1
  cases ok <;> simp [hd, h2, ackFor] <;> exact h3

private theorem hr_ack (c : Client) (now : Nat) (d : Dgram) (ok : Bool) (hd : d.type = .ack) :
    (c.handleResponse now d ok).2 = (if c.lastAck = some d.mid then [] else [Out.callResponse d ok]) ∧
    (c.handleResponse now d ok).1.L = c.L := by
  unfold Client.handleResponse
  by_cases hdup : c.lastAck = some d.mid
  · simp [hd, hdup]
  · cases ok <;> simp [hd, hdup, ackFor]

private theorem rx_ack_out (c : Client) (now : Nat) (d : Dgram) (ok : Bool)
    (h : c.L.delayq = []) (hd : d.type = .ack) (hr : isResponse d.code = true) :
    (c.rx now d ok).2 = (if c.lastAck = some d.mid then [] else [Out.callResponse d ok]) ∧
    (c.rx now d ok).1.L.sendq = (Layer.removeByMid d.mid c.L.sendq).2 := by
  have hcc := isResponse_codeClassOk hr
  have hne := isResponse_not_empty hr
  have hnr := isResponse_not_request hr
  unfold Client.rx
  simp only [hcc, hd, Bool.not_true]
  cases hrm : Layer.removeByMid d.mid c.L.sendq with
  | mk sent q =>
    cases sent with
    | none =>
      simp [hne, hnr, hr, (hr_ack _ now d ok hd).1, (hr_ack _ now d ok hd).2]
    | some n =>
      have hrel := Layer.release_nil now { sendq := q, delayq := c.L.delayq, conActive := c.L.conActive } h
      simp [hne, hnr, hr, (hr_ack _ now d ok hd).1, (hr_ack _ now d ok hd).2, hrel]

/-- **Every Confirmable response is acknowledged** — exactly one ACK or RST carrying its message id is sent, whatever
    the client's state; when it is a duplicate (`last_con_mid`) it is acknowledged again and NOT passed to the handler. -/
theorem con_response_always_acked (c : Client) (now : Nat) (d : Dgram) (ok : Bool)
    (h : c.L.delayq = []) (hd : d.type = .con) (hr : isResponse d.code = true) :
    ∃ k, (k = MType.ack ∨ k = MType.rst) ∧
      (c.rx now d ok).2 =
        (if c.lastCon = some d.mid then [] else [Out.callResponse d ok]) ++
        [Out.tx { type := k, code := 0, mid := d.mid, token := [] }] := by
  have hcc := isResponse_codeClassOk hr
  have h1 := (hr_con c now d ok h hd).1
  unfold Client.rx
  simp only [hcc, hd, hr, Bool.not_true, if_true]
  rw [show (if false = true then (c, [Out.unmodelled]) else c.handleResponse now d ok) = c.handleResponse now d ok by simp]
  rw [h1]
  by_cases hdup : c.lastCon = some d.mid
  · cases hro : c.lastResOk
    · exact ⟨.rst, Or.inr rfl, by simp [hdup, rstFor]⟩
    · exact ⟨.ack, Or.inl rfl, by simp [hdup, ackFor, hd]⟩
  · cases ok
    · exact ⟨.rst, Or.inr rfl, by simp [hdup, rstFor]⟩
    · exact ⟨.ack, Or.inl rfl, by simp [hdup, ackFor, hd]⟩

/-- **A duplicate is not re-delivered**: a CON response whose mid is `last_con_mid`, or a piggybacked response whose
    mid is `last_ack_mid`, never reaches the response handler. -/
theorem duplicate_not_redelivered (c : Client) (now : Nat) (d : Dgram) (ok : Bool)
    (h : c.L.delayq = []) (hr : isResponse d.code = true)
    (hdup : (d.type = .con ∧ c.lastCon = some d.mid) ∨ (d.type = .ack ∧ c.lastAck = some d.mid)) :
    nRsp (c.rx now d ok).2 = 0 := by
  have hcc := isResponse_codeClassOk hr
  rcases hdup with ⟨hd, hl⟩ | ⟨hd, hl⟩
  · obtain ⟨k, _, hk⟩ := con_response_always_acked c now d ok h hd hr
    rw [hk]; simp [hl]
  · rw [(rx_ack_out c now d ok h hd hr).1]; simp [hl]

/-- **A handler verdict of FAIL produces a Reset** (D4: for a CON or NON response that is delivered) and no ACK. -/
theorem fail_verdict_resets (c : Client) (now : Nat) (d : Dgram)
    (h : c.L.delayq = []) (hr : isResponse d.code = true)
    (hd : (d.type = .con ∧ c.lastCon ≠ some d.mid) ∨ d.type = .non) :
    (c.rx now d false).2 = [Out.callResponse d false, Out.tx { type := .rst, code := 0, mid := d.mid, token := [] }] := by
  have hcc := isResponse_codeClassOk hr
  rcases hd with ⟨hd, hl⟩ | hd
  · have h1 := (hr_con c now d false h hd).1
    unfold Client.rx
    simp only [hcc, hd, hr, Bool.not_true, if_true]
    rw [show (if false = true then (c, [Out.unmodelled]) else c.handleResponse now d false) = c.handleResponse now d false by simp]
    rw [h1]; simp [hl, rstFor]
  · have h1 := (hr_non c now d false h hd).1
    unfold Client.rx
    simp only [hcc, hd, hr, Bool.not_true, if_true]
    rw [show (if false = true then (c, [Out.unmodelled]) else c.handleResponse now d false) = c.handleResponse now d false by simp]
    rw [h1]; simp [rstFor]

/-- **A Non-confirmable message is delivered once per datagram received**: every arrival of a NON response produces
    exactly one handler call, carrying that message — there is no duplicate filter for NON, in any client state. -/
theorem non_delivered_once_per_datagram (c : Client) (now : Nat) (d : Dgram) (ok : Bool)
    (h : c.L.delayq = []) (hd : d.type = .non) (hr : isResponse d.code = true) :
    nRsp (c.rx now d ok).2 = 1 ∧ Out.callResponse d ok ∈ (c.rx now d ok).2 := by
  have hcc := isResponse_codeClassOk hr
  have h1 := (hr_non c now d ok h hd).1
  unfold Client.rx
  simp only [hcc, hd, hr, Bool.not_true, if_true]
  rw [show (if false = true then (c, [Out.unmodelled]) else c.handleResponse now d ok) = c.handleResponse now d ok by simp]
  rw [h1]
  cases ok <;> simp [rstFor]

/-- phases of one exchange as seen by the client -/
inductive Ph where
  | waiting | acked | responded | nacked
  deriving DecidableEq, Repr

/-- static facts about the exchange: `req` the Confirmable request, `r` THE response message of the server (D2) -/
structure Exchange (req r : Dgram) : Prop where
  hreq : req.type = .con
  hr : isResponse r.code = true
  htok : r.token = req.token
  htype : r.type = .ack ∨ r.type = .con
  hpb : r.type = .ack → r.mid = req.mid

def fresh (c : Client) (r : Dgram) : Prop :=
  (r.type = .ack → c.lastAck ≠ some r.mid) ∧ (r.type = .con → c.lastCon ≠ some r.mid)
def seen (c : Client) (r : Dgram) : Prop :=
  (r.type = .ack → c.lastAck = some r.mid) ∧ (r.type = .con → c.lastCon = some r.mid)

def PhOk (req r : Dgram) : Ph → Client → Prop
  | .waiting, c => (∃ n, c.L = Wt n ∧ n.d = req) ∧ fresh c r
  | .acked, c => c.L = Idle ∧ fresh c r
  | .responded, c => c.L = Idle ∧ seen c r
  | .nacked, c => c.L = Idle

/-- what can happen to the client during the exchange: time passes (any `now`, any number of times), a copy of the
    empty ACK arrives, a copy of the response message arrives — any number of copies in any order = every pattern
    of loss, duplication and delay of the datagrams of a server that answers with one response message -/
inductive ExEv (req r : Dgram) : CEvent → Prop where
  | tick (now : Nat) : ExEv req r (.tick now)
  | emptyAck (now : Nat) (ok : Bool) : ExEv req r (.rx now (emptyAck req.mid) ok)
  | response (now : Nat) (ok : Bool) : ExEv req r (.rx now r ok)

def isRsp (r : Dgram) : CEvent → Prop
  | .rx _ d _ => d = r
  | _ => False

def scoreR : Ph → Nat | .responded => 1 | _ => 0
def scoreN : Ph → Nat | .nacked => 1 | _ => 0

theorem step_ph {req r : Dgram} (X : Exchange req r) (ph : Ph) (c : Client) (hok : PhOk req r ph c)
    (e : CEvent) (he : ExEv req r e) (hlate : ph = .nacked → ¬ isRsp r e) :
    ∃ ph', PhOk req r ph' (c.step e).1 ∧ scoreR ph' = scoreR ph + nRsp (c.step e).2 ∧
           scoreN ph' = scoreN ph + nNack (c.step e).2 ∧ (isRsp r e → ph' = .responded) := by
  cases he with
  | tick now =>
    simp only [Client.step, Client.tick, isRsp, false_implies, and_true]
    cases ph with
    | waiting =>
      obtain ⟨⟨n, hL, hn⟩, hf⟩ := hok
      have hc : n.d.type = .con := by rw [hn]; exact X.hreq
      rw [hL]
      rcases Layer.tick_Wt now (((Wt n).sendq.length + 1) * 6) n hc with ⟨n', a1, a2, a3, a4⟩ | ⟨a1, a3, a4⟩
      · refine ⟨.waiting, ⟨⟨n', ?_, a2.trans hn⟩, hf⟩, ?_, ?_⟩
        · simpa [Layer.tickAll] using a1
        · simpa [Layer.tickAll, scoreR] using a3.symm
        · simpa [Layer.tickAll, scoreN] using a4.symm
      · refine ⟨.nacked, ?_, ?_, ?_⟩
        · simpa [PhOk, Layer.tickAll] using a1
        · simpa [Layer.tickAll, scoreR] using a3.symm
        · simpa [Layer.tickAll, scoreN] using a4.symm
    | acked =>
      obtain ⟨hL, hf⟩ := hok
      refine ⟨.acked, ⟨?_, hf⟩, ?_, ?_⟩ <;> simp [hL, Layer.tickAll, Layer.tick_Idle, scoreR, scoreN]
    | responded =>
      obtain ⟨hL, hf⟩ := hok
      refine ⟨.responded, ⟨?_, hf⟩, ?_, ?_⟩ <;> simp [hL, Layer.tickAll, Layer.tick_Idle, scoreR, scoreN]
    | nacked =>
      refine ⟨.nacked, ?_, ?_, ?_⟩ <;> simp [PhOk] at hok ⊢ <;> simp [hok, Layer.tickAll, Layer.tick_Idle]
  | emptyAck now ok =>
    simp only [Client.step, isRsp]
    have hne : emptyAck req.mid = r → False := by
      intro h
      have := X.hr
      rw [← h] at this
      simp [emptyAck, isResponse] at this
    cases ph with
    | waiting =>
      obtain ⟨⟨n, hL, hn⟩, hf⟩ := hok
      have := rx_emptyAck_Wt c now ok n hL
      rw [hn] at this
      rw [this]
      exact ⟨.acked, ⟨rfl, hf⟩, by simp [scoreR], by simp [scoreN], fun h => (hne h).elim⟩
    | acked =>
      obtain ⟨hL, hf⟩ := hok
      rw [rx_emptyAck_Idle c now ok req.mid hL]
      exact ⟨.acked, ⟨hL, hf⟩, by simp [scoreR], by simp [scoreN], fun h => (hne h).elim⟩
    | responded =>
      obtain ⟨hL, hf⟩ := hok
      rw [rx_emptyAck_Idle c now ok req.mid hL]
      exact ⟨.responded, ⟨hL, hf⟩, by simp [scoreR], by simp [scoreN], fun _ => rfl⟩
    | nacked =>
      have hL : c.L = Idle := hok
      rw [rx_emptyAck_Idle c now ok req.mid hL]
      exact ⟨.nacked, hL, by simp [scoreR], by simp [scoreN], fun h => (hne h).elim⟩
  | response now ok =>
    simp only [Client.step, isRsp, true_implies]
    rcases X.htype with ht | ht
    · -- piggybacked response
      have hm := X.hpb ht
      cases ph with
      | waiting =>
        obtain ⟨⟨n, hL, hn⟩, hf⟩ := hok
        have hfr := hf.1 ht
        rw [rx_pb_Wt c now r ok n hL ht X.hr (by rw [hn]; exact hm)]
        simp only [hfr, if_false]
        exact ⟨.responded, ⟨rfl, ⟨fun _ => rfl, (fun h => by rw [ht] at h; cases h)⟩⟩, by simp [scoreR], by simp [scoreN], rfl⟩
      | acked =>
        obtain ⟨hL, hf⟩ := hok
        have hfr := hf.1 ht
        rw [rx_pb_Idle c now r ok hL ht X.hr]
        simp only [hfr, if_false]
        exact ⟨.responded, ⟨hL, ⟨fun _ => rfl, (fun h => by rw [ht] at h; cases h)⟩⟩, by simp [scoreR], by simp [scoreN], rfl⟩
      | responded =>
        obtain ⟨hL, hs⟩ := hok
        have hse := hs.1 ht
        rw [rx_pb_Idle c now r ok hL ht X.hr]
        simp only [hse, if_true]
        exact ⟨.responded, ⟨hL, hs⟩, by simp [scoreR], by simp [scoreN], rfl⟩
      | nacked => exact absurd rfl (hlate rfl)
    · -- separate Confirmable response
      cases ph with
      | waiting =>
        obtain ⟨⟨n, hL, hn⟩, hf⟩ := hok
        have hfr := hf.2 ht
        rw [rx_con_Wt c now r ok n hL ht X.hr (by rw [hn]; exact X.htok.symm) (by rw [hn]; exact X.hreq)]
        simp only [hfr, if_false]
        refine ⟨.responded, ⟨rfl, ⟨(fun h => by rw [ht] at h; cases h), fun _ => rfl⟩⟩, ?_, ?_, rfl⟩
        · cases ok <;> simp [scoreR, ackFor, rstFor, ht]
        · cases ok <;> simp [scoreN, ackFor, rstFor, ht]
      | acked =>
        obtain ⟨hL, hf⟩ := hok
        have hfr := hf.2 ht
        rw [rx_con_Idle c now r ok hL ht X.hr]
        simp only [hfr, if_false]
        refine ⟨.responded, ⟨rfl, ⟨(fun h => by rw [ht] at h; cases h), fun _ => rfl⟩⟩, ?_, ?_, rfl⟩
        · cases ok <;> simp [scoreR, ackFor, rstFor, ht]
        · cases ok <;> simp [scoreN, ackFor, rstFor, ht]
      | responded =>
        obtain ⟨hL, hs⟩ := hok
        have hse := hs.2 ht
        rw [rx_con_Idle c now r ok hL ht X.hr]
        simp only [hse, if_true]
        refine ⟨.responded, ⟨rfl, ⟨(fun h => by rw [ht] at h; cases h), fun _ => rfl⟩⟩, ?_, ?_, rfl⟩
        · cases c.lastResOk <;> simp [scoreR, ackFor, rstFor, ht]
        · cases c.lastResOk <;> simp [scoreN, ackFor, rstFor, ht]
      | nacked => exact absurd rfl (hlate rfl)


/-- "no copy of the response reaches the client after it has given up": once the NACK handler has run, no later
    event is an arrival of the response message.  (Implied by network delays < ACK_TIMEOUT when the server's own
    delay and retransmissions end before the client's last wait of 16·T expires; NOT implied in general — that
    remainder is the open finding `unsolicited_response_delivered`, see `late_response_after_nack_witness`.) -/
def NoLate (r : Dgram) : Client → List CEvent → Prop
  | _, [] => True
  | c, e :: es => (nNack (c.step e).2 > 0 → ∀ e' ∈ es, ¬ isRsp r e') ∧ NoLate r (c.step e).1 es

theorem run_ph {req r : Dgram} (X : Exchange req r) :
    ∀ (es : List CEvent) (ph : Ph) (c : Client), PhOk req r ph c → (∀ e ∈ es, ExEv req r e) → NoLate r c es →
      (ph = .nacked → ∀ e ∈ es, ¬ isRsp r e) →
      ∃ ph', PhOk req r ph' (Client.run c es).1 ∧ scoreR ph' = scoreR ph + nRsp (Client.run c es).2 ∧
             scoreN ph' = scoreN ph + nNack (Client.run c es).2 ∧
             ((ph' = .waiting ∨ ph' = .acked) → ∀ e ∈ es, ¬ isRsp r e) := by
  intro es
  induction es with
  | nil => intro ph c hok _ _ _; exact ⟨ph, hok, by simp [Client.run], by simp [Client.run], by simp⟩
  | cons e es ih =>
    intro ph c hok hev hnl hna
    obtain ⟨ph1, hok1, hr1, hn1, hrsp1⟩ :=
      step_ph X ph c hok e (hev e (List.mem_cons_self ..)) (fun h => hna h e (List.mem_cons_self ..))
    have hna1 : ph1 = .nacked → ∀ e' ∈ es, ¬ isRsp r e' := by
      intro h1
      by_cases hp : ph = .nacked
      · intro e' he'; exact hna hp e' (List.mem_cons_of_mem _ he')
      · have : nNack (c.step e).2 > 0 := by
          rw [h1] at hn1
          cases ph <;> simp [scoreN] at hn1 hp ⊢ <;> omega
        exact hnl.1 this
    obtain ⟨ph2, hok2, hr2, hn2, hw2⟩ :=
      ih ph1 (c.step e).1 hok1 (fun e' he' => hev e' (List.mem_cons_of_mem _ he')) hnl.2 hna1
    refine ⟨ph2, ?_, ?_, ?_, ?_⟩
    · simpa [Client.run] using hok2
    · simp only [Client.run, nRsp_append]; omega
    · simp only [Client.run, nNack_append]; omega
    · intro hw e' he'
      rcases List.mem_cons.mp he' with rfl | hmem
      · intro hisr
        have h1 := hrsp1 hisr
        rw [h1] at hr2
        rcases hw with hw | hw <;> rw [hw] at hr2 <;> simp [scoreR] at hr2 <;> omega
      · exact hw2 hw e' hmem

/-- **At most one conclusion** (never both, never twice): for a Confirmable request sent from a quiet session (D1)
    whose dedup slots do not already hold the ids of this exchange, and for EVERY sequence of time steps and
    arrivals of copies of the empty ACK and of the server's response message (D2) — i.e. every pattern of loss,
    duplication, delay and retransmission — the response handler and the NACK handler are called at most once
    in total. -/
theorem at_most_one_conclusion {req r : Dgram} (X : Exchange req r) (c0 : Client) (hidle : c0.L = Idle)
    (hfresh : fresh c0 r) (now0 T : Nat) (es : List CEvent) (hes : ∀ e ∈ es, ExEv req r e)
    (hlate : NoLate r (c0.appSend now0 req T).1 es) :
    nRsp (Client.run c0 (.appSend now0 req T :: es)).2 + nNack (Client.run c0 (.appSend now0 req T :: es)).2 ≤ 1 ∧
    ((Client.run c0 (.appSend now0 req T :: es)).1.L.sendq = [] →
      nRsp (Client.run c0 (.appSend now0 req T :: es)).2 + nNack (Client.run c0 (.appSend now0 req T :: es)).2 = 1 ∨
      ∀ e ∈ es, ¬ isRsp r e) := by
  have hs := appSend_Idle c0 now0 req T hidle X.hreq
  have hok : PhOk req r .waiting (c0.appSend now0 req T).1 := by
    rw [hs]; exact ⟨⟨_, rfl, rfl⟩, hfresh⟩
  obtain ⟨ph', hok', hr', hn', hw'⟩ := run_ph X es .waiting _ hok hes hlate (fun h => by cases h)
  have hrun : Client.run c0 (.appSend now0 req T :: es) =
      ((Client.run (c0.appSend now0 req T).1 es).1, (c0.appSend now0 req T).2 ++ (Client.run (c0.appSend now0 req T).1 es).2) := by
    simp [Client.run, Client.step]
  rw [hrun]
  have ho : (c0.appSend now0 req T).2 = [Out.tx req] := by rw [hs]
  simp only [ho, nRsp_append, nNack_append]
  have h0r : nRsp [Out.tx req] = 0 := by simp
  have h0n : nNack [Out.tx req] = 0 := by simp
  refine ⟨?_, ?_⟩
  · cases ph' <;> simp [scoreR, scoreN] at hr' hn' <;> omega
  · intro hq
    cases ph' with
    | waiting =>
      obtain ⟨⟨n, hL, _⟩, _⟩ := hok'
      rw [hL] at hq; simp [Wt] at hq
    | acked => right; exact hw' (Or.inr rfl)
    | responded => left; simp [scoreR, scoreN] at hr' hn'; omega
    | nacked => left; simp [scoreR, scoreN] at hr' hn'; omega


/-- **A piggybacked or separate response stops retransmission of the request** (one step, any client state with D1:
    nothing held back, at most the request on the send queue): after the arrival of a response no node with the
    response's token (CON / NON response: coap_cancel_all_messages) resp. with its message id (piggybacked response:
    removal by mid) is left on the send queue, and the delay queue is still empty — `Layer.tick` only ever
    transmits nodes of the send queue, so the request is never transmitted again. -/
theorem response_stops_retransmission (c : Client) (now : Nat) (d : Dgram) (ok : Bool)
    (h : c.L.delayq = []) (hq : c.L.sendq.length ≤ 1) (hr : isResponse d.code = true) :
    (d.type = .con ∨ d.type = .non → ∀ n ∈ (c.rx now d ok).1.L.sendq, n.d.token ≠ d.token) ∧
    (d.type = .ack → ∀ n ∈ (c.rx now d ok).1.L.sendq, n.d.mid ≠ d.mid) := by
  have hcc := isResponse_codeClassOk hr
  refine ⟨?_, ?_⟩
  · intro ht
    rcases ht with ht | ht
    · have h3 := (hr_con c now d ok h ht).2.2
      unfold Client.rx
      simp only [hcc, ht, hr, Bool.not_true, if_true]
      rw [show (if false = true then (c, [Out.unmodelled]) else c.handleResponse now d ok) = c.handleResponse now d ok by simp]
      exact fun n hn => (h3 n hn).2
    · have h3 := (hr_non c now d ok h ht).2.2
      unfold Client.rx
      simp only [hcc, ht, hr, Bool.not_true, if_true]
      rw [show (if false = true then (c, [Out.unmodelled]) else c.handleResponse now d ok) = c.handleResponse now d ok by simp]
      exact fun n hn => (h3 n hn).2
  · intro ht n hn
    rw [(rx_ack_out c now d ok h ht hr).2] at hn
    -- a queue of at most one node: removal by mid leaves no node with that mid
    match hs : c.L.sendq, hq with
    | [], _ => simp [hs, Layer.removeByMid] at hn
    | [q], _ =>
      by_cases hm : q.d.mid = d.mid
      · simp [hs, Layer.removeByMid, hm] at hn
      · simp [hs, Layer.removeByMid, hm] at hn
        rw [hn]; exact hm
    | _ :: _ :: _, hq => simp [hs] at hq

/-- the same, end to end: for every event sequence of the exchange in which a copy of the response arrives, the
    message layer ends up idle (send queue and delay queue empty, NSTART slot free), and a timer on an idle layer
    does nothing -/
theorem response_ends_exchange {req r : Dgram} (X : Exchange req r) (c0 : Client) (hidle : c0.L = Idle)
    (hfresh : fresh c0 r) (now0 T : Nat) (es : List CEvent) (hes : ∀ e ∈ es, ExEv req r e)
    (hlate : NoLate r (c0.appSend now0 req T).1 es) (hex : ∃ e ∈ es, isRsp r e) :
    (Client.run c0 (.appSend now0 req T :: es)).1.L = Idle ∧ ∀ now fuel, Layer.tick now fuel Idle = (Idle, []) := by
  have hs := appSend_Idle c0 now0 req T hidle X.hreq
  have hok : PhOk req r .waiting (c0.appSend now0 req T).1 := by
    rw [hs]; exact ⟨⟨_, rfl, rfl⟩, hfresh⟩
  obtain ⟨ph', hok', _, _, hw'⟩ := run_ph X es .waiting _ hok hes hlate (fun h => by cases h)
  have hrun : (Client.run c0 (.appSend now0 req T :: es)).1 = (Client.run (c0.appSend now0 req T).1 es).1 := by
    simp [Client.run, Client.step]
  rw [hrun]
  obtain ⟨e, he, hie⟩ := hex
  refine ⟨?_, fun now fuel => Layer.tick_Idle now fuel⟩
  cases ph' with
  | waiting => exact absurd hie (hw' (Or.inl rfl) e he)
  | acked => exact absurd hie (hw' (Or.inr rfl) e he)
  | responded => exact hok'.1
  | nacked => exact hok'

/-- **exactly once** — partial: the domain of the open finding `unsolicited_response_delivered` is excluded by the
    hypotheses (D2: one response message; `NoLate`: no copy of it arrives after the client has given up), and the
    liveness half carries the caveat D5.  Full statement wanted by the property: the same conclusion with `ExEv`
    admitting ANY response datagram carrying the request's token and without `NoLate`; it is false for the pinned
    code (witnesses below).
    Under these hypotheses, for every schedule: never both, never twice (≤ 1 conclusion), and never neither once the
    client is quiet (send queue empty) unless no copy of the response ever arrived.
    The two side conditions are discharged further down: D2 is a theorem about the server model for the piggybacking
    and the de-duplicating personalities (`server_one_response_message`, inside the closed loop:
    `exactly_once_closed_loop_partial`); `NoLate` follows from network delays < ACK_TIMEOUT for piggybacked responses
    (`exactly_once_piggybacked`, `exactly_once_piggybacked_quiet`: nothing left open) and does NOT for separate ones
    (the open finding); liveness proper is `never_neither`. -/
theorem exactly_once_partial {req r : Dgram} (X : Exchange req r) (c0 : Client) (hidle : c0.L = Idle)
    (hfresh : fresh c0 r) (now0 T : Nat) (es : List CEvent) (hes : ∀ e ∈ es, ExEv req r e)
    (hlate : NoLate r (c0.appSend now0 req T).1 es) :
    nRsp (Client.run c0 (.appSend now0 req T :: es)).2 + nNack (Client.run c0 (.appSend now0 req T :: es)).2 ≤ 1 ∧
    ((Client.run c0 (.appSend now0 req T :: es)).1.L.sendq = [] →
      nRsp (Client.run c0 (.appSend now0 req T :: es)).2 + nNack (Client.run c0 (.appSend now0 req T :: es)).2 = 1 ∨
      ∀ e ∈ es, ¬ isRsp r e) :=
  at_most_one_conclusion X c0 hidle hfresh now0 T es hes hlate

/-! ### witnesses of the open finding (concrete runs of M, by evaluation) and non-vacuity -/

def wReq : Dgram := { type := .con, code := 1, mid := 1001, token := [0xc0, 7] }
def wRsp (mid : Nat) : Dgram := { type := .con, code := 69, mid := mid, token := [0xc0, 7] }

/-- after MAX_RETRANSMIT the NACK handler runs; a copy of the server's separate response that arrives later is
    delivered all the same: both a NACK and a response for one request -/
theorem late_response_after_nack_witness :
    let o := (Client.run {} [.appSend 1000 wReq 2000, .tick 3000, .tick 7000, .tick 15000, .tick 31000, .tick 63000,
                             .rx 76001 (wRsp 5001) true]).2
    nRsp o = 1 ∧ nNack o = 1 := by decide

/-- a second response message (the server processed a retransmitted request again) is delivered again -/
theorem second_response_witness :
    let o := (Client.run {} [.appSend 1000 wReq 2000, .rx 1000 (emptyAck 1001) true, .rx 1300 (wRsp 5001) true,
                             .rx 1600 (wRsp 5002) true]).2
    nRsp o = 2 := by decide

/-- the hypotheses of `exactly_once_partial` are satisfiable: retransmission, empty ACK, the separate response twice -/
example :
    let es := [CEvent.tick 3000, .rx 3001 (emptyAck 1001) true, .rx 3500 (wRsp 5001) true, .tick 4000, .rx 5500 (wRsp 5001) true]
    Exchange wReq (wRsp 5001) ∧ (∀ e ∈ es, ExEv wReq (wRsp 5001) e) ∧
    nRsp (Client.run {} (.appSend 1000 wReq 2000 :: es)).2 = 1 ∧ nNack (Client.run {} (.appSend 1000 wReq 2000 :: es)).2 = 0 := by
  refine ⟨⟨rfl, by decide, rfl, Or.inr rfl, fun h => by cases h⟩, ?_, by decide, by decide⟩
  intro e he
  simp only [List.mem_cons, List.mem_nil_iff, or_false] at he
  rcases he with rfl | rfl | rfl | rfl | rfl
  · exact .tick _
  · exact .emptyAck _ _
  · exact .response _ _
  · exact .tick _
  · exact .response _ _

/-! ## liveness, the closed loop (client + network + server), whole runs

  * liveness ("never neither once the network is quiet"): `never_neither` (full), `concludes_when_quiet_partial` (= 1);
  * side condition D2 proved for the server model: `server_one_response_message`;
  * client, network and server composed (`Sys`): `exactly_once_closed_loop_partial` (all personalities that answer with
    an ACK or a CON), `exactly_once_piggybacked` (timed argument: delays < ACK_TIMEOUT ⇒ no late copy; no `NoLate`);
  * whole runs under D1: `run_con_responses_acked`, `run_con_response_acked_at`, `run_duplicates_not_redelivered`. -/

theorem tick_fst_L (c : Client) (now : Nat) : (c.tick now).1.L = (c.L.tickAll now).1 := rfl
theorem tick_snd (c : Client) (now : Nat) : (c.tick now).2 = (c.L.tickAll now).2 := rfl

/-- the clock is fair to the client: each of the timer calls at the times `ts` comes at or after the deadline of the
    request that is waiting then (if one is) -/
def TimerRuns : Client → List Nat → Prop
  | _, [] => True
  | c, t :: ts => (∀ n ∈ c.L.sendq, n.due ≤ t) ∧ TimerRuns (c.tick t).1 ts

/-- only time passes: the network is quiet -/
def ticks (ts : List Nat) : List CEvent := ts.map CEvent.tick

theorem run_ticks_Idle (ts : List Nat) (c : Client) (hL : c.L = Idle) : Client.run c (ticks ts) = (c, []) := by
  induction ts with
  | nil => rfl
  | cons t ts ih =>
    show Client.run c (CEvent.tick t :: ticks ts) = (c, [])
    rw [Client.run_cons]
    have : c.step (.tick t) = (c, []) := tick_Idle_client c t hL
    rw [this]; simp [ih]

theorem run_ticks_Wt : ∀ (ts : List Nat) (c : Client) (n : Node), c.L = Wt n → n.d.type = .con → TimerRuns c ts →
    1 ≤ ts.length → 5 ≤ ts.length + n.cnt →
    (Client.run c (ticks ts)).1.L = Idle ∧ nRsp (Client.run c (ticks ts)).2 = 0 ∧ nNack (Client.run c (ticks ts)).2 = 1 := by
  intro ts
  induction ts with
  | nil => intro c n _ _ _ h1 _; simp at h1
  | cons t ts ih =>
    intro c n hL hc htr h1 h5
    show (Client.run c (CEvent.tick t :: ticks ts)).1.L = Idle ∧ nRsp (Client.run c (CEvent.tick t :: ticks ts)).2 = 0 ∧
      nNack (Client.run c (CEvent.tick t :: ticks ts)).2 = 1
    rw [Client.run_cons]
    simp only [Client.step, nRsp_append, nNack_append]
    have hdue : n.due ≤ t := htr.1 n (by rw [hL]; simp [Wt])
    have hidle : ∀ (c' : Client), c'.L = Idle →
        (Client.run c' (ticks ts)).1.L = Idle ∧ nRsp (Client.run c' (ticks ts)).2 = 0 ∧ nNack (Client.run c' (ticks ts)).2 = 0 := by
      intro c' h; rw [run_ticks_Idle ts c' h]; exact ⟨h, rfl, rfl⟩
    have hfl := tick_fst_L c t
    have hsn := tick_snd c t
    rw [hL] at hfl hsn
    rcases Layer.tick_Wt t (((Wt n).sendq.length + 1) * 6) n hc with ⟨n', a1, a2, a3, a4⟩ | ⟨a1, a3, a4⟩
    · -- retransmitted: the counter went up
      have hcnt := (Layer.tick_Wt_cnt t _ n hc n' a1).2 hdue (by simp [Wt])
      have hL' : (c.tick t).1.L = Wt n' := by rw [hfl]; exact a1
      have hlen : 1 ≤ ts.length := by
        rcases Nat.lt_or_ge n.cnt maxRetransmit with hlt | hge
        · simp only [List.length_cons, maxRetransmit] at h5 hlt; omega
        · have := Layer.tick_Wt_giveup t 11 n hc hdue hge
          have h12 : ((Wt n).sendq.length + 1) * 6 = 11 + 1 := by simp [Wt]
          rw [h12, this] at a1
          simp [Idle, Wt] at a1
      obtain ⟨b1, b2, b3⟩ := ih (c.tick t).1 n' hL' (by rw [a2]; exact hc) htr.2 hlen
        (by simp only [List.length_cons] at h5; omega)
      refine ⟨b1, ?_, ?_⟩
      · rw [hsn]; unfold Layer.tickAll; rw [a3, b2]
      · rw [hsn]; unfold Layer.tickAll; rw [a4, b3]
    · have hL' : (c.tick t).1.L = Idle := by rw [hfl]; exact a1
      obtain ⟨b1, b2, b3⟩ := hidle (c.tick t).1 hL'
      refine ⟨b1, ?_, ?_⟩
      · rw [hsn]; unfold Layer.tickAll; rw [a3, b2]
      · rw [hsn]; unfold Layer.tickAll; rw [a4, b3]

theorem run_ticks_any : ∀ (ts : List Nat) (c : Client) (n : Node), c.L = Wt n → n.d.type = .con →
    nRsp (Client.run c (ticks ts)).2 = 0 ∧
    ((∃ n', (Client.run c (ticks ts)).1.L = Wt n' ∧ n'.d = n.d) ∧ nNack (Client.run c (ticks ts)).2 = 0 ∨
     (Client.run c (ticks ts)).1.L = Idle ∧ nNack (Client.run c (ticks ts)).2 = 1) := by
  intro ts
  induction ts with
  | nil => intro c n hL _; exact ⟨rfl, Or.inl ⟨⟨n, hL, rfl⟩, rfl⟩⟩
  | cons t ts ih =>
    intro c n hL hc
    have hx : ticks (t :: ts) = CEvent.tick t :: ticks ts := rfl
    rw [hx, Client.run_cons]
    simp only [Client.step, nRsp_append, nNack_append]
    have hfl := tick_fst_L c t
    have hsn := tick_snd c t
    rw [hL] at hfl hsn
    rcases Layer.tick_Wt t (((Wt n).sendq.length + 1) * 6) n hc with ⟨n', a1, a2, a3, a4⟩ | ⟨a1, a3, a4⟩
    · have hL' : (c.tick t).1.L = Wt n' := by rw [hfl]; exact a1
      obtain ⟨b1, b2⟩ := ih (c.tick t).1 n' hL' (by rw [a2]; exact hc)
      have e3 : nRsp (c.tick t).2 = 0 := by rw [hsn]; exact a3
      have e4 : nNack (c.tick t).2 = 0 := by rw [hsn]; exact a4
      refine ⟨by omega, ?_⟩
      rcases b2 with ⟨⟨n'', c1, c2⟩, c3⟩ | ⟨c1, c3⟩
      · exact Or.inl ⟨⟨n'', c1, c2.trans a2⟩, by omega⟩
      · exact Or.inr ⟨c1, by omega⟩
    · have hL' : (c.tick t).1.L = Idle := by rw [hfl]; exact a1
      have e3 : nRsp (c.tick t).2 = 0 := by rw [hsn]; exact a3
      have e4 : nNack (c.tick t).2 = 1 := by rw [hsn]; exact a4
      rw [run_ticks_Idle ts _ hL']
      exact ⟨by simp [e3], Or.inr ⟨hL', by simp [e4]⟩⟩

/-- an arrival of a copy of the empty ACK of the request -/
def isEAck (req : Dgram) : CEvent → Prop
  | .rx _ d _ => d = emptyAck req.mid
  | _ => False

theorem all_ticks {req r : Dgram} : ∀ (es : List CEvent), (∀ e ∈ es, ExEv req r e) → (∀ e ∈ es, ¬ isRsp r e) →
    (∀ e ∈ es, ¬ isEAck req e) → ∃ ts, es = ticks ts := by
  intro es
  induction es with
  | nil => intro _ _ _; exact ⟨[], rfl⟩
  | cons e es ih =>
    intro h1 h2 h3
    obtain ⟨ts, hts⟩ := ih (fun e he => h1 e (List.mem_cons_of_mem _ he)) (fun e he => h2 e (List.mem_cons_of_mem _ he))
      (fun e he => h3 e (List.mem_cons_of_mem _ he))
    cases h1 e (List.mem_cons_self ..) with
    | tick now => exact ⟨now :: ts, by simp [ticks, hts]⟩
    | emptyAck now ok => exact absurd rfl (h3 _ (List.mem_cons_self ..))
    | response now ok => exact absurd rfl (h2 _ (List.mem_cons_self ..))

/-- the phase reached by an exchange (packaging of `run_ph` from the moment the request is sent) -/
theorem exchange_phase {req r : Dgram} (X : Exchange req r) (c0 : Client) (hidle : c0.L = Idle)
    (hfresh : fresh c0 r) (now0 T : Nat) (es : List CEvent) (hes : ∀ e ∈ es, ExEv req r e)
    (hlate : NoLate r (c0.appSend now0 req T).1 es) :
    ∃ ph', PhOk req r ph' (Client.run c0 (.appSend now0 req T :: es)).1 ∧
      scoreR ph' = nRsp (Client.run c0 (.appSend now0 req T :: es)).2 ∧
      scoreN ph' = nNack (Client.run c0 (.appSend now0 req T :: es)).2 ∧
      ((ph' = .waiting ∨ ph' = .acked) → ∀ e ∈ es, ¬ isRsp r e) := by
  have hs := appSend_Idle c0 now0 req T hidle X.hreq
  have hok : PhOk req r .waiting (c0.appSend now0 req T).1 := by
    rw [hs]; exact ⟨⟨_, rfl, rfl⟩, hfresh⟩
  obtain ⟨ph', hok', hr', hn', hw'⟩ := run_ph X es .waiting _ hok hes hlate (fun h => by cases h)
  have ho : (c0.appSend now0 req T).2 = [Out.tx req] := by rw [hs]
  refine ⟨ph', ?_, ?_, ?_, hw'⟩
  · rw [Client.run_cons]; exact hok'
  · rw [Client.run_cons]; simp only [Client.step, ho, nRsp_append]; simpa [scoreR] using hr'
  · rw [Client.run_cons]; simp only [Client.step, ho, nNack_append]; simpa [scoreN] using hn'

/-- **never neither once the network is quiet** (liveness) — partial only in that it still carries `NoLate` (the open
    finding; the count would be 2, not 0, without it).  For EVERY schedule `es` of the exchange that is FAIR —
    a copy of the response is delivered (so a request copy and a response copy got through), or no copy of the empty
    ACK is delivered (so nothing stops the retransmissions and MAX_RETRANSMIT is exhausted) — and every continuation
    in which the network is quiet and the clock runs (`ticks ts`: at least 1 + MAX_RETRANSMIT timer calls, each at or
    after the deadline then pending, `TimerRuns`), the request has concluded exactly once and the layer is idle.
    The schedules the fairness hypothesis excludes are exactly D5 (empty ACK delivered, every copy of the separate
    response lost: `d5_neither_witness`).  The full-strength form (no `NoLate`, conclusion ≥ 1) is `never_neither` below. -/
theorem concludes_when_quiet_partial {req r : Dgram} (X : Exchange req r) (c0 : Client) (hidle : c0.L = Idle)
    (hfresh : fresh c0 r) (now0 T : Nat) (es : List CEvent) (hes : ∀ e ∈ es, ExEv req r e)
    (hlate : NoLate r (c0.appSend now0 req T).1 es)
    (hfair : (∃ e ∈ es, isRsp r e) ∨ (∀ e ∈ es, ¬ isEAck req e))
    (ts : List Nat) (hlen : 1 + maxRetransmit ≤ ts.length)
    (hts : TimerRuns (Client.run c0 (.appSend now0 req T :: es)).1 ts) :
    nRsp (Client.run c0 (.appSend now0 req T :: (es ++ ticks ts))).2 +
      nNack (Client.run c0 (.appSend now0 req T :: (es ++ ticks ts))).2 = 1 ∧
    (Client.run c0 (.appSend now0 req T :: (es ++ ticks ts))).1.L = Idle := by
  obtain ⟨ph', hok', hr', hn', hw'⟩ := exchange_phase X c0 hidle hfresh now0 T es hes hlate
  have hack : ph' = .acked → False := by
    intro hp
    subst hp
    have hnr := hw' (Or.inr rfl)
    rcases hfair with ⟨e, he, hie⟩ | hne
    · exact hnr e he hie
    · obtain ⟨ts0, hts0⟩ := all_ticks es hes hnr hne
      subst hts0
      have hs := appSend_Idle c0 now0 req T hidle X.hreq
      rw [Client.run_cons] at hok' hn'
      simp only [Client.step, nNack_append] at hok' hn'
      rw [hs] at hok' hn'
      obtain ⟨_, hany⟩ := run_ticks_any ts0 { c0 with L := Wt { d := req, timeout := T, cnt := 0, due := now0 + T * 2 ^ 0 } } _ rfl X.hreq
      simp only [scoreN] at hn'
      rcases hany with ⟨⟨n', c1, _⟩, _⟩ | ⟨_, c3⟩
      · have := hok'.1
        rw [c1] at this
        simp [Wt, Idle] at this
      · rw [c3] at hn'; simp at hn'
  have happ : (CEvent.appSend now0 req T :: (es ++ ticks ts)) = (CEvent.appSend now0 req T :: es) ++ ticks ts := rfl
  rw [happ, Client.run_append]
  simp only [nRsp_append, nNack_append]
  generalize Client.run c0 (.appSend now0 req T :: es) = R at hok' hr' hn' hts
  have hidleCase : R.1.L = Idle → scoreR ph' + scoreN ph' = 1 →
      nRsp R.2 + nRsp (Client.run R.1 (ticks ts)).2 + (nNack R.2 + nNack (Client.run R.1 (ticks ts)).2) = 1 ∧
      (Client.run R.1 (ticks ts)).1.L = Idle := by
    intro hI hsc
    rw [run_ticks_Idle ts R.1 hI]
    exact ⟨by simp; omega, hI⟩
  cases ph' with
  | waiting =>
    obtain ⟨⟨n, hL, hn⟩, _⟩ := hok'
    have hc : n.d.type = .con := by rw [hn]; exact X.hreq
    simp only [maxRetransmit] at hlen
    obtain ⟨b1, b2, b3⟩ := run_ticks_Wt ts R.1 n hL hc hts (by omega) (by omega)
    simp only [scoreR, scoreN] at hr' hn'
    exact ⟨by omega, b1⟩
  | acked =>
    -- an ACK must have arrived: excluded by fairness
    exact (hack rfl).elim
  | responded => exact hidleCase hok'.1 (by simp [scoreR, scoreN])
  | nacked => exact hidleCase hok' (by simp [scoreR, scoreN])

/-! ### the closed loop: client, network, server -/

/-- the layer of the client during the exchange -/
def CShape (req : Dgram) (c : Client) : Prop := c.L = Idle ∨ ∃ n, c.L = Wt n ∧ n.d = req

theorem PhOk_shape {req r : Dgram} {ph : Ph} {c : Client} (h : PhOk req r ph c) : CShape req c := by
  cases ph with
  | waiting => exact Or.inr h.1
  | acked => exact Or.inl h.1
  | responded => exact Or.inl h.1
  | nacked => exact Or.inl h

/-- what the client transmits during the exchange: the request again (only from its timer), or the ACK / RST of the
    response message -/
theorem step_tx_shape {req r : Dgram} (X : Exchange req r) (c : Client) (hs : CShape req c) (e : CEvent)
    (he : ExEv req r e) :
    ∀ d, Out.tx d ∈ (c.step e).2 →
      (d = req ∧ (∃ now, e = .tick now) ∧ c.L ≠ Idle) ∨ ((d.type = .ack ∨ d.type = .rst) ∧ d.mid = r.mid) := by
  intro d hd
  cases he with
  | tick now =>
    left
    rcases hs with hL | ⟨n, hL, hn⟩
    · rw [show c.step (.tick now) = c.tick now from rfl, tick_Idle_client c now hL] at hd
      simp at hd
    · have hc : n.d.type = .con := by rw [hn]; exact X.hreq
      have hd' : Out.tx d ∈ (Layer.tickAll now (Wt n)).2 := by
        have : (c.step (.tick now)).2 = (Layer.tickAll now c.L).2 := rfl
        rw [this, hL] at hd; exact hd
      rcases Layer.tick_Wt_outs now _ n hc _ hd' with h | h
      · injection h with h
        refine ⟨h.trans hn, ⟨now, rfl⟩, ?_⟩
        rw [hL]; simp [Wt, Idle]
      · cases h
  | emptyAck now ok =>
    exfalso
    rcases hs with hL | ⟨n, hL, hn⟩
    · rw [show c.step (.rx now (emptyAck req.mid) ok) = c.rx now (emptyAck req.mid) ok from rfl,
        rx_emptyAck_Idle c now ok req.mid hL] at hd
      simp at hd
    · have := rx_emptyAck_Wt c now ok n hL
      rw [hn] at this
      rw [show c.step (.rx now (emptyAck req.mid) ok) = c.rx now (emptyAck req.mid) ok from rfl, this] at hd
      simp at hd
  | response now ok =>
    rw [show c.step (.rx now r ok) = c.rx now r ok from rfl] at hd
    rcases X.htype with ht | ht
    · exfalso
      rcases hs with hL | ⟨n, hL, hn⟩
      · rw [rx_pb_Idle c now r ok hL ht X.hr] at hd
        by_cases h : c.lastAck = some r.mid <;> simp [h] at hd
      · rw [rx_pb_Wt c now r ok n hL ht X.hr (by rw [hn]; exact X.hpb ht)] at hd
        by_cases h : c.lastAck = some r.mid <;> simp [h] at hd
    · right
      have hout : Out.tx d ∈ (if c.lastCon = some r.mid then (if c.lastResOk then ackFor r else rstFor r)
          else Out.callResponse r ok :: (if ok then ackFor r else rstFor r)) := by
        rcases hs with hL | ⟨n, hL, hn⟩
        · rw [rx_con_Idle c now r ok hL ht X.hr] at hd
          by_cases h : c.lastCon = some r.mid <;> simpa [h] using hd
        · rw [rx_con_Wt c now r ok n hL ht X.hr (by rw [hn]; exact X.htok.symm) (by rw [hn]; exact X.hreq)] at hd
          by_cases h : c.lastCon = some r.mid <;> simpa [h] using hd
      have hk : ∀ b : Bool, Out.tx d ∈ (if b then ackFor r else rstFor r) → (d.type = .ack ∨ d.type = .rst) ∧ d.mid = r.mid := by
        intro b hb
        cases b
        · simp [rstFor] at hb; subst hb; exact ⟨Or.inr rfl, rfl⟩
        · simp [ackFor, ht] at hb; subst hb; exact ⟨Or.inl rfl, rfl⟩
      by_cases h : c.lastCon = some r.mid
      · simp only [h, if_true] at hout; exact hk _ hout
      · simp only [h, if_false, List.mem_cons] at hout
        rcases hout with h1 | h1
        · cases h1
        · exact hk _ h1

/-- the datagrams in an output list, stamped with the time of transmission -/
def txAt (now : Nat) : List Out → List (Nat × Dgram)
  | [] => []
  | .tx d :: o => (now, d) :: txAt now o
  | _ :: o => txAt now o

theorem mem_txAt {now : Nat} {p : Nat × Dgram} : ∀ {o : List Out}, p ∈ txAt now o ↔ p.1 = now ∧ Out.tx p.2 ∈ o := by
  intro o
  induction o with
  | nil => simp [txAt]
  | cons x o ih =>
    cases x with
    | tx d =>
      simp only [txAt, List.mem_cons, ih, Out.tx.injEq]
      constructor
      · rintro (rfl | ⟨h1, h2⟩)
        · exact ⟨rfl, Or.inl rfl⟩
        · exact ⟨h1, Or.inr h2⟩
      · rintro ⟨h1, h2 | h2⟩
        · left; cases p; simp_all
        · exact Or.inr ⟨h1, h2⟩
    | callResponse d ok => simp [txAt, ih]
    | callNack r m => simp [txAt, ih]
    | callRequest m t => simp [txAt, ih]
    | unmodelled => simp [txAt, ih]

/-- client, server, the global clock, and everything either side has put on the network so far (with the time of
    transmission): the network may deliver any of it, any number of times, or never -/
structure Sys where
  c : Client
  s : Server
  now : Nat
  cLog : List (Nat × Dgram)
  sLog : List (Nat × Dgram)

inductive SysEv where
  | cTick (now : Nat)                                  -- the client's timer (coap_io_prepare_io)
  | sTick (now : Nat)                                  -- the server's timer
  | sApp (now : Nat)                                   -- a server application timer
  | toS (sent now : Nat) (d : Dgram)                   -- a copy of what the client transmitted at `sent` reaches the server
  | toC (sent now : Nat) (d : Dgram) (ok : Bool)       -- a copy of what the server transmitted at `sent` reaches the client
  deriving Repr

def Sys.cStep (y : Sys) (now : Nat) (e : CEvent) : Sys × List Out :=
  ({ y with c := (y.c.step e).1, now := now, cLog := y.cLog ++ txAt now (y.c.step e).2 }, (y.c.step e).2)

def Sys.sStep (y : Sys) (now : Nat) (e : SEvent) : Sys × List Out :=
  ({ y with s := (y.s.step e).1, now := now, sLog := y.sLog ++ txAt now (y.s.step e).2 }, [])

/-- one event of the closed system; the second component is what the CLIENT did (handler calls, NACKs, transmissions) -/
def Sys.step (y : Sys) : SysEv → Sys × List Out
  | .cTick now => y.cStep now (.tick now)
  | .toC _ now d ok => y.cStep now (.rx now d ok)
  | .sTick now => y.sStep now (.tick now)
  | .sApp now => y.sStep now (.app now)
  | .toS _ now d => y.sStep now (.rx now d)

def Sys.run (y : Sys) : List SysEv → Sys × List Out
  | [] => (y, [])
  | e :: es => (((y.step e).1.run es).1, (y.step e).2 ++ ((y.step e).1.run es).2)

/-- the network and the clock: a datagram that is delivered was transmitted by the peer (any number of copies of it may
    be delivered, or none: loss and duplication on every datagram) and every copy arrives less than `Δ` after the
    transmission; the clock never runs backwards -/
def Sys.Net (Δ : Nat) (y : Sys) : SysEv → Prop
  | .toS sent now d => (sent, d) ∈ y.cLog ∧ y.now ≤ now ∧ now < sent + Δ
  | .toC sent now d _ => (sent, d) ∈ y.sLog ∧ y.now ≤ now ∧ now < sent + Δ
  | .cTick now => y.now ≤ now
  | .sTick now => y.now ≤ now
  | .sApp now => y.now ≤ now

def Sys.RunOk (Δ : Nat) : Sys → List SysEv → Prop
  | _, [] => True
  | y, e :: es => y.Net Δ e ∧ Sys.RunOk Δ (y.step e).1 es

/-- a copy of the response message is delivered to the client -/
def isRspS (r : Dgram) : SysEv → Prop
  | .toC _ _ d _ => d = r
  | _ => False

/-- no copy of the response is delivered after the client has given up (the closed-loop form of `NoLate`) -/
def SysNoLate (r : Dgram) : Sys → List SysEv → Prop
  | _, [] => True
  | y, e :: es => (nNack (y.step e).2 > 0 → ∀ e' ∈ es, ¬ isRspS r e') ∧ SysNoLate r (y.step e).1 es

/-- the system right after the application has sent `req` from an idle client -/
def Sys.start (c0 : Client) (s0 : Server) (now0 : Nat) (req : Dgram) (T : Nat) : Sys :=
  { c := (c0.appSend now0 req T).1, s := s0, now := now0, cLog := [(now0, req)], sLog := [] }

/-- the joint invariant of the closed loop: the client is in one of the phases of the exchange, the server in one of
    its, and the only datagrams ever put on the network are the request, the ACK / RST datagrams of the client, the
    empty ACK of the server and THE response message -/
structure J (req r : Dgram) (s0 : Server) (ph : Ph) (y : Sys) : Prop where
  hc : PhOk req r ph y.c
  hs : SInv s0 req y.s
  hcl : ∀ p ∈ y.cLog, p.2 = req ∨ p.2.type = .ack ∨ p.2.type = .rst
  hsl : ∀ p ∈ y.sLog, p.2 = r ∨ p.2 = emptyAck req.mid

theorem exchange_of_server {s0 : Server} {req : Dgram} (hr : SReq req) (hp : s0.pers ≠ .dn) (hpa : s0.pers ≠ .da) :
    Exchange req (respFor s0 req) := by
  refine ⟨hr.hcon, ?_, ?_, ?_, ?_⟩ <;> cases hpers : s0.pers <;> simp_all [respFor, isResponse]

/-- a step of the client inside the closed loop -/
theorem jstep_client {req r : Dgram} {s0 : Server} (X : Exchange req r) (ph : Ph) (y : Sys) (hj : J req r s0 ph y)
    (now : Nat) (e : CEvent) (he : ExEv req r e) (hlate : ph = .nacked → ¬ isRsp r e) :
    ∃ ph', J req r s0 ph' (y.cStep now e).1 ∧ scoreR ph' = scoreR ph + nRsp (y.cStep now e).2 ∧
      scoreN ph' = scoreN ph + nNack (y.cStep now e).2 ∧ (isRsp r e → ph' = .responded) := by
  obtain ⟨ph', h1, h2, h3, h4⟩ := step_ph X ph y.c hj.hc e he hlate
  refine ⟨ph', ⟨h1, hj.hs, ?_, hj.hsl⟩, h2, h3, h4⟩
  intro p hp
  simp only [Sys.cStep, List.mem_append] at hp
  rcases hp with hp | hp
  · exact hj.hcl p hp
  · have := (mem_txAt.mp hp).2
    rcases step_tx_shape X y.c (PhOk_shape hj.hc) e he p.2 this with ⟨h, _⟩ | ⟨h, _⟩
    · exact Or.inl h
    · exact Or.inr h

/-- a step of the server inside the closed loop -/
theorem jstep_server {req r : Dgram} {s0 : Server} (hr : SReq req) (hq : SQuiet s0 req) (hrr : r = respFor s0 req)
    (ph : Ph) (y : Sys) (hj : J req r s0 ph y) (now : Nat) (e : SEvent) (he : SExEv req e) :
    J req r s0 ph (y.sStep now e).1 := by
  obtain ⟨h1, h2⟩ := SInv_step hr hq y.s hj.hs e he
  refine ⟨hj.hc, h1, hj.hcl, ?_⟩
  intro p hp
  simp only [Sys.sStep, List.mem_append] at hp
  rcases hp with hp | hp
  · exact hj.hsl p hp
  · rw [hrr]; exact h2 p.2 (mem_txAt.mp hp).2

/-- what the network delivers to the server is an event of the server's side of the exchange -/
theorem toS_ok {req r : Dgram} {s0 : Server} {ph : Ph} {y : Sys} (hj : J req r s0 ph y) {sent : Nat} {d : Dgram}
    (h : (sent, d) ∈ y.cLog) (now : Nat) : SExEv req (.rx now d) := by
  rcases hj.hcl _ h with h | h
  · simp only at h; subst h; exact .request now
  · exact .reply now d h

/-- what the network delivers to the client is an event of the client's side of the exchange -/
theorem toC_ok {req r : Dgram} {s0 : Server} {ph : Ph} {y : Sys} (hj : J req r s0 ph y) {sent : Nat} {d : Dgram}
    (h : (sent, d) ∈ y.sLog) (now : Nat) (ok : Bool) : ExEv req r (.rx now d ok) := by
  rcases hj.hsl _ h with h | h
  · simp only at h; subst h; exact .response now ok
  · simp only at h; subst h; exact .emptyAck now ok

/-- one event of the closed loop -/
theorem jstep {req r : Dgram} {s0 : Server} (X : Exchange req r) (hr : SReq req) (hq : SQuiet s0 req)
    (hrr : r = respFor s0 req) (Δ : Nat) (ph : Ph) (y : Sys) (hj : J req r s0 ph y) (e : SysEv) (hn : y.Net Δ e)
    (hlate : ph = .nacked → ¬ isRspS r e) :
    ∃ ph', J req r s0 ph' (y.step e).1 ∧ scoreR ph' = scoreR ph + nRsp (y.step e).2 ∧
      scoreN ph' = scoreN ph + nNack (y.step e).2 ∧ (isRspS r e → ph' = .responded) := by
  cases e with
  | cTick now => exact jstep_client X ph y hj now (.tick now) (.tick now) (fun _ h => h)
  | toC sent now d ok => exact jstep_client X ph y hj now (.rx now d ok) (toC_ok hj hn.1 now ok) hlate
  | sTick now => exact ⟨ph, jstep_server hr hq hrr ph y hj now _ (.tick now), by simp [Sys.step, Sys.sStep], by simp [Sys.step, Sys.sStep], fun h => h.elim⟩
  | sApp now => exact ⟨ph, jstep_server hr hq hrr ph y hj now _ (.app now), by simp [Sys.step, Sys.sStep], by simp [Sys.step, Sys.sStep], fun h => h.elim⟩
  | toS sent now d => exact ⟨ph, jstep_server hr hq hrr ph y hj now _ (toS_ok hj hn.1 now), by simp [Sys.step, Sys.sStep], by simp [Sys.step, Sys.sStep], fun h => h.elim⟩

/-- an arrival during the exchange leaves the layer idle and never calls the NACK handler; it never makes the client
    transmit the request -/
theorem rx_step_facts {req r : Dgram} (X : Exchange req r) (c : Client) (hs : CShape req c) (now : Nat) (d : Dgram)
    (ok : Bool) (he : ExEv req r (.rx now d ok)) :
    (c.step (.rx now d ok)).1.L = Idle ∧ nNack (c.step (.rx now d ok)).2 = 0 := by
  generalize hev : CEvent.rx now d ok = e at he
  cases he with
  | tick now' => cases hev
  | emptyAck now' ok' =>
    rcases hs with hL | ⟨n, hL, hn⟩
    · rw [show c.step (.rx now' (emptyAck req.mid) ok') = c.rx now' (emptyAck req.mid) ok' from rfl,
        rx_emptyAck_Idle c now' ok' req.mid hL]
      exact ⟨hL, rfl⟩
    · have := rx_emptyAck_Wt c now' ok' n hL
      rw [hn] at this
      rw [show c.step (.rx now' (emptyAck req.mid) ok') = c.rx now' (emptyAck req.mid) ok' from rfl, this]
      exact ⟨rfl, rfl⟩
  | response now' ok' =>
    rw [show c.step (.rx now' r ok') = c.rx now' r ok' from rfl]
    rcases X.htype with ht | ht
    · rcases hs with hL | ⟨n, hL, hn⟩
      · rw [rx_pb_Idle c now' r ok' hL ht X.hr]
        by_cases h : c.lastAck = some r.mid <;> simp [h, hL]
      · rw [rx_pb_Wt c now' r ok' n hL ht X.hr (by rw [hn]; exact X.hpb ht)]
        by_cases h : c.lastAck = some r.mid <;> simp [h]
    · rcases hs with hL | ⟨n, hL, hn⟩
      · rw [rx_con_Idle c now' r ok' hL ht X.hr]
        by_cases h : c.lastCon = some r.mid
        · cases c.lastResOk <;> simp [h, ackFor, rstFor, ht]
        · cases ok' <;> simp [h, ackFor, rstFor, ht]
      · rw [rx_con_Wt c now' r ok' n hL ht X.hr (by rw [hn]; exact X.htok.symm) (by rw [hn]; exact X.hreq)]
        by_cases h : c.lastCon = some r.mid
        · cases c.lastResOk <;> simp [h, ackFor, rstFor, ht]
        · cases ok' <;> simp [h, ackFor, rstFor, ht]

theorem ph_of_Wt {req r : Dgram} {ph : Ph} {c : Client} (h : PhOk req r ph c) {n : Node} (hL : c.L = Wt n) :
    ph = .waiting ∧ n.d = req := by
  cases ph with
  | waiting =>
    obtain ⟨⟨n', h1, h2⟩, _⟩ := h
    rw [hL] at h1
    rw [Layer.Wt_inj h1]; exact ⟨rfl, h2⟩
  | acked => have := h.1; rw [hL] at this; simp [Wt, Idle] at this
  | responded => have := h.1; rw [hL] at this; simp [Wt, Idle] at this
  | nacked => have : c.L = Idle := h; rw [hL] at this; simp [Wt, Idle] at this

theorem not_waiting_of_Idle {req r : Dgram} {ph : Ph} {c : Client} (h : PhOk req r ph c) (hL : c.L = Idle) :
    ph ≠ .waiting := by
  intro hp; subst hp
  obtain ⟨⟨n', h1, _⟩, _⟩ := h
  rw [hL] at h1; simp [Wt, Idle] at h1

/-- the timing invariant of the closed loop with a server that answers on arrival (piggybacked response):
    while the request waits, its deadline is the time of its last transmission plus `T·2^cnt`; after the NACK the
    clock is at least `T·2^MAX_RETRANSMIT` past every transmission of the request; every copy of the response was
    transmitted less than `Δ` after a transmission of the request -/
structure TI (req r : Dgram) (T Δ : Nat) (ph : Ph) (y : Sys) : Prop where
  hwait : ph = .waiting → ∃ n, y.c.L = Wt n ∧ n.timeout = T ∧ ∀ p ∈ y.cLog, p.2 = req → p.1 + T * 2 ^ n.cnt ≤ n.due
  hnack : ph = .nacked → ∀ p ∈ y.cLog, p.2 = req → p.1 + T * 2 ^ maxRetransmit ≤ y.now
  hsrv : ∀ q ∈ y.sLog, q.2 = r → ∃ p ∈ y.cLog, p.2 = req ∧ q.1 < p.1 + Δ
  hpb : ph ≠ .acked                     -- a piggybacking server never sends an empty ACK …
  hsl : ∀ q ∈ y.sLog, q.2 = r           -- … all it ever transmits is the response

/-- after the NACK no copy of the response can still be on its way -/
theorem no_late_arrival {req r : Dgram} {T Δ : Nat} {y : Sys} (ht : TI req r T Δ .nacked y)
    (hΔ : 2 * Δ ≤ T * 2 ^ maxRetransmit) (e : SysEv) (hn : y.Net Δ e) : ¬ isRspS r e := by
  intro hr
  cases e with
  | toC sent now d ok =>
    simp only [isRspS] at hr
    subst hr
    obtain ⟨h1, h2, h3⟩ := hn
    obtain ⟨p, hp, hpr, hlt⟩ := ht.hsrv _ h1 rfl
    have := ht.hnack rfl p hp hpr
    simp only at hlt
    omega
  | cTick now => exact hr
  | sTick now => exact hr
  | sApp now => exact hr
  | toS sent now d => exact hr

theorem nacked_of_score {ph : Ph} (h : scoreN .nacked = scoreN ph + 0) : ph = .nacked := by
  cases ph <;> simp [scoreN] at h ⊢

theorem acked_back {req r : Dgram} {ph : Ph} {c : Client} (hc : PhOk req r ph c) (hI : c.L = Idle)
    (hR : scoreR .acked = scoreR ph + 0) (hN : scoreN .acked = scoreN ph + 0) : ph = .acked := by
  cases ph with
  | waiting => exact absurd rfl (not_waiting_of_Idle hc hI)
  | acked => rfl
  | responded => simp [scoreR] at hR
  | nacked => simp [scoreN] at hN

/-- the timing invariant over a step of the server -/
theorem tstep_server {req r : Dgram} {s0 : Server} {T Δ : Nat} (ph : Ph) (y : Sys)
    (hj : J req r s0 ph y) (ht : TI req r T Δ ph y) (now : Nat) (hnow : y.now ≤ now) (se : SEvent)
    (hnew : ∀ d, Out.tx d ∈ (y.s.step se).2 → d = r → ∃ p ∈ y.cLog, p.2 = req ∧ now < p.1 + Δ)
    (hnew' : ∀ d, Out.tx d ∈ (y.s.step se).2 → d = r)
    (ph' : Ph) (hc' : PhOk req r ph' y.c) (hN : scoreN ph' = scoreN ph + 0) (hR : scoreR ph' = scoreR ph + 0) :
    TI req r T Δ ph' (y.sStep now se).1 := by
  refine ⟨?_, ?_, ?_, ?_, ?_⟩
  · intro hp; subst hp
    obtain ⟨⟨n, hL, _⟩, _⟩ := hc'
    have := (ph_of_Wt hj.hc hL).1
    exact ht.hwait this
  · intro hp; subst hp
    have := nacked_of_score hN
    intro p hp hpr
    have := ht.hnack this p hp hpr
    simp only [Sys.sStep]; omega
  · intro q hq hqr
    simp only [Sys.sStep, List.mem_append] at hq
    rcases hq with hq | hq
    · exact ht.hsrv q hq hqr
    · obtain ⟨h1, h2⟩ := mem_txAt.mp hq
      obtain ⟨p, hp, hpr, hlt⟩ := hnew q.2 h2 hqr
      exact ⟨p, hp, hpr, by rw [h1]; exact hlt⟩
  · intro hp; subst hp
    exact ht.hpb (acked_back hj.hc hc'.1 hR hN)
  · intro q hq
    simp only [Sys.sStep, List.mem_append] at hq
    rcases hq with hq | hq
    · exact ht.hsl q hq
    · exact hnew' q.2 (mem_txAt.mp hq).2

/-- the timing invariant over a step of the client that is an arrival -/
theorem tstep_rx {req r : Dgram} {s0 : Server} (X : Exchange req r) {T Δ : Nat} (ph : Ph) (y : Sys)
    (hj : J req r s0 ph y) (ht : TI req r T Δ ph y) (now : Nat) (hnow : y.now ≤ now) (d : Dgram) (ok : Bool)
    (he : ExEv req r (.rx now d ok)) (hd : d = r)
    (ph' : Ph) (hc' : PhOk req r ph' (y.c.step (.rx now d ok)).1)
    (hN : scoreN ph' = scoreN ph + nNack (y.c.step (.rx now d ok)).2) (hR4 : d = r → ph' = .responded) :
    TI req r T Δ ph' (y.cStep now (.rx now d ok)).1 := by
  obtain ⟨hI, h0⟩ := rx_step_facts X y.c (PhOk_shape hj.hc) now d ok he
  refine ⟨?_, ?_, ?_, (by rw [hR4 hd]; intro h; cases h), ht.hsl⟩
  · intro hp
    exact absurd hp (not_waiting_of_Idle hc' hI)
  · intro hp; subst hp
    rw [h0] at hN
    have hph := nacked_of_score hN
    intro p hp hpr
    simp only [Sys.cStep, List.mem_append] at hp ⊢
    rcases hp with hp | hp
    · have := ht.hnack hph p hp hpr; omega
    · have h2 := (mem_txAt.mp hp).2
      rcases step_tx_shape X y.c (PhOk_shape hj.hc) _ he p.2 h2 with ⟨_, ⟨now', h⟩, _⟩ | ⟨h, _⟩
      · cases h
      · rw [hpr, X.hreq] at h; rcases h with h | h <;> cases h
  · intro q hq hqr
    obtain ⟨p, hp, hpr, hlt⟩ := ht.hsrv q hq hqr
    exact ⟨p, by simp only [Sys.cStep]; exact List.mem_append_left _ hp, hpr, hlt⟩

/-- the timing invariant over a step of the client's timer -/
theorem tstep_tick {req r : Dgram} {s0 : Server} (X : Exchange req r) {T Δ : Nat} (hT : 0 < T) (ph : Ph) (y : Sys)
    (hj : J req r s0 ph y) (ht : TI req r T Δ ph y) (now : Nat) (hnow : y.now ≤ now)
    (ph' : Ph) (hc' : PhOk req r ph' (y.c.step (.tick now)).1)
    (hN : scoreN ph' = scoreN ph + nNack (y.c.step (.tick now)).2)
    (hR : scoreR ph' = scoreR ph + nRsp (y.c.step (.tick now)).2) :
    TI req r T Δ ph' (y.cStep now (.tick now)).1 := by
  have hsrv : ∀ q ∈ (y.cStep now (.tick now)).1.sLog, q.2 = r →
      ∃ p ∈ (y.cStep now (.tick now)).1.cLog, p.2 = req ∧ q.1 < p.1 + Δ := by
    intro q hq hqr
    obtain ⟨p, hp, hpr, hlt⟩ := ht.hsrv q hq hqr
    exact ⟨p, by simp only [Sys.cStep]; exact List.mem_append_left _ hp, hpr, hlt⟩
  by_cases hph : ph = .waiting
  · subst hph
    obtain ⟨n, hL, hnT, hb⟩ := ht.hwait rfl
    have hnd := (ph_of_Wt hj.hc hL).2
    have hc : n.d.type = .con := by rw [hnd]; exact X.hreq
    have hex := tick_Wt_explicit y.c now n hL hc (by rw [hnT]; exact hT)
    have hstep : y.c.step (.tick now) = y.c.tick now := rfl
    rw [hstep] at hc' hN hR
    simp only [Sys.cStep, hstep]
    by_cases hdue : n.due ≤ now
    · by_cases hcnt : n.cnt < maxRetransmit
      · simp only [hdue, hcnt, if_true] at hex
        rw [hex] at hc' hN ⊢
        refine ⟨?_, ?_, ?_, (by rw [(ph_of_Wt hc' rfl).1]; intro h; cases h), ht.hsl⟩
        · intro _
          refine ⟨_, rfl, hnT, ?_⟩
          intro p hp hpr
          simp only [txAt, List.mem_append, List.mem_singleton] at hp
          rcases hp with hp | hp
          · have := hb p hp hpr
            have h2 : 0 < T * 2 ^ n.cnt := Nat.mul_pos hT (Nat.two_pow_pos _)
            simp only [hnT]; omega
          · subst hp; simp only [hnT]; omega
        · intro hp; subst hp
          simp [scoreN] at hN
        · have := hsrv
          simp only [Sys.cStep, hstep, hex] at this
          exact this
      · simp only [hdue, hcnt, if_true, if_false] at hex
        rw [hex] at hc' hN ⊢
        refine ⟨?_, ?_, ?_, (by intro hp; subst hp; simp [scoreN] at hN), ht.hsl⟩
        · intro hp
          exact absurd hp (not_waiting_of_Idle hc' rfl)
        · intro _ p hp hpr
          simp only [txAt, List.append_nil] at hp
          have := hb p hp hpr
          have hle : maxRetransmit ≤ n.cnt := by omega
          have h2 : T * 2 ^ maxRetransmit ≤ T * 2 ^ n.cnt :=
            Nat.mul_le_mul_left _ (Nat.pow_le_pow_right (by decide) hle)
          simp only []; omega
        · have := hsrv
          simp only [Sys.cStep, hstep, hex] at this
          exact this
    · simp only [hdue, if_false] at hex
      rw [hex] at hc' hN ⊢
      refine ⟨?_, ?_, ?_, (by rw [(ph_of_Wt hc' hL).1]; intro h; cases h), ht.hsl⟩
      · intro _
        exact ⟨n, hL, hnT, by simpa [txAt] using hb⟩
      · intro hp; subst hp
        simp [scoreN] at hN
      · have := hsrv
        simp only [Sys.cStep, hstep, hex] at this
        exact this
  · have hI : y.c.L = Idle := by
      cases ph with
      | waiting => exact absurd rfl hph
      | acked => exact hj.hc.1
      | responded => exact hj.hc.1
      | nacked => exact hj.hc
    have hstep : y.c.step (.tick now) = (y.c, []) := tick_Idle_client y.c now hI
    rw [hstep] at hc' hN hR
    simp only [Sys.cStep, hstep]
    refine ⟨?_, ?_, ?_, (by intro hp; subst hp; exact ht.hpb (acked_back hj.hc hI hR hN)), ht.hsl⟩
    · intro hp
      exact absurd hp (not_waiting_of_Idle hc' hI)
    · intro hp; subst hp
      have := nacked_of_score hN
      intro p hp hpr
      simp only [txAt, List.append_nil] at hp
      have := ht.hnack this p hp hpr
      simp only []; omega
    · have := hsrv
      simp only [Sys.cStep, hstep] at this
      exact this

/-- the timing invariant over one event of the closed loop with a piggybacking server -/
theorem tstep {req r : Dgram} {s0 : Server} (X : Exchange req r) (hr : SReq req) (hq : SQuiet s0 req)
    (hrr : r = respFor s0 req) (hp : s0.pers = .pb) {T Δ : Nat} (hT : 0 < T) (ph : Ph) (y : Sys)
    (hj : J req r s0 ph y) (ht : TI req r T Δ ph y) (e : SysEv) (hn : y.Net Δ e)
    (ph' : Ph) (hj' : J req r s0 ph' (y.step e).1) (hN : scoreN ph' = scoreN ph + nNack (y.step e).2)
    (hR : scoreR ph' = scoreR ph + nRsp (y.step e).2) (hR4 : isRspS r e → ph' = .responded) :
    TI req r T Δ ph' (y.step e).1 := by
  cases e with
  | cTick now => exact tstep_tick X hT ph y hj ht now hn ph' hj'.hc hN hR
  | toC sent now d ok =>
    exact tstep_rx X ph y hj ht now hn.2.1 d ok (toC_ok hj hn.1 now ok) (ht.hsl _ hn.1) ph' hj'.hc hN hR4
  | sTick now =>
    refine tstep_server ph y hj ht now hn (.tick now) ?_ ?_ ph' hj'.hc (by simpa [Sys.step, Sys.sStep] using hN)
      (by simpa [Sys.step, Sys.sStep] using hR)
    · intro d hd
      exact absurd hd (SInv_step_pb hr hq hp y.s hj.hs _ (.tick now) (fun _ h => by cases h) d)
    · intro d hd
      exact absurd hd (SInv_step_pb hr hq hp y.s hj.hs _ (.tick now) (fun _ h => by cases h) d)
  | sApp now =>
    refine tstep_server ph y hj ht now hn (.app now) ?_ ?_ ph' hj'.hc (by simpa [Sys.step, Sys.sStep] using hN)
      (by simpa [Sys.step, Sys.sStep] using hR)
    · intro d hd
      exact absurd hd (SInv_step_pb hr hq hp y.s hj.hs _ (.app now) (fun _ h => by cases h) d)
    · intro d hd
      exact absurd hd (SInv_step_pb hr hq hp y.s hj.hs _ (.app now) (fun _ h => by cases h) d)
  | toS sent now d =>
    refine tstep_server ph y hj ht now hn.2.1 (.rx now d) ?_ ?_ ph' hj'.hc (by simpa [Sys.step, Sys.sStep] using hN)
      (by simpa [Sys.step, Sys.sStep] using hR)
    · intro d' hd' _
      by_cases hdr : d = req
      · subst hdr
        exact ⟨(sent, d), hn.1, rfl, hn.2.2⟩
      · exact absurd hd' (SInv_step_pb hr hq hp y.s hj.hs _ (toS_ok hj hn.1 now)
          (fun now' h => by injection h with _ h2; exact hdr h2) d')
    · intro d' hd'
      by_cases hdr : d = req
      · subst hdr
        rw [SInv_step_pb_request hr hq hp y.s hj.hs now] at hd'
        simp only [List.mem_cons, List.mem_nil_iff, or_false] at hd'
        rcases hd' with hd' | hd'
        · cases hd'
        · injection hd' with hd'; rw [hd', hrr]
      · exact absurd hd' (SInv_step_pb hr hq hp y.s hj.hs _ (toS_ok hj hn.1 now)
          (fun now' h => by injection h with _ h2; exact hdr h2) d')

theorem Sys.run_cons (y : Sys) (e : SysEv) (es : List SysEv) :
    y.run (e :: es) = (((y.step e).1.run es).1, (y.step e).2 ++ ((y.step e).1.run es).2) := rfl

/-- all runs of the closed loop (any server personality that answers with one response message), given that no copy
    of the response is delivered after the client has given up -/
theorem sys_run {req r : Dgram} {s0 : Server} (X : Exchange req r) (hr : SReq req) (hq : SQuiet s0 req)
    (hrr : r = respFor s0 req) (Δ : Nat) :
    ∀ (es : List SysEv) (ph : Ph) (y : Sys), J req r s0 ph y → y.RunOk Δ es → SysNoLate r y es →
      (ph = .nacked → ∀ e ∈ es, ¬ isRspS r e) →
      ∃ ph', J req r s0 ph' (y.run es).1 ∧ scoreR ph' = scoreR ph + nRsp (y.run es).2 ∧
        scoreN ph' = scoreN ph + nNack (y.run es).2 ∧
        ((ph' = .waiting ∨ ph' = .acked) → ∀ e ∈ es, ¬ isRspS r e) := by
  intro es
  induction es with
  | nil => intro ph y hj _ _ _; exact ⟨ph, hj, by simp [Sys.run], by simp [Sys.run], by simp⟩
  | cons e es ih =>
    intro ph y hj hok hnl hna
    obtain ⟨ph1, hj1, hr1, hn1, hrsp1⟩ :=
      jstep X hr hq hrr Δ ph y hj e hok.1 (fun h => hna h e (List.mem_cons_self ..))
    have hna1 : ph1 = .nacked → ∀ e' ∈ es, ¬ isRspS r e' := by
      intro h1
      by_cases hp : ph = .nacked
      · intro e' he'; exact hna hp e' (List.mem_cons_of_mem _ he')
      · have : nNack (y.step e).2 > 0 := by
          rw [h1] at hn1
          cases ph <;> simp [scoreN] at hn1 hp ⊢ <;> omega
        exact hnl.1 this
    obtain ⟨ph2, hj2, hr2, hn2, hw2⟩ := ih ph1 (y.step e).1 hj1 hok.2 hnl.2 hna1
    refine ⟨ph2, ?_, ?_, ?_, ?_⟩
    · rw [Sys.run_cons]; exact hj2
    · rw [Sys.run_cons]; simp only [nRsp_append]; omega
    · rw [Sys.run_cons]; simp only [nNack_append]; omega
    · intro hw e' he'
      rcases List.mem_cons.mp he' with rfl | hmem
      · intro hisr
        have h1 := hrsp1 hisr
        rw [h1] at hr2
        rcases hw with hw | hw <;> rw [hw] at hr2 <;> simp [scoreR] at hr2 <;> omega
      · exact hw2 hw e' hmem

/-- all runs of the closed loop with a piggybacking server and network delays below `Δ`, `2Δ ≤ T·2^MAX_RETRANSMIT`:
    the timing invariant makes a late copy of the response impossible -/
theorem sys_run_pb {req r : Dgram} {s0 : Server} (X : Exchange req r) (hr : SReq req) (hq : SQuiet s0 req)
    (hrr : r = respFor s0 req) (hp : s0.pers = .pb) {T Δ : Nat} (hT : 0 < T) (hΔ : 2 * Δ ≤ T * 2 ^ maxRetransmit) :
    ∀ (es : List SysEv) (ph : Ph) (y : Sys), J req r s0 ph y → TI req r T Δ ph y → y.RunOk Δ es →
      ∃ ph', J req r s0 ph' (y.run es).1 ∧ scoreR ph' = scoreR ph + nRsp (y.run es).2 ∧
        scoreN ph' = scoreN ph + nNack (y.run es).2 ∧
        ((ph' = .waiting ∨ ph' = .acked) → ∀ e ∈ es, ¬ isRspS r e) ∧ ph' ≠ .acked := by
  intro es
  induction es with
  | nil => intro ph y hj ht _; exact ⟨ph, hj, by simp [Sys.run], by simp [Sys.run], by simp, ht.hpb⟩
  | cons e es ih =>
    intro ph y hj ht hok
    obtain ⟨ph1, hj1, hr1, hn1, hrsp1⟩ :=
      jstep X hr hq hrr Δ ph y hj e hok.1 (fun h => by subst h; exact no_late_arrival ht hΔ e hok.1)
    have ht1 := tstep X hr hq hrr hp hT ph y hj ht e hok.1 ph1 hj1 hn1 hr1 hrsp1
    obtain ⟨ph2, hj2, hr2, hn2, hw2, hna2⟩ := ih ph1 (y.step e).1 hj1 ht1 hok.2
    refine ⟨ph2, ?_, ?_, ?_, ?_, hna2⟩
    · rw [Sys.run_cons]; exact hj2
    · rw [Sys.run_cons]; simp only [nRsp_append]; omega
    · rw [Sys.run_cons]; simp only [nNack_append]; omega
    · intro hw e' he'
      rcases List.mem_cons.mp he' with rfl | hmem
      · intro hisr
        have h1 := hrsp1 hisr
        rw [h1] at hr2
        rcases hw with hw | hw <;> rw [hw] at hr2 <;> simp [scoreR] at hr2 <;> omega
      · exact hw2 hw e' hmem

theorem start_J {req : Dgram} {s0 : Server} (hr : SReq req) (hq : SQuiet s0 req) (c0 : Client) (hidle : c0.L = Idle)
    (hfresh : fresh c0 (respFor s0 req)) (now0 T : Nat) :
    J req (respFor s0 req) s0 .waiting (Sys.start c0 s0 now0 req T) := by
  have hs := appSend_Idle c0 now0 req T hidle hr.hcon
  refine ⟨?_, SInv_init hq, ?_, ?_⟩
  · simp only [Sys.start]; rw [hs]; exact ⟨⟨_, rfl, rfl⟩, hfresh⟩
  · intro p hp; simp only [Sys.start, List.mem_singleton] at hp; subst hp; exact Or.inl rfl
  · intro p hp; simp [Sys.start] at hp

theorem start_TI {req r : Dgram} {s0 : Server} (hr : SReq req) (c0 : Client) (hidle : c0.L = Idle)
    (now0 T Δ : Nat) : TI req r T Δ .waiting (Sys.start c0 s0 now0 req T) := by
  have hs := appSend_Idle c0 now0 req T hidle hr.hcon
  refine ⟨?_, (fun h => by cases h), ?_, (fun h => by cases h), (fun q hq => by simp [Sys.start] at hq)⟩
  · intro _
    refine ⟨{ d := req, timeout := T, cnt := 0, due := now0 + T * 2 ^ 0 }, ?_, rfl, ?_⟩
    · simp only [Sys.start]; rw [hs]
    · intro p hp _; simp only [Sys.start, List.mem_singleton] at hp; subst hp; exact Nat.le_refl _
  · intro q hq; simp [Sys.start] at hq

/-- conclusions from the final phase -/
theorem conclude_of_phase {req r : Dgram} {s0 : Server} {ph' : Ph} {y : Sys} {o : List Out} {es : List SysEv}
    (hj : J req r s0 ph' y) (hr' : scoreR ph' = scoreR .waiting + nRsp o) (hn' : scoreN ph' = scoreN .waiting + nNack o)
    (hw' : (ph' = .waiting ∨ ph' = .acked) → ∀ e ∈ es, ¬ isRspS r e) :
    nRsp o + nNack o ≤ 1 ∧ (y.c.L.sendq = [] → nRsp o + nNack o = 1 ∨ ∀ e ∈ es, ¬ isRspS r e) := by
  refine ⟨?_, ?_⟩
  · cases ph' <;> simp [scoreR, scoreN] at hr' hn' <;> omega
  · intro hq
    cases ph' with
    | waiting =>
      obtain ⟨⟨n, hL, _⟩, _⟩ := hj.hc
      rw [hL] at hq; simp [Wt] at hq
    | acked => right; exact hw' (Or.inr rfl)
    | responded => left; simp [scoreR, scoreN] at hr' hn'; omega
    | nacked => left; simp [scoreR, scoreN] at hr' hn'; omega

/-- **The de-duplicating server personalities answer one request with ONE response message** (side condition D2 of
    `exactly_once_partial`, proved for the model of the server): a server that is quiet, has not seen the request's
    token, and either piggybacks or de-duplicates requests at application level (`ac+`, `at+`, `dc+`, `dn+`)
    transmits — for EVERY interleaving of copies of the request, ACK / RST datagrams, timer steps and application
    timers, at any times — no response other than copies of `respFor s0 req` (plus copies of the empty ACK). -/
theorem server_one_response_message {s0 : Server} {req : Dgram} (hr : SReq req) (hq : SQuiet s0 req)
    (es : List SEvent) (hes : ∀ e ∈ es, SExEv req e) :
    ∀ d, Out.tx d ∈ (Server.run s0 es).2 → isResponse d.code = true → d = respFor s0 req := by
  intro d hd hc
  rcases (server_run_one_response hr hq es hes).2 d hd with h | h
  · exact h
  · rw [h] at hc; simp [emptyAck, isResponse] at hc

/-- without application-level de-duplication the pinned server answers a late copy of the request with a second
    response message (libcoap keeps no request de-duplication state; open finding `unsolicited_response_delivered`) -/
theorem server_without_dedup_witness :
    let s0 : Server := { pers := .ac, dedup := false, D := 300, T := 2500, txMid := 5000 }
    let req : Dgram := { type := .con, code := 1, mid := 1001, token := [0xc0, 7] }
    let es : List SEvent := [.rx 1000 req, .tick 1300, .rx 1500 (emptyAck 5001), .rx 3100 req, .tick 3400]
    (∀ e ∈ es, SExEv req e) ∧
    ¬ (∀ d, Out.tx d ∈ (Server.run s0 es).2 → d = respFor s0 req ∨ d = emptyAck req.mid) := by
  have h := server_without_dedup_two_responses_witness
  exact ⟨h.2.2.2.2.2.1, h.2.2.2.2.2.2.2⟩

/-- **exactly once in the closed loop** — partial.  Client, network and server composed: the network delivers only
    what the peer transmitted (every datagram may be lost, duplicated any number of times, delayed), the server is
    any personality that piggybacks or de-duplicates (D2 is now PROVED, not assumed: `server_one_response_message`
    through the joint invariant `J`), the response is an ACK or a CON.  Remaining hypothesis `SysNoLate`: no copy of
    the response is delivered after the client has given up — for separate responses it does NOT follow from delays
    < ACK_TIMEOUT (the server retransmits its response for up to 31·T_server after the client's last request copy:
    `late_response_after_nack_witness`, open finding `unsolicited_response_delivered`); for piggybacked responses it
    does: `exactly_once_piggybacked`.  Full statement wanted: the same without `SysNoLate` and without `SQuiet.hdedup`;
    false for the pinned code. -/
theorem exactly_once_closed_loop_partial {req : Dgram} (hr : SReq req) (s0 : Server) (hq : SQuiet s0 req)
    (hp : s0.pers ≠ .dn) (hpa : s0.pers ≠ .da) (c0 : Client) (hidle : c0.L = Idle) (hfresh : fresh c0 (respFor s0 req))
    (now0 T Δ : Nat) (es : List SysEv) (hok : (Sys.start c0 s0 now0 req T).RunOk Δ es)
    (hlate : SysNoLate (respFor s0 req) (Sys.start c0 s0 now0 req T) es) :
    nRsp ((Sys.start c0 s0 now0 req T).run es).2 + nNack ((Sys.start c0 s0 now0 req T).run es).2 ≤ 1 ∧
    (((Sys.start c0 s0 now0 req T).run es).1.c.L.sendq = [] →
      nRsp ((Sys.start c0 s0 now0 req T).run es).2 + nNack ((Sys.start c0 s0 now0 req T).run es).2 = 1 ∨
      ∀ e ∈ es, ¬ isRspS (respFor s0 req) e) := by
  obtain ⟨ph', hj, h1, h2, h3⟩ := sys_run (exchange_of_server hr hp hpa) hr hq rfl Δ es .waiting _
    (start_J hr hq c0 hidle hfresh now0 T) hok hlate (fun h => by cases h)
  exact conclude_of_phase hj h1 h2 h3

/-- **exactly once, piggybacked response, network delays below ACK_TIMEOUT** — full strength, no `NoLate`, D2 proved:
    for EVERY run of the closed loop (client, lossy / duplicating / delaying network, piggybacking server, clocks) in
    which each delivered copy arrives less than `Δ` after its transmission, `2Δ ≤ T·2^MAX_RETRANSMIT` (in particular
    `Δ = ACK_TIMEOUT ≤ T`), the request concludes at most once (never both, never twice), and exactly once when the
    client is quiet at the end unless no copy of the response was ever delivered.  The timed argument: the NACK comes
    no earlier than `T·2^MAX_RETRANSMIT` after the LAST transmission of the request (invariant `TI`, from the
    retransmission schedule `tick_Wt_explicit`), every copy of the response was transmitted less than `Δ` after the
    arrival of a copy of the request transmitted at most `Δ` earlier, so it arrives before the NACK. -/
theorem exactly_once_piggybacked {req : Dgram} (hr : SReq req) (s0 : Server) (hq : SQuiet s0 req)
    (hp : s0.pers = .pb) (c0 : Client) (hidle : c0.L = Idle) (hfresh : fresh c0 (respFor s0 req))
    (now0 T Δ : Nat) (hT : 0 < T) (hΔ : 2 * Δ ≤ T * 2 ^ maxRetransmit) (es : List SysEv)
    (hok : (Sys.start c0 s0 now0 req T).RunOk Δ es) :
    nRsp ((Sys.start c0 s0 now0 req T).run es).2 + nNack ((Sys.start c0 s0 now0 req T).run es).2 ≤ 1 ∧
    (((Sys.start c0 s0 now0 req T).run es).1.c.L.sendq = [] →
      nRsp ((Sys.start c0 s0 now0 req T).run es).2 + nNack ((Sys.start c0 s0 now0 req T).run es).2 = 1 ∨
      ∀ e ∈ es, ¬ isRspS (respFor s0 req) e) := by
  have hnd : s0.pers ≠ .dn := by rw [hp]; decide
  have hna : s0.pers ≠ .da := by rw [hp]; decide
  obtain ⟨ph', hj, h1, h2, h3, _⟩ := sys_run_pb (exchange_of_server hr hnd hna) hr hq rfl hp hT hΔ es .waiting _
    (start_J hr hq c0 hidle hfresh now0 T) (start_TI hr c0 hidle now0 T Δ) hok
  exact conclude_of_phase hj h1 h2 h3

/-- the same with the library's own parameters: the client's timeout is `coap_calc_timeout` of any PRNG byte
    (≥ ACK_TIMEOUT) and every network delay is shorter than ACK_TIMEOUT -/
theorem exactly_once_piggybacked_default {req : Dgram} (hr : SReq req) (s0 : Server) (hq : SQuiet s0 req)
    (hp : s0.pers = .pb) (c0 : Client) (hidle : c0.L = Idle) (hfresh : fresh c0 (respFor s0 req))
    (now0 b : Nat) (es : List SysEv)
    (hok : (Sys.start c0 s0 now0 req (calcTimeout b)).RunOk ackTimeout es) :
    nRsp ((Sys.start c0 s0 now0 req (calcTimeout b)).run es).2 +
      nNack ((Sys.start c0 s0 now0 req (calcTimeout b)).run es).2 ≤ 1 ∧
    (((Sys.start c0 s0 now0 req (calcTimeout b)).run es).1.c.L.sendq = [] →
      nRsp ((Sys.start c0 s0 now0 req (calcTimeout b)).run es).2 +
        nNack ((Sys.start c0 s0 now0 req (calcTimeout b)).run es).2 = 1 ∨
      ∀ e ∈ es, ¬ isRspS (respFor s0 req) e) := by
  have h := (calcTimeout_ge b).1
  refine exactly_once_piggybacked hr s0 hq hp c0 hidle hfresh now0 (calcTimeout b) ackTimeout ?_ ?_ es hok
  · simp only [ackTimeout] at h; omega
  · simp only [ackTimeout, maxRetransmit] at h ⊢; omega

/-- **exactly once, piggybacked response: never neither** — a piggybacking server never sends an empty ACK, so the
    D5 situation cannot arise: whenever the client is quiet at the end of a run of the closed loop (send queue empty:
    nothing left to retransmit), the request HAS concluded, exactly once — with no side condition at all (the first
    conjunct of `exactly_once_piggybacked` gives "at most once" for every run, quiet or not). -/
theorem exactly_once_piggybacked_quiet {req : Dgram} (hr : SReq req) (s0 : Server) (hq : SQuiet s0 req)
    (hp : s0.pers = .pb) (c0 : Client) (hidle : c0.L = Idle) (hfresh : fresh c0 (respFor s0 req))
    (now0 T Δ : Nat) (hT : 0 < T) (hΔ : 2 * Δ ≤ T * 2 ^ maxRetransmit) (es : List SysEv)
    (hok : (Sys.start c0 s0 now0 req T).RunOk Δ es)
    (hquiet : ((Sys.start c0 s0 now0 req T).run es).1.c.L.sendq = []) :
    nRsp ((Sys.start c0 s0 now0 req T).run es).2 + nNack ((Sys.start c0 s0 now0 req T).run es).2 = 1 := by
  have hnd : s0.pers ≠ .dn := by rw [hp]; decide
  have hna : s0.pers ≠ .da := by rw [hp]; decide
  obtain ⟨ph', hj, h1, h2, _, h4⟩ := sys_run_pb (exchange_of_server hr hnd hna) hr hq rfl hp hT hΔ es .waiting _
    (start_J hr hq c0 hidle hfresh now0 T) (start_TI hr c0 hidle now0 T Δ) hok
  cases ph' with
  | waiting =>
    obtain ⟨⟨n, hL, _⟩, _⟩ := hj.hc
    rw [hL] at hquiet; simp [Wt] at hquiet
  | acked => exact absurd rfl h4
  | responded => simp [scoreR, scoreN] at h1 h2; omega
  | nacked => simp [scoreR, scoreN] at h1 h2; omega

/-! ### whole runs: every Confirmable response is acknowledged, duplicates are not re-delivered -/

theorem LOk_delayq {L : Layer} (h : LOk L) : L.delayq = [] := by
  rcases h with rfl | ⟨n, rfl, _⟩ <;> rfl

/-- **Every Confirmable response received in a run is acknowledged, exactly once each** (whole runs, D1): for every
    run in which the application sends a Confirmable request only when no exchange is outstanding — ANY datagrams
    arriving at ANY time, any timer steps — the message ids of the ACK / RST datagrams the client transmits are, in
    order, exactly the message ids of the Confirmable responses it received (duplicates included: acknowledged
    again) and of the Non-confirmable responses its handler FAILed; no other ACK or RST is ever sent. -/
theorem run_con_responses_acked (c : Client) (es : List CEvent) (hL : LOk c.L) (h : RunD1 c es) :
    replies (Client.run c es).2 = owed es := run_replies es c hL h

/-- **… and the ACK / RST follows the datagram immediately**: wherever in a run a Confirmable response arrives, the
    client's output at that point is `[handler call?] ++ [one ACK or RST with its mid]`; the handler call is absent
    iff the previous Confirmable response received in the run (however long ago) carried the same message id
    (**a duplicate is not re-delivered**, run form). -/
theorem run_con_response_acked_at (c : Client) (pre post : List CEvent) (now : Nat) (d : Dgram) (ok : Bool)
    (hL : LOk c.L) (h : RunD1 c (pre ++ .rx now d ok :: post)) (hd : d.type = .con) (hr : isResponse d.code = true) :
    ∃ k, (k = MType.ack ∨ k = MType.rst) ∧
      (Client.run c (pre ++ .rx now d ok :: post)).2 =
        (Client.run c pre).2 ++
        ((if lastConAfter c.lastCon pre = some d.mid then [] else [Out.callResponse d ok]) ++
          [Out.tx { type := k, code := 0, mid := d.mid, token := [] }]) ++
        (Client.run ((Client.run c pre).1.rx now d ok).1 post).2 := by
  have h1 := ((RunD1_append pre _ c).mp h).1
  have hL1 := run_LOk pre c hL h1
  obtain ⟨k, hk, hout⟩ := con_response_always_acked (Client.run c pre).1 now d ok (LOk_delayq hL1) hd hr
  refine ⟨k, hk, ?_⟩
  rw [Client.run_append, Client.run_cons]
  simp only [Client.step]
  rw [hout, run_lastCon pre c hL h1]
  simp only [List.append_assoc]

/-- **A duplicate is not re-delivered; a Non-confirmable message is delivered once per datagram** (whole runs, D1):
    the handler calls of the whole run are exactly those the single-slot filter lets through, as a function of the
    received datagrams alone — a CON (piggybacked) response unless its mid equals that of the previous CON
    (piggybacked) response, and every NON response. -/
theorem run_duplicates_not_redelivered (c : Client) (es : List CEvent) (hL : LOk c.L) (h : RunD1 c es) :
    handlerCalls (Client.run c es).2 = expectedCalls c.lastCon c.lastAck es := run_handlerCalls es c hL h

/-- **never twice** (whole runs, D1, ANY datagrams — in particular ACK-typed responses that match nothing on the send
    queue: a stale copy, or the "response as an ACK with a message id of its own after an Empty ACK" of a peer outside
    RFC 7252, which handle_response accepts by token): the response handler is never handed the same ACK-typed message
    twice in a row, nor the same Confirmable one — between two handler calls carrying the same message id there is a
    call with another message of that type, and the first call differs from what the filter slot held at the start.
    With a server that produces ONE response message (D2) this is "the response is delivered at most once". -/
theorem response_never_delivered_twice_in_a_row (c : Client) (es : List CEvent) (hL : LOk c.L) (h : RunD1 c es) :
    noRepeat c.lastAck (callMids .ack (handlerCalls (Client.run c es).2)) ∧
    noRepeat c.lastCon (callMids .con (handlerCalls (Client.run c es).2)) := by
  rw [run_handlerCalls es c hL h]
  exact ⟨expectedCalls_ack_noRepeat es _ _, expectedCalls_con_noRepeat es _ _⟩

/-- **… at the point of arrival**: wherever in a run an ACK-typed response arrives — whether or not it took a request
    off the send queue — the handler is called there iff its message id differs from that of the previous ACK-typed
    response received in the run (however long ago, whatever else arrived in between). -/
theorem run_ack_response_at (c : Client) (pre post : List CEvent) (now : Nat) (d : Dgram) (ok : Bool)
    (hL : LOk c.L) (h : RunD1 c (pre ++ .rx now d ok :: post)) (hd : d.type = .ack) (hr : isResponse d.code = true) :
    (Client.run c (pre ++ .rx now d ok :: post)).2 =
      (Client.run c pre).2 ++
      (if lastAckAfter c.lastAck pre = some d.mid then [] else [Out.callResponse d ok]) ++
      (Client.run ((Client.run c pre).1.rx now d ok).1 post).2 := by
  have h1 := ((RunD1_append pre _ c).mp h).1
  have hL1 := run_LOk pre c hL h1
  have hout := (rx_ack_out (Client.run c pre).1 now d ok (LOk_delayq hL1) hd hr).1
  rw [Client.run_append, Client.run_cons]
  simp only [Client.step]
  rw [hout, run_lastAck pre c hL h1]
  simp only [List.append_assoc]

/-! ### the hypotheses of the new theorems are satisfiable (concrete non-trivial instances, by evaluation) -/

instance (Δ : Nat) (y : Sys) : (e : SysEv) → Decidable (y.Net Δ e)
  | .toS sent now d => inferInstanceAs (Decidable ((sent, d) ∈ y.cLog ∧ y.now ≤ now ∧ now < sent + Δ))
  | .toC sent now d _ => inferInstanceAs (Decidable ((sent, d) ∈ y.sLog ∧ y.now ≤ now ∧ now < sent + Δ))
  | .cTick now => inferInstanceAs (Decidable (y.now ≤ now))
  | .sTick now => inferInstanceAs (Decidable (y.now ≤ now))
  | .sApp now => inferInstanceAs (Decidable (y.now ≤ now))

instance decRunOk (Δ : Nat) : (y : Sys) → (es : List SysEv) → Decidable (y.RunOk Δ es)
  | _, [] => isTrue trivial
  | y, e :: es => @instDecidableAnd (y.Net Δ e) (Sys.RunOk Δ (y.step e).1 es) inferInstance (decRunOk Δ (y.step e).1 es)

instance (r : Dgram) : (e : SysEv) → Decidable (isRspS r e)
  | .toC _ _ d _ => inferInstanceAs (Decidable (d = r))
  | .toS _ _ _ => isFalse (fun h => h)
  | .cTick _ => isFalse (fun h => h)
  | .sTick _ => isFalse (fun h => h)
  | .sApp _ => isFalse (fun h => h)

instance decSysNoLate (r : Dgram) : (y : Sys) → (es : List SysEv) → Decidable (SysNoLate r y es)
  | _, [] => isTrue trivial
  | y, e :: es =>
    @instDecidableAnd (nNack (y.step e).2 > 0 → ∀ e' ∈ es, ¬ isRspS r e') (SysNoLate r (y.step e).1 es) inferInstance
      (decSysNoLate r (y.step e).1 es)

instance (r : Dgram) : (e : CEvent) → Decidable (isRsp r e)
  | .rx _ d _ => inferInstanceAs (Decidable (d = r))
  | .appSend _ _ _ => isFalse (fun h => h)
  | .tick _ => isFalse (fun h => h)

instance decNoLate (r : Dgram) : (c : Client) → (es : List CEvent) → Decidable (NoLate r c es)
  | _, [] => isTrue trivial
  | c, e :: es =>
    @instDecidableAnd (nNack (c.step e).2 > 0 → ∀ e' ∈ es, ¬ isRsp r e') (NoLate r (c.step e).1 es) inferInstance
      (decNoLate r (c.step e).1 es)

instance decTimerRuns : (c : Client) → (ts : List Nat) → Decidable (TimerRuns c ts)
  | _, [] => isTrue trivial
  | c, t :: ts => @instDecidableAnd (∀ n ∈ c.L.sendq, n.due ≤ t) (TimerRuns (c.tick t).1 ts) inferInstance
      (decTimerRuns (c.tick t).1 ts)

def wPb : Server := { pers := .pb, dedup := false, D := 0, T := 2500, txMid := 5000 }
def wAc : Server := { pers := .ac, dedup := true, D := 300, T := 2500, txMid := 5000 }

/-- `exactly_once_piggybacked`, `exactly_once_piggybacked_quiet`: the first copy of the request reaches the server but its response is lost, the client
    retransmits at 3000, that copy is answered, the response arrives twice (duplicated, the second copy 1800 ms
    late), the timer keeps running: every hypothesis holds with Δ = ACK_TIMEOUT, one handler call, no NACK -/
example :
    let es : List SysEv := [.toS 1000 1500 wReq, .cTick 3000, .toS 3000 3100 wReq,
                            .toC 3100 3300 (respFor wPb wReq) true, .toC 3100 4900 (respFor wPb wReq) true, .cTick 9000]
    SReq wReq ∧ SQuiet wPb wReq ∧ fresh {} (respFor wPb wReq) ∧ 2 * ackTimeout ≤ 2000 * 2 ^ maxRetransmit ∧
    (Sys.start {} wPb 1000 wReq 2000).RunOk ackTimeout es ∧
    nRsp ((Sys.start {} wPb 1000 wReq 2000).run es).2 = 1 ∧ nNack ((Sys.start {} wPb 1000 wReq 2000).run es).2 = 0 ∧
    ((Sys.start {} wPb 1000 wReq 2000).run es).1.c.L.sendq = [] := by
  refine ⟨⟨by decide, by decide⟩, ⟨by decide, by decide, by decide, by decide, by decide⟩,
    ⟨fun _ => by decide, fun _ => by decide⟩, by decide, by decide, by decide, by decide, by decide⟩

/-- `exactly_once_closed_loop_partial`: the de-duplicating async server `ac+`: request, empty ACK, the async fires at
    1400, the separate response arrives, is acknowledged, the ACK reaches the server, a duplicate of the response
    arrives later and is acknowledged again but not re-delivered -/
example :
    let r := respFor wAc wReq
    let es : List SysEv := [.toS 1000 1100 wReq, .toC 1100 1200 (emptyAck 1001) true, .sTick 1400, .toC 1400 1500 r true,
                            .toS 1500 1600 (emptyAck 5001), .toC 1400 1700 r true, .sTick 5000, .cTick 5000]
    SReq wReq ∧ SQuiet wAc wReq ∧ wAc.pers ≠ .dn ∧ wAc.pers ≠ .da ∧ fresh {} r ∧
    (Sys.start {} wAc 1000 wReq 2000).RunOk ackTimeout es ∧ SysNoLate r (Sys.start {} wAc 1000 wReq 2000) es ∧
    nRsp ((Sys.start {} wAc 1000 wReq 2000).run es).2 = 1 ∧ nNack ((Sys.start {} wAc 1000 wReq 2000).run es).2 = 0 ∧
    ((Sys.start {} wAc 1000 wReq 2000).run es).1.cLog.length = 3 := by
  refine ⟨⟨by decide, by decide⟩, ⟨by decide, by decide, by decide, by decide, by decide⟩, by decide, by decide,
    ⟨fun _ => by decide, fun _ => by decide⟩, by decide, by decide, by decide, by decide, by decide⟩

/-- `concludes_when_quiet_partial`: every datagram is lost (no ACK ever arrives), the clock runs: the request is
    retransmitted four times and concludes by exactly one NACK -/
example :
    let es : List CEvent := [.tick 2000, .tick 3000]
    let ts : List Nat := [7000, 15000, 31000, 63000, 70000]
    Exchange wReq (wRsp 5001) ∧ (∀ e ∈ es, ExEv wReq (wRsp 5001) e) ∧ (∀ e ∈ es, ¬ isEAck wReq e) ∧
    1 + maxRetransmit ≤ ts.length ∧ TimerRuns (Client.run {} (.appSend 1000 wReq 2000 :: es)).1 ts ∧
    nNack (Client.run {} (.appSend 1000 wReq 2000 :: (es ++ ticks ts))).2 = 1 ∧
    nTx wReq (Client.run {} (.appSend 1000 wReq 2000 :: (es ++ ticks ts))).2 = 5 := by
  refine ⟨⟨rfl, by decide, rfl, Or.inr rfl, fun h => by cases h⟩, ?_, ?_, by decide, by decide, by decide, by decide⟩
  · intro e he
    simp only [List.mem_cons, List.mem_nil_iff, or_false] at he
    rcases he with rfl | rfl <;> exact .tick _
  · intro e he
    simp only [List.mem_cons, List.mem_nil_iff, or_false] at he
    rcases he with rfl | rfl <;> exact fun h => h

/-- `response_never_delivered_twice_in_a_row` / `run_ack_response_at`: the request is answered by an Empty ACK, then
    by an ACK-typed response with a message id of its own (5001: it matches nothing on the send queue), whose duplicate
    arrives 700 ms later: admissible under D1, ONE handler call; and after a different ACK-typed message (5002) the
    single slot lets a third copy of 5001 through — never twice IN A ROW is exactly what the filter gives -/
example :
    let r : Dgram := { type := .ack, code := 69, mid := 5001, token := [0xc0, 7] }
    let r2 : Dgram := { type := .ack, code := 69, mid := 5002, token := [0xc0, 7] }
    let es : List CEvent := [.appSend 1000 wReq 2000, .rx 1000 (emptyAck 1001) true, .rx 1300 r true, .rx 2000 r true]
    RunD1 {} es ∧ RunD1 {} (es ++ [.rx 2100 r2 true, .rx 2200 r true]) ∧
    handlerCalls (Client.run {} es).2 = [(r, true)] ∧ (Client.run {} es).1.L = Idle ∧
    callMids .ack (handlerCalls (Client.run {} (es ++ [.rx 2100 r2 true, .rx 2200 r true])).2) = [5001, 5002, 5001] ∧
    noRepeat none [5001, 5002, 5001] ∧ ¬ noRepeat none [5001, 5001] := by
  decide

/-- the zero-length token (RFC 7252 5.3.1) is a token like any other: `Exchange`, `exactly_once_partial`,
    `response_ends_exchange` and `response_stops_retransmission` do not restrict `req.token`.  The Empty ACK is lost, the
    separate CON response (no token) arrives while the request (no token) is still on the send queue: one handler
    call, the response is acknowledged, the layer is idle — the timers that follow transmit nothing and raise no NACK -/
example :
    let req : Dgram := { type := .con, code := 1, mid := 1001, token := [] }
    let r : Dgram := { type := .con, code := 69, mid := 0x7001, token := [] }
    let es : List CEvent := [.rx 1100 r true, .tick 3000, .tick 7000, .tick 63000]
    Exchange req r ∧ (∀ e ∈ es, ExEv req r e) ∧ NoLate r (({} : Client).appSend 1000 req 2000).1 es ∧
    (Client.run {} (.appSend 1000 req 2000 :: es)).2 =
      [Out.tx req, Out.callResponse r true, Out.tx { type := .ack, code := 0, mid := 0x7001, token := [] }] ∧
    (Client.run {} (.appSend 1000 req 2000 :: es)).1.L = Idle := by
  refine ⟨⟨rfl, by decide, rfl, Or.inr rfl, fun h => by cases h⟩, ?_, by decide, by decide, by decide⟩
  intro e he
  simp only [List.mem_cons, List.mem_nil_iff, or_false] at he
  rcases he with rfl | rfl | rfl | rfl
  · exact .response _ _
  · exact .tick _
  · exact .tick _
  · exact .tick _

/-- D5, the case the fairness hypothesis of `concludes_when_quiet_partial` excludes: the empty ACK arrived, every copy
    of the separate response was lost — the client has nothing left to retransmit and the request stays open -/
theorem d5_neither_witness :
    let o := (Client.run {} (.appSend 1000 wReq 2000 :: .rx 1100 (emptyAck 1001) true :: ticks [3000, 7000, 15000, 31000, 63000, 99000])).2
    nRsp o = 0 ∧ nNack o = 0 := by decide

/-- `run_con_response_acked_at`: a retransmission, the separate response, a timer step, its duplicate -/
example :
    let pre : List CEvent := [.appSend 1000 wReq 2000, .tick 3000, .rx 3500 (wRsp 5001) true, .tick 4000]
    LOk ({} : Client).L ∧ RunD1 {} (pre ++ .rx 5500 (wRsp 5001) true :: [.tick 6000]) ∧
    lastConAfter none pre = some 5001 ∧
    replies (Client.run {} (pre ++ .rx 5500 (wRsp 5001) true :: [.tick 6000])).2 = [5001, 5001] ∧
    (handlerCalls (Client.run {} (pre ++ .rx 5500 (wRsp 5001) true :: [.tick 6000])).2).length = 1 := by
  refine ⟨Or.inl rfl, by decide, by decide, by decide, by decide⟩

/-! ### liveness at full strength -/

/-- a schedule either has no late copy of the response, or it has a prefix without one at whose end the client has
    already called the NACK handler -/
theorem noLate_or_nacked (r : Dgram) : ∀ (es : List CEvent) (c : Client),
    NoLate r c es ∨ ∃ es1 es2, es = es1 ++ es2 ∧ NoLate r c es1 ∧ 1 ≤ nNack (Client.run c es1).2 := by
  intro es
  induction es with
  | nil => intro c; exact Or.inl trivial
  | cons e es ih =>
    intro c
    by_cases hn : nNack (c.step e).2 > 0
    · right
      refine ⟨[e], es, rfl, ⟨(fun _ e' he' => by cases he'), trivial⟩, ?_⟩
      rw [Client.run_cons]; simp only [nNack_append]; omega
    · rcases ih (c.step e).1 with h | ⟨es1, es2, h1, h2, h3⟩
      · exact Or.inl ⟨fun h' => absurd h' hn, h⟩
      · right
        refine ⟨e :: es1, es2, by rw [h1]; rfl, ⟨fun h' => absurd h' hn, h2⟩, ?_⟩
        rw [Client.run_cons]; simp only [nNack_append]; omega

/-- **never neither once the network is quiet** (liveness, full strength: no `NoLate`, no hypothesis on the server).
    For EVERY schedule `es` of time steps and arrivals of copies of the empty ACK and of the response message that is
    FAIR — a copy of the response is delivered (a request copy and a response copy got through), or no copy of the
    empty ACK is delivered (nothing stops the retransmissions: MAX_RETRANSMIT is exhausted) — and every continuation in
    which the network is quiet and the clock runs (`ticks ts`, at least 1 + MAX_RETRANSMIT timer calls, each at or
    after the deadline then pending), the request HAS concluded: by the response handler or by the NACK handler. -/
theorem never_neither {req r : Dgram} (X : Exchange req r) (c0 : Client) (hidle : c0.L = Idle)
    (hfresh : fresh c0 r) (now0 T : Nat) (es : List CEvent) (hes : ∀ e ∈ es, ExEv req r e)
    (hfair : (∃ e ∈ es, isRsp r e) ∨ (∀ e ∈ es, ¬ isEAck req e))
    (ts : List Nat) (hlen : 1 + maxRetransmit ≤ ts.length)
    (hts : TimerRuns (Client.run c0 (.appSend now0 req T :: es)).1 ts) :
    1 ≤ nRsp (Client.run c0 (.appSend now0 req T :: (es ++ ticks ts))).2 +
        nNack (Client.run c0 (.appSend now0 req T :: (es ++ ticks ts))).2 := by
  rcases noLate_or_nacked r es (c0.appSend now0 req T).1 with h | ⟨es1, es2, h1, _, h3⟩
  · have := (concludes_when_quiet_partial X c0 hidle hfresh now0 T es hes h hfair ts hlen hts).1
    omega
  · subst h1
    have happ : (CEvent.appSend now0 req T :: (es1 ++ es2 ++ ticks ts)) =
        (CEvent.appSend now0 req T :: es1) ++ (es2 ++ ticks ts) := by simp
    rw [happ, Client.run_append]
    simp only [nNack_append]
    have : nNack (Client.run c0 (.appSend now0 req T :: es1)).2 =
        nNack (c0.appSend now0 req T).2 + nNack (Client.run (c0.appSend now0 req T).1 es1).2 := by
      rw [Client.run_cons]; simp only [Client.step, nNack_append]
    omega

/-- `never_neither`: the NACK came, then a late copy of the response (outside `NoLate`): still concluded (twice — the
    open finding — but not "neither") -/
example :
    let es : List CEvent := [.tick 3000, .tick 7000, .tick 15000, .tick 31000, .tick 63000, .rx 76001 (wRsp 5001) true]
    let ts : List Nat := [80000, 80001, 80002, 80003, 80004]
    (∀ e ∈ es, ExEv wReq (wRsp 5001) e) ∧ (∃ e ∈ es, isRsp (wRsp 5001) e) ∧
    TimerRuns (Client.run {} (.appSend 1000 wReq 2000 :: es)).1 ts ∧
    ¬ NoLate (wRsp 5001) (({} : Client).appSend 1000 wReq 2000).1 es ∧
    1 ≤ nRsp (Client.run {} (.appSend 1000 wReq 2000 :: (es ++ ticks ts))).2 := by
  refine ⟨?_, ⟨_, List.mem_cons_of_mem _ (List.mem_cons_of_mem _ (List.mem_cons_of_mem _ (List.mem_cons_of_mem _
    (List.mem_cons_of_mem _ (List.mem_cons_self ..))))), rfl⟩, by decide, ?_, by decide⟩
  · intro e he
    simp only [List.mem_cons, List.mem_nil_iff, or_false] at he
    rcases he with rfl | rfl | rfl | rfl | rfl | rfl
    · exact .tick _
    · exact .tick _
    · exact .tick _
    · exact .tick _
    · exact .tick _
    · exact .response _ _
  · intro h
    have h5 := h.2.2.2.2.1
    exact h5 (by decide) _ (List.mem_cons_self ..) rfl

/-! ### the give-up is never premature (seeded C07-10) -/

/-- time stamp of a client event -/
def evTime : CEvent → Nat
  | .appSend now _ _ => now
  | .rx now _ _ => now
  | .tick now => now

/-- `GiveUpLate req T last k c es`: while `es` runs from `c` — `last` = time of the latest transmission of `req` so far, `k` = number
    of its transmissions so far — every call of the NACK handler happens after `1 + MAX_RETRANSMIT` transmissions of the request
    and no earlier than `T·2^MAX_RETRANSMIT` after the latest of them -/
def GiveUpLate (req : Dgram) (T : Nat) : Nat → Nat → Client → List CEvent → Prop
  | _, _, _, [] => True
  | last, k, c, e :: es =>
    (nNack (c.step e).2 ≠ 0 → k = 1 + maxRetransmit ∧ last + T * 2 ^ maxRetransmit ≤ evTime e) ∧
    GiveUpLate req T (if Out.tx req ∈ (c.step e).2 then evTime e else last)
      (if Out.tx req ∈ (c.step e).2 then k + 1 else k) (c.step e).1 es

/-- the timed shape of the client during the exchange: idle, or the request waits with `retransmit_cnt = k - 1 ≤ MAX_RETRANSMIT`
    and a deadline at least `T·2^cnt` after its latest transmission -/
def TW (req : Dgram) (T last k : Nat) (c : Client) : Prop :=
  c.L = Idle ∨ ∃ n, c.L = Wt n ∧ n.d = req ∧ n.timeout = T ∧ n.cnt + 1 = k ∧ n.cnt ≤ maxRetransmit ∧ last + T * 2 ^ n.cnt ≤ n.due

theorem TW_shape {req : Dgram} {T last k : Nat} {c : Client} (h : TW req T last k c) : CShape req c := by
  rcases h with h | ⟨n, hL, hn, _⟩
  · exact Or.inl h
  · exact Or.inr ⟨n, hL, hn⟩

theorem giveUpLate_run {req r : Dgram} (X : Exchange req r) {T : Nat} (hT : 0 < T) :
    ∀ (es : List CEvent) (last k : Nat) (c : Client), TW req T last k c → (∀ e ∈ es, ExEv req r e) →
      GiveUpLate req T last k c es := by
  intro es
  induction es with
  | nil => intro _ _ _ _ _; trivial
  | cons e es ih =>
    intro last k c hw hes
    have he := hes e (List.mem_cons_self ..)
    have hes' : ∀ e' ∈ es, ExEv req r e' := fun e' h => hes e' (List.mem_cons_of_mem _ h)
    cases he with
    | tick now =>
      have hstep : c.step (.tick now) = c.tick now := rfl
      rcases hw with hL | ⟨n, hL, hn, hnT, hk, hle, hb⟩
      · have h0 := tick_Idle_client c now hL
        refine ⟨?_, ?_⟩
        · rw [hstep, h0]; intro h; exact absurd rfl h
        · rw [hstep, h0]
          simp only [List.not_mem_nil, if_false]
          exact ih last k c (Or.inl hL) hes'
      · have hc : n.d.type = .con := by rw [hn]; exact X.hreq
        have hex := tick_Wt_explicit c now n hL hc (by rw [hnT]; exact hT)
        by_cases hdue : n.due ≤ now
        · by_cases hcnt : n.cnt < maxRetransmit
          · simp only [hdue, hcnt, if_true] at hex
            refine ⟨?_, ?_⟩
            · rw [hstep, hex]; intro h; exact absurd rfl h
            · rw [hstep, hex]
              have hmem : Out.tx req ∈ [Out.tx n.d] := by rw [hn]; simp
              simp only [hmem, if_true, evTime]
              refine ih now (k + 1) _ (Or.inr ⟨_, rfl, hn, hnT, by simp only []; omega, by simp only []; omega, ?_⟩) hes'
              simp only [hnT]; omega
          · simp only [hdue, hcnt, if_true, if_false] at hex
            refine ⟨?_, ?_⟩
            · intro _
              have h4 : n.cnt = maxRetransmit := by omega
              rw [h4] at hb hk
              simp only [evTime]
              exact ⟨by omega, by omega⟩
            · rw [hstep, hex]
              have : Out.tx req ∉ [Out.callNack Nack.retries n.d.mid] := by simp
              simp only [this, if_false]
              exact ih last k _ (Or.inl rfl) hes'
        · simp only [hdue, if_false] at hex
          refine ⟨?_, ?_⟩
          · rw [hstep, hex]; intro h; exact absurd rfl h
          · rw [hstep, hex]
            simp only [List.not_mem_nil, if_false]
            exact ih last k c (Or.inr ⟨n, hL, hn, hnT, hk, hle, hb⟩) hes'
    | emptyAck now ok =>
      obtain ⟨hI, h0⟩ := rx_step_facts X c (TW_shape hw) now _ ok (.emptyAck now ok)
      exact ⟨fun h => absurd h0 h, ih _ _ _ (Or.inl hI) hes'⟩
    | response now ok =>
      obtain ⟨hI, h0⟩ := rx_step_facts X c (TW_shape hw) now _ ok (.response now ok)
      exact ⟨fun h => absurd h0 h, ih _ _ _ (Or.inl hI) hes'⟩

/-- **The give-up is never premature**: a Confirmable request sent at `now0` from a quiet session with initial timeout `T > 0`;
    for EVERY sequence of timer steps (at any times) and arrivals of copies of the Empty ACK and of the response, a call of the
    NACK handler happens only after all `1 + MAX_RETRANSMIT` transmissions of the request and no earlier than
    `T·2^MAX_RETRANSMIT` (≥ 16·ACK_TIMEOUT) after the LAST of them — so a response to that last transmission that travels
    less than ACK_TIMEOUT each way still finds the request waiting ("never both"; piggybacked: `exactly_once_piggybacked`). -/
theorem giveup_never_premature {req r : Dgram} (X : Exchange req r) (c0 : Client) (hidle : c0.L = Idle)
    (now0 T : Nat) (hT : 0 < T) (es : List CEvent) (hes : ∀ e ∈ es, ExEv req r e) :
    GiveUpLate req T now0 1 (c0.appSend now0 req T).1 es := by
  refine giveUpLate_run X hT es now0 1 _ ?_ hes
  rw [appSend_Idle c0 now0 req T hidle X.hreq]
  exact Or.inr ⟨_, rfl, rfl, rfl, rfl, by simp only [maxRetransmit]; omega, Nat.le_refl _⟩

instance decGiveUpLate (req : Dgram) (T : Nat) :
    (last k : Nat) → (c : Client) → (es : List CEvent) → Decidable (GiveUpLate req T last k c es)
  | _, _, _, [] => isTrue trivial
  | last, k, c, e :: es =>
    have := decGiveUpLate req T (if Out.tx req ∈ (c.step e).2 then evTime e else last)
      (if Out.tx req ∈ (c.step e).2 then k + 1 else k) (c.step e).1 es
    by unfold GiveUpLate; exact inferInstance

/-- non-vacuity: four transmissions lost, the fifth answered: the NACK handler is never called, the response is delivered once;
    and the schedule in which nothing is answered: the NACK comes at 63000 = 31000 (last transmission) + 16·T -/
example :
    let es : List CEvent := [.tick 3000, .tick 7000, .tick 15000, .tick 31000, .rx 32400 { wReq with type := .ack, code := 69 } true,
                             .tick 63000]
    (∀ e ∈ es, ExEv wReq { wReq with type := .ack, code := 69 } e) ∧
    nNack (Client.run {} (.appSend 1000 wReq 2000 :: es)).2 = 0 ∧ nRsp (Client.run {} (.appSend 1000 wReq 2000 :: es)).2 = 1 ∧
    nTx wReq (Client.run {} (.appSend 1000 wReq 2000 :: es)).2 = 5 := by
  refine ⟨?_, by decide, by decide, by decide⟩
  intro e he
  simp only [List.mem_cons, List.mem_nil_iff, or_false] at he
  rcases he with rfl | rfl | rfl | rfl | rfl | rfl
  · exact .tick _
  · exact .tick _
  · exact .tick _
  · exact .tick _
  · exact .response _ _
  · exact .tick _

example :
    GiveUpLate wReq 2000 1000 1 (({} : Client).appSend 1000 wReq 2000).1 (ticks [3000, 7000, 15000, 31000, 62999, 63000]) ∧
    nNack (Client.run {} (.appSend 1000 wReq 2000 :: ticks [3000, 7000, 15000, 31000, 62999])).2 = 0 ∧
    nNack (Client.run {} (.appSend 1000 wReq 2000 :: ticks [3000, 7000, 15000, 31000, 62999, 63000])).2 = 1 := by
  refine ⟨by decide, by decide, by decide⟩

end Coap.C07
