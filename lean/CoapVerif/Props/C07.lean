import CoapVerif.Lemmas.Exchange
/-
C07 — each request concludes exactly once despite loss, duplication and delay.

All theorems are about M = `Coap.Exch.Client` (Model/Exchange.lean), the transcription of the client side of
coap_dispatch / handle_response and of the message layer underneath, which is tied to the compiled code by exact
trace equality on every schedule run (props/C07.py).

SPEC DECISIONS (see design/C07.md)
  D1  "one exchange outstanding per session": the application sends its next request when the previous exchange is
      over on the wire; in M: the delay queue is empty and at most the request itself is on the send queue.
  D2  exactly-once is claimed for a server that produces ONE response message per request (piggybacked ACK with the
      request's mid, or one separate CON/NON message with its own mid, retransmitted / duplicated at will).
  D3  a NON response is delivered once per copy that the network delivers (the property's last clause).
  D4  a FAIL verdict on a piggybacked (ACK) response cannot be answered by a Reset; FAIL ⇒ RST for CON and NON.
  D5  "never neither once the network is quiet": a request whose empty ACK arrived and whose separate response was
      lost on every transmission stays open (RFC 7252 leaves this to an application timeout).
-/
namespace Coap.C07
open Coap.Exch

/-! ### one received response: ACK / RST rules, duplicate filter, NON delivery (any client state with D1) -/

private theorem hr_con (c : Client) (now : Nat) (d : Dgram) (ok : Bool)
    (h : c.L.delayq = []) (hd : d.type = .con) :
    (c.handleResponse now d ok).2 =
      (if c.lastCon = some d.mid then (if c.lastResOk then ackFor d else rstFor d)
       else Out.callResponse d ok :: (if ok then ackFor d else rstFor d)) ∧
    (c.handleResponse now d ok).1.L.delayq = [] ∧
    (∀ n ∈ (c.handleResponse now d ok).1.L.sendq, n ∈ c.L.sendq ∧ n.d.token ≠ d.token) := by
  have hc := Layer.cancelAll_nil now d.token c.L h
  unfold Client.handleResponse
  generalize Layer.cancelAll now d.token c.L = r at hc ⊢
  obtain ⟨L1, o1⟩ := r
  obtain ⟨h1, h2, h3⟩ := hc
  simp only at h1 h2 h3
  subst h1
  by_cases hdup : c.lastCon = some d.mid
  · simp [hd, hdup, h2]
    exact h3
  · cases ok <;> simp [hd, hdup, h2] <;> exact h3

private theorem hr_non (c : Client) (now : Nat) (d : Dgram) (ok : Bool)
    (h : c.L.delayq = []) (hd : d.type = .non) :
    (c.handleResponse now d ok).2 = Out.callResponse d ok :: (if ok then [] else rstFor d) ∧
    (c.handleResponse now d ok).1.L.delayq = [] ∧
    (∀ n ∈ (c.handleResponse now d ok).1.L.sendq, n ∈ c.L.sendq ∧ n.d.token ≠ d.token) := by
  have hc := Layer.cancelAll_nil now d.token c.L h
  unfold Client.handleResponse
  generalize Layer.cancelAll now d.token c.L = r at hc ⊢
  obtain ⟨L1, o1⟩ := r
  obtain ⟨h1, h2, h3⟩ := hc
  simp only at h1 h2 h3
  subst h1
  cases ok <;> simp [hd, h2, ackFor] <;> exact h3

private theorem hr_ack (c : Client) (now : Nat) (d : Dgram) (ok : Bool) (hd : d.type = .ack) :
    (c.handleResponse now d ok).2 = (if c.lastAck = some d.mid then [] else [Out.callResponse d ok]) ∧
    (c.handleResponse now d ok).1.L = c.L := by
  unfold Client.handleResponse
  by_cases hdup : c.lastAck = some d.mid
  · simp [hd, hdup]
  · cases ok <;> simp [hd, hdup, ackFor]

private theorem rx_ack_out (c : Client) (now : Nat) (d : Dgram) (ok : Bool)
    (h : c.L.delayq = []) (hd : d.type = .ack) (hr : isResponse d.code = true) :
    (c.rx now d ok).2 = (if c.lastAck = some d.mid then [] else [Out.callResponse d ok]) ∧
    (c.rx now d ok).1.L.sendq = (Layer.removeByMid d.mid c.L.sendq).2 := by
  have hcc := isResponse_codeClassOk hr
  have hne := isResponse_not_empty hr
  have hnr := isResponse_not_request hr
  unfold Client.rx
  simp only [hcc, hd, Bool.not_true]
  cases hrm : Layer.removeByMid d.mid c.L.sendq with
  | mk sent q =>
    cases sent with
    | none =>
      simp [hne, hnr, hr, (hr_ack _ now d ok hd).1, (hr_ack _ now d ok hd).2]
    | some n =>
      have hrel := Layer.release_nil now { sendq := q, delayq := c.L.delayq, conActive := c.L.conActive } h
      simp [hne, hnr, hr, (hr_ack _ now d ok hd).1, (hr_ack _ now d ok hd).2, hrel]

/-- **Every Confirmable response is acknowledged** — exactly one ACK or RST carrying its message id is sent, whatever
    the client's state; when it is a duplicate (`last_con_mid`) it is acknowledged again and NOT passed to the handler. -/
theorem con_response_always_acked (c : Client) (now : Nat) (d : Dgram) (ok : Bool)
    (h : c.L.delayq = []) (hd : d.type = .con) (hr : isResponse d.code = true) :
    ∃ k, (k = MType.ack ∨ k = MType.rst) ∧
      (c.rx now d ok).2 =
        (if c.lastCon = some d.mid then [] else [Out.callResponse d ok]) ++
        [Out.tx { type := k, code := 0, mid := d.mid, token := [] }] := by
  have hcc := isResponse_codeClassOk hr
  have h1 := (hr_con c now d ok h hd).1
  unfold Client.rx
  simp only [hcc, hd, hr, Bool.not_true, if_true]
  rw [show (if false = true then (c, [Out.unmodelled]) else c.handleResponse now d ok) = c.handleResponse now d ok by simp]
  rw [h1]
  by_cases hdup : c.lastCon = some d.mid
  · cases hro : c.lastResOk
    · exact ⟨.rst, Or.inr rfl, by simp [hdup, rstFor]⟩
    · exact ⟨.ack, Or.inl rfl, by simp [hdup, ackFor, hd]⟩
  · cases ok
    · exact ⟨.rst, Or.inr rfl, by simp [hdup, rstFor]⟩
    · exact ⟨.ack, Or.inl rfl, by simp [hdup, ackFor, hd]⟩

/-- **A duplicate is not re-delivered**: a CON response whose mid is `last_con_mid`, or a piggybacked response whose
    mid is `last_ack_mid`, never reaches the response handler. -/
theorem duplicate_not_redelivered (c : Client) (now : Nat) (d : Dgram) (ok : Bool)
    (h : c.L.delayq = []) (hr : isResponse d.code = true)
    (hdup : (d.type = .con ∧ c.lastCon = some d.mid) ∨ (d.type = .ack ∧ c.lastAck = some d.mid)) :
    nRsp (c.rx now d ok).2 = 0 := by
  have hcc := isResponse_codeClassOk hr
  rcases hdup with ⟨hd, hl⟩ | ⟨hd, hl⟩
  · obtain ⟨k, _, hk⟩ := con_response_always_acked c now d ok h hd hr
    rw [hk]; simp [hl]
  · rw [(rx_ack_out c now d ok h hd hr).1]; simp [hl]

/-- **A handler verdict of FAIL produces a Reset** (D4: for a CON or NON response that is delivered) and no ACK. -/
theorem fail_verdict_resets (c : Client) (now : Nat) (d : Dgram)
    (h : c.L.delayq = []) (hr : isResponse d.code = true)
    (hd : (d.type = .con ∧ c.lastCon ≠ some d.mid) ∨ d.type = .non) :
    (c.rx now d false).2 = [Out.callResponse d false, Out.tx { type := .rst, code := 0, mid := d.mid, token := [] }] := by
  have hcc := isResponse_codeClassOk hr
  rcases hd with ⟨hd, hl⟩ | hd
  · have h1 := (hr_con c now d false h hd).1
    unfold Client.rx
    simp only [hcc, hd, hr, Bool.not_true, if_true]
    rw [show (if false = true then (c, [Out.unmodelled]) else c.handleResponse now d false) = c.handleResponse now d false by simp]
    rw [h1]; simp [hl, rstFor]
  · have h1 := (hr_non c now d false h hd).1
    unfold Client.rx
    simp only [hcc, hd, hr, Bool.not_true, if_true]
    rw [show (if false = true then (c, [Out.unmodelled]) else c.handleResponse now d false) = c.handleResponse now d false by simp]
    rw [h1]; simp [rstFor]

/-- **A Non-confirmable message is delivered once per datagram received**: every arrival of a NON response produces
    exactly one handler call, carrying that message — there is no duplicate filter for NON, in any client state. -/
theorem non_delivered_once_per_datagram (c : Client) (now : Nat) (d : Dgram) (ok : Bool)
    (h : c.L.delayq = []) (hd : d.type = .non) (hr : isResponse d.code = true) :
    nRsp (c.rx now d ok).2 = 1 ∧ Out.callResponse d ok ∈ (c.rx now d ok).2 := by
  have hcc := isResponse_codeClassOk hr
  have h1 := (hr_non c now d ok h hd).1
  unfold Client.rx
  simp only [hcc, hd, hr, Bool.not_true, if_true]
  rw [show (if false = true then (c, [Out.unmodelled]) else c.handleResponse now d ok) = c.handleResponse now d ok by simp]
  rw [h1]
  cases ok <;> simp [rstFor]

/-- phases of one exchange as seen by the client -/
inductive Ph where
  | waiting | acked | responded | nacked
  deriving DecidableEq, Repr

/-- static facts about the exchange: `req` the Confirmable request, `r` THE response message of the server (D2) -/
structure Exchange (req r : Dgram) : Prop where
  hreq : req.type = .con
  hr : isResponse r.code = true
  htok : r.token = req.token
  htype : r.type = .ack ∨ r.type = .con
  hpb : r.type = .ack → r.mid = req.mid

def fresh (c : Client) (r : Dgram) : Prop :=
  (r.type = .ack → c.lastAck ≠ some r.mid) ∧ (r.type = .con → c.lastCon ≠ some r.mid)
def seen (c : Client) (r : Dgram) : Prop :=
  (r.type = .ack → c.lastAck = some r.mid) ∧ (r.type = .con → c.lastCon = some r.mid)

def PhOk (req r : Dgram) : Ph → Client → Prop
  | .waiting, c => (∃ n, c.L = Wt n ∧ n.d = req) ∧ fresh c r
  | .acked, c => c.L = Idle ∧ fresh c r
  | .responded, c => c.L = Idle ∧ seen c r
  | .nacked, c => c.L = Idle

/-- what can happen to the client during the exchange: time passes (any `now`, any number of times), a copy of the
    empty ACK arrives, a copy of the response message arrives — any number of copies in any order = every pattern
    of loss, duplication and delay of the datagrams of a server that answers with one response message -/
inductive ExEv (req r : Dgram) : CEvent → Prop where
  | tick (now : Nat) : ExEv req r (.tick now)
  | emptyAck (now : Nat) (ok : Bool) : ExEv req r (.rx now (emptyAck req.mid) ok)
  | response (now : Nat) (ok : Bool) : ExEv req r (.rx now r ok)

def isRsp (r : Dgram) : CEvent → Prop
  | .rx _ d _ => d = r
  | _ => False

def scoreR : Ph → Nat | .responded => 1 | _ => 0
def scoreN : Ph → Nat | .nacked => 1 | _ => 0

theorem step_ph {req r : Dgram} (X : Exchange req r) (ph : Ph) (c : Client) (hok : PhOk req r ph c)
    (e : CEvent) (he : ExEv req r e) (hlate : ph = .nacked → ¬ isRsp r e) :
    ∃ ph', PhOk req r ph' (c.step e).1 ∧ scoreR ph' = scoreR ph + nRsp (c.step e).2 ∧
           scoreN ph' = scoreN ph + nNack (c.step e).2 ∧ (isRsp r e → ph' = .responded) := by
  cases he with
  | tick now =>
    simp only [Client.step, Client.tick, isRsp, false_implies, and_true]
    cases ph with
    | waiting =>
      obtain ⟨⟨n, hL, hn⟩, hf⟩ := hok
      have hc : n.d.type = .con := by rw [hn]; exact X.hreq
      rw [hL]
      rcases Layer.tick_Wt now (((Wt n).sendq.length + 1) * 6) n hc with ⟨n', a1, a2, a3, a4⟩ | ⟨a1, a3, a4⟩
      · refine ⟨.waiting, ⟨⟨n', ?_, a2.trans hn⟩, hf⟩, ?_, ?_⟩
        · simpa [Layer.tickAll] using a1
        · simpa [Layer.tickAll, scoreR] using a3.symm
        · simpa [Layer.tickAll, scoreN] using a4.symm
      · refine ⟨.nacked, ?_, ?_, ?_⟩
        · simpa [PhOk, Layer.tickAll] using a1
        · simpa [Layer.tickAll, scoreR] using a3.symm
        · simpa [Layer.tickAll, scoreN] using a4.symm
    | acked =>
      obtain ⟨hL, hf⟩ := hok
      refine ⟨.acked, ⟨?_, hf⟩, ?_, ?_⟩ <;> simp [hL, Layer.tickAll, Layer.tick_Idle, scoreR, scoreN]
    | responded =>
      obtain ⟨hL, hf⟩ := hok
      refine ⟨.responded, ⟨?_, hf⟩, ?_, ?_⟩ <;> simp [hL, Layer.tickAll, Layer.tick_Idle, scoreR, scoreN]
    | nacked =>
      refine ⟨.nacked, ?_, ?_, ?_⟩ <;> simp [PhOk] at hok ⊢ <;> simp [hok, Layer.tickAll, Layer.tick_Idle]
  | emptyAck now ok =>
    simp only [Client.step, isRsp]
    have hne : emptyAck req.mid = r → False := by
      intro h
      have := X.hr
      rw [← h] at this
      simp [emptyAck, isResponse] at this
    cases ph with
    | waiting =>
      obtain ⟨⟨n, hL, hn⟩, hf⟩ := hok
      have := rx_emptyAck_Wt c now ok n hL
      rw [hn] at this
      rw [this]
      exact ⟨.acked, ⟨rfl, hf⟩, by simp [scoreR], by simp [scoreN], fun h => (hne h).elim⟩
    | acked =>
      obtain ⟨hL, hf⟩ := hok
      rw [rx_emptyAck_Idle c now ok req.mid hL]
      exact ⟨.acked, ⟨hL, hf⟩, by simp [scoreR], by simp [scoreN], fun h => (hne h).elim⟩
    | responded =>
      obtain ⟨hL, hf⟩ := hok
      rw [rx_emptyAck_Idle c now ok req.mid hL]
      exact ⟨.responded, ⟨hL, hf⟩, by simp [scoreR], by simp [scoreN], fun _ => rfl⟩
    | nacked =>
      have hL : c.L = Idle := hok
      rw [rx_emptyAck_Idle c now ok req.mid hL]
      exact ⟨.nacked, hL, by simp [scoreR], by simp [scoreN], fun h => (hne h).elim⟩
  | response now ok =>
    simp only [Client.step, isRsp, true_implies]
    rcases X.htype with ht | ht
    · -- piggybacked response
      have hm := X.hpb ht
      cases ph with
      | waiting =>
        obtain ⟨⟨n, hL, hn⟩, hf⟩ := hok
        have hfr := hf.1 ht
        rw [rx_pb_Wt c now r ok n hL ht X.hr (by rw [hn]; exact hm)]
        simp only [hfr, if_false]
        exact ⟨.responded, ⟨rfl, ⟨fun _ => rfl, (fun h => by rw [ht] at h; cases h)⟩⟩, by simp [scoreR], by simp [scoreN], rfl⟩
      | acked =>
        obtain ⟨hL, hf⟩ := hok
        have hfr := hf.1 ht
        rw [rx_pb_Idle c now r ok hL ht X.hr]
        simp only [hfr, if_false]
        exact ⟨.responded, ⟨hL, ⟨fun _ => rfl, (fun h => by rw [ht] at h; cases h)⟩⟩, by simp [scoreR], by simp [scoreN], rfl⟩
      | responded =>
        obtain ⟨hL, hs⟩ := hok
        have hse := hs.1 ht
        rw [rx_pb_Idle c now r ok hL ht X.hr]
        simp only [hse, if_true]
        exact ⟨.responded, ⟨hL, hs⟩, by simp [scoreR], by simp [scoreN], rfl⟩
      | nacked => exact absurd rfl (hlate rfl)
    · -- separate Confirmable response
      cases ph with
      | waiting =>
        obtain ⟨⟨n, hL, hn⟩, hf⟩ := hok
        have hfr := hf.2 ht
        rw [rx_con_Wt c now r ok n hL ht X.hr (by rw [hn]; exact X.htok.symm) (by rw [hn]; exact X.hreq)]
        simp only [hfr, if_false]
        refine ⟨.responded, ⟨rfl, ⟨(fun h => by rw [ht] at h; cases h), fun _ => rfl⟩⟩, ?_, ?_, rfl⟩
        · cases ok <;> simp [scoreR, ackFor, rstFor, ht]
        · cases ok <;> simp [scoreN, ackFor, rstFor, ht]
      | acked =>
        obtain ⟨hL, hf⟩ := hok
        have hfr := hf.2 ht
        rw [rx_con_Idle c now r ok hL ht X.hr]
        simp only [hfr, if_false]
        refine ⟨.responded, ⟨rfl, ⟨(fun h => by rw [ht] at h; cases h), fun _ => rfl⟩⟩, ?_, ?_, rfl⟩
        · cases ok <;> simp [scoreR, ackFor, rstFor, ht]
        · cases ok <;> simp [scoreN, ackFor, rstFor, ht]
      | responded =>
        obtain ⟨hL, hs⟩ := hok
        have hse := hs.2 ht
        rw [rx_con_Idle c now r ok hL ht X.hr]
        simp only [hse, if_true]
        refine ⟨.responded, ⟨rfl, ⟨(fun h => by rw [ht] at h; cases h), fun _ => rfl⟩⟩, ?_, ?_, rfl⟩
        · cases c.lastResOk <;> simp [scoreR, ackFor, rstFor, ht]
        · cases c.lastResOk <;> simp [scoreN, ackFor, rstFor, ht]
      | nacked => exact absurd rfl (hlate rfl)


/-- "no copy of the response reaches the client after it has given up": once the NACK handler has run, no later
    event is an arrival of the response message.  (Implied by network delays < ACK_TIMEOUT when the server's own
    delay and retransmissions end before the client's last wait of 16·T expires; NOT implied in general — that
    remainder is the open finding `unsolicited_response_delivered`, see `late_response_after_nack_witness`.) -/
def NoLate (r : Dgram) : Client → List CEvent → Prop
  | _, [] => True
  | c, e :: es => (nNack (c.step e).2 > 0 → ∀ e' ∈ es, ¬ isRsp r e') ∧ NoLate r (c.step e).1 es

theorem run_ph {req r : Dgram} (X : Exchange req r) :
    ∀ (es : List CEvent) (ph : Ph) (c : Client), PhOk req r ph c → (∀ e ∈ es, ExEv req r e) → NoLate r c es →
      (ph = .nacked → ∀ e ∈ es, ¬ isRsp r e) →
      ∃ ph', PhOk req r ph' (Client.run c es).1 ∧ scoreR ph' = scoreR ph + nRsp (Client.run c es).2 ∧
             scoreN ph' = scoreN ph + nNack (Client.run c es).2 ∧
             ((ph' = .waiting ∨ ph' = .acked) → ∀ e ∈ es, ¬ isRsp r e) := by
  intro es
  induction es with
  | nil => intro ph c hok _ _ _; exact ⟨ph, hok, by simp [Client.run], by simp [Client.run], by simp⟩
  | cons e es ih =>
    intro ph c hok hev hnl hna
    obtain ⟨ph1, hok1, hr1, hn1, hrsp1⟩ :=
      step_ph X ph c hok e (hev e (List.mem_cons_self ..)) (fun h => hna h e (List.mem_cons_self ..))
    have hna1 : ph1 = .nacked → ∀ e' ∈ es, ¬ isRsp r e' := by
      intro h1
      by_cases hp : ph = .nacked
      · intro e' he'; exact hna hp e' (List.mem_cons_of_mem _ he')
      · have : nNack (c.step e).2 > 0 := by
          rw [h1] at hn1
          cases ph <;> simp [scoreN] at hn1 hp ⊢ <;> omega
        exact hnl.1 this
    obtain ⟨ph2, hok2, hr2, hn2, hw2⟩ :=
      ih ph1 (c.step e).1 hok1 (fun e' he' => hev e' (List.mem_cons_of_mem _ he')) hnl.2 hna1
    refine ⟨ph2, ?_, ?_, ?_, ?_⟩
    · simpa [Client.run] using hok2
    · simp only [Client.run, nRsp_append]; omega
    · simp only [Client.run, nNack_append]; omega
    · intro hw e' he'
      rcases List.mem_cons.mp he' with rfl | hmem
      · intro hisr
        have h1 := hrsp1 hisr
        rw [h1] at hr2
        rcases hw with hw | hw <;> rw [hw] at hr2 <;> simp [scoreR] at hr2 <;> omega
      · exact hw2 hw e' hmem

/-- **At most one conclusion** (never both, never twice): for a Confirmable request sent from a quiet session (D1)
    whose dedup slots do not already hold the ids of this exchange, and for EVERY sequence of time steps and
    arrivals of copies of the empty ACK and of the server's response message (D2) — i.e. every pattern of loss,
    duplication, delay and retransmission — the response handler and the NACK handler are called at most once
    in total. -/
theorem at_most_one_conclusion {req r : Dgram} (X : Exchange req r) (c0 : Client) (hidle : c0.L = Idle)
    (hfresh : fresh c0 r) (now0 T : Nat) (es : List CEvent) (hes : ∀ e ∈ es, ExEv req r e)
    (hlate : NoLate r (c0.appSend now0 req T).1 es) :
    nRsp (Client.run c0 (.appSend now0 req T :: es)).2 + nNack (Client.run c0 (.appSend now0 req T :: es)).2 ≤ 1 ∧
    ((Client.run c0 (.appSend now0 req T :: es)).1.L.sendq = [] →
      nRsp (Client.run c0 (.appSend now0 req T :: es)).2 + nNack (Client.run c0 (.appSend now0 req T :: es)).2 = 1 ∨
      ∀ e ∈ es, ¬ isRsp r e) := by
  have hs := appSend_Idle c0 now0 req T hidle X.hreq
  have hok : PhOk req r .waiting (c0.appSend now0 req T).1 := by
    rw [hs]; exact ⟨⟨_, rfl, rfl⟩, hfresh⟩
  obtain ⟨ph', hok', hr', hn', hw'⟩ := run_ph X es .waiting _ hok hes hlate (fun h => by cases h)
  have hrun : Client.run c0 (.appSend now0 req T :: es) =
      ((Client.run (c0.appSend now0 req T).1 es).1, (c0.appSend now0 req T).2 ++ (Client.run (c0.appSend now0 req T).1 es).2) := by
    simp [Client.run, Client.step]
  rw [hrun]
  have ho : (c0.appSend now0 req T).2 = [Out.tx req] := by rw [hs]
  simp only [ho, nRsp_append, nNack_append]
  have h0r : nRsp [Out.tx req] = 0 := by simp
  have h0n : nNack [Out.tx req] = 0 := by simp
  refine ⟨?_, ?_⟩
  · cases ph' <;> simp [scoreR, scoreN] at hr' hn' <;> omega
  · intro hq
    cases ph' with
    | waiting =>
      obtain ⟨⟨n, hL, _⟩, _⟩ := hok'
      rw [hL] at hq; simp [Wt] at hq
    | acked => right; exact hw' (Or.inr rfl)
    | responded => left; simp [scoreR, scoreN] at hr' hn'; omega
    | nacked => left; simp [scoreR, scoreN] at hr' hn'; omega


/-- **A piggybacked or separate response stops retransmission of the request** (one step, any client state with D1:
    nothing held back, at most the request on the send queue): after the arrival of a response no node with the
    response's token (CON / NON response: coap_cancel_all_messages) resp. with its message id (piggybacked response:
    removal by mid) is left on the send queue, and the delay queue is still empty — `Layer.tick` only ever
    transmits nodes of the send queue, so the request is never transmitted again. -/
theorem response_stops_retransmission (c : Client) (now : Nat) (d : Dgram) (ok : Bool)
    (h : c.L.delayq = []) (hq : c.L.sendq.length ≤ 1) (hr : isResponse d.code = true) :
    (d.type = .con ∨ d.type = .non → ∀ n ∈ (c.rx now d ok).1.L.sendq, n.d.token ≠ d.token) ∧
    (d.type = .ack → ∀ n ∈ (c.rx now d ok).1.L.sendq, n.d.mid ≠ d.mid) := by
  have hcc := isResponse_codeClassOk hr
  refine ⟨?_, ?_⟩
  · intro ht
    rcases ht with ht | ht
    · have h3 := (hr_con c now d ok h ht).2.2
      unfold Client.rx
      simp only [hcc, ht, hr, Bool.not_true, if_true]
      rw [show (if false = true then (c, [Out.unmodelled]) else c.handleResponse now d ok) = c.handleResponse now d ok by simp]
      exact fun n hn => (h3 n hn).2
    · have h3 := (hr_non c now d ok h ht).2.2
      unfold Client.rx
      simp only [hcc, ht, hr, Bool.not_true, if_true]
      rw [show (if false = true then (c, [Out.unmodelled]) else c.handleResponse now d ok) = c.handleResponse now d ok by simp]
      exact fun n hn => (h3 n hn).2
  · intro ht n hn
    rw [(rx_ack_out c now d ok h ht hr).2] at hn
    -- a queue of at most one node: removal by mid leaves no node with that mid
    match hs : c.L.sendq, hq with
    | [], _ => simp [hs, Layer.removeByMid] at hn
    | [q], _ =>
      by_cases hm : q.d.mid = d.mid
      · simp [hs, Layer.removeByMid, hm] at hn
      · simp [hs, Layer.removeByMid, hm] at hn
        rw [hn]; exact hm
    | _ :: _ :: _, hq => simp [hs] at hq

/-- the same, end to end: for every event sequence of the exchange in which a copy of the response arrives, the
    message layer ends up idle (send queue and delay queue empty, NSTART slot free), and a timer on an idle layer
    does nothing -/
theorem response_ends_exchange {req r : Dgram} (X : Exchange req r) (c0 : Client) (hidle : c0.L = Idle)
    (hfresh : fresh c0 r) (now0 T : Nat) (es : List CEvent) (hes : ∀ e ∈ es, ExEv req r e)
    (hlate : NoLate r (c0.appSend now0 req T).1 es) (hex : ∃ e ∈ es, isRsp r e) :
    (Client.run c0 (.appSend now0 req T :: es)).1.L = Idle ∧ ∀ now fuel, Layer.tick now fuel Idle = (Idle, []) := by
  have hs := appSend_Idle c0 now0 req T hidle X.hreq
  have hok : PhOk req r .waiting (c0.appSend now0 req T).1 := by
    rw [hs]; exact ⟨⟨_, rfl, rfl⟩, hfresh⟩
  obtain ⟨ph', hok', _, _, hw'⟩ := run_ph X es .waiting _ hok hes hlate (fun h => by cases h)
  have hrun : (Client.run c0 (.appSend now0 req T :: es)).1 = (Client.run (c0.appSend now0 req T).1 es).1 := by
    simp [Client.run, Client.step]
  rw [hrun]
  obtain ⟨e, he, hie⟩ := hex
  refine ⟨?_, fun now fuel => Layer.tick_Idle now fuel⟩
  cases ph' with
  | waiting => exact absurd hie (hw' (Or.inl rfl) e he)
  | acked => exact absurd hie (hw' (Or.inr rfl) e he)
  | responded => exact hok'.1
  | nacked => exact hok'

/-- **exactly once** — partial: the domain of the open finding `unsolicited_response_delivered` is excluded by the
    hypotheses (D2: one response message; `NoLate`: no copy of it arrives after the client has given up), and the
    liveness half carries the caveat D5.  Full statement wanted by the property: the same conclusion with `ExEv`
    admitting ANY response datagram carrying the request's token and without `NoLate`; it is false for the pinned
    code (witnesses below).
    Under these hypotheses, for every schedule: never both, never twice (≤ 1 conclusion), and never neither once the
    client is quiet (send queue empty) unless no copy of the response ever arrived. -/
theorem exactly_once_partial {req r : Dgram} (X : Exchange req r) (c0 : Client) (hidle : c0.L = Idle)
    (hfresh : fresh c0 r) (now0 T : Nat) (es : List CEvent) (hes : ∀ e ∈ es, ExEv req r e)
    (hlate : NoLate r (c0.appSend now0 req T).1 es) :
    nRsp (Client.run c0 (.appSend now0 req T :: es)).2 + nNack (Client.run c0 (.appSend now0 req T :: es)).2 ≤ 1 ∧
    ((Client.run c0 (.appSend now0 req T :: es)).1.L.sendq = [] →
      nRsp (Client.run c0 (.appSend now0 req T :: es)).2 + nNack (Client.run c0 (.appSend now0 req T :: es)).2 = 1 ∨
      ∀ e ∈ es, ¬ isRsp r e) :=
  at_most_one_conclusion X c0 hidle hfresh now0 T es hes hlate

/-! ### witnesses of the open finding (concrete runs of M, by evaluation) and non-vacuity -/

def wReq : Dgram := { type := .con, code := 1, mid := 1001, token := [0xc0, 7] }
def wRsp (mid : Nat) : Dgram := { type := .con, code := 69, mid := mid, token := [0xc0, 7] }

/-- after MAX_RETRANSMIT the NACK handler runs; a copy of the server's separate response that arrives later is
    delivered all the same: both a NACK and a response for one request -/
theorem late_response_after_nack_witness :
    let o := (Client.run {} [.appSend 1000 wReq 2000, .tick 3000, .tick 7000, .tick 15000, .tick 31000, .tick 63000,
                             .rx 76001 (wRsp 5001) true]).2
    nRsp o = 1 ∧ nNack o = 1 := by decide

/-- a second response message (the server processed a retransmitted request again) is delivered again -/
theorem second_response_witness :
    let o := (Client.run {} [.appSend 1000 wReq 2000, .rx 1000 (emptyAck 1001) true, .rx 1300 (wRsp 5001) true,
                             .rx 1600 (wRsp 5002) true]).2
    nRsp o = 2 := by decide

/-- the hypotheses of `exactly_once_partial` are satisfiable: retransmission, empty ACK, the separate response twice -/
example :
    let es := [CEvent.tick 3000, .rx 3001 (emptyAck 1001) true, .rx 3500 (wRsp 5001) true, .tick 4000, .rx 5500 (wRsp 5001) true]
    Exchange wReq (wRsp 5001) ∧ (∀ e ∈ es, ExEv wReq (wRsp 5001) e) ∧
    nRsp (Client.run {} (.appSend 1000 wReq 2000 :: es)).2 = 1 ∧ nNack (Client.run {} (.appSend 1000 wReq 2000 :: es)).2 = 0 := by
  refine ⟨⟨rfl, by decide, rfl, Or.inr rfl, fun h => by cases h⟩, ?_, by decide, by decide⟩
  intro e he
  simp only [List.mem_cons, List.mem_nil_iff, or_false] at he
  rcases he with rfl | rfl | rfl | rfl | rfl
  · exact .tick _
  · exact .emptyAck _ _
  · exact .response _ _
  · exact .tick _
  · exact .response _ _

end Coap.C07
