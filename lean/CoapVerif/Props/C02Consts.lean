import CoapVerif.Model.QBlock
import CoapVerif.Model.Gate
import CoapVerif.Generated.Consts2
/-
C02 / T1 (workstream T1X) — the numerals of the Q-Block (RFC 9177) model and of the receive gate are those of the
current tree: the 2^20 bounds of `add_408_block` and of the 4.08 handler (literals in src/coap_block.c: source scan), the
content format application/missing-blocks+cbor-seq, COAP_MEDIATYPE_TEXT_PLAIN, COAP_DEFAULT_MTU.
-/
namespace Coap.C02
open Coap Coap.Generated

/-- `if (block < 0 || block >= (1 << 20)) return 0;`: the model refuses exactly from the compiled bound on -/
theorem add408Block_bound_matches_code (block : Nat) :
    QBlock.add408Block block = none ↔ block ≥ 2 ^ C2.add408BlockBits := by
  have h : C2.add408BlockBits = 20 := by decide
  rw [h]
  unfold QBlock.add408Block
  by_cases h1 : block ≥ 2 ^ 20
  · simp [h1]
  · simp only [h1, if_false, iff_false]
    repeat' split
    all_goals simp

/-- `if (block.num > (1 << 20) - 1) goto fail_cbor;` in the 4.08 handler: the numeral written into `q408Loop` -/
theorem q408_bound_matches_code : (2 ^ 20 - 1 : Nat) = 2 ^ C2.q408BlockBits - 1 ∧ C2.q408BlockBits = C2.add408BlockBits ∧
    2 ^ C2.q408BlockBits - 1 = C2.blockNumMax := by decide

/-- a 4.08 whose Content-Format is not COAP_MEDIATYPE_APPLICATION_MB_CBOR_SEQ as compiled ends in `fail_body`, for
every input; an absent Content-Format is COAP_MEDIATYPE_TEXT_PLAIN -/
theorem q408_format_matches_code (mp : Nat) (body : Bytes) (szx : Nat) (fmt : Option Nat) (isNon : Bool) (payload : Bytes)
    (h : QBlock.fmtOf fmt ≠ C2.COAP_MEDIATYPE_APPLICATION_MB_CBOR_SEQ) :
    QBlock.q408Branch mp body szx fmt isNon payload = .ok ⟨[], .failBody⟩ := by
  have h2 : C2.COAP_MEDIATYPE_APPLICATION_MB_CBOR_SEQ = 272 := by decide
  rw [h2] at h
  simp [QBlock.q408Branch, h]

theorem q408_noFormat_matches_code : QBlock.fmtOf none = C2.COAP_MEDIATYPE_TEXT_PLAIN := by decide

/-- the hypothesis of `q408_format_matches_code` is satisfiable -/
example : QBlock.fmtOf (some 0) ≠ C2.COAP_MEDIATYPE_APPLICATION_MB_CBOR_SEQ := by decide

/-- the two extractors agree on COAP_DEFAULT_MTU (the MTU `M.gateDefault` uses) -/
theorem gate_mtu_matches_code : Generated.Consts.COAP_DEFAULT_MTU = C2.COAP_DEFAULT_MTU := by decide

example : QBlock.add408Block (2 ^ 20) = none := by decide
example : QBlock.add408Block (2 ^ 20 - 1) ≠ none := by decide

end Coap.C02
