import CoapVerif.Model.LinkFormat
import CoapVerif.Generated.Consts2
/-
C20 / T1 (workstream T1X) — the `coap_print_status_t` layout and UINT_MAX used by the link-format model are those of the
current tree.
-/
namespace Coap.C20
open Coap Coap.Generated

/-- COAP_PRINT_STATUS_MAX; the error flag and the mask sit above it -/
theorem statusMax_matches_code :
    M.LF.STATUS_MAX = C2.COAP_PRINT_STATUS_MAX ∧ C2.COAP_PRINT_STATUS_MASK = C2.UINT_MAX - C2.COAP_PRINT_STATUS_MAX ∧
    C2.COAP_PRINT_STATUS_ERROR > C2.COAP_PRINT_STATUS_MAX := by decide
theorem uintMax_matches_code : M.LF.UINT_MAX = C2.UINT_MAX := by decide
/-- Content-Format of /.well-known/core and the option its query filter is read from -/
theorem linkFormat_numbers_matches_code :
    (40 : Nat) = C2.COAP_MEDIATYPE_APPLICATION_LINK_FORMAT ∧ (15 : Nat) = C2.COAP_OPTION_URI_QUERY := by decide

end Coap.C20
