import CoapVerif.Model.Lock
import CoapVerif.Generated.Consts2
/-
C13 / T1 (workstream T1X) — the nesting bound of the lock model is the range of the counters of `coap_lock_t` in the
current tree (thread-safe build).
-/
namespace Coap.C13
open Coap Coap.Generated

/-- `lock_count` and `in_callback` are 32-bit unsigned counters -/
theorem maxDepth_matches_code :
    Lock.maxDepth = 2 ^ C2.lockCountBits - 1 ∧ Lock.maxDepth = 2 ^ C2.lockInCallbackBits - 1 := by decide

end Coap.C13
