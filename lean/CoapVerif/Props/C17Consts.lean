import CoapVerif.Model.Persist
import CoapVerif.Generated.Consts2
/-
C17 / T1 (workstream T1X) — the record field sizes of the persist-file model are the `sizeof`s of the current tree as
the compiler sees them; the line buffer, the field-size bound, the initial Observe value and the 24-bit mask are literals
of src/coap_subscribe.c / src/coap_resource.c (source scan).
-/
namespace Coap.C17
open Coap Coap.Generated

/-- `fwrite(&observe_key, sizeof(observe_key), …)`: a pointer-sized key -/
theorem szKey_matches_code : Persist.szKey = C2.sizeofPtr := by decide
theorem szProto_matches_code : Persist.szProto = C2.sizeofProto := by decide
theorem szAddr_matches_code : Persist.szAddr = C2.sizeofAddress := by decide
theorem szTuple_matches_code : Persist.szTuple = C2.sizeofAddrTuple := by decide
theorem szLen_matches_code : Persist.szLen = C2.sizeofSsize ∧ Persist.szLen = C2.sizeofSize := by decide
/-- `(ssize_t)-1` as the model writes it -/
theorem minusOne_matches_code : Persist.minusOne = 2 ^ (8 * C2.sizeofSsize) - 1 := by decide
/-- `if (size < 0 || size > 0x10000)` -/
theorem maxLen_matches_code : Persist.maxLen = C2.persistMaxField := by decide
/-- `char buf[1500]` of the three `fgets` loops -/
theorem cntBuf_matches_code : Persist.cntBuf = C2.persistLineBuf := by decide
/-- `r->observe = 2` in coap_resource_init -/
theorem initialObserve_matches_code : Persist.initialObserve = C2.resourceInitialObserve := by decide
/-- `& 0xffffff` on the Observe counter, for every value -/
theorem mask24_matches_code (n : Nat) : Persist.mask24 n = n &&& C2.observeCounterMask := by
  have h : C2.observeCounterMask = 2 ^ 24 - 1 := by decide
  rw [h, Nat.and_two_pow_sub_one_eq_mod]; rfl
theorem protoUdp_matches_code : Persist.protoUdp = C2.COAP_PROTO_UDP := by decide

end Coap.C17
