import CoapVerif.Model.LinkFormat
namespace Coap.C20
end Coap.C20
