import CoapVerif.Lemmas.LinkFormat
import CoapVerif.Lemmas.WkBlock
import CoapVerif.Lemmas.WkLive
import CoapVerif.Lemmas.WkEtag
import CoapVerif.Props.C16
/-
C20 — `/.well-known/core` lists exactly the registered resources in any window / filter.

  S = Coap.LF.listing / selects / matchSpec   (RFC 6690; CoapVerif/Spec/LinkFormat.lean)
  M = Coap.M.LF.wellknown / matchM / hndBody  (transcription of src/coap_resource.c after the fix:
      and of hnd_get_wellknown_lkd after its fix; CoapVerif/Model/LinkFormat.lean)

Property theorems only; helper lemmas live in CoapVerif/Lemmas/LinkFormat.lean.  The only hypothesis
is `buflen ≤ COAP_PRINT_STATUS_MAX` (the status word has 28 bits for the length; beyond that the
function reports COAP_PRINT_STATUS_ERROR by design).
-/
namespace Coap.C20
open Coap Coap.LF Coap.M.LF

/-- everything `coap_print_wellknown_lkd` returns, for every table, query, offset and buffer size -/
theorem wellknown_eq (t : Table) (qf : Option Bytes) (buflen offset : Nat) (hb : buflen ≤ STATUS_MAX) :
    wellknown t qf buflen offset =
      R.ok ⟨window (listing t (qf.getD [])) offset buflen,
            ⟨(window (listing t (qf.getD [])) offset buflen).length,
             decide ((window (listing t (qf.getD [])) offset buflen).length + offset -
                       (if buflen = 0 then offset else offset - (listing t (qf.getD [])).length)
                     < (listing t (qf.getD [])).length),
             false⟩,
            (listing t (qf.getD [])).length⟩ := by
  obtain ⟨fp, hfp, hsel⟩ := selectsM_eq qf
  unfold wellknown
  rw [hfp]
  simp only []
  rw [wkLoop_eq fp _ hsel t _ false hb, ← joinComma_eq]
  simp only []
  have hl : joinComma ((t.filter (fun r => r.path != wkPath && selects (qf.getD []) r)).map link) =
      listing t (qf.getD []) := rfl
  rw [hl, copy_init]
  have hw : (window (listing t (qf.getD [])) offset buflen).length ≤ STATUS_MAX := by
    have : (window (listing t (qf.getD [])) offset buflen).length ≤ buflen := by simp [window]; omega
    omega
  rw [finish_ok _ _ hw]

/-- (window) for every offset and buffer size the bytes written are exactly that window of the listing -/
theorem window_exact (t : Table) (qf : Option Bytes) (offset buflen : Nat) (hb : buflen ≤ STATUS_MAX) :
    ∃ o, wellknown t qf buflen offset = R.ok o ∧
      o.out = ((listing t (qf.getD [])).drop offset).take buflen ∧
      o.status.len = o.out.length ∧ o.status.error = false :=
  ⟨_, wellknown_eq t qf buflen offset hb, rfl, rfl, rfl⟩

/-- (total) the reported total length (`*buflen` on return) is the length of the whole listing -/
theorem total_exact (t : Table) (qf : Option Bytes) (offset buflen : Nat) (hb : buflen ≤ STATUS_MAX) :
    ∃ o, wellknown t qf buflen offset = R.ok o ∧ o.total = (listing t (qf.getD [])).length :=
  ⟨_, wellknown_eq t qf buflen offset hb, rfl⟩

/-- (flag) for a non-empty buffer COAP_PRINT_STATUS_TRUNC is set exactly when listing remains beyond the window -/
theorem trunc_flag_iff (t : Table) (qf : Option Bytes) (offset buflen : Nat) (hb : buflen ≤ STATUS_MAX)
    (hpos : 0 < buflen) :
    ∃ o, wellknown t qf buflen offset = R.ok o ∧
      (o.status.trunc = true ↔ offset + o.out.length < (listing t (qf.getD [])).length) := by
  refine ⟨_, wellknown_eq t qf buflen offset hb, ?_⟩
  simp only [decide_eq_true_eq]
  rw [if_neg (by omega)]
  simp only [window, List.length_take, List.length_drop]
  omega

/-- with an empty buffer (the size probe of the GET handler) nothing is written, the offset is not
consumed, and the flag says whether the listing is non-empty -/
theorem probe_reports_length (t : Table) (qf : Option Bytes) (offset : Nat) :
    wellknown t qf 0 offset =
      R.ok ⟨[], ⟨0, decide (0 < (listing t (qf.getD [])).length), false⟩, (listing t (qf.getD [])).length⟩ := by
  rw [wellknown_eq t qf 0 offset (by simp [STATUS_MAX])]
  simp [window]

/-- the printer never reads outside the query string, an attribute name or an attribute value -/
theorem wellknown_no_overread (t : Table) (qf : Option Bytes) (offset buflen : Nat) (hb : buflen ≤ STATUS_MAX) :
    wellknown t qf buflen offset ≠ R.oob := by
  rw [wellknown_eq t qf buflen offset hb]; simp

/-- (listing) the listing is the comma-joined RFC 6690 links of exactly the registered resources the
filter selects, once each, in table order: nothing else is listed, nothing selected is missing -/
theorem listing_exactly_registered (t : Table) (q : Bytes) :
    listing t q = joinComma ((selected t q).map link) ∧
    (∀ r, r ∈ selected t q ↔ r ∈ t ∧ r.path ≠ wkPath ∧ selects q r = true) ∧
    (selected t q).Sublist t ∧
    (selected t [] = t.filter (fun r => r.path != wkPath)) := by
  refine ⟨rfl, ?_, List.filter_sublist, ?_⟩
  · intro r
    simp [selected, List.mem_filter]
  · simp [selected, selects]

/-- the link of a resource shows its path, every attribute in table order, and the two markers -/
theorem link_shows_everything (r : Resource) :
    link r = [0x3C, 0x2F] ++ r.path ++ [0x3E] ++ (r.attrs.map attrBytes).flatten ++
      (if r.observable then sObs else []) ++ (if r.oscoreOnly then sOsc else []) := rfl

/-- registering replaces an older registration of the same path and appends; paths stay unique -/
theorem register_paths_nodup (t : Table) (r : Resource) (h : (t.map (·.path)).Nodup) :
    ((register t r).map (·.path)).Nodup ∧ r ∈ register t r ∧
    (∀ x, x ∈ register t r ↔ (x ∈ t ∧ x.path ≠ r.path) ∨ x = r) := by
  refine ⟨?_, by simp [register], ?_⟩
  · simp only [register, List.map_append, List.map_cons, List.map_nil]
    rw [List.nodup_append]
    refine ⟨(List.filter_sublist.map _).nodup h, by simp, ?_⟩
    intro a ha b hb
    simp only [List.mem_map, List.mem_filter] at ha
    obtain ⟨x, ⟨_, hx⟩, rfl⟩ := ha
    simp at hb
    subst hb
    simpa using hx
  · intro x
    simp [register, List.mem_filter]

theorem unregister_removes (t : Table) (p : Bytes) (h : (t.map (·.path)).Nodup) :
    ((unregister t p).map (·.path)).Nodup ∧ (∀ x, x ∈ unregister t p ↔ x ∈ t ∧ x.path ≠ p) := by
  refine ⟨(List.filter_sublist.map _).nodup h, ?_⟩
  intro x
  simp [unregister, List.mem_filter]

/-- (match) `match()` is RFC 6690 matching: exact, prefix for a `*` query, per SP-separated token
for rt/if/rel — for every text, pattern and flag combination -/
theorem match_eq_spec (text pat : Bytes) (pfx sub : Bool) :
    matchM text text.length (some pat) pat.length pfx sub = R.ok (matchSpec pfx sub pat text) := by
  have := matchM_eq text pat text.length pat.length pfx sub (Nat.le_refl _) (Nat.le_refl _)
  rwa [List.take_length, List.take_length] at this

/-- (overread) `match()` never reads outside `text[0..tlen)` and `pattern[0..plen)`: called on pointers
into larger objects its answer depends on those bytes only, and on exact-size objects it is never `oob` -/
theorem match_no_overread (text pat : Bytes) (tlen plen : Nat) (pfx sub : Bool)
    (ht : tlen ≤ text.length) (hp : plen ≤ pat.length) :
    matchM text tlen (some pat) plen pfx sub ≠ R.oob ∧
    matchM text tlen (some pat) plen pfx sub =
      matchM (text.take tlen) tlen (some (pat.take plen)) plen pfx sub := by
  have h1 := matchM_eq text pat tlen plen pfx sub ht hp
  have h2 := matchM_eq (text.take tlen) (pat.take plen) tlen plen pfx sub (by simp; omega) (by simp; omega)
  rw [h1, h2]
  refine ⟨by simp, ?_⟩
  simp [List.take_take]

/-- the filter as a whole (query splitter + attribute lookup + unquoting + match) is the specification's -/
theorem filter_eq_spec (qf : Option Bytes) :
    ∃ fp, parseFilter qf = R.ok fp ∧ ∀ r, selectsM fp r = R.ok (selects (qf.getD []) r) :=
  selectsM_eq qf

/-! ### block-wise GET -/

theorem blocks_tile (body : Bytes) (sz : Nat) (k : Nat) :
    (List.range k).flatMap (block body sz) = body.take (k * sz) := by
  induction k with
  | zero => simp
  | succ k ih =>
    rw [List.range_succ, List.flatMap_append, ih]
    simp only [List.flatMap_cons, List.flatMap_nil, List.append_nil, block]
    rw [Nat.succ_mul, List.take_add]

/-- the body the GET handler hands to the block-wise layer (size probe + full print) is the listing -/
theorem get_body_eq_listing (t : Table) (qf : Option Bytes)
    (hl : (listing t (qf.getD [])).length ≤ STATUS_MAX) :
    hndBody t qf = R.ok (listing t (qf.getD [])) := by
  unfold hndBody
  rw [probe_reports_length]
  simp only [Bool.false_eq_true, if_false]
  by_cases h0 : (listing t (qf.getD [])).length > 0
  · rw [if_pos h0, wellknown_eq t qf _ 0 hl]
    simp [window]
  · rw [if_neg h0]
    have : listing t (qf.getD []) = [] := List.eq_nil_of_length_eq_zero (by omega)
    rw [this]

/-- (block-wise) for every block size, block `num` of the body is the window the printer writes for
`(offset, buflen) = (num·sz, sz)`, and the blocks 0 … n−1 of a Block2 GET concatenate to the listing -/
theorem block_get_reassembles (t : Table) (qf : Option Bytes) (sz : Nat) (hsz : 0 < sz) (hs : sz ≤ STATUS_MAX)
    (hl : (listing t (qf.getD [])).length ≤ STATUS_MAX) :
    ∃ body, hndBody t qf = R.ok body ∧
      (∀ num, ∃ o, wellknown t qf sz (num * sz) = R.ok o ∧ o.out = block body sz num) ∧
      (∀ k, body.length ≤ k * sz → (List.range k).flatMap (block body sz) = listing t (qf.getD [])) ∧
      (List.range ((body.length + sz - 1) / sz)).flatMap (block body sz) = listing t (qf.getD []) := by
  refine ⟨_, get_body_eq_listing t qf hl, ?_, ?_, ?_⟩
  · intro num
    exact ⟨_, wellknown_eq t qf sz (num * sz) hs, rfl⟩
  · intro k hk
    rw [blocks_tile, List.take_of_length_le hk]
  · rw [blocks_tile, List.take_of_length_le]
    have := Nat.div_add_mod ((listing t (qf.getD [])).length + sz - 1) sz
    have hm := Nat.mod_lt ((listing t (qf.getD [])).length + sz - 1) hsz
    rw [Nat.mul_comm]
    generalize ((listing t (qf.getD [])).length + sz - 1) / sz = d at *
    generalize ((listing t (qf.getD [])).length + sz - 1) % sz = m at *
    omega

/-! ### the GET path (hnd_get_wellknown_lkd after fix: the filter is the first Uri-Query option, undecorated) -/

theorem getFilter_getD (opts : List Bytes) : (getFilter opts).getD [] = opts.head?.getD [] := by
  cases opts with
  | nil => rfl
  | cons o r =>
    simp only [getFilter, List.head?_cons, Option.getD_some]
    split
    · rfl
    · have : o = [] := List.eq_nil_of_length_eq_zero (by omega)
      simp [this]

/-- (GET) `GET /.well-known/core` with any Uri-Query options — whatever bytes they contain — and any Block2 size:
the body is the listing for the first option taken as the search criterion (D20.8), and the `nblocks` blocks
reassemble to it -/
theorem get_reassembles (t : Table) (opts : List Bytes)
    (hl : (getListing t opts).length ≤ STATUS_MAX) (sz : Nat) (hsz : 0 < sz) :
    ∃ body, getBody t opts = R.ok body ∧ body = getListing t opts ∧
      (List.range (nblocks body.length sz)).flatMap (block body sz) = getListing t opts := by
  have hb : getBody t opts = R.ok (getListing t opts) := by
    unfold getBody getListing
    rw [get_body_eq_listing t (getFilter opts) (by rw [getFilter_getD]; exact hl), getFilter_getD]
  refine ⟨_, hb, rfl, ?_⟩
  rw [blocks_tile, List.take_of_length_le]
  unfold nblocks
  split
  · omega
  · have := Nat.div_add_mod ((getListing t opts).length + sz - 1) sz
    have hm := Nat.mod_lt ((getListing t opts).length + sz - 1) hsz
    rw [Nat.mul_comm]
    generalize ((getListing t opts).length + sz - 1) / sz = d at *
    generalize ((getListing t opts).length + sz - 1) % sz = m at *
    omega

/-- regression of the former finding `wkc-query-escaped`: `</t>;title="a b"` queried with `?title=a%20b`
(option bytes `title=a b`) is listed; a second Uri-Query option does not change the answer -/
theorem get_query_with_space_listed :
    let t : Table := [⟨[0x74], [⟨[0x74, 0x69, 0x74, 0x6C, 0x65], some [0x22, 0x61, 0x20, 0x62, 0x22]⟩], false, false⟩]
    let q : Bytes := [0x74, 0x69, 0x74, 0x6C, 0x65, 0x3D, 0x61, 0x20, 0x62]
    getBody t [q] = R.ok (listing t []) ∧ listing t [] ≠ [] ∧ getBody t [q, [0x78]] = R.ok (listing t []) ∧
    getBody t [[0x78, 0x3D], q] = R.ok [] := by
  decide

/-! ### interleaved block-wise GETs: the Block2 response cache is keyed by the query string -/

/-- the cache key (coap_get_query()'s string, C16) determines the search criterion, hence the listing; the handler's
body is the listing: the facts `Keyed` asks for hold for every script with option values a request can carry -/
theorem keyed_of_small (t : Table) (xs : List Xfer)
    (hs : ∀ xf ∈ xs, C16.Small xf.opts ∧ (getListing t xf.opts).length ≤ STATUS_MAX) : Keyed t xs := by
  refine ⟨?_, ?_, ?_⟩
  · intro xf hx
    exact ⟨_, C16.get_query_eq_spec xf.opts (hs xf hx).1⟩
  · intro xf hx
    obtain ⟨body, hb, he, _⟩ := get_reassembles t xf.opts (hs xf hx).2 1 (by omega)
    rw [hb, he]
  · intro xf hx yf hy k1 k2 h1 h2 hk
    have e1 := C16.get_query_eq_spec xf.opts (hs xf hx).1
    have e2 := C16.get_query_eq_spec yf.opts (hs yf hy).1
    have hq : MU.getQuery xf.opts = MU.getQuery yf.opts := by
      rw [e1] at h1; rw [e2] at h2
      have h1 := R.ok.inj h1; have h2 := R.ok.inj h2
      rw [e1, e2]
      have : Spec.Uri.composeQuery xf.opts = Spec.Uri.composeQuery yf.opts := by
        subst h1; subst h2
        simp only [keyEq, beq_iff_eq] at hk
        by_cases ha : Spec.Uri.composeQuery xf.opts = [] <;> by_cases hb : Spec.Uri.composeQuery yf.opts = [] <;>
          simp [ha, hb] at hk ⊢ <;> first | exact hk | exact hk.symm | (rw [hk]) | skip
      rw [this]
    have hn := C16.query_injective xf.opts yf.opts (hs xf hx).1 (hs yf hy).1 hq
    unfold getListing
    have : xf.opts.head?.getD [] = yf.opts.head?.getD [] := by
      unfold Spec.Uri.norm at hn
      by_cases ha : xf.opts = [[]] <;> by_cases hb : yf.opts = [[]] <;> simp [ha, hb] at hn ⊢ <;> simp [hn]
    rw [this]

/-- (interleaving, under the keying hypothesis spelled out in `Keyed`) for ANY order in which the block requests of
any number of transfers — any Uri-Query options, any sessions — reach the server, every transfer is exactly where
as many turns of its own would have brought it had it been alone: it has the first blocks of ITS listing, never a
failure, and is complete once it has had `nblocks` turns -/
theorem interleaved_gets_reassemble_of_keyed (t : Table) (szx : Nat) (xs : List Xfer) (K : Keyed t xs)
    (order : List Nat) (i : Nat) (xf : Xfer) (hi : xs[i]? = some xf) :
    (runX t szx xs SState.init order).x i = xAfter (getListing t xf.opts) (2 ^ (szx + 4)) (order.count i) := by
  have h := runX_inv t szx xs K order SState.init (fun _ => 0) (SInv_init t szx xs)
  have := h.2 i xf hi
  simpa using this

/-- (interleaving) block-wise GETs of `/.well-known/core` for different filters (or none) may interleave in any
order, on one session or several: every transfer that gets its `⌈len/size⌉` turns reassembles to the listing for
ITS OWN filter, with exactly that many responses and no error; before that it holds a prefix of that listing -/
theorem interleaved_gets_reassemble (t : Table) (szx : Nat) (xs : List Xfer)
    (hs : ∀ xf ∈ xs, C16.Small xf.opts ∧ (getListing t xf.opts).length ≤ STATUS_MAX)
    (order : List Nat) (i : Nat) (xf : Xfer) (hi : xs[i]? = some xf) :
    let x := (runX t szx xs SState.init order).x i
    let nb := nblocks (getListing t xf.opts).length (2 ^ (szx + 4))
    x.failed = false ∧ x.buf = (getListing t xf.opts).take (x.next * 2 ^ (szx + 4)) ∧
    (x.done = true ↔ nb ≤ order.count i) ∧
    (nb ≤ order.count i → x.buf = getListing t xf.opts ∧ x.next = nb) := by
  have h := interleaved_gets_reassemble_of_keyed t szx xs (keyed_of_small t xs hs) order i xf hi
  simp only []
  rw [h]
  have hcpos : 0 < 2 ^ (szx + 4) := Nat.pow_pos (by omega)
  refine ⟨by simp [xAfter], by simp [xAfter], by simp [xAfter], ?_⟩
  intro hnb
  simp only [xAfter, Nat.min_eq_right hnb, and_true]
  apply List.take_of_length_le
  exact (nblocks_le_iff _ _ _ hcpos (nblocks_pos _ _ hcpos)).mp (Nat.le_refl _)

/-- completing a transfer (`drainX`) is more turns of that transfer, so the theorems above cover the scripts the
check runs (order, then every unfinished transfer is completed) -/
theorem drain_is_turns (t : Table) (szx : Nat) (xs : List Xfer) (i fuel : Nat) (st : SState) :
    ∃ n, drainX t szx xs fuel st i = runX t szx xs st (List.replicate n i) :=
  drainX_eq_runX t szx xs i fuel st

/-- a concrete interleaving (`</t>;title="a b"` and `</u>`; transfer 0 unfiltered, transfer 1 `?title=a*`, block
size 16, order 0 1 0 1 0): the hypotheses are satisfiable and the two transfers end with different bodies -/
example :
    let t : Table := [⟨[0x74], [⟨[0x74, 0x69, 0x74, 0x6C, 0x65], some [0x22, 0x61, 0x20, 0x62, 0x22]⟩], false, false⟩,
                      ⟨[0x75], [], false, false⟩]
    let xs : List Xfer := [⟨0, []⟩, ⟨0, [[0x74, 0x69, 0x74, 0x6C, 0x65, 0x3D, 0x61, 0x2A]]⟩]
    let st := runX t 0 xs SState.init [0, 1, 0, 1, 0]
    (st.x 0).buf = listing t [] ∧ (st.x 0).next = 2 ∧ (st.x 1).buf = (listing t []).take 16 ∧ (st.x 1).done = true ∧
    (st.x 0).buf ≠ (st.x 1).buf := by
  decide

/-! ### a live server: the listing is that of the resources registered NOW -/

/-- the requests of a run are requests a client can send (option values ≤ 65535 bytes), no listing exceeds the
printer's 28-bit length, and the client does not give up before the last block -/
def LiveOk (fuel : Nat) : Table → List LiveEv → Prop
  | _, [] => True
  | t, .op o :: r => LiveOk fuel (applyOp t o) r
  | t, .get _ szx opts :: r =>
    (C16.Small opts ∧ (getListing t opts).length ≤ STATUS_MAX ∧
      nblocks (getListing t opts).length (2 ^ (szx + 4)) ≤ fuel) ∧ LiveOk fuel t r
  | t, .print qf :: r => (listing t (qf.getD [])).length ≤ STATUS_MAX ∧ LiveOk fuel t r

theorem liveKeyed_of_ok (fuel : Nat) (evs : List LiveEv) : ∀ t, LiveOk fuel t evs → LiveKeyed fuel t evs := by
  induction evs with
  | nil => intro _ _; trivial
  | cons e r ih =>
    intro t h
    cases e with
    | op o => exact ih _ h
    | get sid szx opts =>
      obtain ⟨⟨hs, hl, hf⟩, hr⟩ := h
      obtain ⟨body, hb, he, _⟩ := get_reassembles t opts hl 1 (by omega)
      exact ⟨⟨⟨_, C16.get_query_eq_spec opts hs⟩, by rw [hb, he], hf⟩, ih t hr⟩
    | print qf => exact ⟨get_body_eq_listing t qf h.1, ih t h.2⟩

/-- (currently registered) for EVERY sequence of table changes — `coap_add_resource`, `coap_delete_resource`,
`coap_add_attr` and `coap_resource_set_get_observable` on resources that are already registered — interleaved with
complete block-wise GETs (any Uri-Query options, any Block2 size, any session) and listings printed by the application,
starting from any table and any content of the sessions' Block2 caches: every request yields exactly the listing of
the table as it is when the request arrives, in `⌈len/size⌉` responses, without failure.  Nothing an earlier request
computed (a length, a body, a cache entry) shows in a later answer. -/
theorem live_gets_current_listing (fuel : Nat) (st : LState) (evs : List LiveEv) (h : LiveOk fuel st.table evs) :
    liveRun fuel st evs = liveSpec st.table evs :=
  liveRun_eq_spec fuel evs st (liveKeyed_of_ok fuel evs st.table h)

/-- the instance a stale size would break: GET, describe a registered resource further (or flip its observable
flag, or any other table operation), GET again — the second body is the listing of the changed table -/
theorem get_after_change (fuel : Nat) (st : LState) (o : TableOp) (sid szx : Nat) (opts : List Bytes)
    (h : LiveOk fuel st.table [.get sid szx opts, .op o, .get sid szx opts]) :
    liveRun fuel st [.get sid szx opts, .op o, .get sid szx opts] =
      [⟨getListing st.table opts, nblocks (getListing st.table opts).length (2 ^ (szx + 4)), false⟩,
       ⟨getListing (applyOp st.table o) opts,
        nblocks (getListing (applyOp st.table o) opts).length (2 ^ (szx + 4)), false⟩] :=
  live_gets_current_listing fuel st _ h

/-- an attribute added to a registered resource is part of that resource's link from then on (and the resource keeps
its place): with `link_shows_everything` the link shows it first among the attributes -/
theorem attr_added_is_listed (t : Table) (p : Bytes) (a : Attr) :
    applyOp t (.attr p a) = t.map (fun r => if r.path == p then { r with attrs := a :: r.attrs } else r) ∧
    (applyOp t (.attr p a)).map (·.path) = t.map (·.path) ∧
    ∀ r ∈ t, r.path = p → addAttr r a ∈ applyOp t (.attr p a) ∧
      link (addAttr r a) = [0x3C, 0x2F] ++ r.path ++ [0x3E] ++ (attrBytes a ++ (r.attrs.map attrBytes).flatten) ++
        (if r.observable then sObs else []) ++ (if r.oscoreOnly then sOsc else []) := by
  refine ⟨rfl, ?_, ?_⟩
  · simp only [applyOp, List.map_map]
    apply List.map_congr_left
    intro r _
    simp only [Function.comp]
    split <;> rfl
  · intro r hr hp
    refine ⟨?_, ?_⟩
    · simp only [applyOp, List.mem_map]
      exact ⟨r, hr, by simp [hp]⟩
    · rfl

/-- non-vacuity (the seeded stale-length scenario): `</a>;rt=x` and `</b>`; unfiltered GET (szx 0), `title` added to
the registered `a`, `b` made observable, unfiltered GET on the same session, filtered GET, and the application's own
print: the hypotheses hold and the bodies follow the table -/
example :
    let t : Table := [⟨[0x61], [⟨sRt, some [0x78]⟩], false, false⟩, ⟨[0x62], [], false, false⟩]
    let evs : List LiveEv := [.get 0 0 [], .op (.attr [0x61] ⟨[0x74, 0x69, 0x74, 0x6C, 0x65], some [0x22, 0x52, 0x22]⟩),
      .get 0 0 [], .op (.obs [0x62] true), .get 0 0 [], .get 0 0 [sRt ++ [0x3D, 0x78]], .print none]
    LiveOk 5001 t evs ∧
    (liveRun 5001 ⟨t, fun _ => []⟩ evs).map (fun r => (r.buf.length, r.nresp, r.failed)) =
      [(14, 1, false), (24, 2, false), (28, 2, false), (19, 2, false), (28, 0, false)] := by
  refine ⟨?_, by decide⟩
  simp only [LiveOk, C16.Small, STATUS_MAX]
  decide

/-! ### non-vacuity: concrete instances, and the behaviour the three `fix:` commits removed -/

/-- `</a>;rt="ab cd";obs` and `</b>;ct=40` -/
def exTable : Table :=
  register (register [] (addAttr ⟨[0x61], [], true, false⟩ ⟨sRt, some [0x22, 0x61, 0x62, 0x20, 0x63, 0x64, 0x22]⟩))
    (addAttr ⟨[0x62], [], false, false⟩ ⟨[0x63, 0x74], some [0x34, 0x30]⟩)

example : (listing exTable []).length = 30 := by decide
example : some (listing exTable (sRt ++ [0x3D, 0x63, 0x64])) = exTable.head?.map link := by decide          -- rt=cd: token match
example : some (listing exTable (sRt ++ [0x3D, 0x61, 0x2A])) = exTable.head?.map link := by decide          -- rt=a*: prefix
example : listing exTable (sRt ++ [0x3D, 0x61, 0x62, 0x20, 0x63, 0x2A]) = [] := by decide        -- rt=ab c*: no token
example : (wellknown exTable none 5 27).toOption.map (·.out) = some [0x3D, 0x34, 0x30] := by decide
example : (wellknown exTable none 4 3).toOption.map (·.status.trunc) = some true := by decide
/-- the comparison the old `match()` made for `rt=ab c*` on `ab cd`: 4 bytes from the 2-byte token -/
example : matchSpec true true [0x61, 0x62, 0x20, 0x63] [0x61, 0x62, 0x20, 0x63, 0x64] = false ∧
    ([0x61, 0x62, 0x20, 0x63, 0x64].take 4 == [0x61, 0x62, 0x20, 0x63]) = true := by decide
/-- a value consisting of one `"`: `length - 2` wrapped to SIZE_MAX before the fix; now it is taken as it is -/
example : unquote [0x22] = [0x22] ∧ (1 + 2 ^ 64 - 2) % 2 ^ 64 = 2 ^ 64 - 1 := by decide

/-! ### table changes WHILE block-wise transfers are under way: one ETag, one listing

`runB` (Model/WkLive.lean): any sequence of events {GET block k (any SZX, Uri-Query options, Request-Tag, session), table
operation, lg_xmit timeout of any subset of a session's entries}; the trace is the list of exchanges, each with the table
as it was at that moment. -/

/-- the requests of a trace are requests a client can send (option values ≤ 65535 bytes) and no listing asked for exceeds
the printer's 28-bit length -/
def OkB (tr : List Obs) : Prop :=
  ∀ o ∈ tr, C16.Small o.req.opts ∧ (getListing o.table o.req.opts).length ≤ STATUS_MAX

theorem okObs_of_okB {tr : List Obs} (h : OkB tr) : ∀ o ∈ tr, OkObs o := by
  intro o ho
  refine ⟨⟨_, C16.get_query_eq_spec o.req.opts (h o ho).1⟩, ?_⟩
  obtain ⟨body, hb, he, _⟩ := get_reassembles o.table o.req.opts (h o ho).2 1 (by omega)
  rw [hb, he]

/-- **the cache key determines the listing**: requests whose `coap_get_query()` strings compare equal ask for the same
listing of any table (C16 `query_injective`) -/
theorem same_key_same_listing (t : Table) (a b : List Bytes) (ha : C16.Small a) (hb : C16.Small b)
    (hk : SameKey a b) : getListing t a = getListing t b := by
  obtain ⟨k1, k2, h1, h2, hk⟩ := hk
  have K := keyed_of_small [] [⟨0, a⟩, ⟨0, b⟩] (by
    intro xf hx
    simp only [List.mem_cons, List.not_mem_nil, or_false] at hx
    have hl : ∀ o, (getListing [] o).length ≤ STATUS_MAX := by
      intro o; simp [getListing, listing, selected, joinComma, STATUS_MAX]
    rcases hx with hx | hx <;> subst hx <;> exact ⟨by assumption, hl _⟩)
  have e1 := C16.get_query_eq_spec a ha
  have e2 := C16.get_query_eq_spec b hb
  have hq : MU.getQuery a = MU.getQuery b := by
    rw [e1] at h1; rw [e2] at h2
    have h1 := R.ok.inj h1; have h2 := R.ok.inj h2
    rw [e1, e2]
    have : Spec.Uri.composeQuery a = Spec.Uri.composeQuery b := by
      subst h1; subst h2
      simp only [keyEq, beq_iff_eq] at hk
      by_cases ha : Spec.Uri.composeQuery a = [] <;> by_cases hb : Spec.Uri.composeQuery b = [] <;>
        simp [ha, hb] at hk ⊢ <;> first | exact hk | exact hk.symm | (rw [hk]) | skip
    rw [this]
  have hn := C16.query_injective a b ha hb hq
  unfold getListing
  have : a.head?.getD [] = b.head?.getD [] := by
    unfold Spec.Uri.norm at hn
    by_cases ha : a = [[]] <;> by_cases hb : b = [[]] <;> simp [ha, hb] at hn ⊢ <;> simp [hn]
  rw [this]

theorem invB_init (t : Table) (e0 : Nat) : InvB (BState.init t e0) [] :=
  ⟨by intro sid e he; simp [BState.init] at he, by simp [issued], by intro E hE; simp [issued] at hE⟩

/-- two block-0 exchanges of a trace that carry the same ETag are the same exchange -/
theorem issued_inj (tr : List Obs) (hn : (issued tr).Nodup) (a b : Obs) (ha : a ∈ tr) (hb : b ∈ tr) (E : Nat)
    (ha0 : a.req.num = 0) (hb0 : b.req.num = 0) (hae : etagOf a.resp = some E) (hbe : etagOf b.resp = some E) :
    a = b := by
  have hmem : ∀ (l : List Obs) (x : Obs), x ∈ l → x.req.num = 0 → etagOf x.resp = some E → E ∈ issued l := by
    intro l x hx h0 he
    simp only [issued, List.mem_filterMap]
    exact ⟨x, hx, by simp [h0, he]⟩
  induction tr with
  | nil => simp at ha
  | cons x xs ih =>
    have hcons : issued (x :: xs) = issued [x] ++ issued xs := issued_append [x] xs
    rw [hcons] at hn
    have hnx := (List.nodup_append.mp hn)
    simp only [List.mem_cons] at ha hb
    rcases ha with ha | ha <;> rcases hb with hb | hb
    · rw [ha, hb]
    · subst ha
      exact absurd rfl (hnx.2.2 E (hmem [a] a (by simp) ha0 hae) E (hmem xs b hb hb0 hbe))
    · subst hb
      exact absurd rfl (hnx.2.2 E (hmem [b] b (by simp) hb0 hbe) E (hmem xs a ha ha0 hae))
    · exact ih hnx.2.1 ha hb

/-- (restart) whatever happened before — transfers under way, table changes, timeouts —, a request for block 0 is
answered from the table AS IT IS NOW: first block of the current listing, M bit and a (new) ETag exactly when more follows -/
theorem restart_gets_current_listing (t : Table) (e0 : Nat) (evs : List BEv)
    (hok : OkB (runB (BState.init t e0) evs)) (hw : e0 + evs.length < 2 ^ 64) :
    ∀ o ∈ runB (BState.init t e0) evs, o.req.num = 0 →
      o.resp = RespB.blk ((getListing o.table o.req.opts).take (2 ^ (o.req.szx + 4)))
                 (decide (2 ^ (o.req.szx + 4) < (getListing o.table o.req.opts).length)) (etagOf o.resp) ∧
      (etagOf o.resp).isSome = decide (2 ^ (o.req.szx + 4) < (getListing o.table o.req.opts).length) := by
  intro o ho h0
  have h := (runB_good evs (BState.init t e0) [] (invB_init t e0) (okObs_of_okB hok) hw).1 o ho
  exact h.1 h0

/-- the context never hands out the same ETag with two block 0s (fewer than 2^64 bodies) -/
theorem etags_never_reused (t : Table) (e0 : Nat) (evs : List BEv)
    (hok : OkB (runB (BState.init t e0) evs)) (hw : e0 + evs.length < 2 ^ 64) :
    (issued (runB (BState.init t e0) evs)).Nodup := by
  simpa using (runB_good evs (BState.init t e0) [] (invB_init t e0) (okObs_of_okB hok) hw).2

/-- every response that carries ETag `E` is block `num` of the listing — for the request's OWN Uri-Query options — of the table
as it was when the block 0 carrying `E` was served to the same session (same Request-Tag, same block size): never a block of
another client's body, never of a later or earlier table -/
theorem block_under_etag_is_block_of_block0_listing (t : Table) (e0 : Nat) (evs : List BEv)
    (hok : OkB (runB (BState.init t e0) evs)) (hw : e0 + evs.length < 2 ^ 64) :
    ∀ o ∈ runB (BState.init t e0) evs, ∀ p more E, o.resp = RespB.blk p more (some E) →
      ∃ o0 ∈ runB (BState.init t e0) evs, o0.req.num = 0 ∧ etagOf o0.resp = some E ∧
        o0.req.sid = o.req.sid ∧ o0.req.rtag = o.req.rtag ∧ o0.req.szx = o.req.szx ∧
        getListing o0.table o0.req.opts = getListing o0.table o.req.opts ∧
        p = block (getListing o0.table o.req.opts) (2 ^ (o.req.szx + 4)) o.req.num ∧
        more = decide (o.req.num * 2 ^ (o.req.szx + 4) + 2 ^ (o.req.szx + 4) <
                         (getListing o0.table o.req.opts).length) := by
  intro o ho p more E he
  have h := (runB_good evs (BState.init t e0) [] (invB_init t e0) (okObs_of_okB hok) hw).1 o ho
  obtain ⟨o0, h0, a1, a2, a3, a4, a5, a6, a7, a8⟩ := h.2 p more E he
  simp only [List.nil_append] at h0
  have hl := same_key_same_listing o0.table o0.req.opts o.req.opts (hok o0 h0).1 (hok o ho).1 a5
  exact ⟨o0, h0, a1, a6, a2, a3, a4, hl, by rw [← hl]; exact a7, by rw [← hl]; exact a8⟩

/-- (one ETag, one listing) all responses of a run that carry the same ETag are blocks of ONE body: the listing of the table as
it was when the — unique — block 0 with that ETag was served; a table change never yields a mixture of two listings under one
ETag, and two clients never share an ETag unless they are the same session asking with the same key -/
theorem blocks_of_one_etag_are_one_listing (t : Table) (e0 : Nat) (evs : List BEv)
    (hok : OkB (runB (BState.init t e0) evs)) (hw : e0 + evs.length < 2 ^ 64)
    (o o' : Obs) (ho : o ∈ runB (BState.init t e0) evs) (ho' : o' ∈ runB (BState.init t e0) evs)
    (p p' : Bytes) (m m' : Bool) (E : Nat)
    (he : o.resp = RespB.blk p m (some E)) (he' : o'.resp = RespB.blk p' m' (some E)) :
    ∃ o0 ∈ runB (BState.init t e0) evs, o0.req.num = 0 ∧ etagOf o0.resp = some E ∧
      o.req.sid = o0.req.sid ∧ o'.req.sid = o0.req.sid ∧
      getListing o0.table o.req.opts = getListing o0.table o0.req.opts ∧
      getListing o0.table o'.req.opts = getListing o0.table o0.req.opts ∧
      p = block (getListing o0.table o0.req.opts) (2 ^ (o0.req.szx + 4)) o.req.num ∧
      p' = block (getListing o0.table o0.req.opts) (2 ^ (o0.req.szx + 4)) o'.req.num := by
  obtain ⟨o0, h0, a1, a2, a3, _, a5, a6, a7, _⟩ :=
    block_under_etag_is_block_of_block0_listing t e0 evs hok hw o ho p m E he
  obtain ⟨o0', h0', b1, b2, b3, _, b5, b6, b7, _⟩ :=
    block_under_etag_is_block_of_block0_listing t e0 evs hok hw o' ho' p' m' E he'
  have heq : o0' = o0 := issued_inj _ (etags_never_reused t e0 evs hok hw) o0' o0 h0' h0 E b1 a1 b2 a2
  subst heq
  exact ⟨o0', h0, a1, a2, a3.symm, b3.symm, a6.symm, b6.symm, by rw [a6, a5]; exact a7, by rw [b6, b5]; exact b7⟩

def payloadOf : RespB → Bytes
  | .blk p _ _ => p
  | .err _ => []

/-- (reassembly) a client that has collected, in any order and with anything in between, the responses to its requests for
blocks `0 … n-1` under ONE ETag, `n` the block count of the listing at its block 0, has exactly that listing -/
theorem etag_blocks_reassemble (t : Table) (e0 : Nat) (evs : List BEv)
    (hok : OkB (runB (BState.init t e0) evs)) (hw : e0 + evs.length < 2 ^ 64)
    (f : Nat → Obs) (E n : Nat) (hn : 0 < n)
    (hf : ∀ i, i < n → f i ∈ runB (BState.init t e0) evs ∧ (f i).req.num = i ∧
      ∃ p m, (f i).resp = RespB.blk p m (some E))
    (hnb : n = nblocks (getListing (f 0).table (f 0).req.opts).length (2 ^ ((f 0).req.szx + 4))) :
    (List.range n).flatMap (fun i => payloadOf (f i).resp) = getListing (f 0).table (f 0).req.opts := by
  obtain ⟨h0m, h0n, p0, m0, h0r⟩ := hf 0 hn
  have hcong : ∀ i ∈ List.range n, payloadOf (f i).resp =
      block (getListing (f 0).table (f 0).req.opts) (2 ^ ((f 0).req.szx + 4)) i := by
    intro i hi
    obtain ⟨him, hin, p, m, hir⟩ := hf i (List.mem_range.mp hi)
    obtain ⟨o0, h0, a1, a2, _, _, _, _, _, a8⟩ :=
      blocks_of_one_etag_are_one_listing t e0 evs hok hw (f 0) (f i) h0m him p0 p m0 m E h0r hir
    have : o0 = f 0 := issued_inj _ (etags_never_reused t e0 evs hok hw) o0 (f 0) h0 h0m E a1 h0n a2
      (by rw [h0r]; rfl)
    subst this
    rw [hir, hin] at *
    exact a8
  have hfm : ∀ (l : List Nat) (g h : Nat → Bytes), (∀ i ∈ l, g i = h i) → l.flatMap g = l.flatMap h := by
    intro l g h hgh
    induction l with
    | nil => rfl
    | cons a l ih =>
      rw [List.flatMap_cons, List.flatMap_cons, hgh a (by simp), ih (fun i hi => hgh i (List.mem_cons_of_mem _ hi))]
  rw [hfm _ _ _ hcong, hnb]
  obtain ⟨body, _, hb, hr⟩ := get_reassembles (f 0).table (f 0).req.opts (hok _ h0m).2 (2 ^ ((f 0).req.szx + 4))
    (Nat.pow_pos (by omega))
  subst hb
  exact hr

/-- a run of 7 events with a table change and a timeout in the middle of a transfer: `</aaaaaaaaaaaaaaaaaa>` (21 bytes, two
blocks of 16); block 0 (ETag 1), `</b>` added, block 1 still comes from the OLD listing under ETag 1; a restart gets the
NEW listing under ETag 2; after the timeout block 1 is served from the current table without ETag.  The hypotheses of the
theorems above hold for it. -/
example :
    let r : Resource := ⟨List.replicate 18 0x61, [], false, false⟩
    let evs : List BEv := [.get ⟨0, 0, 0, [], none⟩, .op (.reg ⟨[0x62], [], false, false⟩), .get ⟨0, 1, 0, [], none⟩,
      .get ⟨0, 0, 0, [], none⟩, .expire 0 [], .get ⟨0, 1, 0, [], none⟩]
    let tr := runB (BState.init [r] 0) evs
    tr.map (·.resp) =
      [RespB.blk ((listing [r] []).take 16) true (some 1), RespB.blk ((listing [r] []).drop 16) false (some 1),
       RespB.blk ((listing [r, ⟨[0x62], [], false, false⟩] []).take 16) true (some 2),
       RespB.blk ((listing [r, ⟨[0x62], [], false, false⟩] []).drop 16) false none] ∧
    (∀ o ∈ tr, C16.Small o.req.opts) ∧ 0 + evs.length < 2 ^ 64 := by
  decide

end Coap.C20
