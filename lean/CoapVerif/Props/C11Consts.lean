import CoapVerif.Model.Observe
import CoapVerif.Model.ObserveKey
import CoapVerif.Model.ObserveWait
import CoapVerif.Generated.Consts2
/-
C11 / T1 (workstream T1Y) — the Observe model takes COAP_OBS_MAX_NON, COAP_OBS_MAX_FAIL, NSTART, MAX_RETRANSMIT, the ACK
timeout and the resource flags from Generated/ObsConst.lean (extract/obsconst.c) already; here that extractor is
cross-checked against extract/consts2.c, and the remaining numerals (24-bit Observe counter, 16-bit message id, 8-bit
failure counter, the option numbers of the cache key, `cache_ignore_options[]` as compiled, 4.04 / 2.05, tick
conversion) are tied.
-/
namespace Coap.C11
open Coap Coap.Observe Coap.Generated

/-- extract/obsconst.c and extract/consts2.c (+ coap_calc_timeout evaluated by consts2_net.c) agree -/
theorem obsConst_matches_code :
    obsMaxNon = C2.COAP_OBS_MAX_NON ∧ obsMaxFail = C2.COAP_OBS_MAX_FAIL ∧ obsNstart = C2.COAP_DEFAULT_NSTART ∧
    obsMaxRetransmit = C2.COAP_DEFAULT_MAX_RETRANSMIT ∧ obsAckTimeoutTicks = C2.calcTimeoutDefault.getD 0 0 ∧
    obsTicksPerSecond = C2.COAP_TICKS_PER_SECOND ∧ obsMaxSubscribers = C2.COAP_RESOURCE_MAX_SUBSCRIBER ∧
    obsFlagNotifyCon = C2.COAP_RESOURCE_FLAGS_NOTIFY_CON ∧
    obsFlagNotifyNonAlways = C2.COAP_RESOURCE_FLAGS_NOTIFY_NON_ALWAYS := by decide

/-- `(r->observe + 1) & 0xFFFFFF`, for every counter value (mask from the source scan of coap_resource.c) -/
theorem nextObserve_matches_code (o : Nat) : nextObserve o = (o + 1) &&& C2.observeCounterMask := by
  have h : C2.observeCounterMask = 2 ^ 24 - 1 := by decide
  rw [h, Nat.and_two_pow_sub_one_eq_mod]; rfl

/-- `start_observe_no & 0xffffff`, for every value -/
theorem setObserve_matches_code (o : Nat) : setObserve o = o &&& C2.observeCounterMask := by
  have h : C2.observeCounterMask = 2 ^ 24 - 1 := by decide
  rw [h, Nat.and_two_pow_sub_one_eq_mod]; rfl

/-- `++session->tx_mid` in `uint16_t`, for every state -/
theorem newMid_matches_code (st : State) (c : Nat) :
    (newMid st c).1 = ((getSess st c).txMid + 1) % C2.midModulus := rfl

/-- `fail_cnt` is a `uint8_t` (the `% 256` of `removeFailedOne`), `non_cnt` too (`constants_in_range`: obsMaxNon ≤ 255) -/
theorem failCnt_width_matches_code : (256 : Nat) = C2.failCntModulus ∧ C2.nonCntBits = 8 ∧ obsMaxNon < 2 ^ C2.nonCntBits := by decide

/-- `cache_ignore_options[]` of coap_resource.c as compiled (extract/consts2_res.c) -/
theorem obsIgnore_matches_code :
    obsIgnore = C2.cacheIgnoreOptions ∧ obsIgnore.length = C2.cacheIgnoreCount ∧
    obsIgnore = [C2.COAP_OPTION_ETAG, C2.COAP_OPTION_OSCORE] := by decide

/-- `is_cache_key`: Observe is left out by number, for every ignore list and option number -/
theorem isCacheKey_matches_code (ignore : List Nat) (n : Nat) :
    isCacheKey ignore n =
      if (n &&& 0x1e) == 0x1c then false
      else if n == C2.COAP_OPTION_OBSERVE then false
      else if ignore.contains n then false
      else true := rfl

/-- Observe option values of a request: 0 = COAP_OBSERVE_ESTABLISH, 1 = COAP_OBSERVE_CANCEL (the `match obsOpt` of
`request`); response codes 132 = 4.04, 69 = 2.05 of `request` / the notifications -/
theorem request_numerals_match_code :
    (0 : Nat) = C2.COAP_OBSERVE_ESTABLISH ∧ (1 : Nat) = C2.COAP_OBSERVE_CANCEL ∧ (132 : Nat) = C2.code404 ∧
    (69 : Nat) = C2.code205 ∧ (6 : Nat) = C2.COAP_OPTION_OBSERVE := by decide

/-- `(timeout * 1000 + COAP_TICKS_PER_SECOND - 1) / COAP_TICKS_PER_SECOND` as `unsigned int`, for every state -/
theorem waitOf_matches_code (st : State) (ncli : Nat) :
    waitOf st ncli = ((tickWait st ncli * 1000 + (C2.COAP_TICKS_PER_SECOND - 1)) / C2.COAP_TICKS_PER_SECOND) % (C2.UINT_MAX + 1) := rfl

end Coap.C11
