import CoapVerif.Model.Uri
import CoapVerif.Spec.Uri
namespace Coap.C16
theorem stub : True := trivial
end Coap.C16
