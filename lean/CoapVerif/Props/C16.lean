import CoapVerif.Lemmas.Uri
import CoapVerif.Lemmas.UriSplit
import CoapVerif.Lemmas.UriOpts
/-
C16 — URI text and CoAP options convert both ways without loss, confusion or overread.

  S = Coap.Spec.Uri   (RFC 3986 §2.1/§3/§5.2.4, RFC 7252 §6.4/§6.5; CoapVerif/Spec/Uri.lean, SPEC DECISIONS there)
  M = Coap.MU         (transcription of src/coap_uri.c after the fix: commits; CoapVerif/Model/Uri.lean)
  M's character tables = Coap.Generated.Uri.*, regenerated from /repo on every run (T1).

Property theorems only; helper lemmas live in CoapVerif/Lemmas/Uri.lean.
-/
namespace Coap.C16
open Coap Coap.MU Coap.Spec.Uri Coap.UriL

/-- segment values as a parsed request can carry them (the parser admits ≤ 255 bytes; the functions hold the
length in a `uint16_t`) -/
def Small (segs : List Bytes) : Prop := ∀ s ∈ segs, s.length < 65536

/-- (T1) the characters libcoap leaves unescaped are exactly those RFC 7252 §6.5 steps 6 / 7 name —
in particular '%' and '/' are escaped in a path segment and '&' in a query argument. -/
theorem escape_tables_match_rfc :
    Generated.Uri.unescPathTab = pathPlainTab ∧ Generated.Uri.unescQueryTab = queryPlainTab :=
  ⟨unescPathTab_eq, unescQueryTab_eq⟩

/-- (P1, options → string) coap_get_uri_path computes RFC 7252 §6.5's path (without the leading '/'); the length
pass and the write pass agree, so nothing is left uninitialised and nothing is written past the string. -/
theorem get_uri_path_eq_spec (segs : List Bytes) (h : Small segs) : getUriPath segs = R.ok (composePath segs) := by
  unfold getUriPath filled
  simp only [map_optVal segs h]
  rw [writePass_length, if_pos rfl, writePass_zero, composePath]
  congr 2
  exact List.map_congr_left (fun s _ => escSeg_eq _ _ unescPath_fun s)

/-- the same for coap_get_query; NULL stands for the empty string -/
theorem get_query_eq_spec (segs : List Bytes) (h : Small segs) :
    getQuery segs = R.ok (if composeQuery segs = [] then none else some (composeQuery segs)) := by
  have hw : writePass unescQuery 0x26 0 segs = composeQuery segs := by
    rw [writePass_zero, composeQuery]
    congr 1
    exact List.map_congr_left (fun s _ => escSeg_eq _ _ unescQuery_fun s)
  have hl := writePass_length unescQuery 0x26 segs
  unfold getQuery filled
  simp only [map_optVal segs h]
  rw [← hl, hw]
  by_cases he : composeQuery segs = []
  · simp [he]
  · have : (composeQuery segs).length > 0 := List.length_pos_iff.mpr he
    simp [he, this]

/-- (P2) the path string — the key of the resource lookup — determines the segment list, a single empty
segment counting as no segment: different lists never give the same string. -/
theorem uri_path_injective (a b : List Bytes) (ha : Small a) (hb : Small b)
    (h : getUriPath a = getUriPath b) : norm a = norm b := by
  rw [get_uri_path_eq_spec a ha, get_uri_path_eq_spec b hb] at h
  exact compose_injective pathSafe a b (R.ok.inj h)

/-- (P2) the same for the query string handed to the application -/
theorem query_injective (a b : List Bytes) (ha : Small a) (hb : Small b)
    (h : getQuery a = getQuery b) : norm a = norm b := by
  rw [get_query_eq_spec a ha, get_query_eq_spec b hb] at h
  have h := R.ok.inj h
  apply compose_injective querySafe a b
  change composeQuery a = composeQuery b
  by_cases h1 : composeQuery a = [] <;> by_cases h2 : composeQuery b = [] <;> simp [h1, h2] at h ⊢
  exact h

/-- (P1, string → options, coap_path_into_optlist) on every path string whose escapes are well formed the
transcribed algorithm yields exactly RFC 3986 / RFC 7252 §6.4's segments: cut at '?' / '#', split at '/',
percent-decoded once, dot segments resolved. -/
theorem split_path_eq_spec (input : Bytes) (segs : List Bytes) (h : Spec.Uri.splitPath input = some segs) :
    pathOpts input = R.ok segs := pathOpts_eq input segs h

/-- the same for coap_query_into_optlist: cut at '#', split at '&', percent-decoded once -/
theorem split_query_eq_spec (input : Bytes) (segs : List Bytes) (h : Spec.Uri.splitQuery input = some segs) :
    queryOpts input = R.ok segs := queryOpts_eq input segs h

/-- (P2) '.' and '..' — written literally or as %2E — are resolved and never emitted as a Uri-Path value -/
theorem dot_segments_never_emitted (input : Bytes) (segs : List Bytes) (h : Spec.Uri.splitPath input = some segs) :
    pathOpts input = R.ok segs ∧ dot1 ∉ segs ∧ dot2 ∉ segs := by
  refine ⟨pathOpts_eq input segs h, ?_⟩
  unfold Spec.Uri.splitPath at h
  cases hd : decodeAll (rawSegs pathStop pathSep input) with
  | none => simp [hd] at h
  | some ds =>
    simp [hd] at h
    rw [← h]
    exact resolve_no_dots ds [] (by simp)

theorem allEncSafe : Safe (fun _ => false) pathStop pathSep 0x2f where
  plain_ok := by intro c h; cases h
  pct_ok := by decide
  hex_ok := by decide
  sep_stop := by decide
  sep_sep := by decide
  plain_pct := rfl

/-- (P2) percent-escapes are decoded exactly once: encode *every* byte of an arbitrary value (which may itself
contain '%', '/', "%41" …) and the splitter returns that value — not a second decoding of it, not a split of it. -/
theorem decode_once (seg : Bytes) (h1 : seg ≠ dot1) (h2 : seg ≠ dot2) :
    pathOpts (pctEncode (fun _ => false) seg) = R.ok [seg] := by
  apply pathOpts_eq
  have := recover allEncSafe [seg]
  simp [joinSep] at this
  unfold Spec.Uri.splitPath
  rw [this]
  have := resolve_id [seg] [] (by simp; exact ⟨fun e => h1 e.symm, fun e => h2 e.symm⟩)
  simp [resolve, this]

/-- (P2) the reconstructed path feeds back to the same options (D5: no segment is "." or "..") -/
theorem path_feeds_back (segs : List Bytes) (hs : Small segs) (hne : segs ≠ []) (hd : dot1 ∉ segs ∧ dot2 ∉ segs) :
    ∃ str, getUriPath segs = R.ok str ∧ pathOpts str = R.ok segs := by
  refine ⟨composePath segs, get_uri_path_eq_spec segs hs, ?_⟩
  apply pathOpts_eq
  have := recover pathSafe segs
  simp only [hne, if_false] at this
  unfold Spec.Uri.splitPath composePath
  rw [this]
  have := resolve_id segs [] hd
  simp [resolve, this]

/-- (P2) the reconstructed query feeds back to the same options -/
theorem query_feeds_back (segs : List Bytes) (hs : Small segs) (hne : segs ≠ []) :
    ∃ str, getQuery segs = R.ok (if str = [] then none else some str) ∧ queryOpts str = R.ok segs := by
  refine ⟨composeQuery segs, get_query_eq_spec segs hs, ?_⟩
  apply queryOpts_eq
  have := recover querySafe segs
  simp only [hne, if_false] at this
  unfold Spec.Uri.splitQuery composeQuery
  exact this

/-- (P2) "reads only the bytes of the length-delimited input": for **every** input string, every output buffer
size and every segment list, no transcribed function reads or writes outside what it was given — not the four
splitters (dots, check_segment, decode_segment, coap_replace_percents walk a pointer over the exact-size input)
and not the two reconstruction functions (length pass = write pass). -/
theorem no_overread (input : Bytes) (buflen : Nat) (segs : List Bytes) (hs : Small segs) :
    MU.splitPath input buflen ≠ R.oob ∧ MU.splitQuery input buflen ≠ R.oob ∧
    pathOpts input ≠ R.oob ∧ queryOpts input ≠ R.oob ∧ getUriPath segs ≠ R.oob ∧ getQuery segs ≠ R.oob := by
  rw [splitPathBuf_fold, splitQueryBuf_fold, pathOpts_fold, queryOpts_fold, get_uri_path_eq_spec segs hs,
    get_query_eq_spec segs hs]
  simp

/-- (D16b, the truncation behaviour) the buffer-writing variants coap_split_path / coap_split_query, for **every**
buffer size, also below the documented minimum, and every input, also with malformed escapes: the result is a fold
over the raw segments of a step that depends on the segment's bytes only — a segment is decoded by the RFC's
`pctDecode` and appended if it is well formed and fits into what is left of the buffer, else it is omitted; a dot
segment is dropped / backs up.  (Formerly `split_path_buf_eq_spec_partial`; that a big enough buffer never runs out,
hence equality with S, is `split_path_buf_eq_spec` / `split_query_buf_eq_spec` below.) -/
theorem split_buf_truncation (input : Bytes) (buflen : Nat) :
    MU.splitPath input buflen =
      R.ok ((rawSegs pathStop pathSep input).foldl (fun s seg => pathStepBuf seg s) ⟨buflen, []⟩).segs ∧
    MU.splitQuery input buflen =
      R.ok ((rawSegs queryStop querySep input).foldl (fun s seg => writeS seg s) ⟨buflen, []⟩).segs :=
  ⟨splitPathBuf_fold input buflen, splitQueryBuf_fold input buflen⟩

example : MU.splitPath [0x61, 0x62, 0x25, 0x34] 100 = R.ok [] := by decide      -- "ab%4": dropped (D16a), no read past the end
example : MU.splitPath [0x61, 0x2f, 0x62, 0x25, 0x34, 0x31] 100 = R.ok [[0x61], [0x62, 0x41]] := by decide   -- "a/b%41"

example : pathOpts [0x25, 0x32, 0x35, 0x34, 0x31] = R.ok [[0x25, 0x34, 0x31]] := by decide   -- "%2541" → "%41", not "A"
example : pathOpts [0x61, 0x2f, 0x2e, 0x2e, 0x2f, 0x25, 0x32, 0x65, 0x2f, 0x62] = R.ok [[0x62]] := by decide   -- "a/../%2e/b"
example : Spec.Uri.splitPath [0x61, 0x2f, 0x25, 0x25, 0x32, 0x45] = none := by decide            -- "a/%%2E" is malformed …
-- … and no longer handled as ".." (fix 8c37620); what a malformed escape turns into is left open (D16a)
example : pathOpts [0x61, 0x2f, 0x25, 0x25, 0x32, 0x45] = R.ok [[0x61], [0x52, 0x45]] := by decide

example : getQuery [[0x61, 0x26, 0x62]] = R.ok (some [0x61, 0x25, 0x32, 0x36, 0x62]) := by decide
example : getQuery [[0x61], [0x62]] = R.ok (some [0x61, 0x26, 0x62]) := by decide
example : getQuery [[], [0x61]] = R.ok (some [0x26, 0x61]) := by decide
example : getUriPath [[], []] = R.ok [0x2f] ∧ getUriPath [[]] = R.ok [] ∧ getUriPath [] = R.ok [] := by decide

/-! ### coap_split_uri -/

def toParts (u : MU.Uri) : UriParts := ⟨u.scheme, u.host, u.port, u.path, u.query⟩

/-- M and S agree on one URI string (accept / reject and every field) -/
def agree (proxy : Bool) (s : Bytes) : Prop :=
  (MU.splitUriSub proxy s).toOption.map toParts = Spec.Uri.splitUri Generated.Uri.schemes proxy s

instance (proxy : Bool) (s : Bytes) : Decidable (agree proxy s) := by unfold agree; infer_instance

/-- Instances of `split_uri_eq_spec` (proved for all strings below), one per clause of coap_split_uri_sub, kept as
regression witnesses — among them the inputs of the three defects fixed in coap_split_uri ("coap://h?q" accepted,
"coap://[?]?x" gives the query "x", "coap://h/[percent]zz" rejected).  (Formerly `split_uri_eq_spec_partial`.) -/
theorem split_uri_eq_spec_instances :
    agree false [99, 111, 97, 112, 58, 47, 47, 104, 63, 113] ∧
    agree false [99, 111, 97, 112, 58, 47, 47, 91, 63, 93, 63, 120] ∧
    agree false [99, 111, 97, 112, 58, 47, 47, 104, 47, 37, 122, 122] ∧
    agree false [99, 111, 97, 112, 115, 58, 47, 47, 91, 58, 58, 49, 93, 58, 55, 55, 47, 97, 47, 98, 63, 99, 38, 100] ∧
    agree false [99, 111, 97, 112, 58, 47, 47, 104, 58, 54, 53, 53, 51, 53, 47, 120] ∧
    agree false [99, 111, 97, 112, 58, 47, 47, 104, 58, 54, 53, 53, 51, 54, 47, 120] ∧
    agree false [104, 116, 116, 112, 58, 47, 47, 104, 47] ∧
    agree false [47, 97, 47, 98, 63, 99] ∧
    agree false [99, 111, 97, 112, 58, 47, 47] ∧
    agree false [99, 111, 97, 112, 120, 58, 47, 47, 104, 47] ∧
    agree false [99, 111, 97, 112, 43, 119, 115, 58, 47, 47, 104] ∧
    agree false [99, 111, 97, 112, 58, 47, 47, 91, 58, 58, 49, 47, 120] ∧
    agree false [99, 111, 97, 112, 58, 47, 47, 104, 58, 49, 50, 120] ∧
    agree true [104, 116, 116, 112, 58, 47, 47, 104, 58, 56, 48, 56, 48, 47, 112, 63, 113] ∧
    agree true [47, 97] := by decide

/-! ### coap_split_uri at full strength -/

/-- (P1, coap_split_uri / coap_split_proxy_uri) on **every** byte string whose authority is not libcoap's Unix-socket
notation "%2F…" (D16f), the transcription of coap_split_uri_sub and the RFC 3986 §3 / RFC 7252 §6 structure S agree:
the same strings are accepted (scheme from the table (T1) allowed for this entry point, "://", non-empty host or
bracketed IPv6 literal, decimal port ≤ 65535 — the early exit of the port loop never changes the verdict —, path
and query delimiters, every '%' in path and query followed by two hex digits) and scheme, host, port (explicit or
the scheme's default), path and query are the same.  The model never reads outside the input (`oob`). -/
theorem split_uri_eq_spec (proxy : Bool) (s : Bytes) (hu : unixAuthority s = false) :
    agree proxy s ∧
    MU.splitUriSub proxy s =
      (match Spec.Uri.splitUri Generated.Uri.schemes proxy s with
       | some parts => R.ok (uriOf parts)
       | none => R.rej) := by
  have h := splitUriSub_eq proxy s hu
  refine ⟨?_, h⟩
  unfold agree
  rw [h]
  cases Spec.Uri.splitUri Generated.Uri.schemes proxy s with
  | none => rfl
  | some parts => rfl

/-- malformed URIs are rejected: coap_split_uri returns an error exactly when S does not accept the string -/
theorem split_uri_rejects_malformed (proxy : Bool) (s : Bytes) (hu : unixAuthority s = false) :
    MU.splitUriSub proxy s = R.rej ↔ Spec.Uri.splitUri Generated.Uri.schemes proxy s = none := by
  rw [(split_uri_eq_spec proxy s hu).2]
  cases Spec.Uri.splitUri Generated.Uri.schemes proxy s <;> simp

-- the hypothesis is satisfiable by accepted and by rejected strings: "coaps://[::1]:77/a/b?c&d", "coap://h/%zz"
example : unixAuthority [99, 111, 97, 112, 115, 58, 47, 47, 91, 58, 58, 49, 93, 58, 55, 55, 47, 97, 47, 98, 63, 99, 38, 100] = false ∧
    MU.splitUriSub false [99, 111, 97, 112, 115, 58, 47, 47, 91, 58, 58, 49, 93, 58, 55, 55, 47, 97, 47, 98, 63, 99, 38, 100] =
      R.ok ⟨1, [58, 58, 49], 77, [97, 47, 98], [99, 38, 100]⟩ := by decide
example : unixAuthority [99, 111, 97, 112, 58, 47, 47, 104, 47, 37, 122, 122] = false ∧
    Spec.Uri.splitUri Generated.Uri.schemes false [99, 111, 97, 112, 58, 47, 47, 104, 47, 37, 122, 122] = none := by decide
-- and it excludes something: "coap://%2Fs" (M: port 0, host "%2Fs"; outside S)
example : unixAuthority [99, 111, 97, 112, 58, 47, 47, 37, 50, 70, 115] = true := by decide

/-- (P2, "scheme, host (incl. IPv6 literals), port and default ports are recognised") S — and therefore libcoap —
accepts every URI text put together from its parts, and gives the parts back: any scheme `e` of the table (T1) that
the entry point allows, "://", any non-empty host without ':' '/' '?' and not starting with '[' — or any non-empty
IPv6 literal text without ']' in brackets —, no port / ":" / ":" and any digit string of value ≤ 65535 (leading
zeros allowed), then anything S's `pathQuery` takes (nothing, "/path", "?query", "/path?query" with well-formed
escapes).  Scheme id, host (without the brackets), the explicit port or else the scheme's default, path and query
come back exactly; nothing is "recognised" only because S and M agree on rejecting.
`v6 = true ∨ unixStart h = false` keeps the Unix-socket notation out of the libcoap half (D16f). -/
theorem uri_recognised (proxy : Bool) (e : Bytes × Nat × Bool × Nat) (he : e ∈ Generated.Uri.schemes)
    (hpx : e.2.2.1 = true → proxy = true) (h : Bytes) (v6 : Bool) (ds : Option Bytes) (rest path query : Bytes)
    (hh : HostOk h v6) (hp : PortOk ds) (hr : TailStart rest) (hpq : pathQuery rest = some (path, query))
    (hu : v6 = true ∨ unixStart h = false) :
    Spec.Uri.splitUri Generated.Uri.schemes proxy (e.1 ++ [0x3a, 0x2f, 0x2f] ++ hostText h v6 ++ portText ds ++ rest) =
      some ⟨e.2.2.2, h, portValue e.2.1 ds, path, query⟩ ∧
    MU.splitUriSub proxy (e.1 ++ [0x3a, 0x2f, 0x2f] ++ hostText h v6 ++ portText ds ++ rest) =
      R.ok ⟨e.2.2.2, h, portValue e.2.1 ds, path, query⟩ := by
  have hS := splitUri_compose proxy e he hpx h v6 ds rest path query hh hp hr hpq
  refine ⟨hS, ?_⟩
  rw [(split_uri_eq_spec proxy _ (unixAuthority_compose e he h v6 ds rest hr hu)).2, hS]
  rfl

-- "coaps+tcp" "://" "[" "2001:db8::1" "]" ":" "0443" "/a%20b?x": scheme 3, host without brackets, port 443
example : ([99, 111, 97, 112, 115, 43, 116, 99, 112], 5684, false, 3) ∈ Generated.Uri.schemes ∧ HostOk [50, 48, 48, 49, 58, 100, 98, 56, 58, 58, 49] true ∧ PortOk (some [48, 52, 52, 51]) ∧
    TailStart [47, 97, 37, 50, 48, 98, 63, 120] ∧ pathQuery [47, 97, 37, 50, 48, 98, 63, 120] = some ([97, 37, 50, 48, 98], [120]) ∧
    portValue 5684 (some [48, 52, 52, 51]) = 443 := by
  refine ⟨by decide, ⟨by decide, by decide⟩, ⟨by decide, by decide⟩, Or.inr ⟨_, Or.inl rfl⟩, by decide, by decide⟩
-- no port: "coap" "://" "example.com" "" → the default 5683
example : HostOk [101, 120, 97, 109, 112, 108, 101, 46, 99, 111, 109] false ∧ PortOk none ∧ TailStart [] ∧ portValue 5683 none = 5683 ∧
    Spec.Uri.splitUri Generated.Uri.schemes false ([99, 111, 97, 112] ++ [0x3a, 0x2f, 0x2f] ++ hostText [101, 120, 97, 109, 112, 108, 101, 46, 99, 111, 109] false ++ portText none ++ []) =
      some ⟨0, [101, 120, 97, 109, 112, 108, 101, 46, 99, 111, 109], 5683, [], []⟩ := by
  refine ⟨⟨by decide, by decide⟩, trivial, Or.inl rfl, rfl, by decide⟩

/-! ### the buffer writers coap_split_path / coap_split_query at full strength (D16b) -/

/-- (P1, coap_split_path) a buffer of `length + 2·segments + 1` bytes (a fortiori D16b's `length + 3·segments`, there
is at least one segment) never runs out: on every path string with well-formed escapes the segments written are
exactly S's — cut at '?' / '#', split at '/', decoded once, dot segments resolved; nothing is omitted. -/
theorem split_path_buf_eq_spec (input : Bytes) (buflen : Nat) (segs : List Bytes)
    (h : Spec.Uri.splitPath input = some segs)
    (hb : input.length + 2 * (rawSegs pathStop pathSep input).length + 1 ≤ buflen) :
    MU.splitPath input buflen = R.ok segs := by
  unfold Spec.Uri.splitPath at h
  cases hd : decodeAll (rawSegs pathStop pathSep input) with
  | none => simp [hd] at h
  | some ds =>
    simp [hd] at h
    rw [← h]
    exact splitPathBuf_eq input buflen ds hd (Nat.le_trans (usedBy_le_input _ _ input ds hd).1 hb)

/-- the same for coap_split_query -/
theorem split_query_buf_eq_spec (input : Bytes) (buflen : Nat) (segs : List Bytes)
    (h : Spec.Uri.splitQuery input = some segs)
    (hb : input.length + 2 * (rawSegs queryStop querySep input).length + 1 ≤ buflen) :
    MU.splitQuery input buflen = R.ok segs :=
  splitQueryBuf_eq input buflen segs h (Nat.le_trans (usedBy_le_input _ _ input segs h).1 hb)

/-- D16b as SPEC_DECISIONS words it: `buflen ≥ length + 3·segments` -/
theorem split_buf_eq_spec_3n (input : Bytes) (buflen : Nat) :
    (∀ segs, Spec.Uri.splitPath input = some segs → input.length + 3 * (rawSegs pathStop pathSep input).length ≤ buflen →
      MU.splitPath input buflen = R.ok segs) ∧
    (∀ segs, Spec.Uri.splitQuery input = some segs → input.length + 3 * (rawSegs queryStop querySep input).length ≤ buflen →
      MU.splitQuery input buflen = R.ok segs) := by
  constructor
  · intro segs h hb
    have := (splitAcc_len pathStop pathSep input []).2
    exact split_path_buf_eq_spec input buflen segs h (by unfold rawSegs at *; omega)
  · intro segs h hb
    have := (splitAcc_len queryStop querySep input []).2
    exact split_query_buf_eq_spec input buflen segs h (by unfold rawSegs at *; omega)

/-- the bound the header file documents ("at least length, but 2 bytes should be added for each segment to handle
large segments") is enough as long as every decoded segment is shorter than 269 bytes (2-byte option header); a
segment of ≥ 269 bytes needs the one extra byte of `split_path_buf_eq_spec`.  The sharp condition is `usedBy ds ≤
buflen`: room for the decoded segments, the dot segments included although they are never written. -/
theorem split_buf_documented_bound (input : Bytes) (buflen : Nat) (ds : List Bytes) :
    (decodeAll (rawSegs pathStop pathSep input) = some ds →
      (usedBy ds ≤ buflen ∨
       ((∀ d ∈ ds, d.length < 269) ∧ input.length + 2 * (rawSegs pathStop pathSep input).length ≤ buflen)) →
      MU.splitPath input buflen = R.ok (resolve ds)) ∧
    (decodeAll (rawSegs queryStop querySep input) = some ds →
      (usedBy ds ≤ buflen ∨
       ((∀ d ∈ ds, d.length < 269) ∧ input.length + 2 * (rawSegs queryStop querySep input).length ≤ buflen)) →
      MU.splitQuery input buflen = R.ok ds) := by
  constructor
  · intro hd hb
    apply splitPathBuf_eq input buflen ds hd
    rcases hb with hb | ⟨hs, hb⟩
    · exact hb
    · exact Nat.le_trans ((usedBy_le_input _ _ input ds hd).2 hs) hb
  · intro hd hb
    apply splitQueryBuf_eq input buflen ds hd
    rcases hb with hb | ⟨hs, hb⟩
    · exact hb
    · exact Nat.le_trans ((usedBy_le_input _ _ input ds hd).2 hs) hb

/-- (P2, output side of "without overread", every buffer size incl. those below the documented minimum, every
input incl. malformed escapes) the buffer writers never write past the caller's buffer: the bytes used by the
segments they report (`*buflen` on return) never exceed the buffer they were given.  What does not fit is omitted
(the exact truncation behaviour is `split_buf_truncation`'s fold). -/
theorem split_buf_never_overflows (input : Bytes) (buflen : Nat) :
    (∃ segs, MU.splitPath input buflen = R.ok segs ∧ usedBy segs ≤ buflen) ∧
    (∃ segs, MU.splitQuery input buflen = R.ok segs ∧ usedBy segs ≤ buflen) := by
  constructor
  · exact ⟨_, splitPathBuf_fold input buflen,
      fold_inv pathStepBuf pathStepBuf_inv _ ⟨buflen, []⟩ (by simp [usedBy])⟩
  · exact ⟨_, splitQueryBuf_fold input buflen,
      fold_inv writeS writeS_inv _ ⟨buflen, []⟩ (by simp [usedBy])⟩

/-- (D16b, what "omits what does not fit" means) for **every** buffer size and every component with well-formed
escapes the buffer writers only ever *omit* segments, they never alter, reorder or invent one: coap_split_query
returns a sublist of S's values, coap_split_path returns S's dot-segment resolution of a sublist of the decoded
segments (a ".." after an omitted segment removes the one before it — the resolution is applied to what was kept). -/
theorem split_buf_omits_only (input : Bytes) (buflen : Nat) (ds : List Bytes) :
    (decodeAll (rawSegs pathStop pathSep input) = some ds →
      ∃ ds' : List Bytes, ds'.Sublist ds ∧ MU.splitPath input buflen = R.ok (resolve ds')) ∧
    (Spec.Uri.splitQuery input = some ds →
      ∃ ds' : List Bytes, ds'.Sublist ds ∧ MU.splitQuery input buflen = R.ok ds') := by
  constructor
  · intro hd
    obtain ⟨ds', hsub, hf⟩ := fold_buf_path_sub _ ds ⟨buflen, []⟩ hd
    exact ⟨ds', hsub, by rw [splitPathBuf_fold, hf]; rfl⟩
  · intro hd
    obtain ⟨ds', hsub, hf⟩ := fold_buf_query_sub _ ds ⟨buflen, []⟩ hd
    exact ⟨ds', hsub, by rw [splitQueryBuf_fold, hf]; simp⟩

-- "a/./%2e%2E/b%41c/" in a buffer of 17 + 2·5 + 1 bytes; the documented 17 + 2·5 are enough too (small segments)
example : Spec.Uri.splitPath [97, 47, 46, 47, 37, 50, 101, 37, 50, 69, 47, 98, 37, 52, 49, 99, 47] = some [[98, 65, 99], []] ∧
    (rawSegs pathStop pathSep [97, 47, 46, 47, 37, 50, 101, 37, 50, 69, 47, 98, 37, 52, 49, 99, 47]).length = 5 ∧
    MU.splitPath [97, 47, 46, 47, 37, 50, 101, 37, 50, 69, 47, 98, 37, 52, 49, 99, 47] 28 = R.ok [[98, 65, 99], []] ∧
    MU.splitPath [97, 47, 46, 47, 37, 50, 101, 37, 50, 69, 47, 98, 37, 52, 49, 99, 47] 27 = R.ok [[98, 65, 99], []] := by decide
-- "a&b%26c" : 7 + 2·2 + 1
example : Spec.Uri.splitQuery [97, 38, 98, 37, 50, 54, 99] = some [[97], [98, 38, 99]] ∧
    MU.splitQuery [97, 38, 98, 37, 50, 54, 99] 12 = R.ok [[97], [98, 38, 99]] := by decide
-- D16b's wording, 17 + 3·5 bytes; and the hypotheses of `split_buf_documented_bound` / `split_buf_omits_only` on the same path
example : MU.splitPath [97, 47, 46, 47, 37, 50, 101, 37, 50, 69, 47, 98, 37, 52, 49, 99, 47] 32 = R.ok [[98, 65, 99], []] ∧
    decodeAll (rawSegs pathStop pathSep [97, 47, 46, 47, 37, 50, 101, 37, 50, 69, 47, 98, 37, 52, 49, 99, 47]) = some [[97], [46], [46, 46], [98, 65, 99], []] ∧
    usedBy [[97], [46], [46, 46], [98, 65, 99], []] = 12 ∧
    MU.splitPath [97, 47, 46, 47, 37, 50, 101, 37, 50, 69, 47, 98, 37, 52, 49, 99, 47] 12 = R.ok [[98, 65, 99], []] ∧      -- the sharp bound: room for all decoded segments
    MU.splitPath [97, 47, 46, 47, 37, 50, 101, 37, 50, 69, 47, 98, 37, 52, 49, 99, 47] 3 = R.ok [[]] := by decide          -- below it: "bAc" (4 bytes) does not fit into 3, "" does
-- below the minimum what does not fit is silently omitted (D16b): "aaa/bbbbb/c" in 7 bytes gives "aaa", "c"
example : MU.splitPath [97, 97, 97, 47, 98, 98, 98, 98, 98, 47, 99] 7 = R.ok [[97, 97, 97], [99]] := by decide

-- the bound the header documents (length + 2 per segment) is one byte short for a segment of ≥ 269 bytes:
-- 269 × 'a' in 271 bytes is silently omitted, 272 = 269 + 2·1 + 1 bytes hold it
set_option maxRecDepth 100000 in
example : MU.splitPath (List.replicate 269 97) 271 = R.ok [] ∧
    MU.splitPath (List.replicate 269 97) 272 = R.ok [List.replicate 269 97] := by decide

/-! ### coap_uri_into_optlist: RFC 7252 §6.4 steps 5–9 -/

theorem toParts_eq : toParts = partsOf := rfl

/-- (P1, coap_uri_into_optlist(uri, dst, &chain, 1)) for every parsed URI on which S is defined — host not a Unix
socket (D16f), escapes of the host (if it is emitted), the path and the query well formed — the option chain is
exactly RFC 7252 §6.4's: Uri-Host (percent-decoded, lower case, D16g) unless the URI has no authority or the host
is the destination address literal `dst` (an IPv6 zone identifier not counting), Uri-Port (minimal big-endian)
unless the port is the default of the URI's scheme, then one Uri-Path per path segment and one Uri-Query per query
argument as `split_path_eq_spec` / `split_query_eq_spec` describe them, none for an empty path / query.
`scheme < 8` and `port < 65536` are the ranges of the C types (enum coap_uri_scheme_t, uint16_t). -/
theorem uri_into_optlist_eq_spec (dst : Bytes) (u : MU.Uri) (opts : List (Nat × Bytes)) (hs : u.scheme < 8)
    (hp : u.port < 65536) (h : uriOptions Generated.Uri.schemes dst (toParts u) = some opts) :
    uriIntoOptlist dst u = R.ok opts := uriIntoOptlist_eq dst u opts hs hp h

/-- (P1, end to end: coap_split_uri / coap_split_proxy_uri, then coap_uri_into_optlist) for **every** byte string
that S accepts as a URI and whose options S defines, libcoap accepts it with S's fields and builds exactly S's
options. -/
theorem uri_to_options_eq_spec (dst : Bytes) (proxy : Bool) (s : Bytes) (parts : UriParts) (opts : List (Nat × Bytes))
    (hS : Spec.Uri.splitUri Generated.Uri.schemes proxy s = some parts)
    (hO : uriOptions Generated.Uri.schemes dst parts = some opts) :
    ∃ u, MU.splitUriSub proxy s = R.ok u ∧ toParts u = parts ∧ uriIntoOptlist dst u = R.ok opts := by
  have ⟨i1, i2, _, _, i5⟩ := splitUri_inv proxy s parts hS
  have hux : unixHost parts.host = false := by
    cases hh : unixHost parts.host with
    | false => rfl
    | true => simp [uriOptions, hh] at hO
  have hua : unixAuthority s = false := by
    cases hh : unixAuthority s with
    | false => rfl
    | true =>
      have := i5 hh
      simp [unixHost, this] at hux
  refine ⟨uriOf parts, ?_, rfl, ?_⟩
  · rw [(split_uri_eq_spec proxy s hua).2, hS]
  · exact uriIntoOptlist_eq dst (uriOf parts) opts i1 i2 hO

/-- S's options are defined for every accepted URI except for the two cases S leaves open: a Unix-socket host
(D16f) and an emitted host with a malformed escape (D4) — path and query of an accepted URI always split. -/
theorem uri_options_defined (dst : Bytes) (proxy : Bool) (s : Bytes) (parts : UriParts)
    (hS : Spec.Uri.splitUri Generated.Uri.schemes proxy s = some parts) (hux : unixHost parts.host = false)
    (hh : parts.host = [] ∨ hostAddr parts.host = dst ∨ Spec.Uri.escapesOk parts.host = true) :
    ∃ opts, uriOptions Generated.Uri.schemes dst parts = some opts := by
  have ⟨_, _, i3, i4, _⟩ := splitUri_inv proxy s parts hS
  have hp : ∃ ps, pathOptions parts.path = some ps := by
    unfold pathOptions
    by_cases e : parts.path = []
    · exact ⟨[], by simp [e]⟩
    · obtain ⟨ps, h⟩ := splitPath_defined _ i3
      exact ⟨ps, by simp [e, h]⟩
  have hq : ∃ qs, queryOptions parts.query = some qs := by
    unfold queryOptions
    by_cases e : parts.query = []
    · exact ⟨[], by simp [e]⟩
    · obtain ⟨qs, h⟩ := splitQuery_defined _ i4
      exact ⟨qs, by simp [e, h]⟩
  have hho : ∃ ho, hostOption dst parts.host = some ho := by
    unfold hostOption
    by_cases e : parts.host = [] ∨ hostAddr parts.host = dst
    · exact ⟨[], by simp [e]⟩
    · have : Spec.Uri.escapesOk parts.host = true := by
        rcases hh with h | h | h
        · exact absurd (Or.inl h) e
        · exact absurd (Or.inr h) e
        · exact h
      unfold Spec.Uri.escapesOk at this
      cases hd : pctDecode parts.host with
      | none => simp [hd] at this
      | some d => exact ⟨[(3, d.map lowerAscii)], by simp [e]⟩
  obtain ⟨ps, hp⟩ := hp
  obtain ⟨qs, hq⟩ := hq
  obtain ⟨ho, hho⟩ := hho
  refine ⟨ho ++ portOption Generated.Uri.schemes parts.scheme parts.port ++ ps.map (fun v => (11, v)) ++ qs.map (fun v => (15, v)), ?_⟩
  simp only [uriOptions, hux, hp, hq, hho, Bool.false_eq_true, if_false]

-- "coap://EXAMPLE.com:1234/../x/%2e/y%2Fz?a&b%26" sent to 192.0.2.1: Uri-Host "example.com", Uri-Port 1234, Uri-Path "x", "y/z",
-- Uri-Query "a", "b&"  (S defined, M equal)
example :
    (Spec.Uri.splitUri Generated.Uri.schemes false [99, 111, 97, 112, 58, 47, 47, 69, 88, 65, 77, 80, 76, 69, 46, 99, 111, 109, 58, 49, 50, 51, 52, 47, 46, 46, 47, 120, 47, 37, 50, 101, 47, 121, 37, 50, 70, 122, 63, 97, 38, 98, 37, 50, 54]).bind (uriOptions Generated.Uri.schemes [49, 57, 50, 46, 48, 46, 50, 46, 49]) =
      some [(3, [101, 120, 97, 109, 112, 108, 101, 46, 99, 111, 109]), (7, [4, 210]), (11, [120]), (11, [121, 47, 122]), (15, [97]), (15, [98, 38])] ∧
    (match MU.splitUriSub false [99, 111, 97, 112, 58, 47, 47, 69, 88, 65, 77, 80, 76, 69, 46, 99, 111, 109, 58, 49, 50, 51, 52, 47, 46, 46, 47, 120, 47, 37, 50, 101, 47, 121, 37, 50, 70, 122, 63, 97, 38, 98, 37, 50, 54] with
     | .ok u => uriIntoOptlist [49, 57, 50, 46, 48, 46, 50, 46, 49] u
     | _ => R.rej) =
      R.ok [(3, [101, 120, 97, 109, 112, 108, 101, 46, 99, 111, 109]), (7, [4, 210]), (11, [120]), (11, [121, 47, 122]), (15, [97]), (15, [98, 38])] := by decide
-- "coaps://192.0.2.1:5684/a" sent to 192.0.2.1: neither Uri-Host nor Uri-Port
example : (Spec.Uri.splitUri Generated.Uri.schemes false [99, 111, 97, 112, 115, 58, 47, 47, 49, 57, 50, 46, 48, 46, 50, 46, 49, 58, 53, 54, 56, 52, 47, 97]).bind (uriOptions Generated.Uri.schemes [49, 57, 50, 46, 48, 46, 50, 46, 49]) =
    some [(11, [97])] := by decide
-- "coap://[fe80::1%25eth0]/" sent to fe80::1: the zone identifier does not count, no option at all
example : (Spec.Uri.splitUri Generated.Uri.schemes false [99, 111, 97, 112, 58, 47, 47, 91, 102, 101, 56, 48, 58, 58, 49, 37, 50, 53, 101, 116, 104, 48, 93, 47]).bind (uriOptions Generated.Uri.schemes [102, 101, 56, 48, 58, 58, 49]) =
    some [] := by decide

-- the hypotheses of `uri_options_defined` on "coap://a%41b:0005683/%2e?": host "a%41b" is emitted and decodes ("aab")
example : ∃ p, Spec.Uri.splitUri Generated.Uri.schemes false [99, 111, 97, 112, 58, 47, 47, 97, 37, 52, 49, 98, 58, 48, 48, 48, 53, 54, 56, 51, 47, 37, 50, 101, 63] = some p ∧
    unixHost p.host = false ∧ Spec.Uri.escapesOk p.host = true ∧
    uriOptions Generated.Uri.schemes [49, 57, 50, 46, 48, 46, 50, 46, 49] p = some [(3, [97, 97, 98])] :=
  ⟨⟨0, [97, 37, 52, 49, 98], 5683, [37, 50, 101], []⟩, by decide⟩

/-- (P2, "reads only the bytes of the length-delimited input", the URI level) for **every** byte string — Unix-socket
authorities (D16f) and malformed hosts included — and every parsed URI, coap_split_uri / coap_split_proxy_uri and
coap_uri_into_optlist stay inside what they were given (every read of the model is guarded by the remaining length
exactly as in the C code; the component calls are those of `no_overread`). -/
theorem uri_no_overread (dst : Bytes) (proxy : Bool) (s : Bytes) (u : MU.Uri) :
    MU.splitUriSub proxy s ≠ R.oob ∧ uriIntoOptlist dst u ≠ R.oob :=
  ⟨splitUriSub_not_oob proxy s, uriIntoOptlist_not_oob dst u⟩

-- a Unix-socket authority: outside S, still parsed inside the buffer ("coap://%2Fs": host "%2Fs", port 0)
example : MU.splitUriSub false [99, 111, 97, 112, 58, 47, 47, 37, 50, 70, 115] = R.ok ⟨0, [37, 50, 70, 115], 0, [], []⟩ := by decide

/-! ### round trip: URI → options → reconstructed string → options -/

/-- (P2) path string → Uri-Path options → the path string coap_get_uri_path reconstructs (the resource lookup key)
→ options again is the identity on option lists, a single empty segment counting as no segment — for every path
string with well-formed escapes (the options never contain "." / "..", so D5's exclusion is vacuous here). -/
theorem path_roundtrip (input : Bytes) (ps : List Bytes) (h : Spec.Uri.splitPath input = some ps) (hs : Small ps) :
    pathOpts input = R.ok ps ∧
    ∃ str ps', getUriPath ps = R.ok str ∧ pathOpts str = R.ok ps' ∧ norm ps' = norm ps ∧ (ps ≠ [] → ps' = ps) := by
  have ⟨h1, hd⟩ := dot_segments_never_emitted input ps h
  refine ⟨h1, ?_⟩
  by_cases hne : ps = []
  · subst hne
    exact ⟨[], [[]], by decide, by decide, by decide, fun f => absurd rfl f⟩
  · obtain ⟨str, g1, g2⟩ := path_feeds_back ps hs hne hd
    exact ⟨str, ps, g1, g2, rfl, fun _ => rfl⟩

/-- the same for the query: here the option list is never empty, the round trip is the identity outright -/
theorem query_roundtrip (input : Bytes) (qs : List Bytes) (h : Spec.Uri.splitQuery input = some qs) (hs : Small qs) :
    queryOpts input = R.ok qs ∧
    ∃ str, getQuery qs = R.ok (if str = [] then none else some str) ∧ queryOpts str = R.ok qs := by
  refine ⟨queryOpts_eq input qs h, ?_⟩
  exact query_feeds_back qs hs (splitQuery_ne_nil input qs h)

/-- (P2, end to end) take **any** byte string coap_split_uri / coap_split_proxy_uri accepts (authority not "%2F…",
D16f) and any option chain coap_uri_into_optlist builds from the result; let `ps` / `qs` be its Uri-Path (11) /
Uri-Query (15) values (each < 65536 bytes).  Then the path and query strings libcoap reconstructs from them split
back into the same values — modulo the single empty segment, which reconstructs to the empty string / NULL. -/
theorem uri_options_roundtrip (dst : Bytes) (proxy : Bool) (s : Bytes) (u : MU.Uri) (opts : List (Nat × Bytes))
    (hu : unixAuthority s = false) (h1 : MU.splitUriSub proxy s = R.ok u) (h2 : uriIntoOptlist dst u = R.ok opts)
    (hsp : Small (valuesOf 11 opts)) (hsq : Small (valuesOf 15 opts)) :
    (∃ str ps', getUriPath (valuesOf 11 opts) = R.ok str ∧ pathOpts str = R.ok ps' ∧
        norm ps' = norm (valuesOf 11 opts)) ∧
    (∃ str qs', getQuery (valuesOf 15 opts) = R.ok (if str = [] then none else some str) ∧ queryOpts str = R.ok qs' ∧
        norm qs' = norm (valuesOf 15 opts)) := by
  rw [(split_uri_eq_spec proxy s hu).2] at h1
  cases hS : Spec.Uri.splitUri Generated.Uri.schemes proxy s with
  | none => simp [hS] at h1
  | some parts =>
    simp only [hS] at h1
    have hue := (R.ok.inj h1).symm
    have ⟨_, _, i3, i4, _⟩ := splitUri_inv proxy s parts hS
    have ep : u.path = parts.path := by rw [hue]; rfl
    have eq : u.query = parts.query := by rw [hue]; rfl
    rw [← ep] at i3
    rw [← eq] at i4
    obtain ⟨ps0, hps0⟩ := splitPath_defined _ i3
    obtain ⟨qs0, hqs0⟩ := splitQuery_defined _ i4
    -- what the two component calls of coap_uri_into_optlist return
    have hp : ∃ ps, pathOptions u.path = some ps ∧ (ps = [] ∨ Spec.Uri.splitPath u.path = some ps) := by
      unfold pathOptions
      by_cases e : u.path = []
      · exact ⟨[], by simp [e], Or.inl rfl⟩
      · exact ⟨ps0, by simp [e, hps0], Or.inr hps0⟩
    have hq : ∃ qs, queryOptions u.query = some qs ∧ (qs = [] ∨ Spec.Uri.splitQuery u.query = some qs) := by
      unfold queryOptions
      by_cases e : u.query = []
      · exact ⟨[], by simp [e], Or.inl rfl⟩
      · exact ⟨qs0, by simp [e, hqs0], Or.inr hqs0⟩
    obtain ⟨ps, hpo, hps⟩ := hp
    obtain ⟨qs, hqo, hqs⟩ := hq
    have ⟨v11, v15⟩ := uriIntoOptlist_values dst u ps qs opts (pathRes_eq _ _ hpo) (queryRes_eq _ _ hqo) h2
    rw [v11] at hsp ⊢
    rw [v15] at hsq ⊢
    constructor
    · rcases hps with e | e
      · subst e; exact ⟨[], [[]], by decide, by decide, by decide⟩
      · obtain ⟨_, str, ps', g1, g2, g3, _⟩ := path_roundtrip u.path ps e hsp
        exact ⟨str, ps', g1, g2, g3⟩
    · rcases hqs with e | e
      · subst e; exact ⟨[], [[]], by decide, by decide, by decide⟩
      · obtain ⟨_, str, g1, g2⟩ := query_roundtrip u.query qs e hsq
        exact ⟨str, qs, g1, g2, rfl⟩

instance (segs : List Bytes) : Decidable (Small segs) := by unfold Small; infer_instance

-- "a/%2e./b%2Fc/" : options "b/c", "" ; key "b%2Fc/" ; options again "b/c", ""
example : Spec.Uri.splitPath [97, 47, 37, 50, 101, 46, 47, 98, 37, 50, 70, 99, 47] = some [[98, 47, 99], []] ∧ Small [[98, 47, 99], []] ∧
    getUriPath [[98, 47, 99], []] = R.ok [98, 37, 50, 70, 99, 47] ∧
    pathOpts [98, 37, 50, 70, 99, 47] = R.ok [[98, 47, 99], []] := by decide
-- "./" : the single empty segment reconstructs to the empty string, which splits into the single empty segment
example : Spec.Uri.splitPath [46, 47] = some [[]] ∧ getUriPath [[]] = R.ok [] ∧ pathOpts [] = R.ok [[]] := by decide
-- "x=%26&&y" : options "x=&", "", "y"
example : Spec.Uri.splitQuery [120, 61, 37, 50, 54, 38, 38, 121] = some [[120, 61, 38], [], [121]] ∧ Small [[120, 61, 38], [], [121]] ∧
    getQuery [[120, 61, 38], [], [121]] = R.ok (some [120, 61, 37, 50, 54, 38, 38, 121]) ∧
    queryOpts [120, 61, 37, 50, 54, 38, 38, 121] = R.ok [[120, 61, 38], [], [121]] := by decide
-- the hypotheses of uri_options_roundtrip on "coap://EXAMPLE.com:1234/../x/%2e/y%2Fz?a&b%26"
example : unixAuthority [99, 111, 97, 112, 58, 47, 47, 69, 88, 65, 77, 80, 76, 69, 46, 99, 111, 109, 58, 49, 50, 51, 52, 47, 46, 46, 47, 120, 47, 37, 50, 101, 47, 121, 37, 50, 70, 122, 63, 97, 38, 98, 37, 50, 54] = false ∧
    (match MU.splitUriSub false [99, 111, 97, 112, 58, 47, 47, 69, 88, 65, 77, 80, 76, 69, 46, 99, 111, 109, 58, 49, 50, 51, 52, 47, 46, 46, 47, 120, 47, 37, 50, 101, 47, 121, 37, 50, 70, 122, 63, 97, 38, 98, 37, 50, 54] with
     | .ok u => (match uriIntoOptlist [49, 57, 50, 46, 48, 46, 50, 46, 49] u with
                 | .ok opts => some (valuesOf 11 opts, valuesOf 15 opts)
                 | _ => none)
     | _ => none) = some ([[120], [121, 47, 122]], [[97], [98, 38]]) := by decide

end Coap.C16
