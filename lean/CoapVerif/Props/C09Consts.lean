import CoapVerif.Model.Block
import CoapVerif.Model.BlockTok
import CoapVerif.Generated.BlockConst
import CoapVerif.Generated.Consts2
/-
C09 / T1 (workstream T1X) — the numerals of the block-wise models are those of the current tree: the NUM bound of
`coap_get_block_b` (a literal in src/coap_block.c: source scan), STATE_MAX_BLK_CNT_BITS and the STATE_TOKEN_* macros as
compiled (evaluated on all-ones), COAP_MAX_BLOCK_SZX, the block option numbers and COAP_RBLOCK_CNT.
-/
namespace Coap.C09
open Coap Coap.Generated

/-- `if (num > 0xFFFFF)` in coap_get_block_b: the model's bound, and it is the 20-bit NUM of RFC 7959 -/
theorem blockNumMax_matches_code : (0xFFFFF : Nat) = C2.blockNumMax ∧ C2.blockNumMax + 1 = 2 ^ 20 := by decide

/-- `getBlockB` refuses exactly above the compiled NUM bound and at the SZX value behind COAP_MAX_BLOCK_SZX (BERT),
for every option value -/
theorem getBlockB_matches_code (val : Bytes) :
    Block.getBlockB val =
      (let m := if val.length = 0 then 0 else (Block.endByte val / 8) % 2
       let szx := if val.length = 0 then 0 else Block.endByte val % 8
       if szx = C2.COAP_MAX_BLOCK_SZX + 1 then none
       else if Block.optBlockNum val > C2.blockNumMax then none
       else some { num := Block.optBlockNum val, m := m, szx := szx, aszx := szx, chunk := 2 ^ (szx + 4) }) := by
  have h1 : C2.COAP_MAX_BLOCK_SZX + 1 = 7 := by decide
  have h2 : C2.blockNumMax = 0xFFFFF := by decide
  rw [h1, h2]; rfl

/-- `STATE_TOKEN_BASE(t)` is `t & (0xffffffffffffffff >> STATE_MAX_BLK_CNT_BITS)`: the model's `% 2^44` is that mask
(the macro evaluated on all-ones by the compiler), for every token value -/
theorem stateTokenBase_matches_code (t : Nat) : Block.stateTokenBase t = t &&& C2.stateTokenBaseMask := by
  have h : C2.stateTokenBaseMask = 2 ^ 44 - 1 := by decide
  rw [h, Nat.and_two_pow_sub_one_eq_mod]; rfl

/-- the retry counter sits in the top STATE_MAX_BLK_CNT_BITS bits of the 64-bit state token -/
theorem stateTokenShift_matches_code :
    (44 : Nat) = 64 - C2.STATE_MAX_BLK_CNT_BITS ∧ C2.stateTokenRetryOfMax = 2 ^ C2.STATE_MAX_BLK_CNT_BITS - 1 ∧
    C2.stateTokenBaseMask + 1 = 2 ^ (64 - C2.STATE_MAX_BLK_CNT_BITS) := by decide

/-- the two extractors agree on what they both read (COAP_RBLOCK_CNT, option numbers) -/
theorem blockConst_matches_code :
    Generated.rblockCnt = C2.COAP_RBLOCK_CNT ∧ Generated.optBlock1 = C2.COAP_OPTION_BLOCK1 ∧
    Generated.optBlock2 = C2.COAP_OPTION_BLOCK2 ∧ Generated.optSize1 = C2.COAP_OPTION_SIZE1 ∧
    Generated.optSize2 = C2.COAP_OPTION_SIZE2 ∧ Generated.optRtag = C2.COAP_OPTION_RTAG ∧
    Generated.optEtag = C2.COAP_OPTION_ETAG ∧ Generated.optEcho = C2.COAP_OPTION_ECHO := by decide

/-- COAP_BLOCK_MAX_SIZE_GET extracts a 3-bit SZX (the `maxBlk` parameters of the models range over 0..7) -/
theorem blockMaxSize_matches_code :
    C2.blockMaxSizeGetOfAll = 7 ∧ C2.COAP_BLOCK_MAX_SIZE_MASK = 7 * 2 ^ C2.COAP_BLOCK_MAX_SIZE_SHIFT := by decide

example : Block.stateTokenBase (2 ^ 44 + 5) = 5 := by decide

end Coap.C09
