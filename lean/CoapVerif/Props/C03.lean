import CoapVerif.Model.Parse
namespace Coap.C03
end Coap.C03
