import CoapVerif.Lemmas.Parse
import CoapVerif.Lemmas.OptFilter
/-
C03 — the decoder accepts exactly the well-formed messages and reports what is on the wire.

  S = Coap.Spec.decode      (RFC 7252 §3, RFC 8323 §3-5, RFC 8974 §2; CoapVerif/Spec/Codec.lean)
  M = Coap.M.parse          (transcription of coap_pdu_parse & callees; CoapVerif/Model/Parse.lean)
  M's length table = Coap.Generated.lenGroups, regenerated from /repo on every run (T1).

Property theorems only; helper lemmas live in CoapVerif/Lemmas/Parse.lean.
-/
namespace Coap.C03
open Coap Coap.M

/-- (T1) the per-option length limits libcoap enforces are the RFCs' — row by row, for every
message code, every option number and every length the wire format can express. -/
theorem optLenTable_matches_rfc : Generated.lenGroups = Spec.lenGroups := lenGroups_eq

/-- (P1) M = S: for every framing and **every** byte string, libcoap's decoding algorithm accepts
iff the RFC grammar does, and then yields the same type, code, message id, token, options, payload.
(`toOption` maps "return 0" to "not accepted"; by `parse_never_oob` the third result never occurs.) -/
theorem parse_eq_spec (p : Proto) (bs : Bytes) : (M.parse p bs).toOption = Spec.decode p bs := by
  cases p
  · exact parse_udp_eq bs
  · exact parse_tcp_eq bs
  · exact parse_ws_eq bs

/-- every well-formed string is accepted, with the reference content -/
theorem every_wellformed_accepted (p : Proto) (bs : Bytes) (m : Msg) (h : Spec.decode p bs = some m) :
    M.parse p bs = R.ok m := by
  have := parse_eq_spec p bs
  rw [h] at this
  cases hp : M.parse p bs with
  | ok m' => rw [hp] at this; simp [R.toOption] at this; rw [this]
  | rej => rw [hp] at this; simp [R.toOption] at this
  | oob => rw [hp] at this; simp [R.toOption] at this

/-- only well-formed strings are accepted -/
theorem accepted_only_if_wellformed (p : Proto) (bs : Bytes) (m : Msg) (h : M.parse p bs = R.ok m) :
    Spec.decode p bs = some m := by
  rw [← parse_eq_spec, h]; rfl

/-- the decoder never reads outside the message it was given: no input drives the transcribed
algorithm to an out-of-range index (the model's reads are `bs[i]?` with `oob` on `none`).
Since fix 14e688b this includes the extended-token-length bytes. -/
theorem parse_never_oob (p : Proto) (bs : Bytes) : M.parse p bs ≠ R.oob := parse_ne_oob p bs

/-- the option loop alone, for any starting point and any running option number -/
theorem walk_never_oob (code fuel : Nat) (bs : Bytes) (maxOpt : Nat) :
    walk code fuel bs maxOpt ≠ R.oob := walk_ne_oob code fuel bs maxOpt

/-! ### the clauses named in the property statement (about S, hence by `parse_eq_spec` about M) -/

/-- a reserved nibble (delta 15 other than the payload marker, or length 15) is always rejected -/
theorem reserved_nibble_rejected (code fuel prev : Nat) (b : UInt8) (r : Bytes) (hm : b ≠ 0xFF)
    (hr : b.toNat / 16 = 15 ∨ b.toNat % 16 = 15) :
    Spec.opts code (fuel + 1) prev (b :: r) = none := by
  simp only [Spec.opts, hm, if_false]
  rcases hr with h | h
  · simp [h, Spec.ext]
  · cases hE : Spec.ext (b.toNat / 16) r with
    | none => rfl
    | some p => simp [h, Spec.ext]

/-- an option whose number would exceed 65535 is always rejected -/
theorem number_above_65535_rejected (code fuel prev : Nat) (b : UInt8) (r r1 : Bytes) (d : Nat)
    (hm : b ≠ 0xFF) (hE : Spec.ext (b.toNat / 16) r = some (d, r1)) (hbig : prev + d > 65535) :
    Spec.opts code (fuel + 1) prev (b :: r) = none := by
  have : ¬ (prev + d ≤ 65535) := by omega
  simp only [Spec.opts, hm, if_false, hE]
  split
  · rfl
  · simp [this]

/-- an option value that runs past the end of the message is always rejected -/
theorem truncated_value_rejected (code fuel prev : Nat) (b : UInt8) (r r1 r2 : Bytes) (d l : Nat)
    (hm : b ≠ 0xFF) (hE : Spec.ext (b.toNat / 16) r = some (d, r1))
    (hL : Spec.ext (b.toNat % 16) r1 = some (l, r2)) (hshort : r2.length < l) :
    Spec.opts code (fuel + 1) prev (b :: r) = none := by
  have : ¬ (l ≤ r2.length) := by omega
  simp [Spec.opts, hm, hE, hL, this]

/-- an extension byte that is missing is a rejection too (truncation inside the option header) -/
theorem truncated_header_rejected (code fuel prev : Nat) (b : UInt8) (r : Bytes) (hm : b ≠ 0xFF)
    (h : Spec.ext (b.toNat / 16) r = none ∨
         ∃ d r1, Spec.ext (b.toNat / 16) r = some (d, r1) ∧ Spec.ext (b.toNat % 16) r1 = none) :
    Spec.opts code (fuel + 1) prev (b :: r) = none := by
  rcases h with h | ⟨d, r1, h1, h2⟩
  · simp [Spec.opts, hm, h]
  · simp [Spec.opts, hm, h1, h2]

/-- a payload marker that is the last byte is always rejected -/
theorem marker_without_payload_rejected (type code mid tkl : Nat) (rest : Bytes) (os : List (Nat × Bytes))
    (n : Nat) (r : Bytes) (m : UInt8) (hc : code ≠ 0) (hE : Spec.ext tkl rest = some (n, r))
    (hO : Spec.opts code (rest.length + 1) 0 (r.drop n) = some (os, [m])) :
    Spec.body type code mid tkl rest = none := by
  simp only [Spec.body, hE, hc, if_false, hO, Spec.finish]
  split <;> simp

/-- an Empty message (code 0.00) with a token, options or payload is always rejected -/
theorem nonempty_empty_rejected (type mid tkl : Nat) (rest : Bytes) (h : tkl ≠ 0 ∨ rest ≠ []) :
    Spec.body type 0 mid tkl rest = none := by
  have : ¬ (tkl = 0 ∧ rest = []) := by
    intro ⟨h1, h2⟩; rcases h with h | h
    · exact h h1
    · exact h h2
  simp only [Spec.body]
  split
  · rfl
  · split
    · simp [this]
    · rfl

/-- the length table is enforced: an option whose value length is outside its row is rejected -/
theorem bad_length_rejected (code fuel prev : Nat) (b : UInt8) (r r1 r2 : Bytes) (d l : Nat)
    (hm : b ≠ 0xFF) (hE : Spec.ext (b.toNat / 16) r = some (d, r1))
    (hL : Spec.ext (b.toNat % 16) r1 = some (l, r2)) (hbad : Spec.optLenOk code (prev + d) l = false) :
    Spec.opts code (fuel + 1) prev (b :: r) = none := by
  simp [Spec.opts, hm, hE, hL, hbad]

/-- the accessor walk (`coap_option_next` + `coap_opt_length/value`) over an accepted message
reports exactly the options the decoder checked -/
theorem accessors_report_wire (code : Nat) : ∀ (fuel : Nat) (bs : Bytes) (maxOpt : Nat)
    (os : List (Nat × Bytes)) (rest : Bytes),
    walk code fuel bs maxOpt = R.ok (true, os, rest) → iter fuel bs maxOpt = R.ok os := by
  intro fuel
  induction fuel with
  | zero => intro bs maxOpt os rest h; simp [walk] at h
  | succ fuel ih =>
    intro bs maxOpt os rest h
    rcases bs with _ | ⟨b, r0⟩
    · simp [walk] at h; simp [iter, h.1]
    · by_cases hff : b = 0xFF
      · simp [walk, hff] at h; simp [iter, hff, h.1]
      · rw [walk_succ_cons _ _ _ _ _ hff] at h
        rw [iter_succ_cons _ _ _ _ hff]
        cases hO : optSpec b r0 with
        | oob => simp [hO] at h
        | rej => simp [hO] at h
        | ok p =>
          simp only [hO] at h ⊢
          by_cases hnum : maxOpt + p.delta > 65535
          · simp [hnum] at h
          · simp only [hnum, if_false] at h
            cases hw : walk code fuel (List.drop p.size (b :: r0)) ((maxOpt + p.delta) % 65536) with
            | oob => simp [hw] at h
            | rej => simp [hw] at h
            | ok v =>
              obtain ⟨g', os', rest'⟩ := v
              simp only [hw] at h
              injection h with h
              simp only [Prod.mk.injEq, Bool.and_eq_true] at h
              obtain ⟨⟨_, hg'⟩, hos, hrest⟩ := h
              subst hg'
              have := ih _ _ os' rest' hw
              simp only [this]
              rw [← hos]


/-! ### the selective accessors: option filter, filtered iteration, `coap_check_option`

`coap_check_option(pdu, number, &oi)` and `coap_option_iterator_init(pdu, &oi, filter)` + `coap_option_next` are how every
caller (the library itself and applications) reads single options of an accepted message.  M = `Coap.M.OptFilter`
(transcription of `coap_option_filter_op`, the skip loop of `coap_option_next`, `coap_check_option`), S =
`Coap.Spec.OptFilter.BSet` (a bounded duplicate-free set) and `List.filter` / `List.find?` over the decoder's option list. -/

open Coap.M.OptFilter in
/-- the representation relation between the C filter (mask + slot arrays) and the bounded set of S -/
def FilterRel (f : Flt) (s : Spec.OptFilter.BSet) : Prop :=
  f.long.length = Spec.OptFilter.capLong ∧ f.short.length = Spec.OptFilter.capShort ∧
  s.long.Perm (usedVals f.long) ∧ s.short.Perm (usedVals f.short) ∧ s.WF

open Coap.M.OptFilter in
theorem filter_clear_rel : FilterRel Flt.clear Spec.OptFilter.BSet.empty := by
  refine ⟨rfl, rfl, ?_, ?_, ?_, ?_⟩ <;> simp [Flt.clear, Spec.OptFilter.BSet.empty, usedVals, List.replicate]

open Coap.M.OptFilter in
/-- (P1, one operation) for EVERY filter state that represents a bounded set and EVERY option number ≤ 65535:
FILTER_GET / FILTER_SET / FILTER_CLEAR return what the bounded set returns and leave a state representing the set's
next state (GET changes nothing).  In particular a SET is refused exactly when the number is absent and all
slots of its class are in use, and CLEAR removes exactly the number named. -/
theorem filter_op_refines (f : Flt) (s : Spec.OptFilter.BSet) (h : FilterRel f s) (n : Nat) (hn : n ≤ 65535) :
    f.op n Op.get = (f, if s.get n then 1 else 0) ∧
    (FilterRel (f.op n Op.set).1 (s.set n).1 ∧ (f.op n Op.set).2 = (s.set n).2) ∧
    (FilterRel (f.op n Op.clr).1 (s.clr n).1 ∧ (f.op n Op.clr).2 = (s.clr n).2) := by
  obtain ⟨hl, hs, hpl, hps, hwl, hws⟩ := h
  by_cases hc : n > 255
  · obtain ⟨hg, ⟨hsl, hs1, hs2, hs3⟩, hcl, hc2, hc3⟩ := opOn_refines f.long s.long hpl hwl n
    refine ⟨?_, ⟨?_, ?_⟩, ⟨?_, ?_⟩⟩
    · simp only [Flt.op, hc, if_true, hg, Spec.OptFilter.BSet.get]
      by_cases hm : n ∈ s.long <;> simp [hm]
    · by_cases hm : n ∈ s.long
      · simp only [Flt.op, hc, if_true, hs1 hm, Spec.OptFilter.BSet.set, hm]
        exact ⟨hl, hs, hpl, hps, hwl, hws⟩
      · by_cases hr : s.long.length < f.long.length
        · have hr' : s.long.length < Spec.OptFilter.capLong := by rw [← hl]; exact hr
          obtain ⟨_, hp⟩ := hs2 hm hr
          simp only [Flt.op, hc, if_true, Spec.OptFilter.BSet.set, hm, if_false, hr']
          exact ⟨by rw [hsl]; exact hl, hs, hp, hps, List.nodup_cons.2 ⟨hm, hwl⟩, hws⟩
        · have hr' : ¬ s.long.length < Spec.OptFilter.capLong := by rw [← hl]; exact hr
          simp only [Flt.op, hc, if_true, hs3 hm hr, Spec.OptFilter.BSet.set, hm, if_false, hr']
          exact ⟨hl, hs, hpl, hps, hwl, hws⟩
    · by_cases hm : n ∈ s.long
      · simp [Flt.op, hc, hs1 hm, Spec.OptFilter.BSet.set, hm]
      · by_cases hr : s.long.length < f.long.length
        · have hr' : s.long.length < Spec.OptFilter.capLong := by rw [← hl]; exact hr
          simp [Flt.op, hc, (hs2 hm hr).1, Spec.OptFilter.BSet.set, hm, hr']
        · have hr' : ¬ s.long.length < Spec.OptFilter.capLong := by rw [← hl]; exact hr
          simp [Flt.op, hc, hs3 hm hr, Spec.OptFilter.BSet.set, hm, hr']
    · simp only [Flt.op, hc, if_true, Spec.OptFilter.BSet.clr]
      exact ⟨by rw [hcl]; exact hl, hs, hc3, hps, hwl.erase n, hws⟩
    · simp only [Flt.op, hc, if_true, Spec.OptFilter.BSet.clr, hc2]
  · have hmod : n % 256 = n := Nat.mod_eq_of_lt (by omega)
    obtain ⟨hg, ⟨hsl, hs1, hs2, hs3⟩, hcl, hc2, hc3⟩ := opOn_refines f.short s.short hps hws n
    refine ⟨?_, ⟨?_, ?_⟩, ⟨?_, ?_⟩⟩
    · simp only [Flt.op, hc, if_false, hmod, hg, Spec.OptFilter.BSet.get]
      by_cases hm : n ∈ s.short <;> simp [hm]
    · by_cases hm : n ∈ s.short
      · simp only [Flt.op, hc, if_false, hmod, hs1 hm, Spec.OptFilter.BSet.set, hm]
        exact ⟨hl, hs, hpl, hps, hwl, hws⟩
      · by_cases hr : s.short.length < f.short.length
        · have hr' : s.short.length < Spec.OptFilter.capShort := by rw [← hs]; exact hr
          obtain ⟨_, hp⟩ := hs2 hm hr
          simp only [Flt.op, hc, if_false, hmod, Spec.OptFilter.BSet.set, hm, hr', if_true]
          exact ⟨hl, by rw [hsl]; exact hs, hpl, hp, hwl, List.nodup_cons.2 ⟨hm, hws⟩⟩
        · have hr' : ¬ s.short.length < Spec.OptFilter.capShort := by rw [← hs]; exact hr
          simp only [Flt.op, hc, if_false, hmod, hs3 hm hr, Spec.OptFilter.BSet.set, hm, hr']
          exact ⟨hl, hs, hpl, hps, hwl, hws⟩
    · by_cases hm : n ∈ s.short
      · simp [Flt.op, hc, hmod, hs1 hm, Spec.OptFilter.BSet.set, hm]
      · by_cases hr : s.short.length < f.short.length
        · have hr' : s.short.length < Spec.OptFilter.capShort := by rw [← hs]; exact hr
          simp [Flt.op, hc, hmod, (hs2 hm hr).1, Spec.OptFilter.BSet.set, hm, hr']
        · have hr' : ¬ s.short.length < Spec.OptFilter.capShort := by rw [← hs]; exact hr
          simp [Flt.op, hc, hmod, hs3 hm hr, Spec.OptFilter.BSet.set, hm, hr']
    · simp only [Flt.op, hc, if_false, hmod, Spec.OptFilter.BSet.clr]
      exact ⟨hl, by rw [hcl]; exact hs, hpl, hc3, hwl, hws.erase n⟩
    · simp only [Flt.op, hc, if_false, hmod, Spec.OptFilter.BSet.clr, hc2]

/-- a script of filter operations: (operation, option number) -/
abbrev FScript := List (M.OptFilter.Op × Nat)

open Coap.M.OptFilter in
def runFilterM : FScript → Flt → Flt × List Nat
  | [], f => (f, [])
  | (o, n) :: r, f => let x := f.op n o; let y := runFilterM r x.1; (y.1, x.2 :: y.2)

open Coap.M.OptFilter in
def runFilterS : FScript → Spec.OptFilter.BSet → Spec.OptFilter.BSet × List Nat
  | [], s => (s, [])
  | (Op.get, n) :: r, s => let y := runFilterS r s; (y.1, (if s.get n then 1 else 0) :: y.2)
  | (Op.set, n) :: r, s => let x := s.set n; let y := runFilterS r x.1; (y.1, x.2 :: y.2)
  | (Op.clr, n) :: r, s => let x := s.clr n; let y := runFilterS r x.1; (y.1, x.2 :: y.2)

open Coap.M.OptFilter in
/-- (P1, every history) after `coap_option_filter_clear` EVERY sequence of set / unset / get calls with option numbers
≤ 65535 returns exactly what the bounded set returns, and the final filter represents the final set — so afterwards
`coap_option_filter_get(f, m)` is true exactly for the numbers the set holds. -/
theorem filter_run_refines (sc : FScript) (hsc : ∀ x ∈ sc, x.2 ≤ 65535) :
    ∀ (f : Flt) (s : Spec.OptFilter.BSet), FilterRel f s →
      (runFilterM sc f).2 = (runFilterS sc s).2 ∧ FilterRel (runFilterM sc f).1 (runFilterS sc s).1 := by
  induction sc with
  | nil => intro f s h; exact ⟨rfl, h⟩
  | cons x r ih =>
    intro f s h
    obtain ⟨o, n⟩ := x
    have hn : n ≤ 65535 := hsc (o, n) (by simp)
    have hr : ∀ x ∈ r, x.2 ≤ 65535 := fun x hx => hsc x (by simp [hx])
    obtain ⟨hg, ⟨hsr, hsv⟩, hcr, hcv⟩ := filter_op_refines f s h n hn
    cases o with
    | get =>
      have := ih hr f s h
      simp only [runFilterM, runFilterS, hg]
      exact ⟨by rw [this.1], this.2⟩
    | set =>
      have := ih hr _ _ hsr
      simp only [runFilterM, runFilterS]
      exact ⟨by rw [this.1, hsv], this.2⟩
    | clr =>
      have := ih hr _ _ hcr
      simp only [runFilterM, runFilterS]
      exact ⟨by rw [this.1, hcv], this.2⟩

open Coap.M.OptFilter in
/-- `coap_option_filter_get` of a represented filter is membership in the set -/
theorem filter_get_is_membership (f : Flt) (s : Spec.OptFilter.BSet) (h : FilterRel f s) (n : Nat) (hn : n ≤ 65535) :
    f.get n = s.get n := by
  have := (filter_op_refines f s h n hn).1
  simp only [Flt.get, this]
  cases s.get n <;> simp

/-- S-level law the callers rely on: in a duplicate-free bounded set a number that was unset is no longer a member,
and every other number keeps its membership under set / unset of `n`. -/
theorem bset_laws (s : Spec.OptFilter.BSet) (hw : s.WF) (n m : Nat) :
    (s.clr n).1.get n = false ∧ ((s.set n).2 = 1 → (s.set n).1.get n = true) ∧
    (m ≠ n → (s.clr n).1.get m = s.get m ∧ (s.set n).1.get m = s.get m) ∧ (s.set n).1.WF ∧ (s.clr n).1.WF := by
  obtain ⟨hwl, hws⟩ := hw
  by_cases hc : n > 255
  · refine ⟨?_, ?_, ?_, ?_, ?_⟩
    · simp [Spec.OptFilter.BSet.clr, Spec.OptFilter.BSet.get, hc, hwl.mem_erase_iff]
    · by_cases hm : n ∈ s.long
      · simp [Spec.OptFilter.BSet.set, Spec.OptFilter.BSet.get, hc, hm]
      · by_cases hr : s.long.length < Spec.OptFilter.capLong <;>
          simp [Spec.OptFilter.BSet.set, Spec.OptFilter.BSet.get, hc, hm, hr]
    · intro hne
      constructor
      · by_cases hc2 : m > 255 <;> simp [Spec.OptFilter.BSet.clr, Spec.OptFilter.BSet.get, hc, hc2, List.mem_erase_of_ne hne]
      · by_cases hm : n ∈ s.long
        · simp [Spec.OptFilter.BSet.set, hc, hm]
        · by_cases hr : s.long.length < Spec.OptFilter.capLong <;> by_cases hc2 : m > 255 <;>
            simp [Spec.OptFilter.BSet.set, Spec.OptFilter.BSet.get, hc, hm, hr, hc2, hne]
    · by_cases hm : n ∈ s.long
      · simp only [Spec.OptFilter.BSet.set, hc, hm, if_true, if_false]; exact ⟨hwl, hws⟩
      · by_cases hr : s.long.length < Spec.OptFilter.capLong
        · simp only [Spec.OptFilter.BSet.set, hc, hm, hr, if_true, if_false]
          exact ⟨List.nodup_cons.2 ⟨hm, hwl⟩, hws⟩
        · simp only [Spec.OptFilter.BSet.set, hc, hm, hr, if_true, if_false]; exact ⟨hwl, hws⟩
    · simp only [Spec.OptFilter.BSet.clr, hc, if_true]; exact ⟨hwl.erase n, hws⟩
  · refine ⟨?_, ?_, ?_, ?_, ?_⟩
    · simp [Spec.OptFilter.BSet.clr, Spec.OptFilter.BSet.get, hc, hws.mem_erase_iff]
    · by_cases hm : n ∈ s.short
      · simp [Spec.OptFilter.BSet.set, Spec.OptFilter.BSet.get, hc, hm]
      · by_cases hr : s.short.length < Spec.OptFilter.capShort <;>
          simp [Spec.OptFilter.BSet.set, Spec.OptFilter.BSet.get, hc, hm, hr]
    · intro hne
      constructor
      · by_cases hc2 : m > 255 <;> simp [Spec.OptFilter.BSet.clr, Spec.OptFilter.BSet.get, hc, hc2, List.mem_erase_of_ne hne]
      · by_cases hm : n ∈ s.short
        · simp [Spec.OptFilter.BSet.set, hc, hm]
        · by_cases hr : s.short.length < Spec.OptFilter.capShort <;> by_cases hc2 : m > 255 <;>
            simp [Spec.OptFilter.BSet.set, Spec.OptFilter.BSet.get, hc, hm, hr, hc2, hne]
    · by_cases hm : n ∈ s.short
      · simp only [Spec.OptFilter.BSet.set, hc, hm, if_true, if_false]; exact ⟨hwl, hws⟩
      · by_cases hr : s.short.length < Spec.OptFilter.capShort
        · simp only [Spec.OptFilter.BSet.set, hc, hm, hr, if_true, if_false]
          exact ⟨hwl, List.nodup_cons.2 ⟨hm, hws⟩⟩
        · simp only [Spec.OptFilter.BSet.set, hc, hm, hr, if_true, if_false]; exact ⟨hwl, hws⟩
    · simp only [Spec.OptFilter.BSet.clr, hc, if_false]; exact ⟨hwl, hws.erase n⟩

/-- (P1) filtered iteration: for EVERY byte string, filter predicate and starting number, `coap_option_iterator_init`
with a filter + `coap_option_next` until NULL returns exactly the options of the unfiltered walk whose numbers pass
the filter, in message order (and is out of bounds / stops exactly where the unfiltered walk does) — although the
skip loop does not re-evaluate `opt_finished()` between skipped options. -/
theorem filtered_iteration_is_filter (flt : Nat → Bool) (fuel : Nat) (bs : Bytes) (n : Nat) (fresh : Bool) :
    M.OptFilter.iterF flt fuel bs n fresh =
      M.OptFilter.mapR (List.filter (fun o => flt o.1)) (M.iter fuel bs n) :=
  M.OptFilter.iterF_eq_filter flt fuel bs n fresh

/-- with `accessors_report_wire`: over an ACCEPTED message the filtered iteration reports exactly the decoder's options
whose numbers are in the bounded set the filter represents -/
theorem filtered_accessors_report_wire (code fuel : Nat) (bs : Bytes) (os : List (Nat × Bytes)) (rest : Bytes)
    (hw : walk code fuel bs 0 = R.ok (true, os, rest))
    (f : M.OptFilter.Flt) (s : Spec.OptFilter.BSet) (h : FilterRel f s) (hos : ∀ o ∈ os, o.1 ≤ 65535) :
    M.OptFilter.iterF f.get fuel bs 0 true = R.ok (os.filter (fun o => s.get o.1)) := by
  rw [filtered_iteration_is_filter, accessors_report_wire code fuel bs 0 os rest hw]
  simp only [M.OptFilter.mapR]
  congr 1
  apply List.filter_congr
  intro o ho
  exact filter_get_is_membership f s h o.1 (hos o ho)

/-- (P1) `coap_check_option(pdu, number, &oi)` over an accepted message returns the FIRST option carrying that number
(NULL iff there is none), for every number ≤ 65535. -/
theorem check_option_is_first (code fuel : Nat) (bs : Bytes) (os : List (Nat × Bytes)) (rest : Bytes)
    (hw : walk code fuel bs 0 = R.ok (true, os, rest)) (number : Nat) (hn : number ≤ 65535)
    (hos : ∀ o ∈ os, o.1 ≤ 65535) :
    M.OptFilter.checkOption fuel bs number = R.ok (os.find? (fun o => o.1 = number)) := by
  have hit := accessors_report_wire code fuel bs 0 os rest hw
  unfold M.OptFilter.checkOption
  rw [M.OptFilter.firstF_eq_find _ fuel bs 0 true os hit]
  congr 1
  -- the filter {number}: get m ↔ m = number
  obtain ⟨_, ⟨hrel, _⟩, _⟩ := filter_op_refines _ _ filter_clear_rel number hn
  have key : ∀ o ∈ os, (M.OptFilter.Flt.clear.op number M.OptFilter.Op.set).1.get o.1 = decide (o.1 = number) := by
    intro o ho
    rw [filter_get_is_membership _ _ hrel o.1 (hos o ho)]
    by_cases hc : number > 255
    · by_cases hc2 : o.1 > 255 <;> simp [Spec.OptFilter.BSet.set, Spec.OptFilter.BSet.get, Spec.OptFilter.BSet.empty,
        Spec.OptFilter.capLong, hc, hc2] <;> omega
    · by_cases hc2 : o.1 > 255 <;> simp [Spec.OptFilter.BSet.set, Spec.OptFilter.BSet.get, Spec.OptFilter.BSet.empty,
        Spec.OptFilter.capShort, hc, hc2] <;> omega
  clear hw hit hos
  induction os with
  | nil => rfl
  | cons o r ih =>
    have h1 := key o (by simp)
    have h2 := ih (fun o ho => key o (by simp [ho]))
    simp only [List.find?, h1, h2]

/-! non-vacuity for the filter theorems -/
example : FilterRel ((M.OptFilter.Flt.clear.op 300 M.OptFilter.Op.set).1.op 7 M.OptFilter.Op.set).1 ⟨[300], [7]⟩ := by
  refine ⟨by decide, by decide, ?_, ?_, ?_, ?_⟩ <;> decide
/-- a third long option is refused (2 slots), unset makes room again -/
example : (runFilterM [(.set, 300), (.set, 301), (.set, 302), (.clr, 300), (.set, 302), (.get, 300), (.get, 302)]
    M.OptFilter.Flt.clear).2 = [1, 1, 0, 1, 1, 0, 1] := by decide
example : M.OptFilter.checkOption 10 [0xB1, 0x61, 0x01, 0x62, 0x11, 0x63] 12 = R.ok (some (12, [0x63])) := by decide
example : M.OptFilter.checkOption 10 [0xB1, 0x61, 0x01, 0x62, 0xFF, 0x63] 12 = R.ok none := by decide
example : walk 1 10 [0xB1, 0x61, 0x01, 0x62, 0x11, 0x63] 0 =
    R.ok (true, [(11, [0x61]), (11, [0x62]), (12, [0x63])], []) := by decide

/-! ### non-vacuity: concrete strings on both sides of the accept/reject line -/

example : Spec.decode .udp [0x40, 0x01, 0x12, 0x34, 0xb1, 0x61] = some ⟨0, 1, 0x1234, [], [(11, [0x61])], []⟩ := by decide
example : M.parse .udp [0x40, 0x01, 0x12, 0x34, 0xb1, 0x61] = R.ok ⟨0, 1, 0x1234, [], [(11, [0x61])], []⟩ := by decide
example : Spec.decode .udp [0x41, 0x45, 0, 1, 0xaa, 0xc1, 0x00, 0xff, 0x68, 0x69] =
    some ⟨0, 69, 1, [0xaa], [(12, [0])], [0x68, 0x69]⟩ := by decide
/-- the former defect: a delta of 65548 is rejected, not taken for option 12 -/
example : M.parse .udp [0x40, 0x01, 0x12, 0x34, 0xe0, 0xfe, 0xff] = R.rej := by decide
example : Spec.decode .udp [0x40, 0x01, 0x12, 0x34, 0xe0, 0xfe, 0xff] = none := by decide
/-- option number 65535 is well-formed -/
example : M.parse .udp [0x60, 0x01, 0, 0, 0xe1, 0xfe, 0xf2, 0x80] = R.ok ⟨2, 1, 0, [], [(65535, [0x80])], []⟩ := by decide
example : Spec.decode .tcp [0x20, 0x01, 0xb0, 0x00] = some ⟨0, 1, 0, [], [(11, []), (11, [])], []⟩ := by decide
example : Spec.decode .tcp [0x30, 0x01, 0xb0, 0x00] = none := by decide   -- Len says 3, 2 bytes follow
example : Spec.decode .udp [0x40, 0x01, 0, 1, 0xff] = none := by decide       -- marker, no payload
example : Spec.decode .udp [0x41, 0x00, 0, 1, 0xaa] = none := by decide       -- non-empty Empty
example : Spec.decode .ws [0x0d, 0x01, 0x00, 1, 2, 3, 4, 5, 6, 7, 8, 9, 10, 11, 12, 13] =
    some ⟨0, 1, 0, [1, 2, 3, 4, 5, 6, 7, 8, 9, 10, 11, 12, 13], [], []⟩ := by decide  -- RFC 8974 token

end Coap.C03
