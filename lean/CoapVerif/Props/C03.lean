import CoapVerif.Lemmas.Parse
/-
C03 — the decoder accepts exactly the well-formed messages and reports what is on the wire.

  S = Coap.Spec.decode      (RFC 7252 §3, RFC 8323 §3-5, RFC 8974 §2; CoapVerif/Spec/Codec.lean)
  M = Coap.M.parse          (transcription of coap_pdu_parse & callees; CoapVerif/Model/Parse.lean)
  M's length table = Coap.Generated.lenGroups, regenerated from /repo on every run (T1).

Property theorems only; helper lemmas live in CoapVerif/Lemmas/Parse.lean.
-/
namespace Coap.C03
open Coap Coap.M

/-- (T1) the per-option length limits libcoap enforces are the RFCs' — row by row, for every
message code, every option number and every length the wire format can express. -/
theorem optLenTable_matches_rfc : Generated.lenGroups = Spec.lenGroups := lenGroups_eq

/-- (P1) M = S: for every framing and **every** byte string, libcoap's decoding algorithm accepts
iff the RFC grammar does, and then yields the same type, code, message id, token, options, payload.
(`toOption` maps "return 0" to "not accepted"; by `parse_never_oob` the third result never occurs.) -/
theorem parse_eq_spec (p : Proto) (bs : Bytes) : (M.parse p bs).toOption = Spec.decode p bs := by
  cases p
  · exact parse_udp_eq bs
  · exact parse_tcp_eq bs
  · exact parse_ws_eq bs

/-- every well-formed string is accepted, with the reference content -/
theorem every_wellformed_accepted (p : Proto) (bs : Bytes) (m : Msg) (h : Spec.decode p bs = some m) :
    M.parse p bs = R.ok m := by
  have := parse_eq_spec p bs
  rw [h] at this
  cases hp : M.parse p bs with
  | ok m' => rw [hp] at this; simp [R.toOption] at this; rw [this]
  | rej => rw [hp] at this; simp [R.toOption] at this
  | oob => rw [hp] at this; simp [R.toOption] at this

/-- only well-formed strings are accepted -/
theorem accepted_only_if_wellformed (p : Proto) (bs : Bytes) (m : Msg) (h : M.parse p bs = R.ok m) :
    Spec.decode p bs = some m := by
  rw [← parse_eq_spec, h]; rfl

/-- the decoder never reads outside the message it was given: no input drives the transcribed
algorithm to an out-of-range index (the model's reads are `bs[i]?` with `oob` on `none`).
Since fix 14e688b this includes the extended-token-length bytes. -/
theorem parse_never_oob (p : Proto) (bs : Bytes) : M.parse p bs ≠ R.oob := parse_ne_oob p bs

/-- the option loop alone, for any starting point and any running option number -/
theorem walk_never_oob (code fuel : Nat) (bs : Bytes) (maxOpt : Nat) :
    walk code fuel bs maxOpt ≠ R.oob := walk_ne_oob code fuel bs maxOpt

/-! ### the clauses named in the property statement (about S, hence by `parse_eq_spec` about M) -/

/-- a reserved nibble (delta 15 other than the payload marker, or length 15) is always rejected -/
theorem reserved_nibble_rejected (code fuel prev : Nat) (b : UInt8) (r : Bytes) (hm : b ≠ 0xFF)
    (hr : b.toNat / 16 = 15 ∨ b.toNat % 16 = 15) :
    Spec.opts code (fuel + 1) prev (b :: r) = none := by
  simp only [Spec.opts, hm, if_false]
  rcases hr with h | h
  · simp [h, Spec.ext]
  · cases hE : Spec.ext (b.toNat / 16) r with
    | none => rfl
    | some p => simp [h, Spec.ext]

/-- an option whose number would exceed 65535 is always rejected -/
theorem number_above_65535_rejected (code fuel prev : Nat) (b : UInt8) (r r1 : Bytes) (d : Nat)
    (hm : b ≠ 0xFF) (hE : Spec.ext (b.toNat / 16) r = some (d, r1)) (hbig : prev + d > 65535) :
    Spec.opts code (fuel + 1) prev (b :: r) = none := by
  have : ¬ (prev + d ≤ 65535) := by omega
  simp only [Spec.opts, hm, if_false, hE]
  split
  · rfl
  · simp [this]

/-- an option value that runs past the end of the message is always rejected -/
theorem truncated_value_rejected (code fuel prev : Nat) (b : UInt8) (r r1 r2 : Bytes) (d l : Nat)
    (hm : b ≠ 0xFF) (hE : Spec.ext (b.toNat / 16) r = some (d, r1))
    (hL : Spec.ext (b.toNat % 16) r1 = some (l, r2)) (hshort : r2.length < l) :
    Spec.opts code (fuel + 1) prev (b :: r) = none := by
  have : ¬ (l ≤ r2.length) := by omega
  simp [Spec.opts, hm, hE, hL, this]

/-- an extension byte that is missing is a rejection too (truncation inside the option header) -/
theorem truncated_header_rejected (code fuel prev : Nat) (b : UInt8) (r : Bytes) (hm : b ≠ 0xFF)
    (h : Spec.ext (b.toNat / 16) r = none ∨
         ∃ d r1, Spec.ext (b.toNat / 16) r = some (d, r1) ∧ Spec.ext (b.toNat % 16) r1 = none) :
    Spec.opts code (fuel + 1) prev (b :: r) = none := by
  rcases h with h | ⟨d, r1, h1, h2⟩
  · simp [Spec.opts, hm, h]
  · simp [Spec.opts, hm, h1, h2]

/-- a payload marker that is the last byte is always rejected -/
theorem marker_without_payload_rejected (type code mid tkl : Nat) (rest : Bytes) (os : List (Nat × Bytes))
    (n : Nat) (r : Bytes) (m : UInt8) (hc : code ≠ 0) (hE : Spec.ext tkl rest = some (n, r))
    (hO : Spec.opts code (rest.length + 1) 0 (r.drop n) = some (os, [m])) :
    Spec.body type code mid tkl rest = none := by
  simp only [Spec.body, hE, hc, if_false, hO, Spec.finish]
  split <;> simp

/-- an Empty message (code 0.00) with a token, options or payload is always rejected -/
theorem nonempty_empty_rejected (type mid tkl : Nat) (rest : Bytes) (h : tkl ≠ 0 ∨ rest ≠ []) :
    Spec.body type 0 mid tkl rest = none := by
  have : ¬ (tkl = 0 ∧ rest = []) := by
    intro ⟨h1, h2⟩; rcases h with h | h
    · exact h h1
    · exact h h2
  simp only [Spec.body]
  split
  · rfl
  · split
    · simp [this]
    · rfl

/-- the length table is enforced: an option whose value length is outside its row is rejected -/
theorem bad_length_rejected (code fuel prev : Nat) (b : UInt8) (r r1 r2 : Bytes) (d l : Nat)
    (hm : b ≠ 0xFF) (hE : Spec.ext (b.toNat / 16) r = some (d, r1))
    (hL : Spec.ext (b.toNat % 16) r1 = some (l, r2)) (hbad : Spec.optLenOk code (prev + d) l = false) :
    Spec.opts code (fuel + 1) prev (b :: r) = none := by
  simp [Spec.opts, hm, hE, hL, hbad]

/-- the accessor walk (`coap_option_next` + `coap_opt_length/value`) over an accepted message
reports exactly the options the decoder checked -/
theorem accessors_report_wire (code : Nat) : ∀ (fuel : Nat) (bs : Bytes) (maxOpt : Nat)
    (os : List (Nat × Bytes)) (rest : Bytes),
    walk code fuel bs maxOpt = R.ok (true, os, rest) → iter fuel bs maxOpt = R.ok os := by
  intro fuel
  induction fuel with
  | zero => intro bs maxOpt os rest h; simp [walk] at h
  | succ fuel ih =>
    intro bs maxOpt os rest h
    rcases bs with _ | ⟨b, r0⟩
    · simp [walk] at h; simp [iter, h.1]
    · by_cases hff : b = 0xFF
      · simp [walk, hff] at h; simp [iter, hff, h.1]
      · rw [walk_succ_cons _ _ _ _ _ hff] at h
        rw [iter_succ_cons _ _ _ _ hff]
        cases hO : optSpec b r0 with
        | oob => simp [hO] at h
        | rej => simp [hO] at h
        | ok p =>
          simp only [hO] at h ⊢
          by_cases hnum : maxOpt + p.delta > 65535
          · simp [hnum] at h
          · simp only [hnum, if_false] at h
            cases hw : walk code fuel (List.drop p.size (b :: r0)) ((maxOpt + p.delta) % 65536) with
            | oob => simp [hw] at h
            | rej => simp [hw] at h
            | ok v =>
              obtain ⟨g', os', rest'⟩ := v
              simp only [hw] at h
              injection h with h
              simp only [Prod.mk.injEq, Bool.and_eq_true] at h
              obtain ⟨⟨_, hg'⟩, hos, hrest⟩ := h
              subst hg'
              have := ih _ _ os' rest' hw
              simp only [this]
              rw [← hos]

/-! ### non-vacuity: concrete strings on both sides of the accept/reject line -/

example : Spec.decode .udp [0x40, 0x01, 0x12, 0x34, 0xb1, 0x61] = some ⟨0, 1, 0x1234, [], [(11, [0x61])], []⟩ := by decide
example : M.parse .udp [0x40, 0x01, 0x12, 0x34, 0xb1, 0x61] = R.ok ⟨0, 1, 0x1234, [], [(11, [0x61])], []⟩ := by decide
example : Spec.decode .udp [0x41, 0x45, 0, 1, 0xaa, 0xc1, 0x00, 0xff, 0x68, 0x69] =
    some ⟨0, 69, 1, [0xaa], [(12, [0])], [0x68, 0x69]⟩ := by decide
/-- the former defect: a delta of 65548 is rejected, not taken for option 12 -/
example : M.parse .udp [0x40, 0x01, 0x12, 0x34, 0xe0, 0xfe, 0xff] = R.rej := by decide
example : Spec.decode .udp [0x40, 0x01, 0x12, 0x34, 0xe0, 0xfe, 0xff] = none := by decide
/-- option number 65535 is well-formed -/
example : M.parse .udp [0x60, 0x01, 0, 0, 0xe1, 0xfe, 0xf2, 0x80] = R.ok ⟨2, 1, 0, [], [(65535, [0x80])], []⟩ := by decide
example : Spec.decode .tcp [0x20, 0x01, 0xb0, 0x00] = some ⟨0, 1, 0, [], [(11, []), (11, [])], []⟩ := by decide
example : Spec.decode .tcp [0x30, 0x01, 0xb0, 0x00] = none := by decide   -- Len says 3, 2 bytes follow
example : Spec.decode .udp [0x40, 0x01, 0, 1, 0xff] = none := by decide       -- marker, no payload
example : Spec.decode .udp [0x41, 0x00, 0, 1, 0xaa] = none := by decide       -- non-empty Empty
example : Spec.decode .ws [0x0d, 0x01, 0x00, 1, 2, 3, 4, 5, 6, 7, 8, 9, 10, 11, 12, 13] =
    some ⟨0, 1, 0, [1, 2, 3, 4, 5, 6, 7, 8, 9, 10, 11, 12, 13], [], []⟩ := by decide  -- RFC 8974 token

end Coap.C03
