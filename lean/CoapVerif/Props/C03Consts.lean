import CoapVerif.Model.OptFilter
import CoapVerif.Spec.OptFilter
import CoapVerif.Generated.Consts2
/-
C03 / T1 (workstream T1X) — the numerals of the option-filter model and specification are those of the current tree.

`Generated.C2.*` is rewritten from /repo's working tree on every check (extract/consts2.c, extract/consts2_opt.c).
A changed macro / struct layout makes one of these named proof obligations fail.
-/
namespace Coap.C03
open Coap Coap.M Coap.Generated

/-- `coap_option_filter_clear`: COAP_OPT_FILTER_LONG long slots and COAP_OPT_FILTER_SHORT short slots, all free -/
theorem optFilter_slots_matches_code :
    OptFilter.Flt.clear = ⟨List.replicate C2.COAP_OPT_FILTER_LONG (false, 0), List.replicate C2.COAP_OPT_FILTER_SHORT (false, 0)⟩ := by
  decide

/-- S's capacities are the compiled macros -/
theorem optFilter_capLong_matches_code : Spec.OptFilter.capLong = C2.COAP_OPT_FILTER_LONG := by decide
theorem optFilter_capShort_matches_code : Spec.OptFilter.capShort = C2.COAP_OPT_FILTER_SHORT := by decide

/-- `is_long_option` of the compiled code is a threshold test (evaluated over 0..65535) and the threshold is the one
the model and the specification split on (`number > 255`) -/
theorem optFilter_longThreshold_matches_code :
    C2.optFilterLongMonotone = 1 ∧ C2.optFilterLongThreshold = 255 + 1 ∧ C2.optFilterShortMax = 255 := by decide

/-- the model's class split, for every option number: the long class is taken exactly from the compiled threshold on -/
theorem optFilter_op_class_matches_code (f : OptFilter.Flt) (n : Nat) (op : OptFilter.Op) :
    f.op n op =
      if n ≥ C2.optFilterLongThreshold then
        ({ f with long := (OptFilter.opOn f.long n op).1 }, (OptFilter.opOn f.long n op).2)
      else
        ({ f with short := (OptFilter.opOn f.short (n % (C2.optFilterShortMax + 1)) op).1 },
         (OptFilter.opOn f.short (n % (C2.optFilterShortMax + 1)) op).2) := by
  have h1 : C2.optFilterLongThreshold = 256 := by decide
  have h2 : C2.optFilterShortMax = 255 := by decide
  unfold OptFilter.Flt.op
  rw [h1, h2]
  by_cases h : n > 255
  · have : n ≥ 256 := h
    simp [h, this]
  · have : ¬ n ≥ 256 := by omega
    simp [h, this]

/-- the mask layout: the long class owns the low COAP_OPT_FILTER_LONG bits (LONG_MASK), the short class the next
COAP_OPT_FILTER_SHORT (SHORT_MASK), and both fit the `uint16_t mask` -/
theorem optFilter_mask_matches_code :
    (OptFilter.Flt.mask ⟨List.replicate 2 (true, 0), List.replicate 6 (false, 0)⟩ = C2.optFilterLongMask) ∧
    (OptFilter.Flt.mask ⟨List.replicate 2 (false, 0), List.replicate 6 (true, 0)⟩ = C2.optFilterShortMask) ∧
    C2.COAP_OPT_FILTER_LONG + C2.COAP_OPT_FILTER_SHORT ≤ C2.optFilterMaskBits := by decide

/-- `opt_finished` stops at the payload marker COAP_PAYLOAD_START -/
theorem optFilter_payloadMarker_matches_code (b : UInt8) (r : Bytes) :
    OptFilter.finished (b :: r) = (b.toNat == C2.COAP_PAYLOAD_START) := by
  have h : C2.COAP_PAYLOAD_START = 255 := by decide
  rw [h]
  simp only [OptFilter.finished]
  rw [Bool.eq_iff_iff]
  simp [← UInt8.toNat_inj]

example : (OptFilter.Flt.clear.op 300 OptFilter.Op.set).2 = 1 := by decide
example : (OptFilter.Flt.clear.op 17 OptFilter.Op.set).2 = 1 := by decide

end Coap.C03
