import CoapVerif.Model.Exchange
import CoapVerif.Generated.Consts2
/-
C07 / T1 (workstream T1X) — the transmission parameters of the exchange model are those of the current tree:
COAP_DEFAULT_MAX_RETRANSMIT, COAP_DEFAULT_NSTART as compiled, and `coap_calc_timeout` of the compiled code, evaluated
on a session with the default ACK_TIMEOUT / ACK_RANDOM_FACTOR for every PRNG byte (extract/consts2_net.c), equals the
model's `calcTimeout` for EVERY argument.
-/
namespace Coap.C07
open Coap Coap.Generated

theorem maxRetransmit_matches_code : Exch.maxRetransmit = C2.COAP_DEFAULT_MAX_RETRANSMIT := by decide
theorem nstart_matches_code : Exch.nstart = C2.COAP_DEFAULT_NSTART := by decide

/-- the fixed-point numerals written into `Exch.calcTimeout` (96, 64, 128, the shifts by 8 and 6, 1000 ticks) are the
compiled ones -/
theorem calcTimeout_numerals_matches_code :
    C2.qAckRandomFactor = 96 ∧ C2.qOne = 64 ∧ C2.qAckTimeout = 128 ∧ 2 ^ C2.MAX_BITS = 256 ∧ 2 ^ C2.FRAC_BITS = 64 ∧
    C2.COAP_TICKS_PER_SECOND = 1000 := by decide

set_option maxRecDepth 8000 in
private theorem calcTimeout_table : ∀ k, k < 256 → Exch.calcTimeout k = C2.calcTimeoutDefault.getD k 0 := by decide

/-- `Exch.calcTimeout r` is what the compiled `coap_calc_timeout(session, (uint8_t) r)` returns with the default
parameters, for every `r` -/
theorem calcTimeout_matches_code (r : Nat) : Exch.calcTimeout r = C2.calcTimeoutDefault.getD (r % 256) 0 := by
  have h : Exch.calcTimeout r = Exch.calcTimeout (r % 256) := by
    simp [Exch.calcTimeout]
  rw [h]
  exact calcTimeout_table (r % 256) (Nat.mod_lt _ (by decide))

/-- the un-randomised timeout (`r = 0`) the timed model uses -/
theorem ackTimeout_matches_code :
    Exch.ackTimeout = C2.calcTimeoutDefault.getD 0 0 ∧ Exch.ackTimeout = C2.ackTimeoutInt * C2.COAP_TICKS_PER_SECOND ∧
    C2.ackTimeoutFrac = 0 := by decide

example : Exch.calcTimeout 255 = 3000 := by decide
example : Exch.calcTimeout 511 = 3000 := by decide

end Coap.C07
